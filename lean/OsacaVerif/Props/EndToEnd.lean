import OsacaVerif.Lemmas.EndToEnd
import OsacaVerif.Lemmas.EndToEndReport
import OsacaVerif.Lemmas.EndToEndGlue
import OsacaVerif.Props.C08
import OsacaVerif.Props.C11Pipeline
import OsacaVerif.Props.C13
import OsacaVerif.Gen.IsaDb_x86
/-
  End to end, both ISAs: theorems about `EndToEnd.analyse isa` (`analyseX86 = analyse .x86`, `analyseA64 = analyse
  .a64`), the function from FILE TEXT to the analysis and its report, composed from the stage models
  (`Model/EndToEnd.lean`, glue in `Model/Glue.lean`).  Every statement is ISA-generic (`isa : Operand.Isa` is
  a parameter); the AArch64 instances with their non-vacuity examples are in `Props/EndToEndA64.lean`.

  * `e2e_factors`, `e2e_factors_line`, `e2e_factors_ok` — `analyse isa` IS the composition of the stage
    models: parser, operand roles, lookup / composition / uniform pressure, register changes, selection,
    graph, critical path, LCD, column sums, report;
  * `e2e_per_line_local`, `e2e_per_line_local_files`, `e2e_rows_local` — the per-instruction data of a line
    depend on the line's text and the model only;
  * `e2e_unknown_isolated` — replacing the mnemonic of one line by one the model has no entry for turns
    that line into an unknown one and changes nothing about any other line;
  * `e2e_noise_transparent_text` — inserting a comment / label / directive line into the file text changes
    the analysis only by the renaming of line numbers;
  * `e2e_report_roundtrip` — the report the pipeline prints reads back to the view of the analysis.

  For ALL files, models, ISA databases and options.
-/
namespace OsacaVerif.Props.EndToEnd
open OsacaVerif OsacaVerif.Text OsacaVerif.EndToEnd OsacaVerif.ParseX86 OsacaVerif.Pipeline
open OsacaVerif.Spec.X86R (joinLines)
open OsacaVerif.Props.C11Pipeline (setNum eraseNum SameOnInstr)

/-! ### 0. the glue conversions are faithful where the stage models meet -/

/-- the key `Glue.keyOf` gives an operand identifies it: `Isa.adjEq` (the zero-idiom test
    `operands[1:] == operands[:-1]`) and `DG.isMemstore` compare operands exactly as `==` does —
    an identifier operand (no `__eq__`) equals only itself -/
theorem glue_key_identifies (i j : Nat) (a b : X86.Operand) (h : Glue.keyOf i a = Glue.keyOf j b) :
    a = b ∨ (∃ n n', a = .ident n ∧ b = .ident n' ∧ i = j) := Glue.keyOf_eq i j a b h

/-- `HAS_LD` / `HAS_ST` as the composition model recomputes them from the converted semantic operands are
    the flags the roles model reports; both models substitute the same operands by the register wildcard -/
theorem glue_flags_agree (isa : Operand.Isa) (m : Model) (f : Glue.Form) :
    Compose.hasLd (stagesOf isa m f).ins = Isa.hasLoad (stagesOf isa m f).roles.sem ∧
    Compose.hasSt (stagesOf isa m f).ins = Isa.hasStore (stagesOf isa m f).roles.sem ∧
    (stagesOf isa m f).ins.operands = f.operands.map (·.p) ∧
    Compose.substituteMem (stagesOf isa m f).ins.operands = Isa.substituteMem (f.operands.map (·.p)) := by
  have h := Glue.composeIns_flags f.mnemonic f.operands (Isa.assignSrcDst isa m.isaDb f.mnemonic f.operands).sem
  have ho : (stagesOf isa m f).ins.operands = f.operands.map (·.p) := rfl
  refine ⟨h.1, h.2, ho, ?_⟩
  rw [ho]; exact Glue.substituteMem_agree _

/-- the matcher's view of the operands of a parsed line is the operand-by-operand conversion
    (`RegisterOperand`, `ImmediateOperand`, `MemoryOperand`, … as `get_instruction` reads them) -/
theorem glue_operands_x86 (f : X86.Form) : (Glue.formX86 f).operands.map (·.p) = f.operands.map Glue.poperandOf :=
  Glue.opndsOf_p f.operands

theorem glue_operands_a64 (mn : Txt) (ops : List ParseA64.Operand) (c : Option Txt) :
    (Glue.formA64 (.instr mn ops c)).operands.map (·.p) = ops.map Glue.poperandA64 :=
  Glue.opndsA64_p ops

/-! ### 1. `analyse isa` is the composition of the stage models -/

/-- **e2e_factors** (file level): parse the file (the Python raises at the first line `parse_line`
    rejects), compute the per-line data of every parsed line, then select, analyse and render. -/
theorem e2e_factors (isa : Operand.Isa) (m : Model) (o : Opts) (file : Txt) :
    analyse isa m o file =
      match collect (parseFileOf isa file) with
      | .error (n, e) => .parseError n e
      | .ok fs => assemble isa m o (fs.map fun x => lineOf isa m x.1 x.2.1 x.2.2) := rfl

/-- **e2e_factors** (line level): the per-line data are `Isa.assignSrcDst` (roles), then
    `Compose.assignTpLt` (lookup with fall-backs, load/store composition, uniform pressure) on the
    instruction with those roles, and `Isa.regChanges` (both variants) — through the glue conversions,
    nothing else. -/
theorem e2e_factors_line (isa : Operand.Isa) (m : Model) (num : Nat) (text : Txt) (f : Glue.Form) :
    lineOf isa m num text f =
      (let ops := f.operands
       let roles := Isa.assignSrcDst isa m.isaDb f.mnemonic ops
       match Compose.assignTpLt m.mm (Glue.composeIns f.mnemonic ops roles.sem),
             Isa.regChanges isa m.isaDb f.mnemonic ops roles.sem false,
             Isa.regChanges isa m.isaDb f.mnemonic ops roles.sem true with
       | .ok t, .ok ch, .ok chp =>
         { pl := { sel := f.sel num
                   sem := { src := roles.sem.src.map Isa.toDG, dst := roles.sem.dst.map Isa.toDG,
                            srcDst := roles.sem.srcDst.map Isa.toDG, lat := t.lat, latWoLoad := some t.latWoLoad,
                            hasLd := roles.hasLd, isLd := t.flags.contains Gen.flagLD,
                            changes := ch.map fun e => (e.1, Isa.toChange e.2),
                            changesPost := chp.map fun e => (e.1, Isa.toChange e.2),
                            tp := t.tp, pressure := t.pressure, used := Glue.usedMask m.mm.ports t.uops,
                            flags := Glue.flagsOf roles t }
                   text := text } }
       | .error e, _, _ => { pl := { sel := f.sel num, text := text }, err := some (.tplt e) }
       | .ok _, .error e, _ => { pl := { sel := f.sel num, text := text }, err := some (.changes e) }
       | .ok _, .ok _, .error e => { pl := { sel := f.sel num, text := text }, err := some (.changes e) }) := by
  simp only [lineOf, semOfStages, stagesOf]
  cases Compose.assignTpLt m.mm _ with
  | error e => rfl
  | ok t =>
    cases Isa.regChanges isa m.isaDb f.mnemonic _ _ false with
    | error e => rfl
    | ok ch =>
      cases Isa.regChanges isa m.isaDb f.mnemonic _ _ true with
      | error e => rfl
      | ok chp => rfl

/-- **e2e_factors** (analysis level): an `ok` outcome is `Pipeline.select`, then `Pipeline.analyze`
    (= what `Pipeline.run` returns), then `Pipeline.toReport`, then `Report.fullAnalysis` with the
    warning flags of `osaca.inspect` — on the lines of the file with their per-line data. -/
theorem e2e_factors_ok (isa : Operand.Isa) (m : Model) (o : Opts) (file : Txt) (r : Result) (h : analyse isa m o file = .ok r) :
    ∃ fs k, collect (parseFileOf isa file) = .ok fs ∧
      r.parsed = (linesOf isa m fs).map (·.pl) ∧
      select o.mode r.parsed = .ok k ∧ k ≠ [] ∧ r.kernel = k ∧
      Pipeline.run (cfgOf isa m o) o.mode r.parsed = .ok r.analysis ∧
      r.analysis = analyze (cfgOf isa m o) k ∧
      r.report = toReport o.repr m.mm.ports o.ignoreUnknown m.mm.ports.length k r.analysis ∧
      r.text = Report.fullAnalysis o.version o.file o.arch o.stamp (Report.archWarningFlag o.archGiven)
        (Report.lengthWarningFlag (linesGiven o.mode) k.length r.parsed.length) false r.report := by
  obtain ⟨fs, k, hc, hs, hk, _, hr⟩ := analyse_ok_inv isa m o file r h
  have e1 : r.parsed = (linesOf isa m fs).map (·.pl) := by rw [hr, resultOf]
  have e2 : r.kernel = k := by rw [hr, resultOf]
  have e3 : r.analysis = analyze (cfgOf isa m o) k := by rw [hr, resultOf]
  have e4 : r.report = toReport o.repr m.mm.ports o.ignoreUnknown m.mm.ports.length k r.analysis := by
    rw [e3, hr, resultOf]
  have e5 : r.text = Report.fullAnalysis o.version o.file o.arch o.stamp (Report.archWarningFlag o.archGiven)
      (Report.lengthWarningFlag (linesGiven o.mode) k.length r.parsed.length) false r.report := by
    rw [e4, e3, e1, hr, resultOf]
  refine ⟨fs, k, hc, e1, by rw [e1]; exact hs, hk, e2, ?_, e3, e4, e5⟩
  rw [e1, e3]
  cases k with
  | nil => exact absurd rfl hk
  | cons x xs => exact run_cons _ _ _ _ _ hs

/-! ### 2. per-line locality -/

/-- **e2e_per_line_local** (∀ models, ∀ files that parse): the lines of the file with their per-instruction
    data (roles → semantic operands, matched entry → throughput, latency, latency without load, uniform
    pressure, flags, register changes) are the numbered non-blank texts of the file sent, one by one,
    through `lineOfText isa m` — a function of the MODEL and the line's TEXT that only stores the number. -/
theorem e2e_per_line_local (isa : Operand.Isa) (m : Model) (file : Txt) (fs : List (Nat × Txt × Glue.Form))
    (h : collect (parseFileOf isa file) = .ok fs) :
    linesOf isa m fs = (numbered 0 0 (splitLines file)).map (fun p => lineOfText isa m p.1 p.2) ∧
    ∀ n n' t, lineOfText isa m n t = setLineNum n (lineOfText isa m n' t) :=
  ⟨linesOf_file isa m file fs h, lineOfText_num isa m⟩

theorem textLines_mem (isa : Operand.Isa) (m : Model) (ls : List Txt) (p : PLine) (hp : p ∈ (textLines isa m ls).map (·.pl)) :
    ∃ t, (p.num, t) ∈ numbered 0 0 ls ∧ p = (lineOfText isa m p.num t).pl := by
  obtain ⟨l, hl, rfl⟩ := List.mem_map.mp hp
  obtain ⟨q, hq, rfl⟩ := List.mem_map.mp hl
  refine ⟨q.2, ?_, ?_⟩ <;> simp [hq]

theorem lineOfText_text (isa : Operand.Isa) (m : Model) (n : Nat) (t : Txt) : (lineOfText isa m n t).pl.text = t := by
  unfold lineOfText
  cases parseLineOf isa t with
  | err e => rfl
  | ok f =>
    simp only [lineOf]
    cases semOfStages m (stagesOf isa m f) <;> rfl

theorem lineOfText_eraseNum (isa : Operand.Isa) (m : Model) (n n' : Nat) (t : Txt) :
    eraseNum (lineOfText isa m n t).pl = eraseNum (lineOfText isa m n' t).pl := by
  rw [lineOfText_num isa m n n' t]; rfl

/-- **e2e_per_line_local** (two files): a line with the same text has the same per-instruction data
    whatever else the two files contain, whatever the options — only the line number differs
    (history independence at file level, C18; "does not change any other instruction", C08). -/
theorem e2e_per_line_local_files (isa : Operand.Isa) (m : Model) (o1 o2 : Opts) (file1 file2 : Txt) (r1 r2 : Result)
    (h1 : analyse isa m o1 file1 = .ok r1) (h2 : analyse isa m o2 file2 = .ok r2)
    (p1 p2 : PLine) (hp1 : p1 ∈ r1.parsed) (hp2 : p2 ∈ r2.parsed) (ht : p1.text = p2.text) :
    eraseNum p1 = eraseNum p2 := by
  obtain ⟨fs1, k1, hc1, _, _, _, hr1⟩ := analyse_ok_inv isa m o1 file1 r1 h1
  obtain ⟨fs2, k2, hc2, _, _, _, hr2⟩ := analyse_ok_inv isa m o2 file2 r2 h2
  subst hr1 hr2
  simp only [resultOf] at hp1 hp2
  rw [linesOf_file isa m _ fs1 hc1] at hp1
  rw [linesOf_file isa m _ fs2 hc2] at hp2
  obtain ⟨t1, _, e1⟩ := textLines_mem isa m _ p1 hp1
  obtain ⟨t2, _, e2⟩ := textLines_mem isa m _ p2 hp2
  have ht1 : p1.text = t1 := by rw [e1]; exact lineOfText_text isa m _ t1
  have ht2 : p2.text = t2 := by rw [e2]; exact lineOfText_text isa m _ t2
  have : t1 = t2 := by rw [← ht1, ← ht2, ht]
  subst this
  rw [e1, e2]
  exact lineOfText_eraseNum isa m _ _ t1

/-- the numbers the analysis shows for a line, computed from its text alone -/
def rowOfText (isa : Operand.Isa) (m : Model) (t : Txt) : Row := rowOf m.mm.ports.length (lineOfText isa m 0 t).pl

theorem rowOf_lineOfText (isa : Operand.Isa) (m : Model) (n : Nat) (t : Txt) :
    rowOf m.mm.ports.length (lineOfText isa m n t).pl = { rowOfText isa m t with line := n } := by
  unfold rowOfText
  rw [lineOfText_num isa m n 0 t]
  rfl

/-- **e2e_rows_local**: every row of the analysis (line number, latency, latency without load,
    throughput, uniform pressure) is `rowOfText` of the text standing on that line of the file — the
    other lines of the file, the selection and the options do not enter. -/
theorem e2e_rows_local (isa : Operand.Isa) (m : Model) (o : Opts) (file : Txt) (r : Result) (h : analyse isa m o file = .ok r) :
    r.analysis.rows = r.kernel.map (rowOf m.mm.ports.length) ∧ r.kernel.Sublist r.parsed ∧
    ∀ row ∈ r.analysis.rows, ∃ t, (row.line, t) ∈ numbered 0 0 (splitLines file) ∧
      row = { rowOfText isa m t with line := row.line } := by
  obtain ⟨fs, k, hc, hs, _, _, hr⟩ := analyse_ok_inv isa m o file r h
  subst hr
  have hsub := select_sublist _ _ _ hs
  refine ⟨rfl, hsub, ?_⟩
  intro row hrow
  obtain ⟨p, hp, rfl⟩ := List.mem_map.mp (show row ∈ k.map (rowOf (EndToEnd.cfgOf isa m o).nports) from hrow)
  have hp' := hsub.subset hp
  rw [linesOf_file isa m _ fs hc] at hp'
  obtain ⟨t, ht, e⟩ := textLines_mem isa m _ p hp'
  refine ⟨t, ht, ?_⟩
  show rowOf m.mm.ports.length p = { rowOfText isa m t with line := p.num }
  conv_lhs => rw [e]
  exact rowOf_lineOfText isa m p.num t

/-! ### 3. an unknown instruction stays isolated -/

/-- the per-line data of a line whose mnemonic has no entry in the model, neither directly nor through
    the fall-back spelling, for whatever operands (so neither for the register form): the unknown path
    of `assign_tp_lt` (`Props.C08.unknown_spec`) -/
theorem lineOfText_unknown (isa : Operand.Isa) (m : Model) (n : Nat) (t : Txt) (f : Glue.Form) (mn : Txt)
    (hp : parseLineOf isa t = .ok f) (hmn : f.mnemonic = some mn)
    (hno : ∀ ops, Match.lookupWithFallbacks m.mm.isa m.mm.db mn ops = none)
    (herr : (lineOfText isa m n t).err = none) :
    (lineOfText isa m n t).pl.isInstr = true ∧
    (lineOfText isa m n t).pl.sem.tp = 0 ∧ (lineOfText isa m n t).pl.sem.lat = 0 ∧
    (lineOfText isa m n t).pl.sem.latWoLoad = some 0 ∧
    (lineOfText isa m n t).pl.sem.pressure = Ports.zeros m.mm.ports.length ∧
    (lineOfText isa m n t).pl.sem.used = m.mm.ports.map (fun _ => false) ∧
    Gen.flagTpUnknown ∈ (lineOfText isa m n t).pl.sem.flags ∧ Gen.flagLtUnknown ∈ (lineOfText isa m n t).pl.sem.flags := by
  have hu : (stagesOf isa m f).tplt = .ok (Compose.unknown m.mm) := by
    simp only [stagesOf]
    exact (Props.C08.unknown_spec m.mm _ mn (by simp [Glue.composeIns, hmn]) (hno _) (Or.inr (hno _))).1
  unfold lineOfText at herr ⊢
  simp only [hp] at herr ⊢
  simp only [lineOf, semOfStages, hu] at herr ⊢
  cases hc : (stagesOf isa m f).changes with
  | error e => simp [hc] at herr
  | ok ch =>
    cases hcp : (stagesOf isa m f).changesPost with
    | error e => simp [hc, hcp] at herr
    | ok chp =>
      refine ⟨by simp [PLine.isInstr, Glue.Form.sel, hmn], rfl, rfl, rfl, rfl, ?_, ?_, ?_⟩
      · simp [Compose.unknown, Glue.usedMask]
      · simp [Glue.flagsOf, Compose.unknown]
      · simp [Glue.flagsOf, Compose.unknown]

/-- the lines of two files that differ in one (non-blank) line: everything else is the same -/
theorem textLines_replace (isa : Operand.Isa) (m : Model) (xs ys : List Txt) (l : Txt) (hl : isBlank l = false) :
    textLines isa m (xs ++ l :: ys) =
      (numbered 0 0 xs).map (fun p => lineOfText isa m p.1 p.2) ++ lineOfText isa m (xs.length + 1) l ::
        (numbered 0 (xs.length + 1) ys).map (fun p => lineOfText isa m p.1 p.2) := by
  simp [textLines, numbered_replace xs ys l hl]

theorem front_nums (isa : Operand.Isa) (m : Model) (xs : List Txt) :
    ∀ q ∈ (numbered 0 0 xs).map (fun p => lineOfText isa m p.1 p.2), q.pl.num ≤ xs.length := by
  intro q hq
  obtain ⟨p, hp, rfl⟩ := List.mem_map.mp hq
  have := numbered_hi 0 0 xs p hp
  simp; omega

theorem back_nums (isa : Operand.Isa) (m : Model) (i : Nat) (ys : List Txt) :
    ∀ q ∈ (numbered 0 i ys).map (fun p => lineOfText isa m p.1 p.2), i + 1 ≤ q.pl.num := by
  intro q hq
  obtain ⟨p, hp, rfl⟩ := List.mem_map.mp hq
  have := numbered_lo 0 i ys p hp
  simp; omega

/-- `firstErr = none`: no selected line carries an exception -/
theorem firstErr_none (lines : List Line) (k : List PLine) (h : firstErr lines k = none)
    (l : Line) (hl : l ∈ lines) (p : PLine) (hp : p ∈ k) (e : p.num = l.pl.num) : l.err = none := by
  unfold firstErr at h
  rw [List.findSome?_eq_none_iff] at h
  have := h l (List.mem_filter.mpr ⟨hl, by
    simp only [List.any_eq_true]
    exact ⟨p, hp, by simp [e]⟩⟩)
  cases he : l.err with
  | none => rfl
  | some x => simp [he] at this

/-- **e2e_unknown_isolated** (C08's last clause at FILE level; ∀ models, files, options, positions):
    replace the instruction line `l` of a file by a line `l'` whose mnemonic `mn'` has no entry in the
    model — neither directly nor through the documented fall-back spelling, for whatever operands.  If both
    files are analysed then
    (a) every OTHER line of the file carries the same per-instruction data in both runs (same roles,
        throughput, latency, pressure, flags — the same `PLine`, number included);
    (b) the replaced line, where it is analysed, is an instruction with throughput 0, latency 0, zero
        pressure on every port, and the report row carries `tp_unknown` and `lt_unknown`;
    (c) every other row of the analysis (latency, latency without load, throughput, pressure) is
        unchanged. -/
theorem e2e_unknown_isolated (isa : Operand.Isa) (m : Model) (o : Opts) (xs ys : List Txt) (l l' : Txt)
    (hnl : ∀ t ∈ xs ++ l :: ys, 10 ∉ t) (hnl' : 10 ∉ l')
    (hb : isBlank l = false) (hb' : isBlank l' = false)
    (f' : Glue.Form) (mn' : Txt) (hp' : parseLineOf isa l' = .ok f') (hmn : f'.mnemonic = some mn')
    (hno : ∀ ops, Match.lookupWithFallbacks m.mm.isa m.mm.db mn' ops = none)
    (r1 r2 : Result) (h1 : analyse isa m o (joinLines (xs ++ l :: ys)) = .ok r1)
    (h2 : analyse isa m o (joinLines (xs ++ l' :: ys)) = .ok r2) :
    (∀ p, p.num ≠ xs.length + 1 → (p ∈ r1.parsed ↔ p ∈ r2.parsed)) ∧
    (∀ row ∈ r2.analysis.rows, row.line = xs.length + 1 →
      row.instr = true ∧ row.tp = 0 ∧ row.lat = 0 ∧ row.latWoLoad = some 0 ∧
      row.pressure = Ports.zeros m.mm.ports.length) ∧
    (∀ rr ∈ r2.report.rows, rr.line = xs.length + 1 →
      rr.hasMnemonic = true ∧ rr.press = Ports.zeros m.mm.ports.length ∧
      Gen.flagTpUnknown ∈ rr.flags ∧ Gen.flagLtUnknown ∈ rr.flags) ∧
    (∀ row1 ∈ r1.analysis.rows, ∀ row2 ∈ r2.analysis.rows, row1.line = row2.line →
      row1.line ≠ xs.length + 1 → row1 = row2) := by
  have hnl2 : ∀ t ∈ xs ++ l' :: ys, 10 ∉ t := by
    intro t ht
    rcases List.mem_append.mp ht with h | h
    · exact hnl t (by simp [h])
    · rcases List.mem_cons.mp h with h | h
      · subst h; exact hnl'
      · exact hnl t (by simp [h])
  obtain ⟨k1, hs1, _, _, hr1⟩ := analyse_lines_ok_inv isa m o _ (by simp) hnl r1 h1
  obtain ⟨k2, hs2, _, he2, hr2⟩ := analyse_lines_ok_inv isa m o _ (by simp) hnl2 r2 h2
  have hsub1 := select_sublist _ _ _ hs1
  have hsub2 := select_sublist _ _ _ hs2
  have inc2 := textLines_increasing isa m (xs ++ l' :: ys)
  have t1 := textLines_replace isa m xs ys l hb
  have t2 := textLines_replace isa m xs ys l' hb'
  have hfront := front_nums isa m xs
  have hback := back_nums isa m (xs.length + 1) ys
  -- (a)
  have ha : ∀ p : PLine, p.num ≠ xs.length + 1 →
      (p ∈ (textLines isa m (xs ++ l :: ys)).map (·.pl) ↔ p ∈ (textLines isa m (xs ++ l' :: ys)).map (·.pl)) := by
    intro p hp
    rw [t1, t2]
    simp only [List.map_append, List.map_cons, List.mem_append, List.mem_cons]
    constructor
    · rintro (h | h | h)
      · exact Or.inl h
      · exact absurd (by rw [h]; simp) hp
      · exact Or.inr (Or.inr h)
    · rintro (h | h | h)
      · exact Or.inl h
      · exact absurd (by rw [h]; simp) hp
      · exact Or.inr (Or.inr h)
  -- the replaced line in the second run
  have hX : ∀ p ∈ k2, p.num = xs.length + 1 → p = (lineOfText isa m (xs.length + 1) l').pl ∧
      (lineOfText isa m (xs.length + 1) l').err = none := by
    intro p hp hn
    have hp2 := hsub2.subset hp
    have hmem : (lineOfText isa m (xs.length + 1) l') ∈ textLines isa m (xs ++ l' :: ys) := by rw [t2]; simp
    have hmem' : (lineOfText isa m (xs.length + 1) l').pl ∈ (textLines isa m (xs ++ l' :: ys)).map (·.pl) :=
      List.mem_map.mpr ⟨_, hmem, rfl⟩
    exact ⟨increasing_unique _ inc2 _ _ hp2 hmem' (by rw [hn]; simp),
      firstErr_none _ _ he2 _ hmem p hp (by rw [hn]; simp)⟩
  refine ⟨?_, ?_, ?_, ?_⟩
  · intro p hp
    rw [hr1, hr2]
    exact ha p hp
  · intro row hrow hline
    rw [hr2] at hrow
    obtain ⟨p, hp, rfl⟩ := List.mem_map.mp (show row ∈ k2.map (rowOf (EndToEnd.cfgOf isa m o).nports) from hrow)
    obtain ⟨e, herr⟩ := hX p hp hline
    obtain ⟨u1, u2, u3, u4, u5, _, _, _⟩ := lineOfText_unknown isa m _ l' f' mn' hp' hmn hno herr
    rw [e]
    simp only [rowOf, semOf, u1, if_true]
    exact ⟨trivial, u2, u3, u4, u5⟩
  · intro rr hrr hline
    rw [hr2] at hrr
    simp only [resultOf, toReport] at hrr
    obtain ⟨p, hp, rfl⟩ := List.mem_map.mp hrr
    obtain ⟨e, herr⟩ := hX p hp hline
    obtain ⟨u1, _, _, _, u5, _, u7, u8⟩ := lineOfText_unknown isa m _ l' f' mn' hp' hmn hno herr
    rw [e]
    simp only [semOf, u1, if_true]
    exact ⟨trivial, u5, u7, u8⟩
  · intro row1 hrow1 row2 hrow2 hline hne
    rw [hr1] at hrow1
    rw [hr2] at hrow2
    obtain ⟨p1, hp1, rfl⟩ := List.mem_map.mp (show row1 ∈ k1.map (rowOf (EndToEnd.cfgOf isa m o).nports) from hrow1)
    obtain ⟨p2, hp2, rfl⟩ := List.mem_map.mp (show row2 ∈ k2.map (rowOf (EndToEnd.cfgOf isa m o).nports) from hrow2)
    have hp1' := (ha p1 hne).mp (hsub1.subset hp1)
    have := increasing_unique _ inc2 p1 p2 hp1' (hsub2.subset hp2) hline
    rw [this]

/-- with `--lines` the same lines are selected in both runs: the two analyses have the same rows, line
    by line, except for the numbers of the replaced line -/
theorem e2e_unknown_isolated_lines (isa : Operand.Isa) (m : Model) (o : Opts) (spec : Txt) (ho : o.mode = .lines spec)
    (xs ys : List Txt) (l l' : Txt) (hnl : ∀ t ∈ xs ++ l :: ys, 10 ∉ t) (hnl' : 10 ∉ l')
    (hb : isBlank l = false) (hb' : isBlank l' = false)
    (r1 r2 : Result) (h1 : analyse isa m o (joinLines (xs ++ l :: ys)) = .ok r1)
    (h2 : analyse isa m o (joinLines (xs ++ l' :: ys)) = .ok r2) :
    r1.analysis.rows.map (·.line) = r2.analysis.rows.map (·.line) := by
  have hnl2 : ∀ t ∈ xs ++ l' :: ys, 10 ∉ t := by
    intro t ht
    rcases List.mem_append.mp ht with h | h
    · exact hnl t (by simp [h])
    · rcases List.mem_cons.mp h with h | h
      · subst h; exact hnl'
      · exact hnl t (by simp [h])
  obtain ⟨k1, hs1, _, _, hr1⟩ := analyse_lines_ok_inv isa m o _ (by simp) hnl r1 h1
  obtain ⟨k2, hs2, _, _, hr2⟩ := analyse_lines_ok_inv isa m o _ (by simp) hnl2 r2 h2
  rw [ho] at hs1 hs2
  obtain ⟨ra, hra, e1⟩ := select_lines_eq spec _ _ hs1
  obtain ⟨rb, hrb, e2⟩ := select_lines_eq spec _ _ hs2
  rw [hra] at hrb
  cases hrb
  have hn : ((textLines isa m (xs ++ l :: ys)).map (·.pl)).map (·.num) = ((textLines isa m (xs ++ l' :: ys)).map (·.pl)).map (·.num) := by
    simp only [List.map_map]
    have a := textLines_nums isa m (xs ++ l :: ys)
    have b := textLines_nums isa m (xs ++ l' :: ys)
    simp only [Function.comp_def] at a b ⊢
    rw [a, b, numbered_replace xs ys l hb, numbered_replace xs ys l' hb']
    simp
  have key : ∀ L : List PLine, (L.filter fun x => ra.contains (x.num : Int)).map (·.num) =
      (L.map (·.num)).filter (fun (n : Nat) => ra.contains (n : Int)) := by
    intro L; rw [List.filter_map]; rfl
  rw [hr1, hr2]
  show (k1.map (rowOf _)).map (·.line) = (k2.map (rowOf _)).map (·.line)
  simp only [List.map_map]
  show k1.map (·.num) = k2.map (·.num)
  rw [e1, e2, key, key, hn]

/-! ### 4. comment, label and directive lines are transparent — at the level of the file TEXT -/

/-- a non-blank line that is not an instruction: `parse_line` accepts it and finds no mnemonic
    (a comment-only line `# …` / `// …`, a label line, a directive line) -/
def IsNoise (isa : Operand.Isa) (n : Txt) : Prop := isBlank n = false ∧ ∃ f, parseLineOf isa n = .ok f ∧ f.mnemonic = none

/-- where the old line `x` stands after a line has been inserted behind the first `pos` lines -/
def shiftAt (pos x : Nat) : Nat := if x ≤ pos then x else x + 1

theorem lineOfText_noise (isa : Operand.Isa) (m : Model) (num : Nat) (n : Txt) (hn : IsNoise isa n) : (lineOfText isa m num n).pl.isInstr = false := by
  obtain ⟨_, f, hp, hm⟩ := hn
  unfold lineOfText
  simp only [hp, lineOf]
  cases semOfStages m (stagesOf isa m f) <;> simp [PLine.isInstr, Glue.Form.sel, hm]

/-- **parse level**: the file with the inserted line parses to the old lines — those in front unchanged,
    those behind with their numbers moved by one — and one more line that is not an instruction -/
theorem textLines_insert (isa : Operand.Isa) (m : Model) (xs ys : List Txt) (n : Txt) (hb : isBlank n = false) :
    textLines isa m (xs ++ ys) =
      (numbered 0 0 xs).map (fun p => lineOfText isa m p.1 p.2) ++
        (numbered 0 xs.length ys).map (fun p => lineOfText isa m p.1 p.2) ∧
    textLines isa m (xs ++ n :: ys) =
      (numbered 0 0 xs).map (fun p => lineOfText isa m p.1 p.2) ++ lineOfText isa m (xs.length + 1) n ::
        (numbered 0 xs.length ys).map (fun p => lineOfText isa m (p.1 + 1) p.2) := by
  constructor
  · simp [textLines, numbered_append]
  · simp [textLines, numbered_insert xs ys n hb, List.map_map, Function.comp_def]

theorem eraseNum_isInstr (p : PLine) : (eraseNum p).isInstr = p.isInstr := rfl

/-- two lists of lines, element by element the same line up to the number, selected alike -/
theorem same_instr_of_pointwise {α : Type} (nb : List α) (g1 g2 : α → PLine) (S1 S2 : Nat → Bool)
    (h : ∀ p ∈ nb, eraseNum (g1 p) = eraseNum (g2 p) ∧ S1 (g1 p).num = S2 (g2 p).num) :
    ((((nb.map g1).filter fun p => S1 p.num).filter (·.isInstr)).map eraseNum) =
    ((((nb.map g2).filter fun p => S2 p.num).filter (·.isInstr)).map eraseNum) := by
  induction nb with
  | nil => rfl
  | cons a nb ih =>
    have ha := h a (by simp)
    have ih' := ih (fun p hp => h p (by simp [hp]))
    have hi : (g1 a).isInstr = (g2 a).isInstr := by
      rw [← eraseNum_isInstr (g1 a), ← eraseNum_isInstr (g2 a), ha.1]
    simp only [List.map_cons, List.filter_cons, ha.2]
    cases S2 (g2 a).num
    · simpa using ih'
    · simp only [if_true, List.filter_cons, hi]
      cases (g2 a).isInstr
      · simpa using ih'
      · simp only [if_true, List.map_cons, ha.1]
        congr 1

/-- **the selected kernels carry the same instructions**: if the selection of the second file selects the
    old lines the selection of the first file selects (and the inserted line or not), the two kernels
    have the same instruction lines in the same order, up to their numbers -/
theorem kernels_same_instr (isa : Operand.Isa) (m : Model) (xs ys : List Txt) (n : Txt) (hn : IsNoise isa n) (S1 S2 : Nat → Bool)
    (hS : ∀ x, S2 (shiftAt xs.length x) = S1 x) :
    (((((textLines isa m (xs ++ ys)).map (·.pl)).filter fun p => S1 p.num).filter (·.isInstr)).map eraseNum) =
    (((((textLines isa m (xs ++ n :: ys)).map (·.pl)).filter fun p => S2 p.num).filter (·.isInstr)).map eraseNum) := by
  obtain ⟨e1, e2⟩ := textLines_insert isa m xs ys n hn.1
  rw [e1, e2]
  simp only [List.map_append, List.map_cons, List.filter_append, List.filter_cons, List.map_map]
  have hN : (lineOfText isa m (xs.length + 1) n).pl.isInstr = false := lineOfText_noise isa m _ n hn
  have front := same_instr_of_pointwise (numbered 0 0 xs) (fun p => (lineOfText isa m p.1 p.2).pl)
    (fun p => (lineOfText isa m p.1 p.2).pl) S1 S2 (by
      intro p hp
      refine ⟨rfl, ?_⟩
      have := numbered_hi 0 0 xs p hp
      simp only [lineOfText_pl_num]
      rw [← hS p.1, shiftAt, if_pos (by omega)])
  have back := same_instr_of_pointwise (numbered 0 xs.length ys) (fun p => (lineOfText isa m p.1 p.2).pl)
    (fun p => (lineOfText isa m (p.1 + 1) p.2).pl) S1 S2 (by
      intro p hp
      refine ⟨lineOfText_eraseNum isa m _ _ _, ?_⟩
      have := numbered_lo 0 xs.length ys p hp
      simp only [lineOfText_pl_num]
      rw [← hS p.1, shiftAt, if_neg (by omega)])
  simp only [Function.comp_def]
  rw [front, back]
  cases S2 (lineOfText isa m (xs.length + 1) n).pl.num <;> simp [hN]

/-- **e2e_noise_transparent_text** (C11 at the level of the file TEXT; ∀ models, ∀ files, ∀ positions):
    insert a comment-only line, a label line or a directive line `n` behind the first `|xs|` lines of a
    file.  If the selection of the new file selects the old lines the selection of the old file selects —
    whether or not it selects `n` itself (`S1`, `S2` name the selected line numbers; instances below: the
    whole file, `--lines`) — the two analyses say the same about the instructions up to the renaming of
    line numbers: there is one analysis `a₀` (of the position-numbered instruction lines) and
    order-preserving `g1`, `g2` (instruction ordinal ↦ line number) with
    `SameOnInstr … r1.analysis (a₀.rename g1)` and `SameOnInstr … r2.analysis (a₀.rename g2)`:
    per-instruction rows, dependency edges with weights, LCD entries / dictionary / figure / marks, column
    sums equal; the non-instruction rows are zeros; critical path total (≥ 0) and marks (> 0) equal. -/
theorem e2e_noise_transparent_text (isa : Operand.Isa) (m : Model) (o1 o2 : Opts) (hfd : o1.flagDeps = o2.flagDeps)
    (hfl : o1.floor = o2.floor) (xs ys : List Txt) (n : Txt) (hne : xs ++ ys ≠ [])
    (hnl : ∀ t ∈ xs ++ n :: ys, 10 ∉ t) (hn : IsNoise isa n) (r1 r2 : Result)
    (h1 : analyse isa m o1 (joinLines (xs ++ ys)) = .ok r1)
    (h2 : analyse isa m o2 (joinLines (xs ++ n :: ys)) = .ok r2)
    (S1 S2 : Nat → Bool)
    (hk1 : r1.kernel = r1.parsed.filter fun p => S1 p.num)
    (hk2 : r2.kernel = r2.parsed.filter fun p => S2 p.num)
    (hS : ∀ x, S2 (shiftAt xs.length x) = S1 x) :
    ∃ (a₀ : Analysis) (g1 g2 : Nat → Nat), Incr g1 ∧ Incr g2 ∧
      (∀ j (h : j < (r1.kernel.filter (·.isInstr)).length), g1 j = ((r1.kernel.filter (·.isInstr))[j]).num) ∧
      (∀ j (h : j < (r2.kernel.filter (·.isInstr)).length), g2 j = ((r2.kernel.filter (·.isInstr))[j]).num) ∧
      a₀ = analyze (EndToEnd.cfgOf isa m o1) (Props.C11Pipeline.canon (r1.kernel.filter (·.isInstr))) ∧
      SameOnInstr m.mm.ports.length r1.analysis (a₀.rename g1) ∧
      SameOnInstr m.mm.ports.length r2.analysis (a₀.rename g2) := by
  have hnl1 : ∀ t ∈ xs ++ ys, 10 ∉ t := by
    intro t ht
    rcases List.mem_append.mp ht with h | h
    · exact hnl t (by simp [h])
    · exact hnl t (by simp [h])
  obtain ⟨k1, _, _, _, hr1⟩ := analyse_lines_ok_inv isa m o1 _ hne hnl1 r1 h1
  obtain ⟨k2, _, _, _, hr2⟩ := analyse_lines_ok_inv isa m o2 _ (by simp) hnl r2 h2
  have hc : EndToEnd.cfgOf isa m o2 = EndToEnd.cfgOf isa m o1 := by simp [EndToEnd.cfgOf, hfd, hfl]
  have e1 : r1.kernel = k1 := by rw [hr1, resultOf]
  have e2 : r2.kernel = k2 := by rw [hr2, resultOf]
  have p1 : r1.parsed = (textLines isa m (xs ++ ys)).map (·.pl) := by rw [hr1, resultOf]
  have p2 : r2.parsed = (textLines isa m (xs ++ n :: ys)).map (·.pl) := by rw [hr2, resultOf]
  have a1 : r1.analysis = analyze (EndToEnd.cfgOf isa m o1) r1.kernel := by rw [e1, hr1, resultOf]
  have a2 : r2.analysis = analyze (EndToEnd.cfgOf isa m o1) r2.kernel := by rw [e2, hr2, resultOf, hc]
  have inc1 : Increasing r1.kernel := by
    rw [hk1, p1]; exact (textLines_increasing isa m _).sublist List.filter_sublist
  have inc2 : Increasing r2.kernel := by
    rw [hk2, p2]; exact (textLines_increasing isa m _).sublist List.filter_sublist
  have hsame : (r1.kernel.filter (·.isInstr)).map eraseNum = (r2.kernel.filter (·.isInstr)).map eraseNum := by
    rw [hk1, hk2, p1, p2]
    exact kernels_same_instr isa m xs ys n hn S1 S2 hS
  have := Props.C11Pipeline.noise_transparent (EndToEnd.cfgOf isa m o1) r1.kernel r2.kernel inc1 inc2 hsame
  rw [← a1, ← a2] at this
  exact this

/-- the numbers that are not line numbers are equal in the two analyses -/
theorem e2e_noise_transparent_values (isa : Operand.Isa) (m : Model) (o1 o2 : Opts) (hfd : o1.flagDeps = o2.flagDeps)
    (hfl : o1.floor = o2.floor) (xs ys : List Txt) (n : Txt) (hne : xs ++ ys ≠ [])
    (hnl : ∀ t ∈ xs ++ n :: ys, 10 ∉ t) (hn : IsNoise isa n) (r1 r2 : Result)
    (h1 : analyse isa m o1 (joinLines (xs ++ ys)) = .ok r1)
    (h2 : analyse isa m o2 (joinLines (xs ++ n :: ys)) = .ok r2)
    (S1 S2 : Nat → Bool)
    (hk1 : r1.kernel = r1.parsed.filter fun p => S1 p.num)
    (hk2 : r2.kernel = r2.parsed.filter fun p => S2 p.num)
    (hS : ∀ x, S2 (shiftAt xs.length x) = S1 x) :
    r1.analysis.lcdFigure = r2.analysis.lcdFigure ∧ r1.analysis.colSums = r2.analysis.colSums ∧
    r1.analysis.edges.map (·.w) = r2.analysis.edges.map (·.w) ∧
    r1.analysis.lcd.map (fun e => (e.lats, e.latency)) = r2.analysis.lcd.map (fun e => (e.lats, e.latency)) := by
  have hnl1 : ∀ t ∈ xs ++ ys, 10 ∉ t := by
    intro t ht
    rcases List.mem_append.mp ht with h | h
    · exact hnl t (by simp [h])
    · exact hnl t (by simp [h])
  obtain ⟨k1, _, _, _, hr1⟩ := analyse_lines_ok_inv isa m o1 _ hne hnl1 r1 h1
  obtain ⟨k2, _, _, _, hr2⟩ := analyse_lines_ok_inv isa m o2 _ (by simp) hnl r2 h2
  have hc : EndToEnd.cfgOf isa m o2 = EndToEnd.cfgOf isa m o1 := by simp [EndToEnd.cfgOf, hfd, hfl]
  have e1 : r1.kernel = k1 := by rw [hr1, resultOf]
  have e2 : r2.kernel = k2 := by rw [hr2, resultOf]
  have p1 : r1.parsed = (textLines isa m (xs ++ ys)).map (·.pl) := by rw [hr1, resultOf]
  have p2 : r2.parsed = (textLines isa m (xs ++ n :: ys)).map (·.pl) := by rw [hr2, resultOf]
  have a1 : r1.analysis = analyze (EndToEnd.cfgOf isa m o1) r1.kernel := by rw [e1, hr1, resultOf]
  have a2 : r2.analysis = analyze (EndToEnd.cfgOf isa m o1) r2.kernel := by rw [e2, hr2, resultOf, hc]
  have inc1 : Increasing r1.kernel := by
    rw [hk1, p1]; exact (textLines_increasing isa m _).sublist List.filter_sublist
  have inc2 : Increasing r2.kernel := by
    rw [hk2, p2]; exact (textLines_increasing isa m _).sublist List.filter_sublist
  have hsame : (r1.kernel.filter (·.isInstr)).map eraseNum = (r2.kernel.filter (·.isInstr)).map eraseNum := by
    rw [hk1, hk2, p1, p2]
    exact kernels_same_instr isa m xs ys n hn S1 S2 hS
  have v := Props.C11Pipeline.noise_transparent_values (EndToEnd.cfgOf isa m o1) r1.kernel r2.kernel inc1 inc2 hsame
  rw [← a1, ← a2] at v
  exact ⟨v.1, v.2.1, v.2.2.1, v.2.2.2.1⟩

/-- instance: the whole file is the kernel in both runs (no marker, no `--lines`) -/
theorem e2e_noise_transparent_whole_file (isa : Operand.Isa) (m : Model) (o : Opts) (xs ys : List Txt) (n : Txt) (hne : xs ++ ys ≠ [])
    (hnl : ∀ t ∈ xs ++ n :: ys, 10 ∉ t) (hn : IsNoise isa n) (r1 r2 : Result)
    (h1 : analyse isa m o (joinLines (xs ++ ys)) = .ok r1)
    (h2 : analyse isa m o (joinLines (xs ++ n :: ys)) = .ok r2)
    (hk1 : r1.kernel = r1.parsed) (hk2 : r2.kernel = r2.parsed) :
    ∃ (a₀ : Analysis) (g1 g2 : Nat → Nat), Incr g1 ∧ Incr g2 ∧
      SameOnInstr m.mm.ports.length r1.analysis (a₀.rename g1) ∧
      SameOnInstr m.mm.ports.length r2.analysis (a₀.rename g2) := by
  obtain ⟨a₀, g1, g2, i1, i2, _, _, _, s1, s2⟩ :=
    e2e_noise_transparent_text isa m o o rfl rfl xs ys n hne hnl hn r1 r2 h1 h2 (fun _ => true) (fun _ => true)
      (by simp [hk1]) (by simp [hk2]) (fun _ => rfl)
  exact ⟨a₀, g1, g2, i1, i2, s1, s2⟩

/-- instance: `--lines` in both runs, the second specification naming the moved numbers -/
theorem e2e_noise_transparent_lines (isa : Operand.Isa) (m : Model) (o1 o2 : Opts) (s1 s2 : Txt) (R1 R2 : List Int)
    (hm1 : o1.mode = .lines s1) (hm2 : o2.mode = .lines s2)
    (hR1 : Marker.getLineRange s1 = some R1) (hR2 : Marker.getLineRange s2 = some R2)
    (hfd : o1.flagDeps = o2.flagDeps) (hfl : o1.floor = o2.floor)
    (xs ys : List Txt) (n : Txt) (hne : xs ++ ys ≠ [])
    (hnl : ∀ t ∈ xs ++ n :: ys, 10 ∉ t) (hn : IsNoise isa n)
    (hS : ∀ x : Nat, R2.contains ((shiftAt xs.length x : Nat) : Int) = R1.contains (x : Int))
    (r1 r2 : Result)
    (h1 : analyse isa m o1 (joinLines (xs ++ ys)) = .ok r1)
    (h2 : analyse isa m o2 (joinLines (xs ++ n :: ys)) = .ok r2) :
    ∃ (a₀ : Analysis) (g1 g2 : Nat → Nat), Incr g1 ∧ Incr g2 ∧
      SameOnInstr m.mm.ports.length r1.analysis (a₀.rename g1) ∧
      SameOnInstr m.mm.ports.length r2.analysis (a₀.rename g2) := by
  have hnl1 : ∀ t ∈ xs ++ ys, 10 ∉ t := by
    intro t ht
    rcases List.mem_append.mp ht with h | h
    · exact hnl t (by simp [h])
    · exact hnl t (by simp [h])
  obtain ⟨k1, hs1, _, _, hr1⟩ := analyse_lines_ok_inv isa m o1 _ hne hnl1 r1 h1
  obtain ⟨k2, hs2, _, _, hr2⟩ := analyse_lines_ok_inv isa m o2 _ (by simp) hnl r2 h2
  rw [hm1] at hs1
  rw [hm2] at hs2
  obtain ⟨ra, hra, e1⟩ := select_lines_eq s1 _ _ hs1
  obtain ⟨rb, hrb, e2⟩ := select_lines_eq s2 _ _ hs2
  rw [hR1] at hra; cases hra
  rw [hR2] at hrb; cases hrb
  have hk1 : r1.kernel = r1.parsed.filter fun p => R1.contains (p.num : Int) := by rw [hr1, resultOf]; exact e1
  have hk2 : r2.kernel = r2.parsed.filter fun p => R2.contains (p.num : Int) := by rw [hr2, resultOf]; exact e2
  obtain ⟨a₀, g1, g2, i1, i2, _, _, _, q1, q2⟩ :=
    e2e_noise_transparent_text isa m o1 o2 hfd hfl xs ys n hne hnl hn r1 r2 h1 h2
      (fun x => R1.contains (x : Int)) (fun x => R2.contains (x : Int)) hk1 hk2 hS
  exact ⟨a₀, g1, g2, i1, i2, q1, q2⟩

/-! ### 5. the report reads back -/

/-- **the pipeline's output satisfies the well-formedness hypotheses of `Props.C13.report_roundtrip`**
    (∀ models with at least one port whose names can stand in the port line, ∀ `repr` whose texts are
    single tokens, ∀ files and options): one pressure value and one used-port bit per port on every
    kernel line (`assign_tp_lt` leaves `len(ports)` values on every path: own entry, composition,
    unknown, non-instruction), kernel texts without line feed (they are lines of the file), column sums
    empty or one per port. -/
theorem e2e_report_wf (isa : Operand.Isa) (m : Model) (o : Opts) (file : Txt) (r : Result) (h : analyse isa m o file = .ok r)
    (hports : m.mm.ports ≠ []) (hnames : ∀ n ∈ m.mm.ports, Report.NameOk n ∧ Report.NoNL n)
    (hrepr : ∀ q, Report.TokOk (o.repr q) ∧ Report.WordOk (o.repr q) ∧ Report.NoNL (o.repr q)) :
    Report.WF r.report := by
  obtain ⟨fs, k, hc, hs, hk, he, hr⟩ := analyse_ok_inv isa m o file r h
  have hsub := select_sublist _ _ _ hs
  have hlines := linesOf_file isa m _ fs hc
  -- every kernel line is a line of the file without exception
  have hline : ∀ l ∈ k, ∃ t, t ∈ splitLines file ∧ l = (lineOfText isa m l.num t).pl ∧ (lineOfText isa m l.num t).err = none := by
    intro l hl
    have hl' := hsub.subset hl
    rw [hlines] at hl'
    obtain ⟨t, ht, e⟩ := textLines_mem isa m _ l hl'
    refine ⟨t, numbered_mem_text 0 0 _ _ ht, e, ?_⟩
    have hmem : lineOfText isa m l.num t ∈ linesOf isa m fs := by
      rw [hlines]; exact List.mem_map.mpr ⟨(l.num, t), ht, rfl⟩
    exact firstErr_none _ _ he _ hmem l hl (by simp)
  have hlen : ∀ l ∈ k, (semOf m.mm.ports.length l).pressure.length = m.mm.ports.length ∧
      (semOf m.mm.ports.length l).used.length = m.mm.ports.length := by
    intro l hl
    obtain ⟨t, _, e, herr⟩ := hline l hl
    rw [e]
    have := lineOfText_lens isa m l.num t herr
    simpa using this
  have hrep : r.report = toReport o.repr m.mm.ports o.ignoreUnknown m.mm.ports.length k (analyze (EndToEnd.cfgOf isa m o) k) := by
    rw [hr, resultOf]
  rw [hrep]
  refine ⟨hports, hnames, ?_, ?_, ?_, ?_, ?_, ?_⟩
  · simpa [toReport] using hk
  · intro row hrow
    simp only [toReport] at hrow
    obtain ⟨l, hl, rfl⟩ := List.mem_map.mp hrow
    obtain ⟨t, ht, e, _⟩ := hline l hl
    refine ⟨(hlen l hl).1, (hlen l hl).2, ?_⟩
    have : l.text = t := by rw [e]; exact lineOfText_text isa m _ t
    show Report.NoNL l.text
    rw [this]
    exact (splitLines_spec file).2.1 t ht
  · intro p hp
    simp only [toReport] at hp
    obtain ⟨q, _, rfl⟩ := List.mem_map.mp hp
    exact ⟨(hrepr q.2).1, (hrepr q.2).2.2⟩
  · intro d hd
    simp only [toReport] at hd
    obtain ⟨q, _, rfl⟩ := List.mem_map.mp hd
    refine ⟨?_, (hrepr _).2.1, (hrepr _).2.2⟩
    intro mem hmem
    obtain ⟨x, _, rfl⟩ := List.mem_map.mp hmem
    exact ⟨(hrepr x.2).1, (hrepr x.2).2.2⟩
  · exact ⟨(hrepr _).2.1, (hrepr _).2.2⟩
  · show (analyze (EndToEnd.cfgOf isa m o) k).colSums = [] ∨ (analyze (EndToEnd.cfgOf isa m o) k).colSums.length = m.mm.ports.length
    apply colSums_len
    intro pl hpl
    obtain ⟨l, hl, rfl⟩ := List.mem_map.mp hpl
    exact (hlen l hl).1

/-- **e2e_report_roundtrip** (`Props.C13.report_roundtrip` lifted through the composition): the table the
    pipeline prints for a file reads back (`Spec.Report.parseTable`) to the view of the analysis the pipeline
    computed — port columns, every line with its pressure cells at the shown precision, CP and LCD cells,
    flag symbols, texts, and the totals line or the missing-data warning with its number; and the printed
    text is that table between the header block and the LCD list. -/
theorem e2e_report_roundtrip (isa : Operand.Isa) (m : Model) (o : Opts) (file : Txt) (r : Result) (h : analyse isa m o file = .ok r)
    (hports : m.mm.ports ≠ []) (hnames : ∀ n ∈ m.mm.ports, Report.NameOk n ∧ Report.NoNL n)
    (hrepr : ∀ q, Report.TokOk (o.repr q) ∧ Report.WordOk (o.repr q) ∧ Report.NoNL (o.repr q)) :
    Spec.Report.parseTable (Report.combinedView r.report) = some (Report.view r.report) ∧
    (∃ pre post, r.text = pre ++ Report.combinedView r.report ++ post) ∧
    r.report.rows.map (·.line) = r.kernel.map (·.num) ∧
    r.report.tpSum = r.analysis.colSums ∧
    r.report.cp.map (·.1) = r.analysis.cpMarks.map (·.1) := by
  have hwf := e2e_report_wf isa m o file r h hports hnames hrepr
  obtain ⟨fs, k, hc, hs, hk, he, hr⟩ := analyse_ok_inv isa m o file r h
  refine ⟨Props.C13.report_roundtrip r.report hwf, ?_, ?_, ?_, ?_⟩
  · obtain ⟨_, k', _, _, _, _, _, _, _, _, ht⟩ := e2e_factors_ok isa m o file r h
    refine ⟨Report.headerReport o.version o.file o.arch o.stamp ++
        Report.warningsHeader (Report.archWarningFlag o.archGiven)
          (Report.lengthWarningFlag (linesGiven o.mode) k'.length r.parsed.length) ++ Report.symbolMap,
      Report.warningsFooter false ++ Report.lcdList r.report, ?_⟩
    rw [ht, Report.fullAnalysis]
    simp only [List.append_assoc]
  · rw [hr]; simp [resultOf, toReport]
  · rw [hr]; simp [resultOf, toReport]
  · rw [hr]; simp [resultOf, toReport]

/-! ### non-vacuity: a concrete model and file, evaluated by the kernel

  Model: two ports `0`, `1`; one entry `ADD gpr, gpr` (throughput 1, latency 1, one micro-op on `01`); load
  default `[[1, '0']]`, load latency 4 for `gpr`; the shipped x86 ISA database `Gen.isaDbX86`.
  File:
      1  addq (%rax), %rbx      memory-composed: register form `ADD gpr, gpr` through the `q` fall-back + load
      2  # note                 comment-only line
      3  foo %rbx, %rcx         unknown mnemonic (default roles: last operand destination)
      4  addq %rcx, %rbx        own entry through the fall-back
  Dependency edges: load node of 1 → 1 (4), 1 → 3, 1 → 4, 3 → 4; critical path 6; LCD 1-4 and 1-3-4. -/
namespace Ex

def gpr : Txt := [103, 112, 114]
def gprE : Operand.EOperand := .reg (some gpr) none none
def mm : Compose.MModel :=
  { isa := .x86, ports := [[48], [49]]
    db := [{ name := [65, 68, 68], operands := [gprE, gprE], tp := .num 1, lat := .num 1,
             pp := .list [.list [.num 1, .str [48, 49]]] }]
    loadRows := [], loadDefault := .list [.list [.num 1, .str [48]]], storeRows := [], storeDefault := .list []
    loadLatency := [(.str gpr, .num 4)], loadMult := none, storeMult := none }
def model : Model := { mm := mm, isaDb := Gen.isaDbX86 }

/-- a stand-in for `repr(float)`, good for integers and halves -/
def reprEx (q : Rat) : Txt := Fmt.natDigits q.floor.toNat ++ [46] ++ (if q.den == 1 then [48] else [53])

def opts : Opts :=
  { mode := .markers [120, 56, 54], repr := reprEx, version := [48], file := [107, 46, 115], arch := [83, 89, 78],
    stamp := [110, 111, 119] }
def optsL (spec : Txt) : Opts := { opts with mode := .lines spec }

def l1 : Txt := [97, 100, 100, 113, 32, 40, 37, 114, 97, 120, 41, 44, 32, 37, 114, 98, 120]     -- addq (%rax), %rbx
def ln : Txt := [35, 32, 110, 111, 116, 101]                                                    -- # note
def lu : Txt := [102, 111, 111, 32, 37, 114, 98, 120, 44, 32, 37, 114, 99, 120]                 -- foo %rbx, %rcx
def lk : Txt := [97, 100, 100, 113, 32, 37, 114, 98, 120, 44, 32, 37, 114, 99, 120]             -- addq %rbx, %rcx
def l3 : Txt := [97, 100, 100, 113, 32, 37, 114, 99, 120, 44, 32, 37, 114, 98, 120]             -- addq %rcx, %rbx
def foo : Txt := [102, 111, 111]

def checkOk (x : Outcome) (p : Result → Bool) : Bool :=
  match x with
  | .ok r => p r
  | _ => false

end Ex
open Ex

theorem ex_checkOk_elim {x : Outcome} {p : Result → Bool} (h : checkOk x p = true) : ∃ r, x = .ok r ∧ p r = true := by
  cases x <;> simp [checkOk] at h
  exact ⟨_, rfl, h⟩

/-- the analysis of the four-line file, from its text: the memory-composed line (latency 1 + 4, pressure
    `[1/2 + 1, 1/2]`, `performs_load`), the comment (zeros, not an instruction), the unknown line (zeros, both
    unknown flags), the edges incl. the load node, critical path, LCD, column sums (the unknown line has
    throughput 0 and is skipped), and the missing-data branch of the report -/
example : checkOk (analyseX86 model opts (joinLines [l1, ln, lu, l3])) (fun r =>
    r.analysis.rows.map (fun x => (x.line, x.instr, x.lat, x.latWoLoad, x.tp, x.pressure)) ==
      [(1, true, 5, some 1, 1, [3/2, 1/2]), (2, false, 0, some 0, 0, [0, 0]), (3, true, 0, some 0, 0, [0, 0]),
       (4, true, 1, some 1, 1, [1/2, 1/2])] &&
    r.analysis.edges.map (fun e => (e.src.line, e.src.load, e.dst.line, e.w)) ==
      [(1, true, 1, 4), (1, false, 3, 1), (1, false, 4, 1), (3, false, 4, 0)] &&
    r.analysis.cpTotal == 6 && r.analysis.cpMarks == [(1, 5), (4, 1)] &&
    r.analysis.lcdDict.map (fun d => (d.1, d.2.1)) == [([1, 4], 2), ([1, 3, 4], 2)] &&
    r.analysis.lcdFigure == 2 && r.analysis.colSums == [2, 1] &&
    r.report.rows.map (fun x => (x.line, x.flags, x.used)) ==
      [(1, [Gen.flagHasLd], [true, true]), (2, [], [false, false]),
       (3, [Gen.flagTpUnknown, Gen.flagLtUnknown], [false, false]), (4, [], [true, true])] &&
    !Report.showsTotals r.report && r.kernel.length == 4 && r.parsed.length == 4) = true := by
  decide +kernel

/-- outcomes other than an analysis: a line the parser rejects, `--lines` that selects nothing, a malformed
    `--lines` -/
example : (match analyseX86 model opts (joinLines [l1, [37, 37], l3]) with | .parseError 2 _ => true | _ => false) = true := by
  decide +kernel
example : (match analyseX86 model (optsL [57]) (joinLines [l1, l3]) with | .emptyKernel => true | _ => false) = true := by
  decide +kernel
example : (match analyseX86 model (optsL [45]) (joinLines [l1, l3]) with | .badLines => true | _ => false) = true := by
  decide +kernel

/-- the model has no entry for `foo`, whatever the operands, with or without the fall-back spelling -/
theorem ex_no_foo : ∀ ops, Match.lookupWithFallbacks model.mm.isa model.mm.db foo ops = none := by
  intro ops
  have h1 : Match.getInstruction .x86 mm.db foo ops = none := by
    simp [Match.getInstruction, mm, Match.entryMatches, foo, upper, upperC]
  have h2 : Match.fallbackName .x86 foo = none := by decide +kernel
  show Match.lookupWithFallbacks .x86 mm.db foo ops = none
  simp [Match.lookupWithFallbacks, h1, h2]

/-- `e2e_unknown_isolated` on the file: line 3 `addq %rbx, %rcx` replaced by `foo %rbx, %rcx` — both files are
    analysed (hypotheses satisfiable), line 3 of the second analysis is zero, lines 1, 2, 4 are unchanged -/
example : checkOk (analyseX86 model opts (joinLines ([l1, ln] ++ lk :: [l3]))) (fun _ => true) = true ∧
    checkOk (analyseX86 model opts (joinLines ([l1, ln] ++ lu :: [l3]))) (fun _ => true) = true ∧
    ∀ r1 r2, analyseX86 model opts (joinLines ([l1, ln] ++ lk :: [l3])) = .ok r1 →
      analyseX86 model opts (joinLines ([l1, ln] ++ lu :: [l3])) = .ok r2 →
      (∀ row ∈ r2.analysis.rows, row.line = 3 → row.tp = 0 ∧ row.lat = 0 ∧ row.pressure = [0, 0]) ∧
      (∀ row1 ∈ r1.analysis.rows, ∀ row2 ∈ r2.analysis.rows, row1.line = row2.line → row1.line ≠ 3 → row1 = row2) := by
  refine ⟨by decide +kernel, by decide +kernel, fun r1 r2 h1 h2 => ?_⟩
  have h := e2e_unknown_isolated .x86 model opts [l1, ln] [l3] lk lu
    (by decide +kernel) (by decide +kernel) (by decide +kernel) (by decide +kernel)
    (Glue.formX86 { mnemonic := some foo, operands := [.reg [114, 98, 120], .reg [114, 99, 120]] }) foo (by decide +kernel) rfl
    ex_no_foo r1 r2 h1 h2
  exact ⟨fun row hr hl => let x := h.2.1 row hr hl; ⟨x.2.1, x.2.2.1, x.2.2.2.2⟩, h.2.2.2⟩

/-- the comment line is a noise line -/
theorem ex_ln_noise : IsNoise .x86 ln :=
  ⟨by decide +kernel, Glue.formX86 { comment := some [110, 111, 116, 101] }, by decide +kernel, rfl⟩

/-- `e2e_noise_transparent_text`, whole file: `[l1, lu, l3]` and `[l1, # note, lu, l3]` are both analysed
    with the whole file as the kernel, and agree up to the renaming -/
example : checkOk (analyseX86 model opts (joinLines ([l1] ++ [lu, l3]))) (fun r => r.kernel.length == r.parsed.length) = true ∧
    checkOk (analyseX86 model opts (joinLines ([l1] ++ ln :: [lu, l3]))) (fun r => r.kernel.length == r.parsed.length) = true ∧
    ∀ r1 r2, analyseX86 model opts (joinLines ([l1] ++ [lu, l3])) = .ok r1 →
      analyseX86 model opts (joinLines ([l1] ++ ln :: [lu, l3])) = .ok r2 →
      ∃ (a₀ : Analysis) (g1 g2 : Nat → Nat), Incr g1 ∧ Incr g2 ∧
        SameOnInstr 2 r1.analysis (a₀.rename g1) ∧ SameOnInstr 2 r2.analysis (a₀.rename g2) := by
  have c1 : checkOk (analyseX86 model opts (joinLines ([l1] ++ [lu, l3]))) (fun r => r.kernel.length == r.parsed.length) = true := by
    decide +kernel
  have c2 : checkOk (analyseX86 model opts (joinLines ([l1] ++ ln :: [lu, l3]))) (fun r => r.kernel.length == r.parsed.length) = true := by
    decide +kernel
  refine ⟨c1, c2, fun r1 r2 h1 h2 => ?_⟩
  obtain ⟨r1', e1, q1⟩ := ex_checkOk_elim c1
  obtain ⟨r2', e2, q2⟩ := ex_checkOk_elim c2
  rw [h1] at e1; cases e1
  rw [h2] at e2; cases e2
  have k1 := ((e2e_rows_local .x86 model opts _ r1 h1).2.1).eq_of_length (by simpa using q1)
  have k2 := ((e2e_rows_local .x86 model opts _ r2 h2).2.1).eq_of_length (by simpa using q2)
  exact e2e_noise_transparent_whole_file .x86 model opts [l1] [lu, l3] ln (by simp)
    (by decide +kernel) ex_ln_noise r1 r2 h1 h2 k1 k2

theorem ex_shift_ok : ∀ x : Nat, ([1, 3, 4] : List Int).contains ((shiftAt 1 x : Nat) : Int) =
    ([1, 2, 3] : List Int).contains (x : Int) := by
  intro x
  rcases x with _ | _ | _ | _ | x
  · decide
  · decide
  · decide
  · decide
  · have e : shiftAt 1 (x + 4) = x + 5 := by simp [shiftAt]
    rw [e]
    have a : ([1, 3, 4] : List Int).contains ((x + 5 : Nat) : Int) = false := by
      simp only [List.contains_eq_mem, List.mem_cons, List.not_mem_nil, or_false, decide_eq_false_iff_not]
      omega
    have b : ([1, 2, 3] : List Int).contains ((x + 4 : Nat) : Int) = false := by
      simp only [List.contains_eq_mem, List.mem_cons, List.not_mem_nil, or_false, decide_eq_false_iff_not]
      omega
    rw [a, b]

/-- `e2e_noise_transparent_lines`: `--lines 1,2-3` on the file without the comment and `--lines 1,3-4` on the file
    with it -/
example : checkOk (analyseX86 model (optsL [49, 44, 50, 45, 51]) (joinLines ([l1] ++ [lu, l3]))) (fun _ => true) = true ∧
    checkOk (analyseX86 model (optsL [49, 44, 51, 45, 52]) (joinLines ([l1] ++ ln :: [lu, l3]))) (fun r => r.kernel.length == 3) = true ∧
    ∀ r1 r2, analyseX86 model (optsL [49, 44, 50, 45, 51]) (joinLines ([l1] ++ [lu, l3])) = .ok r1 →
      analyseX86 model (optsL [49, 44, 51, 45, 52]) (joinLines ([l1] ++ ln :: [lu, l3])) = .ok r2 →
      ∃ (a₀ : Analysis) (g1 g2 : Nat → Nat), Incr g1 ∧ Incr g2 ∧
        SameOnInstr 2 r1.analysis (a₀.rename g1) ∧ SameOnInstr 2 r2.analysis (a₀.rename g2) := by
  refine ⟨by decide +kernel, by decide +kernel, fun r1 r2 h1 h2 => ?_⟩
  exact e2e_noise_transparent_lines .x86 model (optsL [49, 44, 50, 45, 51]) (optsL [49, 44, 51, 45, 52])
    [49, 44, 50, 45, 51] [49, 44, 51, 45, 52] [1, 2, 3] [1, 3, 4] rfl rfl
    (by decide +kernel) (by decide +kernel) rfl rfl [l1] [lu, l3] ln (by simp)
    (by decide +kernel) ex_ln_noise ex_shift_ok r1 r2 h1 h2

theorem ex_names_ok : ∀ n ∈ model.mm.ports, Report.NameOk n ∧ Report.NoNL n := by
  intro n hn
  have : n = [48] ∨ n = [49] := by simpa [model, mm] using hn
  rcases this with rfl | rfl <;> exact ⟨⟨by decide, by decide⟩, by unfold Report.NoNL; decide⟩

theorem ex_reprEx_ok (q : Rat) : Report.TokOk (reprEx q) ∧ Report.WordOk (reprEx q) ∧ Report.NoNL (reprEx q) := by
  have hd : ∀ c ∈ reprEx q, (48 ≤ c ∧ c ≤ 57) ∨ c = 46 := by
    intro c hc
    simp only [reprEx, List.mem_append, List.mem_singleton] at hc
    rcases hc with (h | h) | h
    · have := Fmt.natDigits_digits _ c h
      simp [isDigitC] at this; exact Or.inl this
    · exact Or.inr h
    · split at h <;> simp at h <;> omega
  refine ⟨?_, ⟨?_, ?_⟩, ?_⟩
  · intro c hc
    rcases hd c hc with h | h <;> simp [Spec.Report.isTokC] <;> omega
  · simp [reprEx]
  · intro h; rcases hd 32 h with h | h <;> omega
  · intro h; rcases hd 10 h with h | h <;> omega

/-- `e2e_report_roundtrip` on the file: the hypotheses hold for the example model and `reprEx`, the file is analysed,
    and the table the pipeline prints reads back to the view of its analysis -/
example : checkOk (analyseX86 model opts (joinLines [l1, ln, lu, l3])) (fun _ => true) = true ∧
    ∀ r, analyseX86 model opts (joinLines [l1, ln, lu, l3]) = .ok r →
      Spec.Report.parseTable (Report.combinedView r.report) = some (Report.view r.report) := by
  refine ⟨by decide +kernel, fun r h => ?_⟩
  exact (e2e_report_roundtrip .x86 model opts _ r h (by decide) ex_names_ok ex_reprEx_ok).1

/-- `e2e_per_line_local_files`: line 4 of the long file and line 3 of the short one have the same text, hence the
    same per-instruction data, under different options -/
example : ∀ r1 r2, analyseX86 model opts (joinLines [l1, ln, lu, l3]) = .ok r1 →
    analyseX86 model (optsL [49, 44, 50, 45, 51]) (joinLines [l1, lu, l3]) = .ok r2 →
    ∀ p1 ∈ r1.parsed, ∀ p2 ∈ r2.parsed, p1.text = p2.text → eraseNum p1 = eraseNum p2 :=
  fun r1 r2 h1 h2 p1 hp1 p2 hp2 ht => e2e_per_line_local_files .x86 model _ _ _ _ r1 r2 h1 h2 p1 p2 hp1 hp2 ht

end OsacaVerif.Props.EndToEnd
