import OsacaVerif.Model.LCD
import OsacaVerif.Spec.Deps
import OsacaVerif.Gen.Consts
import OsacaVerif.Lemmas.LCDPaths
import OsacaVerif.Lemmas.LCDPost
import OsacaVerif.Lemmas.DGEdges
import OsacaVerif.Lemmas.Winding
import OsacaVerif.Lemmas.EdgeLocal
import OsacaVerif.Lemmas.LcdChar
import OsacaVerif.Lemmas.CycleNorm
import OsacaVerif.Lemmas.SpecCycles
/-
  C05 — Loop-carried dependencies are exactly the cross-iteration dependency cycles.
  (Model: `LCD.lcd`; independent oracle: `Spec.cycles`.)

  Proved here, for kernels of any length (`WFKernel`: strictly increasing line numbers):
  * `offset_ok`, `double_wf`, `emissions_forward` — the doubled kernel is well-formed, its graph a DAG;
  * `pathsFrom_sound` / `pathsFrom_complete`, `fuel_suffices`, `lcd_paths_exact` — the search returns
    exactly the simple paths `i ⇝ i + offset`;
  * `entry_latency`, `post_dedup`, `post_represents` — the post-processing;
  * `path_increasing`, `winding1_sorted`, `lcd_entry_shape` — one boundary crossing, sorted normal form;
  * `dg_local`, `dg_local_copies` — the edge relation is a function of the stream segment;
  * `lcd_sound`, `lcd_complete`, `lcd_sound_normal`, `lcd_key_collision_free`, `lcd_reported_once` —
    the reported entries are exactly the winding-1 dependency cycles of the stream `k^ω`
    (`IsStreamCycle (streamDep …)`), each reported once with its members and latency sum.
  * `spec_cycles_iff_lcd`, `lcd_found_by_spec_cycles`, `spec_cycles_iff_lcd_doubled` — the executable
    oracle `Spec.cycles` (used by the harness on explicit edge lists) enumerates exactly the same
    `IsStreamCycle` objects: `lcd` and `Spec.cycles` agree as sets of (member lines, latency).
-/
namespace OsacaVerif.Props.C05
open OsacaVerif OsacaVerif.DG OsacaVerif.LCD

theorem foldl_max_ge (l : List Nat) (a : Nat) : a ≤ l.foldl max a ∧ ∀ x ∈ l, x ≤ l.foldl max a := by
  induction l generalizing a with
  | nil => simp
  | cons y ys ih =>
    obtain ⟨h1, h2⟩ := ih (max a y)
    refine ⟨by simp only [List.foldl_cons]; omega, ?_⟩
    intro x hx
    simp only [List.foldl_cons]
    rcases List.mem_cons.mp hx with rfl | hx
    · omega
    · exact h2 x hx

/-- **offset_ok** (∀ kernels, ∀ floors): the renumbering offset of the second copy is strictly larger
    than every line number of the kernel, so `line + offset` never collides with a kernel line and
    `s ≥ offset ↦ s − offset` maps every node back to its own line. -/
theorem offset_ok (floor : Nat) (k : List Ins) : ∀ i ∈ k, i.line < offsetOf floor k := by
  intro i hi
  have h := (foldl_max_ge (k.map (·.line)) 0).2 i.line (List.mem_map.mpr ⟨i, hi, rfl⟩)
  unfold offsetOf; omega

theorem offset_ge_floor (floor : Nat) (k : List Ins) : floor ≤ offsetOf floor k := by
  unfold offsetOf; omega

/-- mapping back is exact: a node of the second copy maps to its original line, a node of the first
    copy is left alone -/
theorem map_back (floor : Nat) (k : List Ins) (i : Ins) (hi : i ∈ k) :
    let off := offsetOf floor k
    (if i.line + off ≥ off then i.line + off - off else i.line + off) = i.line ∧
    (if i.line ≥ off then i.line - off else i.line) = i.line := by
  have := offset_ok floor k i hi
  simp only
  constructor
  · simp
  · rw [if_neg (by omega)]

/-- the two copies have disjoint line numbers -/
theorem double_disjoint (floor : Nat) (k : List Ins) :
    ∀ a ∈ k, ∀ b ∈ k, a.line ≠ b.line + offsetOf floor k := by
  intro a ha b _
  have := offset_ok floor k a ha
  omega

/-- the sorted (line, latency) list of `post` is a permutation-invariant normal form: inserting keeps
    the multiset -/
theorem insertPair_perm (x : Nat × Rat) (l : List (Nat × Rat)) : (insertPair x l).Perm (x :: l) := by
  induction l with
  | nil => simp [insertPair]
  | cons y ys ih =>
    simp only [insertPair]
    split
    · exact List.Perm.refl _
    · exact (List.Perm.cons y ih).trans (List.Perm.swap x y ys)

theorem sortPairs_perm (l : List (Nat × Rat)) : (sortPairs l).Perm l := by
  induction l with
  | nil => simp [sortPairs]
  | cons x xs ih =>
    simp only [sortPairs, List.foldr_cons]
    exact (insertPair_perm x _).trans (List.Perm.cons x ih)

/-! ### the path search returns exactly the simple paths -/

/-- **pathsFrom_sound** (∀ edge lists, fuels, visited sets): every path the depth-first search
    returns is a genuine simple path from `cur` to `tgt` — consecutive elements are edges of `es`
    (`LCD.succs`) carrying the recorded weights, the last edge enters `tgt`, no vertex is repeated,
    `tgt` is not passed through — and it never enters a vertex of `visited`; it has at most `fuel`
    edges.  (`cur ∈ visited` is how the search is always called: `lcd` starts with `[i.line]`.) -/
theorem pathsFrom_sound (es : List Edge) (tgt fuel cur : Nat) (visited : List Nat) (hcur : cur ∈ visited)
    (p : List (Nat × Rat)) (hp : p ∈ pathsFrom es tgt fuel cur visited) :
    IsSimplePath es cur tgt p ∧ Avoids visited p ∧ p.length ≤ fuel := by
  obtain ⟨h1, h2, h3, h4, h5⟩ := pathsFrom_sound_aux es tgt fuel cur visited p hp
  refine ⟨⟨h1, h2, ?_, fun v hv => (h4 v hv).1⟩, fun v hv => (h4 v hv).2, h5⟩
  cases hv : verts p with
  | nil => simp
  | cons a t =>
    rw [hv] at h1 h3 h4
    simp only [List.head?_cons, Option.some.injEq] at h1
    subst h1
    rw [List.nodup_cons]
    exact ⟨fun hm => (h4 a hm).2 hcur, h3⟩

/-- **pathsFrom_complete**: every simple path `cur ⇝ tgt` with at most `fuel` edges that avoids
    `visited` is returned by the search — nothing is missed. -/
theorem pathsFrom_complete (es : List Edge) (tgt fuel cur : Nat) (visited : List Nat) (p : List (Nat × Rat))
    (hs : IsSimplePath es cur tgt p) (ha : Avoids visited p) (hl : p.length ≤ fuel) :
    p ∈ pathsFrom es tgt fuel cur visited := by
  obtain ⟨h1, h2, h3, h4⟩ := hs
  refine pathsFrom_complete_aux es tgt fuel cur visited p h1 h2 ?_ (fun v hv => ⟨h4 v hv, ha v hv⟩) hl
  cases hv : verts p with
  | nil => simp
  | cons a t => rw [hv] at h3; exact (List.nodup_cons.mp h3).2

/-- the search result *is* the set of simple paths of length ≤ fuel avoiding `visited` -/
theorem pathsFrom_iff (es : List Edge) (tgt fuel cur : Nat) (visited : List Nat) (hcur : cur ∈ visited)
    (p : List (Nat × Rat)) :
    p ∈ pathsFrom es tgt fuel cur visited ↔ IsSimplePath es cur tgt p ∧ Avoids visited p ∧ p.length ≤ fuel :=
  ⟨pathsFrom_sound es tgt fuel cur visited hcur p, fun ⟨a, b, c⟩ => pathsFrom_complete es tgt fuel cur visited p a b c⟩

-- non-vacuity: in the diamond 1→2→4, 1→3→4 (plus a back edge 3→1 and a load edge) both simple
-- paths 1 ⇝ 4 satisfy the predicate and are returned; the walk through the back edge is not simple
example :
    let e (a b : Nat) (w : Rat) : Edge := { src := ⟨a, false⟩, dst := ⟨b, false⟩, w := w }
    let es := [e 1 2 1, e 1 3 2, e 2 4 3, e 3 4 5, e 3 1 7, { src := ⟨1, true⟩, dst := ⟨1, false⟩, w := 9 }]
    IsSimplePath es 1 4 [(1, 1), (2, 3)] ∧ Avoids [1] [(1, 1), (2, 3)] ∧
    IsSimplePath es 1 4 [(1, 2), (3, 5)] ∧
    ¬ IsSimplePath es 1 4 [(1, 2), (3, 7), (1, 1), (2, 3)] ∧
    pathsFrom es 4 5 1 [1] = [[(1, 1), (2, 3)], [(1, 2), (3, 5)]] := by
  decide +kernel

/-! ### the post-processing: members, latency, de-duplication -/

/-- **entry_latency** (∀ offsets, ∀ path lists): every reported entry comes from one of the found
    paths `p`; its `(lines, lats)` are that path's normal form (`normPath`: edges mapped back with
    `s ≥ off ↦ s − off`, sorted); hence its `lines` are exactly the path's source vertices mapped
    back (a permutation of them), listed ascending, its `lats` are the edge weights in that order and
    its `latency` is the sum of the edge weights along the path (summed in ℚ, order irrelevant). -/
theorem entry_latency (off : Nat) (paths : List (List (Nat × Rat))) (e : Entry) (he : e ∈ post off paths) :
    ∃ p ∈ paths, e.lines = (normPath off p).map (·.1) ∧ e.lats = (normPath off p).map (·.2) ∧
      e.latency = (p.map (·.2)).sum ∧ e.latency = e.lats.sum ∧
      e.lines.Perm ((verts p).map (backLine off)) ∧ e.lines.Pairwise (· ≤ ·) ∧
      (e.lines.zip e.lats).Perm (p.map (back off)) := by
  rw [post_eq, List.mem_map] at he
  obtain ⟨n, hn, rfl⟩ := he
  obtain ⟨hn, _⟩ := (mem_dedup [] _ n).mp hn
  obtain ⟨p, hp, rfl⟩ := List.mem_map.mp hn
  have hperm : (normPath off p).Perm (p.map (back off)) := sortPairs_perm' _
  refine ⟨p, hp, rfl, rfl, ?_, rfl, ?_, le2_lines (sortPairs_sorted _), ?_⟩
  · have := sum_perm (hperm.map (·.2))
    simpa [mkEntry, back, Function.comp_def] using this
  · have := hperm.map (·.1)
    simpa [mkEntry, back, verts, Function.comp_def] using this
  · simpa [mkEntry, zip_fst_snd] using hperm

/-- **post_dedup**: no two reported entries have the same (lines, latencies) lists — each normal
    form is reported at most once. -/
theorem post_dedup (off : Nat) (paths : List (List (Nat × Rat))) :
    (post off paths).Pairwise (fun a b => ¬ (a.lines = b.lines ∧ a.lats = b.lats)) := by
  rw [post_eq, List.pairwise_map]
  refine (dedup_nodup [] _).imp ?_
  intro a b hab h
  exact hab (pairs_ext h.1 h.2)

/-- **post_represents**: every found path is represented — there is an entry carrying its normal
    form — and by exactly one entry (`countP … = 1`). -/
theorem post_represents (off : Nat) (paths : List (List (Nat × Rat))) (p : List (Nat × Rat)) (hp : p ∈ paths) :
    (∃ e ∈ post off paths, e.lines = (normPath off p).map (·.1) ∧ e.lats = (normPath off p).map (·.2)) ∧
    (post off paths).countP (fun e => decide (e.lines = (normPath off p).map (·.1) ∧
      e.lats = (normPath off p).map (·.2))) = 1 := by
  have hmem : normPath off p ∈ post.dedup [] (paths.map (normPath off)) :=
    (mem_dedup [] _ _).mpr ⟨List.mem_map.mpr ⟨p, hp, rfl⟩, by simp⟩
  refine ⟨⟨mkEntry (normPath off p), by rw [post_eq]; exact List.mem_map.mpr ⟨_, hmem, rfl⟩, rfl, rfl⟩, ?_⟩
  rw [post_eq, List.countP_map]
  have hc := (dedup_nodup [] (paths.map (normPath off))).count (a := normPath off p)
  rw [if_pos hmem, List.count_eq_countP] at hc
  rw [← hc]
  apply List.countP_congr
  intro x _
  simp only [Function.comp_apply]
  rw [decide_eq_true_iff, beq_iff_eq]
  simp only [mkEntry]
  constructor
  · rintro ⟨h1, h2⟩; exact pairs_ext h1 h2
  · rintro rfl; exact ⟨rfl, rfl⟩

-- non-vacuity: two rotations of the same cycle (found from line 3 and from line 5) and a second
-- cycle: mapped back and sorted the first two coincide and are reported once, latency 1 + 4 = 5
example :
    (post 1000 [[(3, 1), (5, 4)], [(5, 4), (1003, 1)], [(4, 2)]]).map (fun e => (e.lines, e.lats, e.latency)) =
      [([3, 5], [1, 4], 5), ([4], [2], 2)] := by
  decide +kernel

/-! ### forward edges, one boundary crossing, sorted normal form -/

/-- **emissions_forward** (∀ kernels with strictly increasing lines): every edge of the dependency
    graph whose source is an instruction node goes to a strictly larger line (the graph is a DAG in
    line order); with `dedupLast_subset` and `Props.C03.findDepending_forward`. -/
theorem emissions_forward (isa : Isa) (fd : Bool) (par : Params) (k : List Ins) (hwf : WFKernel k) :
    ForwardEdges (create isa fd par k) := by
  intro e he hs
  exact (emissions_shape isa fd par k hwf e (dedupLast_subset _ e he)).2.1 hs

/-- every edge of the graph joins lines of the kernel and enters an instruction node -/
theorem create_nodes (isa : Isa) (fd : Bool) (par : Params) (k : List Ins) (hwf : WFKernel k) :
    ∀ e ∈ create isa fd par k, e.dst.load = false ∧ (∃ p ∈ k, p.line = e.src.line) ∧ (∃ c ∈ k, c.line = e.dst.line) := by
  intro e he
  have := emissions_shape isa fd par k hwf e (dedupLast_subset _ e he)
  exact ⟨this.1, this.2.2.2⟩

/-- **double_wf**: the doubled kernel (second copy renumbered by the offset) again has strictly
    increasing lines — because the offset exceeds every line (`offset_ok`). -/
theorem double_wf (floor : Nat) (k : List Ins) (hwf : WFKernel k) : WFKernel (double (offsetOf floor k) k) := by
  unfold WFKernel double at *
  rw [List.map_append, List.pairwise_append]
  refine ⟨hwf, ?_, ?_⟩
  · rw [List.map_map, List.pairwise_map]
    rw [List.pairwise_map] at hwf
    exact hwf.imp (fun h => by simp only [Function.comp_apply]; omega)
  · intro a ha b hb
    obtain ⟨x, hx, rfl⟩ := List.mem_map.mp ha
    obtain ⟨y', hy', rfl⟩ := List.mem_map.mp hb
    obtain ⟨y, _, rfl⟩ := List.mem_map.mp hy'
    have := offset_ok floor k x hx
    simp only; omega

/-- **path_increasing**: on a graph with forward edges every path the search returns has strictly
    increasing vertices, all smaller than the target. -/
theorem path_increasing (es : List Edge) (hf : ForwardEdges es) (tgt fuel cur : Nat) (visited : List Nat)
    (p : List (Nat × Rat)) (hp : p ∈ pathsFrom es tgt fuel cur visited) :
    (verts p ++ [tgt]).Pairwise (· < ·) :=
  walk_increasing es hf tgt p (pathsFrom_sound_aux es tgt fuel cur visited p hp).2.1

/-- **winding1_sorted**: a path `i ⇝ i + off` over forward edges crosses from the first kernel copy
    (`< off`) to the second (`≥ off`) exactly once — it *is* its first-copy part followed by its
    second-copy part; mapped back modulo `off` and sorted it is the second part followed by the first
    (listed from its smallest line it is ascending); the resulting lines are strictly ascending, so
    every instruction occurs at most once, and the path's vertices are recovered from its start and
    its member lines: the key (the line list) determines the member set and, with the start, the path. -/
theorem winding1_sorted (es : List Edge) (hf : ForwardEdges es) (off i fuel : Nat) (visited : List Nat)
    (p : List (Nat × Rat)) (hp : p ∈ pathsFrom es (i + off) fuel i visited) :
    p = firstCopy off p ++ secondCopy off p ∧
    normPath off p = (secondCopy off p).map (back off) ++ firstCopy off p ∧
    ((normPath off p).map (·.1)).Pairwise (· < ·) ∧
    verts p = ((normPath off p).map (·.1)).filter (fun l => i ≤ l) ++
      (((normPath off p).map (·.1)).filter (fun l => l < i)).map (· + off) := by
  have hinc := path_increasing es hf (i + off) fuel i visited p hp
  have hhead := (pathsFrom_sound_aux es (i + off) fuel i visited p hp).1
  obtain ⟨h1, h2, h3⟩ := winding_norm off i p hinc hhead
  exact ⟨h1, h2, h3, verts_of_lines off i p hinc hhead⟩

/-- the doubled graph the LCD search runs on -/
def lcdGraph (isa : Isa) (fd : Bool) (par : Params) (floor : Nat) (k : List Ins) : List Edge :=
  create isa fd par (double (offsetOf floor k) k)

/-- **fuel_suffices**: in the doubled graph of a well-formed kernel every simple path has at most
    `2·|k|` edges, so the fuel `2·|k| + 1` of `lcd` never cuts a path off. -/
theorem fuel_suffices (isa : Isa) (fd : Bool) (par : Params) (floor : Nat) (k : List Ins) (hwf : WFKernel k)
    (src tgt : Nat) (p : List (Nat × Rat)) (hp : IsSimplePath (lcdGraph isa fd par floor k) src tgt p) :
    p.length ≤ 2 * k.length := by
  obtain ⟨_, hw, hn, _⟩ := hp
  have hsub : verts p ⊆ (double (offsetOf floor k) k).map (·.line) := by
    intro v hv
    obtain ⟨x, hx, rfl⟩ := List.mem_map.mp hv
    have hmem : ∀ (q : List (Nat × Rat)), IsWalk (lcdGraph isa fd par floor k) tgt q → ∀ y ∈ q,
        ∃ m w, (m, w) ∈ succs (lcdGraph isa fd par floor k) y.1 := by
      intro q
      induction q with
      | nil => intro _ y hy; cases hy
      | cons z zs ih =>
        intro hq y hy
        rcases List.mem_cons.mp hy with rfl | hy
        · exact ⟨_, _, hq.1⟩
        · exact ih hq.2 y hy
    obtain ⟨m, w, hmw⟩ := hmem p hw x hx
    simp only [succs, List.mem_filterMap] at hmw
    obtain ⟨e, he, hc⟩ := hmw
    by_cases hcond : (!e.src.load && e.src.line == x.1 && !e.dst.load) = true
    · simp only [Bool.and_eq_true, Bool.not_eq_true', beq_iff_eq] at hcond
      obtain ⟨_, ⟨q, hq, hql⟩, _⟩ := create_nodes isa fd par _ (double_wf floor k hwf) e he
      exact List.mem_map.mpr ⟨q, hq, by rw [hql, hcond.1.2]⟩
    · rw [if_neg hcond] at hc; cases hc
  have := hn.length_le_of_subset hsub
  simpa [verts, double, Nat.two_mul] using this

/-- **lcd_paths_exact**: for a well-formed kernel the paths `lcd` hands to the post-processing are
    exactly the simple paths `line ⇝ line + offset` of the doubled graph, for the lines of the kernel
    (no fuel bound left in the statement). -/
theorem lcd_paths_exact (isa : Isa) (fd : Bool) (par : Params) (floor : Nat) (k : List Ins) (hwf : WFKernel k)
    (i : Ins) (p : List (Nat × Rat)) :
    p ∈ pathsFrom (lcdGraph isa fd par floor k) (i.line + offsetOf floor k) (2 * k.length + 1) i.line [i.line] ↔
      IsSimplePath (lcdGraph isa fd par floor k) i.line (i.line + offsetOf floor k) p := by
  rw [pathsFrom_iff _ _ _ _ _ (by simp)]
  constructor
  · exact fun h => h.1
  · intro h
    refine ⟨h, ?_, by have := fuel_suffices isa fd par floor k hwf _ _ p h; omega⟩
    intro v hv hc
    obtain ⟨h1, _, h3, _⟩ := h
    cases hp : verts p with
    | nil => rw [hp] at hv; cases hv
    | cons a t =>
      rw [hp] at h1 h3 hv
      simp only [List.head?_cons, Option.some.injEq] at h1
      simp only [List.mem_singleton] at hc
      subst h1 hc
      exact (List.nodup_cons.mp h3).1 hv

/-- **lcd_entry_shape**: every entry `lcd` reports for a well-formed kernel comes from a simple
    path `i ⇝ i + offset` (for an instruction `i` of the kernel) in the doubled graph; its lines are
    strictly ascending (each member once), they are that path's vertices mapped back, and its
    latency is the sum of the path's edge weights. -/
theorem lcd_entry_shape (isa : Isa) (fd : Bool) (par : Params) (floor : Nat) (k : List Ins) (hwf : WFKernel k)
    (e : Entry) (he : e ∈ lcd isa fd par floor k) :
    ∃ i ∈ k, ∃ p, IsSimplePath (lcdGraph isa fd par floor k) i.line (i.line + offsetOf floor k) p ∧
      e.lines = (normPath (offsetOf floor k) p).map (·.1) ∧ e.lats = (normPath (offsetOf floor k) p).map (·.2) ∧
      e.lines.Pairwise (· < ·) ∧ e.lines.Perm ((verts p).map (backLine (offsetOf floor k))) ∧
      e.latency = (p.map (·.2)).sum := by
  obtain ⟨p, hp, h1, h2, h3, _, h5, _, _⟩ := entry_latency _ _ e he
  obtain ⟨i, hi, hp⟩ := List.mem_flatMap.mp hp
  have hf : ForwardEdges (lcdGraph isa fd par floor k) := emissions_forward isa fd par _ (double_wf floor k hwf)
  have hw := winding1_sorted _ hf _ _ _ _ p hp
  refine ⟨i, hi, p, (lcd_paths_exact isa fd par floor k hwf i p).mp hp, h1, h2, ?_, h5, h3⟩
  rw [h1]; exact hw.2.2.1

-- non-vacuity: a concrete well-formed kernel (lines 3 < 4 < 7), its doubled kernel is well-formed,
-- its graph has forward edges; a concrete winding-1 path and its normal form
example :
    let r (n : String) : Op := .reg { name := Text.ofString n }
    let mk (line : Nat) (src dst sd : List Op) (lat : Rat) : Ins :=
      { line := line, src := src, dst := dst, srcDst := sd, lat := lat, latWoLoad := none, hasLd := false,
        isLd := false, changes := [], changesPost := [] }
    let k := [mk 3 [r "rbx"] [r "rax"] [] 4, mk 4 [r "rax"] [r "rcx"] [] 1, mk 7 [r "rcx"] [r "rbx"] [] 2]
    WFKernel k ∧ WFKernel (double (offsetOf 1000 k) k) ∧ ForwardEdges (create .x86 false {} (double (offsetOf 1000 k) k)) ∧
    pathsFrom (lcdGraph .x86 false {} 1000 k) 1004 7 4 [4] = [[(4, 1), (7, 2), (1003, 4)]] ∧
    normPath 1000 [(4, 1), (7, 2), (1003, 4)] = [(3, 4), (4, 1), (7, 2)] ∧
    (lcd .x86 false {} 1000 k).map (fun e => (e.lines, e.latency)) = [([3, 4, 7], 7)] := by
  decide +kernel

/-! ### locality of the edge relation -/

/-- **dg_local** (∀ well-formed kernels, ∀ decompositions `K = pre ++ p :: seg ++ c :: more`): the
    edge `p → c` is in the graph of `K` with weight `w` iff `depW p seg c = some w`, where `depW`
    looks only at the producer, the segment strictly between, and the consumer — never at `pre` or
    `more`, and never at line numbers (`depW_erase`). -/
theorem dg_local (isa : Isa) (fd : Bool) (par : Params) (pre : List Ins) (p : Ins) (seg : List Ins) (c : Ins)
    (more : List Ins) (hwf : WFKernel (pre ++ p :: (seg ++ c :: more))) (w : Rat) :
    (({ src := ⟨p.line, false⟩, dst := ⟨c.line, false⟩, w := w } : Edge) ∈
        create isa fd par (pre ++ p :: (seg ++ c :: more)) ↔ depW isa fd par p seg c = some w) ∧
    depW isa fd par (eraseLine p) (seg.map eraseLine) (eraseLine c) = depW isa fd par p seg c :=
  ⟨edge_local isa fd par pre p seg c more hwf w, depW_erase isa fd par p seg c⟩

/-- **dg_local_copies**: in the doubled kernel the sub-graphs on the first copy and on the second
    copy both coincide with the graph of the kernel itself: the edge `p → c` of `k`, the edge
    `p → c` of the first copy and the edge `p + off → c + off` of the second copy exist together and
    carry the same weight. -/
theorem dg_local_copies (isa : Isa) (fd : Bool) (par : Params) (floor : Nat) (pre : List Ins) (p : Ins)
    (seg : List Ins) (c : Ins) (more : List Ins) (hwf : WFKernel (pre ++ p :: (seg ++ c :: more))) (w : Rat) :
    let k := pre ++ p :: (seg ++ c :: more)
    let off := offsetOf floor k
    ((({ src := ⟨p.line, false⟩, dst := ⟨c.line, false⟩, w := w } : Edge) ∈ create isa fd par k) ↔
      depW isa fd par p seg c = some w) ∧
    ((({ src := ⟨p.line, false⟩, dst := ⟨c.line, false⟩, w := w } : Edge) ∈ create isa fd par (double off k)) ↔
      depW isa fd par p seg c = some w) ∧
    ((({ src := ⟨p.line + off, false⟩, dst := ⟨c.line + off, false⟩, w := w } : Edge) ∈
      create isa fd par (double off k)) ↔ depW isa fd par p seg c = some w) := by
  intro k off
  have hwfK := double_wf floor k hwf
  refine ⟨edge_local isa fd par pre p seg c more hwf w, ?_, ?_⟩
  · have e : double off k = pre ++ p :: (seg ++ c :: (more ++ k.map (fun i => { i with line := i.line + off }))) := by
      simp [double, k]
    rw [e] at hwfK ⊢
    exact edge_local isa fd par pre p seg _ _ hwfK w
  · let sh : Ins → Ins := fun i => { i with line := i.line + off }
    have e : double off k = (k ++ pre.map sh) ++ sh p :: (seg.map sh ++ sh c :: more.map sh) := by
      simp [double, k, sh]
    rw [e] at hwfK ⊢
    have h := edge_local isa fd par (k ++ pre.map sh) (sh p) (seg.map sh) (sh c) (more.map sh) hwfK w
    have h2 : depW isa fd par (sh p) (seg.map sh) (sh c) = depW isa fd par p seg c := by
      rw [← depW_erase isa fd par (sh p), ← depW_erase isa fd par p, List.map_map]
      rfl
    rw [← h2]
    exact h

/-! ### the reported entries are exactly the winding-1 dependency cycles of the stream -/

/-- members of a stream cycle as (line of the body instruction, edge latency leaving it) -/
def cycleMembers (k : List Ins) (a : List (Nat × Rat)) : List (Nat × Rat) :=
  a.map (fun x => (lineAt k (x.1 % k.length), x.2))

/-- **lcd_sound** (∀ well-formed kernels): every reported entry is a dependency cycle of the
    infinite repetition of the body — an ascending list of stream positions starting inside the
    first iteration, each depending (`streamDep`, the dependency relation of `k^ω`) on the previous
    one and closed by the dependency of the first instruction's next occurrence on the last; the
    entry's (line, latency) pairs are exactly the cycle's members and its latency is the sum of the
    edge latencies along the cycle. -/
theorem lcd_sound (isa : Isa) (fd : Bool) (par : Params) (floor : Nat) (k : List Ins) (hwf : WFKernel k)
    (e : Entry) (he : e ∈ lcd isa fd par floor k) :
    ∃ a, IsStreamCycle (streamDep isa fd par k) k.length a ∧ StartsBelow k.length a ∧
      (e.lines.zip e.lats).Perm (cycleMembers k a) ∧ e.latency = (a.map (·.2)).sum := by
  obtain ⟨p, hp, _, _, hlat, _, _, _, hzip⟩ := entry_latency _ _ e he
  obtain ⟨i, hi, hp⟩ := List.mem_flatMap.mp hp
  have hwfK := double_wf floor k hwf
  have hsimple := (lcd_paths_exact isa fd par floor k hwf i p).mp hp
  obtain ⟨s, hs, rfl⟩ := List.getElem_of_mem hi
  have hl1 : k[s].line = lineAt (double (offsetOf floor k) k) s := by
    rw [lineAt_double_first _ k s hs, lineAt_lt k s hs]
  have hl2 : k[s].line + offsetOf floor k = lineAt (double (offsetOf floor k) k) (s + k.length) := by
    rw [lineAt_double_second _ k s hs, lineAt_lt k s hs]
  obtain ⟨hhead, hwalk, _, _⟩ := hsimple
  rw [hl2] at hwalk
  obtain ⟨a, rfl, ha, hc⟩ := walk_to_chain isa fd par _ k hwfK (s + k.length) (by omega) p hwalk
  cases a with
  | nil => simp [toLine, verts] at hhead
  | cons x rest =>
    have hx : x.1 = s := by
      have h1 : lineAt (double (offsetOf floor k) k) x.1 = lineAt (double (offsetOf floor k) k) s := by
        rw [← hl1]; simpa [toLine, verts] using hhead
      have := ha x List.mem_cons_self
      exact wf_lineAt_inj _ hwfK _ _ (by rw [double_length]; exact this) (by rw [double_length]; omega) h1
    refine ⟨x :: rest, ?_, ?_, ?_, ?_⟩
    · show Chain _ (x.1 + k.length) (x :: rest)
      rw [hx]; exact hc
    · show x.1 < k.length
      omega
    · refine hzip.trans (List.Perm.of_eq ?_)
      simp only [toLine, cycleMembers, List.map_map]
      apply List.map_congr_left
      intro y hy
      simp only [Function.comp_apply, back]
      rw [backLine_double _ k (offset_ok floor k) y.1 (ha y hy)]
    · rw [hlat]; simp [toLine, Function.comp_def]

/-- **lcd_complete** (∀ well-formed kernels): conversely every dependency cycle of the stream that
    starts inside the first iteration is reported: there is an entry with exactly its members and
    the sum of its edge latencies.  (Together with `post_dedup` — entries are pairwise different —
    and `lcd_entry_shape` — strictly ascending lines — each cycle, as a member set, is reported once.) -/
theorem lcd_complete (isa : Isa) (fd : Bool) (par : Params) (floor : Nat) (k : List Ins) (hwf : WFKernel k)
    (a : List (Nat × Rat)) (hcyc : IsStreamCycle (streamDep isa fd par k) k.length a) (hstart : StartsBelow k.length a) :
    ∃ e ∈ lcd isa fd par floor k, (e.lines.zip e.lats).Perm (cycleMembers k a) ∧ e.latency = (a.map (·.2)).sum := by
  cases a with
  | nil => exact absurd hcyc (fun h => h)
  | cons x rest =>
    have hwfK := double_wf floor k hwf
    have hxn : x.1 < k.length := hstart
    have hb := cycle_bounds _ _ x rest hcyc
    have ha : ∀ y ∈ x :: rest, y.1 < 2 * k.length := fun y hy => by have := (hb y hy).2; omega
    have hc : Chain (streamDep isa fd par k) (x.1 + k.length) (x :: rest) := hcyc
    have hwalk := chain_to_walk isa fd par (offsetOf floor k) k hwfK (x.1 + k.length) (by omega) (x :: rest) ha hc
    have hl1 : lineAt (double (offsetOf floor k) k) x.1 = k[x.1].line := by
      rw [lineAt_double_first _ k x.1 hxn, lineAt_lt k x.1 hxn]
    have hl2 : lineAt (double (offsetOf floor k) k) (x.1 + k.length) = k[x.1].line + offsetOf floor k := by
      rw [lineAt_double_second _ k x.1 hxn, lineAt_lt k x.1 hxn]
    rw [hl2] at hwalk
    have hf : ForwardEdges (lcdGraph isa fd par floor k) := emissions_forward isa fd par _ hwfK
    have hinc := walk_increasing _ hf _ _ hwalk
    have hsimple : IsSimplePath (lcdGraph isa fd par floor k) k[x.1].line (k[x.1].line + offsetOf floor k)
        (toLine (double (offsetOf floor k) k) (x :: rest)) := by
      have hpw := List.pairwise_append.mp hinc
      refine ⟨by simp [toLine, verts, hl1], hwalk, ?_, ?_⟩
      · exact hpw.1.imp (fun h => Nat.ne_of_lt h)
      · intro v hv
        have := hpw.2.2 v (List.mem_of_mem_tail hv) _ (List.mem_singleton.mpr rfl)
        omega
    have hp := (lcd_paths_exact isa fd par floor k hwf k[x.1] _).mpr hsimple
    have hmem : toLine (double (offsetOf floor k) k) (x :: rest) ∈
        k.flatMap (fun i => pathsFrom (lcdGraph isa fd par floor k) (i.line + offsetOf floor k) (2 * k.length + 1) i.line [i.line]) :=
      List.mem_flatMap.mpr ⟨k[x.1], List.getElem_mem hxn, hp⟩
    obtain ⟨⟨e, he, hlines, hlats⟩, _⟩ := post_represents (offsetOf floor k) _ _ hmem
    refine ⟨e, he, ?_, ?_⟩
    · rw [hlines, hlats, zip_fst_snd]
      refine (sortPairs_perm' _).trans (List.Perm.of_eq ?_)
      simp only [toLine, cycleMembers, List.map_map]
      apply List.map_congr_left
      intro y hy
      simp only [Function.comp_apply, back]
      rw [backLine_double _ k (offset_ok floor k) y.1 (ha y hy)]
    · obtain ⟨_, _, _, _, _, h1, _⟩ := entry_latency _ _ e he
      rw [h1, hlats]
      have := sum_perm ((sortPairs_perm' ((toLine (double (offsetOf floor k) k) (x :: rest)).map (back (offsetOf floor k)))).map (·.2))
      rw [normPath, this]
      simp [toLine, back, Function.comp_def]

/-! ### each cycle is reported once: the key (the line list) determines the entry -/

/-- **lcd_sound_normal** (∀ well-formed kernels): every reported entry *is*, literally, a dependency
    cycle of the stream in normal form: positions `b₀ < b₁ < … < bₘ₋₁` inside the body, each
    depending on the previous one and `b₀`'s next occurrence depending on `bₘ₋₁`; the entry's lines
    are the lines at these positions (in this order), its latencies the edge latencies leaving them. -/
theorem lcd_sound_normal (isa : Isa) (fd : Bool) (par : Params) (floor : Nat) (k : List Ins) (hwf : WFKernel k)
    (e : Entry) (he : e ∈ lcd isa fd par floor k) :
    ∃ b, IsStreamCycle (streamDep isa fd par k) k.length b ∧ (∀ y ∈ b, y.1 < k.length) ∧
      (verts b).Pairwise (· < ·) ∧ e.lines = b.map (fun y => lineAt k y.1) ∧ e.lats = b.map (·.2) ∧
      e.latency = (b.map (·.2)).sum := by
  obtain ⟨a, hc, hst, hperm, _⟩ := lcd_sound isa fd par floor k hwf e he
  obtain ⟨p, _, hl, ht, _, hsum, _⟩ := entry_latency _ _ e he
  obtain ⟨hbc, hblt, hbinc, hbperm⟩ := cycle_normal _ k.length (streamDep_periodic isa fd par k) a hc hst
  have hzip : e.lines.zip e.lats = normPath (offsetOf floor k) p := by rw [hl, ht, zip_fst_snd]
  -- the candidate: the normal-form cycle read as (line, latency) pairs
  have hbounds : ∀ y ∈ a, y.1 < 2 * k.length := by
    cases a with
    | nil => intro y hy; cases hy
    | cons x rest =>
      intro y hy
      have := (cycle_bounds _ _ x rest hc y hy).2
      have hx : x.1 < k.length := hst
      omega
  have hcperm : ((normPath k.length a).map (fun y => (lineAt k y.1, y.2))).Perm (cycleMembers k a) := by
    refine (hbperm.map _).trans (List.Perm.of_eq ?_)
    simp only [cycleMembers, List.map_map]
    apply List.map_congr_left
    intro y hy
    have hy2 := hbounds y hy
    simp only [Function.comp_apply, back, backLine]
    by_cases hlt : y.1 < k.length
    · rw [if_neg (by omega), Nat.mod_eq_of_lt hlt]
    · rw [if_pos (by omega), Nat.mod_eq_sub_mod (by omega), Nat.mod_eq_of_lt (by omega)]
  have hcsorted : ((normPath k.length a).map (fun y => (lineAt k y.1, y.2))).Pairwise le2 := by
    rw [List.pairwise_map]
    have : (normPath k.length a).Pairwise (fun x y => x.1 < y.1) := by
      simpa [verts, List.pairwise_map] using hbinc
    refine this.imp_of_mem ?_
    intro x y hx hy hxy
    exact Or.inl (wf_lineAt_lt k hwf x.1 y.1 hxy (hblt y hy))
  have heq : e.lines.zip e.lats = (normPath k.length a).map (fun y => (lineAt k y.1, y.2)) := by
    refine List.Perm.eq_of_pairwise (le := le2) (fun _ _ _ _ h1 h2 => le2_antisymm h1 h2) ?_ hcsorted
      (hperm.trans hcperm.symm)
    rw [hzip]; exact sortPairs_sorted _
  refine ⟨normPath k.length a, hbc, hblt, hbinc, ?_, ?_, ?_⟩
  · have : e.lines = (e.lines.zip e.lats).map (·.1) := by rw [hzip, hl]
    rw [this, heq, List.map_map]; rfl
  · have : e.lats = (e.lines.zip e.lats).map (·.2) := by rw [hzip, ht]
    rw [this, heq, List.map_map]; rfl
  · have : e.lats = (e.lines.zip e.lats).map (·.2) := by rw [hzip, ht]
    rw [hsum, this, heq, List.map_map]; rfl

/-- **lcd_key_collision_free**: the member lines determine the entry — two reported entries with the
    same line list have the same latencies (they are the same cycle).  So keying the result by the
    joined line numbers, as the code does, loses nothing. -/
theorem lcd_key_collision_free (isa : Isa) (fd : Bool) (par : Params) (floor : Nat) (k : List Ins) (hwf : WFKernel k)
    (e1 e2 : Entry) (h1 : e1 ∈ lcd isa fd par floor k) (h2 : e2 ∈ lcd isa fd par floor k)
    (hlines : e1.lines = e2.lines) : e1.lats = e2.lats ∧ e1.latency = e2.latency := by
  obtain ⟨b1, hc1, hlt1, _, hl1, ht1, hs1⟩ := lcd_sound_normal isa fd par floor k hwf e1 h1
  obtain ⟨b2, hc2, hlt2, _, hl2, ht2, hs2⟩ := lcd_sound_normal isa fd par floor k hwf e2 h2
  have hv : verts b1 = verts b2 := by
    apply map_inj_on (lineAt k)
    · intro x hx y hy hxy
      obtain ⟨x', hx', rfl⟩ := List.mem_map.mp hx
      obtain ⟨y', hy', rfl⟩ := List.mem_map.mp hy
      exact wf_lineAt_inj k hwf _ _ (hlt1 x' hx') (hlt2 y' hy') hxy
    · have := hl1.symm.trans (hlines.trans hl2)
      simpa [verts, List.map_map, Function.comp_def] using this
  have hb : b1 = b2 := by
    cases b1 with
    | nil => exact absurd hc1 (fun h => h)
    | cons x1 r1 =>
      cases b2 with
      | nil => exact absurd hc2 (fun h => h)
      | cons x2 r2 =>
        have hx : x1.1 = x2.1 := by simpa [verts] using congrArg List.head? hv
        have hc1' : Chain (streamDep isa fd par k) (x1.1 + k.length) (x1 :: r1) := hc1
        have hc2' : Chain (streamDep isa fd par k) (x2.1 + k.length) (x2 :: r2) := hc2
        rw [← hx] at hc2'
        exact chain_determined _ _ _ _ hc1' hc2' hv
  subst hb
  exact ⟨ht1.trans ht2.symm, hs1.trans hs2.symm⟩

/-- **lcd_reported_once**: no two reported entries have the same member lines — each dependency
    cycle (as a set of member instructions) is reported exactly once. -/
theorem lcd_reported_once (isa : Isa) (fd : Bool) (par : Params) (floor : Nat) (k : List Ins) (hwf : WFKernel k) :
    (lcd isa fd par floor k).Pairwise (fun a b => a.lines ≠ b.lines) := by
  have hd : (lcd isa fd par floor k).Pairwise (fun a b => ¬ (a.lines = b.lines ∧ a.lats = b.lats)) :=
    post_dedup _ _
  refine hd.imp_of_mem ?_
  intro a b ha hb hab hl
  exact hab ⟨hl, (lcd_key_collision_free isa fd par floor k hwf a b ha hb hl).1⟩

-- non-vacuity: in the three-instruction ring (3 → 4 → 7 → 3') the stream positions 1 → 2 → 3 (= 0 one
-- iteration later) → 4 (= 1 one iteration later) form a cycle starting inside the body; its members
-- are the lines 4, 7, 3 with the latencies 1, 2, 4 — the entry `lcd` reports has lines [3, 4, 7], latency 7
example :
    let r (n : String) : Op := .reg { name := Text.ofString n }
    let mk (line : Nat) (src dst sd : List Op) (lat : Rat) : Ins :=
      { line := line, src := src, dst := dst, srcDst := sd, lat := lat, latWoLoad := none, hasLd := false,
        isLd := false, changes := [], changesPost := [] }
    let k := [mk 3 [r "rbx"] [r "rax"] [] 4, mk 4 [r "rax"] [r "rcx"] [] 1, mk 7 [r "rcx"] [r "rbx"] [] 2]
    IsStreamCycle (streamDep .x86 false {} k) 3 [(1, 1), (2, 2), (3, 4)] ∧ StartsBelow 3 [(1, (1 : Rat)), (2, 2), (3, 4)] ∧
    cycleMembers k [(1, 1), (2, 2), (3, 4)] = [(4, 1), (7, 2), (3, 4)] ∧
    ¬ IsStreamCycle (streamDep .x86 false {} k) 3 [(1, 1), (3, 4)] := by
  decide +kernel

-- non-vacuity: a two-instruction accumulation loop has exactly one loop-carried cycle
example :
    let r (n : String) : Op := .reg { name := Text.ofString n }
    let mk (line : Nat) (src dst sd : List Op) (lat : Rat) : Ins :=
      { line := line, src := src, dst := dst, srcDst := sd, lat := lat, latWoLoad := none, hasLd := false,
        isLd := false, changes := [], changesPost := [] }
    (lcd .x86 false {} 1000 [mk 3 [r "xmm1"] [] [r "xmm0"] 4, mk 4 [r "rax"] [] [r "rbx"] 1]).map
      (fun e => (e.lines, e.latency)) = [([3], 4), ([4], 1)] := by
  decide +kernel

/-! ### the executable oracle `Spec.cycles` enumerates the same cycles -/

/-- instruction → instruction edges of a dependency graph as explicit weighted edges over lines -/
def instrEdges (es : List Edge) : List Spec.WEdge :=
  es.filterMap fun e => if !e.src.load && !e.dst.load then some ⟨e.src.line, e.dst.line, e.w⟩ else none

theorem mem_instrEdges (es : List Edge) (e : Spec.WEdge) :
    e ∈ instrEdges es ↔ (e.dst, e.w) ∈ succs es e.src := by
  rw [mem_succs]
  simp only [instrEdges, List.mem_filterMap]
  constructor
  · rintro ⟨g, hg, h⟩
    by_cases hc : (!g.src.load && !g.dst.load) = true
    · rw [if_pos hc] at h
      simp only [Bool.and_eq_true, Bool.not_eq_true'] at hc
      simp only [Option.some.injEq] at h
      subst h
      obtain ⟨⟨sl, sb⟩, ⟨dl, db⟩, gw⟩ := g
      simp only at hc
      obtain ⟨rfl, rfl⟩ := hc
      exact hg
    · rw [if_neg hc] at h; cases h
  · intro h
    exact ⟨_, h, by simp⟩

/-- `intra`: the instruction → instruction edges of the kernel's own graph -/
def intraOf (isa : Isa) (fd : Bool) (par : Params) (k : List Ins) : List Spec.WEdge :=
  instrEdges (create isa fd par k)

/-- `cross`: the edges of the doubled kernel from the first copy into the second, target mapped back -/
def crossOf (isa : Isa) (fd : Bool) (par : Params) (floor : Nat) (k : List Ins) : List Spec.WEdge :=
  (instrEdges (lcdGraph isa fd par floor k)).filterMap fun e =>
    if e.src < offsetOf floor k ∧ offsetOf floor k ≤ e.dst then
      some ⟨e.src, e.dst - offsetOf floor k, e.w⟩ else none

/-- `intra` as the harness extracts it: the edges of the doubled kernel inside the first copy -/
def intraDoubledOf (isa : Isa) (fd : Bool) (par : Params) (floor : Nat) (k : List Ins) : List Spec.WEdge :=
  (instrEdges (lcdGraph isa fd par floor k)).filter fun e =>
    decide (e.src < offsetOf floor k ∧ e.dst < offsetOf floor k)

theorem mem_crossOf (isa : Isa) (fd : Bool) (par : Params) (floor : Nat) (k : List Ins) (e : Spec.WEdge) :
    e ∈ crossOf isa fd par floor k ↔
      e.src < offsetOf floor k ∧ (e.dst + offsetOf floor k, e.w) ∈ succs (lcdGraph isa fd par floor k) e.src := by
  simp only [crossOf, List.mem_filterMap]
  constructor
  · rintro ⟨g, hg, h⟩
    by_cases hc : g.src < offsetOf floor k ∧ offsetOf floor k ≤ g.dst
    · rw [if_pos hc] at h
      simp only [Option.some.injEq] at h
      subst h
      have := (mem_instrEdges _ g).mp hg
      simp only
      rw [Nat.sub_add_cancel hc.2]
      exact ⟨hc.1, this⟩
    · rw [if_neg hc] at h; cases h
  · rintro ⟨h1, h2⟩
    refine ⟨⟨e.src, e.dst + offsetOf floor k, e.w⟩, (mem_instrEdges _ _).mpr h2, ?_⟩
    rw [if_pos ⟨h1, by simp⟩]
    simp

theorem lines_eq_range (k : List Ins) : k.map (·.line) = (List.range k.length).map (lineAt k) := by
  apply List.ext_getElem
  · simp
  · intro i h1 h2
    have hi : i < k.length := by simpa using h1
    simp [lineAt, hi]

/-- inside the body the successor relation of the kernel's own graph is the stream relation -/
theorem succs_body_iff (isa : Isa) (fd : Bool) (par : Params) (k : List Ins) (hwf : WFKernel k) (x y : Nat)
    (hxy : x < y) (hy : y < k.length) (w : Rat) :
    (lineAt k y, w) ∈ succs (create isa fd par k) (lineAt k x) ↔ streamDep isa fd par k x y = some w := by
  rw [edge_pos isa fd par k hwf x y hxy hy, ← depW_erase]
  unfold streamDep
  have e1 : ∀ t (ht : t < k.length), eraseLine k[t] = sAt k t := by
    intro t ht
    have := double_erase_getElem 0 k t (by rw [double_length]; omega)
    rw [← this]
    congr 1
    simp [double, List.getElem_append_left ht]
  have e2 : ((k.drop (x + 1)).take (y - x - 1)).map eraseLine = segAt k x y := by
    rw [← double_seg 0 k x y (by omega)]
    congr 1
    simp only [double]
    rw [List.drop_append_of_le_length (by omega), List.take_append_of_le_length (by simp; omega)]
  rw [e1 x (by omega), e1 y hy, e2]

/-- a line of the doubled kernel below the offset sits in the first copy, one at or above it in the second -/
theorem double_pos_split (floor : Nat) (k : List Ins) (t : Nat) (ht : t < 2 * k.length) :
    (t < k.length ∧ lineAt (double (offsetOf floor k) k) t = lineAt k t ∧ lineAt k t < offsetOf floor k) ∨
    (k.length ≤ t ∧ lineAt (double (offsetOf floor k) k) t = lineAt k (t - k.length) + offsetOf floor k) := by
  by_cases h : t < k.length
  · left
    refine ⟨h, lineAt_double_first _ k t h, ?_⟩
    rw [lineAt_lt k t h]; exact offset_ok floor k _ (List.getElem_mem h)
  · right
    refine ⟨by omega, ?_⟩
    have e : t = (t - k.length) + k.length := by omega
    conv => lhs; rw [e]
    exact lineAt_double_second _ k _ (by omega)

/-- **the explicit edge lists represent the stream relation**: `intraOf` / `crossOf` of a well-formed
    kernel satisfy `EdgeSpec` for `streamDep k`, the body length and the line map of `k`. -/
theorem edgeSpec_lcd (isa : Isa) (fd : Bool) (par : Params) (floor : Nat) (k : List Ins) (hwf : WFKernel k) :
    EdgeSpec (streamDep isa fd par k) k.length (lineAt k) (intraOf isa fd par k) (crossOf isa fd par floor k) where
  inj := fun x y hx hy h => wf_lineAt_inj k hwf x y hx hy h
  mono := fun x y hxy hy => wf_lineAt_lt k hwf x y hxy hy
  intra_pos := by
    intro e he
    have hs := (mem_instrEdges _ e).mp he
    obtain ⟨x, y, hxy, hy, hlx, hly⟩ := edge_has_pos isa fd par k hwf _ _ _ hs
    refine ⟨x, y, hxy, hy, hlx, hly, ?_⟩
    rw [← hlx, ← hly] at hs
    exact (succs_body_iff isa fd par k hwf x y hxy hy e.w).mp hs
  intra_mem := by
    intro x y w hxy hy hd
    exact (mem_instrEdges _ _).mpr ((succs_body_iff isa fd par k hwf x y hxy hy w).mpr hd)
  cross_pos := by
    intro e he
    obtain ⟨hsrc, hs⟩ := (mem_crossOf isa fd par floor k e).mp he
    have hwfK := double_wf floor k hwf
    obtain ⟨x, y, hxy, hy, hlx, hly⟩ := edge_has_pos isa fd par _ hwfK _ _ _ hs
    rw [double_length] at hy
    rcases double_pos_split floor k x (by omega) with ⟨hx, hx1, _⟩ | ⟨_, hx1⟩
    · rcases double_pos_split floor k y hy with ⟨_, hy1, hy2⟩ | ⟨hyn, hy1⟩
      · rw [hy1] at hly; omega
      · refine ⟨x, y - k.length, hx, by omega, by rw [← hx1]; exact hlx, by rw [hy1] at hly; omega, ?_⟩
        rw [← hlx, ← hly] at hs
        have eyn : y - k.length + k.length = y := by omega
        rw [eyn]
        exact (succs_double_iff isa fd par _ k hwfK x y hxy hy e.w).mp hs
    · rw [hx1] at hlx; omega
  cross_mem := by
    intro x y w hx hy hd
    have hwfK := double_wf floor k hwf
    have hs := (succs_double_iff isa fd par (offsetOf floor k) k hwfK x (y + k.length) (by omega) (by omega) w).mpr hd
    rw [lineAt_double_first _ k x hx, lineAt_double_second _ k y hy] at hs
    apply (mem_crossOf isa fd par floor k _).mpr
    refine ⟨?_, hs⟩
    show lineAt k x < offsetOf floor k
    rw [lineAt_lt k x hx]; exact offset_ok floor k _ (List.getElem_mem hx)

/-- the harness' way of extracting `intra` (first copy of the doubled graph) represents the same relation -/
theorem edgeSpec_lcd_doubled (isa : Isa) (fd : Bool) (par : Params) (floor : Nat) (k : List Ins) (hwf : WFKernel k) :
    EdgeSpec (streamDep isa fd par k) k.length (lineAt k) (intraDoubledOf isa fd par floor k)
      (crossOf isa fd par floor k) where
  inj := (edgeSpec_lcd isa fd par floor k hwf).inj
  mono := (edgeSpec_lcd isa fd par floor k hwf).mono
  cross_pos := (edgeSpec_lcd isa fd par floor k hwf).cross_pos
  cross_mem := (edgeSpec_lcd isa fd par floor k hwf).cross_mem
  intra_pos := by
    intro e he
    obtain ⟨he1, he2⟩ := List.mem_filter.mp he
    have hb : e.src < offsetOf floor k ∧ e.dst < offsetOf floor k := by simpa using he2
    have hs := (mem_instrEdges _ e).mp he1
    have hwfK := double_wf floor k hwf
    obtain ⟨x, y, hxy, hy, hlx, hly⟩ := edge_has_pos isa fd par _ hwfK _ _ _ hs
    rw [double_length] at hy
    rcases double_pos_split floor k y hy with ⟨hyn, hy1, _⟩ | ⟨_, hy1⟩
    · rcases double_pos_split floor k x (by omega) with ⟨hxn, hx1, _⟩ | ⟨_, _⟩
      · refine ⟨x, y, hxy, hyn, by rw [← hx1]; exact hlx, by rw [← hy1]; exact hly, ?_⟩
        rw [← hlx, ← hly] at hs
        exact (succs_double_iff isa fd par _ k hwfK x y hxy hy e.w).mp hs
      · omega
    · rw [hy1] at hly; omega
  intra_mem := by
    intro x y w hxy hy hd
    have hwfK := double_wf floor k hwf
    have hs := (succs_double_iff isa fd par (offsetOf floor k) k hwfK x y hxy (by omega) w).mpr hd
    rw [lineAt_double_first _ k x (by omega), lineAt_double_first _ k y hy] at hs
    apply List.mem_filter.mpr
    refine ⟨(mem_instrEdges _ _).mpr hs, ?_⟩
    have h1 : lineAt k x < offsetOf floor k := by
      rw [lineAt_lt k x (by omega)]; exact offset_ok floor k _ (List.getElem_mem _)
    have h2 : lineAt k y < offsetOf floor k := by
      rw [lineAt_lt k y hy]; exact offset_ok floor k _ (List.getElem_mem _)
    simp [h1, h2]

/-- **the reported entries, by member lines and latency, are exactly the normal-form stream cycles**
    (both directions of `lcd_sound_normal` / `lcd_complete` in one statement) -/
theorem lcd_normal_iff (isa : Isa) (fd : Bool) (par : Params) (floor : Nat) (k : List Ins) (hwf : WFKernel k)
    (lines : List Nat) (lat : Rat) :
    (∃ e ∈ lcd isa fd par floor k, e.lines = lines ∧ e.latency = lat) ↔
      ∃ b, IsStreamCycle (streamDep isa fd par k) k.length b ∧ (∀ y ∈ b, y.1 < k.length) ∧
        lines = b.map (fun y => lineAt k y.1) ∧ lat = (b.map (·.2)).sum := by
  constructor
  · rintro ⟨e, he, rfl, rfl⟩
    obtain ⟨b, h1, h2, _, h4, _, h6⟩ := lcd_sound_normal isa fd par floor k hwf e he
    exact ⟨b, h1, h2, h4, h6⟩
  · rintro ⟨b, hc, hlt, rfl, rfl⟩
    have hst : StartsBelow k.length b := by
      cases b with
      | nil => exact absurd hc (fun h => h)
      | cons x rest => exact hlt x List.mem_cons_self
    obtain ⟨e, he, hperm, hlat⟩ := lcd_complete isa fd par floor k hwf b hc hst
    refine ⟨e, he, ?_, hlat⟩
    obtain ⟨p, _, hl, ht, _, _, _⟩ := entry_latency _ _ e he
    have hzip : e.lines.zip e.lats = normPath (offsetOf floor k) p := by rw [hl, ht, zip_fst_snd]
    have hmem : cycleMembers k b = b.map (fun y => (lineAt k y.1, y.2)) := by
      unfold cycleMembers
      apply List.map_congr_left
      intro y hy
      rw [Nat.mod_eq_of_lt (hlt y hy)]
    have hinc : (verts b).Pairwise (· < ·) := by
      cases b with
      | nil => exact absurd hc (fun h => h)
      | cons x rest =>
        exact (List.pairwise_append.mp (chain_increasing _ _ _ hc)).1
    have hsorted : (b.map (fun y => (lineAt k y.1, y.2))).Pairwise le2 := by
      rw [List.pairwise_map]
      have : b.Pairwise (fun x y => x.1 < y.1) := by simpa [verts, List.pairwise_map] using hinc
      refine this.imp_of_mem ?_
      intro x y _ hy hxy
      exact Or.inl (wf_lineAt_lt k hwf x.1 y.1 hxy (hlt y hy))
    have heq : e.lines.zip e.lats = b.map (fun y => (lineAt k y.1, y.2)) := by
      refine List.Perm.eq_of_pairwise (le := le2) (fun _ _ _ _ h1 h2 => le2_antisymm h1 h2) ?_ hsorted
        (hperm.trans (List.Perm.of_eq hmem))
      rw [hzip]; exact sortPairs_sorted _
    have : e.lines = (e.lines.zip e.lats).map (·.1) := by rw [hzip, hl]
    rw [this, heq, List.map_map]; rfl

/-- **`spec_cycles_iff_lcd`** (∀ well-formed kernels, any length): the executable oracle `Spec.cycles`,
    run on the line list of `k`, the instruction edges of `k`'s graph and the first-copy → second-copy
    edges of the doubled graph, returns a cycle with member lines `L` and latency `t` iff `lcd` reports
    an entry with member lines `L` and latency `t`: the oracle and the model agree as sets of
    (lines, latency).  Both are exactly the normal-form winding-1 cycles of the stream `k^ω`. -/
theorem spec_cycles_iff_lcd (isa : Isa) (fd : Bool) (par : Params) (floor : Nat) (k : List Ins) (hwf : WFKernel k)
    (c : Spec.Cycle) :
    c ∈ Spec.cycles (k.map (·.line)) (intraOf isa fd par k) (crossOf isa fd par floor k) ↔
      ∃ e ∈ lcd isa fd par floor k, e.lines = c.lines ∧ e.latency = c.latency := by
  rw [lines_eq_range, cycles_iff (edgeSpec_lcd isa fd par floor k hwf), lcd_normal_iff isa fd par floor k hwf]

/-- the same with `intra` extracted from the doubled graph (what the harness sends to the driver) -/
theorem spec_cycles_iff_lcd_doubled (isa : Isa) (fd : Bool) (par : Params) (floor : Nat) (k : List Ins)
    (hwf : WFKernel k) (c : Spec.Cycle) :
    c ∈ Spec.cycles (k.map (·.line)) (intraDoubledOf isa fd par floor k) (crossOf isa fd par floor k) ↔
      ∃ e ∈ lcd isa fd par floor k, e.lines = c.lines ∧ e.latency = c.latency := by
  rw [lines_eq_range, cycles_iff (edgeSpec_lcd_doubled isa fd par floor k hwf),
    lcd_normal_iff isa fd par floor k hwf]

/-- one direction, spelled out: every entry `lcd` reports is found by `Spec.cycles` -/
theorem lcd_found_by_spec_cycles (isa : Isa) (fd : Bool) (par : Params) (floor : Nat) (k : List Ins)
    (hwf : WFKernel k) (e : Entry) (he : e ∈ lcd isa fd par floor k) :
    (⟨e.lines, e.latency⟩ : Spec.Cycle) ∈
      Spec.cycles (k.map (·.line)) (intraOf isa fd par k) (crossOf isa fd par floor k) :=
  (spec_cycles_iff_lcd isa fd par floor k hwf _).mpr ⟨e, he, rfl, rfl⟩

/-- the other direction: every cycle `Spec.cycles` returns is reported by `lcd` -/
theorem spec_cycles_reported (isa : Isa) (fd : Bool) (par : Params) (floor : Nat) (k : List Ins)
    (hwf : WFKernel k) (c : Spec.Cycle)
    (hc : c ∈ Spec.cycles (k.map (·.line)) (intraOf isa fd par k) (crossOf isa fd par floor k)) :
    ∃ e ∈ lcd isa fd par floor k, e.lines = c.lines ∧ e.latency = c.latency :=
  (spec_cycles_iff_lcd isa fd par floor k hwf c).mp hc

-- non-vacuity: on the three-instruction ring both enumerate the single cycle [3, 4, 7] of latency 7;
-- the edge lists are non-trivial (two intra edges, one cross edge)
example :
    let r (n : String) : Op := .reg { name := Text.ofString n }
    let mk (line : Nat) (src dst sd : List Op) (lat : Rat) : Ins :=
      { line := line, src := src, dst := dst, srcDst := sd, lat := lat, latWoLoad := none, hasLd := false,
        isLd := false, changes := [], changesPost := [] }
    let k := [mk 3 [r "rbx"] [r "rax"] [] 4, mk 4 [r "rax"] [r "rcx"] [] 1, mk 7 [r "rcx"] [r "rbx"] [] 2]
    WFKernel k ∧
    (intraOf .x86 false {} k).map (fun e => (e.src, e.dst, e.w)) = [(3, 4, 4), (4, 7, 1)] ∧
    (intraDoubledOf .x86 false {} 1000 k).map (fun e => (e.src, e.dst, e.w)) = [(3, 4, 4), (4, 7, 1)] ∧
    (crossOf .x86 false {} 1000 k).map (fun e => (e.src, e.dst, e.w)) = [(7, 3, 2)] ∧
    (Spec.cycles (k.map (·.line)) (intraOf .x86 false {} k) (crossOf .x86 false {} 1000 k)).map
      (fun c => (c.lines, c.latency)) = [([3, 4, 7], 7)] ∧
    (lcd .x86 false {} 1000 k).map (fun e => (e.lines, e.latency)) = [([3, 4, 7], 7)] := by
  decide +kernel

end OsacaVerif.Props.C05
