import OsacaVerif.Model.LCD
import OsacaVerif.Spec.Deps
import OsacaVerif.Gen.Consts
import OsacaVerif.Lemmas.LCDPaths
import OsacaVerif.Lemmas.LCDPost
/-
  C05 — Loop-carried dependencies are exactly the cross-iteration dependency cycles.
  (Model: `LCD.lcd`; independent oracle: `Spec.cycles`.)
-/
namespace OsacaVerif.Props.C05
open OsacaVerif OsacaVerif.DG OsacaVerif.LCD

theorem foldl_max_ge (l : List Nat) (a : Nat) : a ≤ l.foldl max a ∧ ∀ x ∈ l, x ≤ l.foldl max a := by
  induction l generalizing a with
  | nil => simp
  | cons y ys ih =>
    obtain ⟨h1, h2⟩ := ih (max a y)
    refine ⟨by simp only [List.foldl_cons]; omega, ?_⟩
    intro x hx
    simp only [List.foldl_cons]
    rcases List.mem_cons.mp hx with rfl | hx
    · omega
    · exact h2 x hx

/-- **offset_ok** (∀ kernels, ∀ floors): the renumbering offset of the second copy is strictly larger
    than every line number of the kernel, so `line + offset` never collides with a kernel line and
    `s ≥ offset ↦ s − offset` maps every node back to its own line. -/
theorem offset_ok (floor : Nat) (k : List Ins) : ∀ i ∈ k, i.line < offsetOf floor k := by
  intro i hi
  have h := (foldl_max_ge (k.map (·.line)) 0).2 i.line (List.mem_map.mpr ⟨i, hi, rfl⟩)
  unfold offsetOf; omega

theorem offset_ge_floor (floor : Nat) (k : List Ins) : floor ≤ offsetOf floor k := by
  unfold offsetOf; omega

/-- mapping back is exact: a node of the second copy maps to its original line, a node of the first
    copy is left alone -/
theorem map_back (floor : Nat) (k : List Ins) (i : Ins) (hi : i ∈ k) :
    let off := offsetOf floor k
    (if i.line + off ≥ off then i.line + off - off else i.line + off) = i.line ∧
    (if i.line ≥ off then i.line - off else i.line) = i.line := by
  have := offset_ok floor k i hi
  simp only
  constructor
  · simp
  · rw [if_neg (by omega)]

/-- the two copies have disjoint line numbers -/
theorem double_disjoint (floor : Nat) (k : List Ins) :
    ∀ a ∈ k, ∀ b ∈ k, a.line ≠ b.line + offsetOf floor k := by
  intro a ha b _
  have := offset_ok floor k a ha
  omega

/-- the sorted (line, latency) list of `post` is a permutation-invariant normal form: inserting keeps
    the multiset -/
theorem insertPair_perm (x : Nat × Rat) (l : List (Nat × Rat)) : (insertPair x l).Perm (x :: l) := by
  induction l with
  | nil => simp [insertPair]
  | cons y ys ih =>
    simp only [insertPair]
    split
    · exact List.Perm.refl _
    · exact (List.Perm.cons y ih).trans (List.Perm.swap x y ys)

theorem sortPairs_perm (l : List (Nat × Rat)) : (sortPairs l).Perm l := by
  induction l with
  | nil => simp [sortPairs]
  | cons x xs ih =>
    simp only [sortPairs, List.foldr_cons]
    exact (insertPair_perm x _).trans (List.Perm.cons x ih)

/-! ### the path search returns exactly the simple paths -/

/-- **pathsFrom_sound** (∀ edge lists, fuels, visited sets): every path the depth-first search
    returns is a genuine simple path from `cur` to `tgt` — consecutive elements are edges of `es`
    (`LCD.succs`) carrying the recorded weights, the last edge enters `tgt`, no vertex is repeated,
    `tgt` is not passed through — and it never enters a vertex of `visited`; it has at most `fuel`
    edges.  (`cur ∈ visited` is how the search is always called: `lcd` starts with `[i.line]`.) -/
theorem pathsFrom_sound (es : List Edge) (tgt fuel cur : Nat) (visited : List Nat) (hcur : cur ∈ visited)
    (p : List (Nat × Rat)) (hp : p ∈ pathsFrom es tgt fuel cur visited) :
    IsSimplePath es cur tgt p ∧ Avoids visited p ∧ p.length ≤ fuel := by
  obtain ⟨h1, h2, h3, h4, h5⟩ := pathsFrom_sound_aux es tgt fuel cur visited p hp
  refine ⟨⟨h1, h2, ?_, fun v hv => (h4 v hv).1⟩, fun v hv => (h4 v hv).2, h5⟩
  cases hv : verts p with
  | nil => simp
  | cons a t =>
    rw [hv] at h1 h3 h4
    simp only [List.head?_cons, Option.some.injEq] at h1
    subst h1
    rw [List.nodup_cons]
    exact ⟨fun hm => (h4 a hm).2 hcur, h3⟩

/-- **pathsFrom_complete**: every simple path `cur ⇝ tgt` with at most `fuel` edges that avoids
    `visited` is returned by the search — nothing is missed. -/
theorem pathsFrom_complete (es : List Edge) (tgt fuel cur : Nat) (visited : List Nat) (p : List (Nat × Rat))
    (hs : IsSimplePath es cur tgt p) (ha : Avoids visited p) (hl : p.length ≤ fuel) :
    p ∈ pathsFrom es tgt fuel cur visited := by
  obtain ⟨h1, h2, h3, h4⟩ := hs
  refine pathsFrom_complete_aux es tgt fuel cur visited p h1 h2 ?_ (fun v hv => ⟨h4 v hv, ha v hv⟩) hl
  cases hv : verts p with
  | nil => simp
  | cons a t => rw [hv] at h3; exact (List.nodup_cons.mp h3).2

/-- the search result *is* the set of simple paths of length ≤ fuel avoiding `visited` -/
theorem pathsFrom_iff (es : List Edge) (tgt fuel cur : Nat) (visited : List Nat) (hcur : cur ∈ visited)
    (p : List (Nat × Rat)) :
    p ∈ pathsFrom es tgt fuel cur visited ↔ IsSimplePath es cur tgt p ∧ Avoids visited p ∧ p.length ≤ fuel :=
  ⟨pathsFrom_sound es tgt fuel cur visited hcur p, fun ⟨a, b, c⟩ => pathsFrom_complete es tgt fuel cur visited p a b c⟩

-- non-vacuity: in the diamond 1→2→4, 1→3→4 (plus a back edge 3→1 and a load edge) both simple
-- paths 1 ⇝ 4 satisfy the predicate and are returned; the walk through the back edge is not simple
example :
    let e (a b : Nat) (w : Rat) : Edge := { src := ⟨a, false⟩, dst := ⟨b, false⟩, w := w }
    let es := [e 1 2 1, e 1 3 2, e 2 4 3, e 3 4 5, e 3 1 7, { src := ⟨1, true⟩, dst := ⟨1, false⟩, w := 9 }]
    IsSimplePath es 1 4 [(1, 1), (2, 3)] ∧ Avoids [1] [(1, 1), (2, 3)] ∧
    IsSimplePath es 1 4 [(1, 2), (3, 5)] ∧
    ¬ IsSimplePath es 1 4 [(1, 2), (3, 7), (1, 1), (2, 3)] ∧
    pathsFrom es 4 5 1 [1] = [[(1, 1), (2, 3)], [(1, 2), (3, 5)]] := by
  decide +kernel

/-! ### the post-processing: members, latency, de-duplication -/

/-- **entry_latency** (∀ offsets, ∀ path lists): every reported entry comes from one of the found
    paths `p`; its `(lines, lats)` are that path's normal form (`normPath`: edges mapped back with
    `s ≥ off ↦ s − off`, sorted); hence its `lines` are exactly the path's source vertices mapped
    back (a permutation of them), listed ascending, its `lats` are the edge weights in that order and
    its `latency` is the sum of the edge weights along the path (summed in ℚ, order irrelevant). -/
theorem entry_latency (off : Nat) (paths : List (List (Nat × Rat))) (e : Entry) (he : e ∈ post off paths) :
    ∃ p ∈ paths, e.lines = (normPath off p).map (·.1) ∧ e.lats = (normPath off p).map (·.2) ∧
      e.latency = (p.map (·.2)).sum ∧ e.latency = e.lats.sum ∧
      e.lines.Perm ((verts p).map (backLine off)) ∧ e.lines.Pairwise (· ≤ ·) ∧
      (e.lines.zip e.lats).Perm (p.map (back off)) := by
  rw [post_eq, List.mem_map] at he
  obtain ⟨n, hn, rfl⟩ := he
  obtain ⟨hn, _⟩ := (mem_dedup [] _ n).mp hn
  obtain ⟨p, hp, rfl⟩ := List.mem_map.mp hn
  have hperm : (normPath off p).Perm (p.map (back off)) := sortPairs_perm' _
  refine ⟨p, hp, rfl, rfl, ?_, rfl, ?_, le2_lines (sortPairs_sorted _), ?_⟩
  · have := sum_perm (hperm.map (·.2))
    simpa [mkEntry, back, Function.comp_def] using this
  · have := hperm.map (·.1)
    simpa [mkEntry, back, verts, Function.comp_def] using this
  · simpa [mkEntry, zip_fst_snd] using hperm

/-- **post_dedup**: no two reported entries have the same (lines, latencies) lists — each normal
    form is reported at most once. -/
theorem post_dedup (off : Nat) (paths : List (List (Nat × Rat))) :
    (post off paths).Pairwise (fun a b => ¬ (a.lines = b.lines ∧ a.lats = b.lats)) := by
  rw [post_eq, List.pairwise_map]
  refine (dedup_nodup [] _).imp ?_
  intro a b hab h
  exact hab (pairs_ext h.1 h.2)

/-- **post_represents**: every found path is represented — there is an entry carrying its normal
    form — and by exactly one entry (`countP … = 1`). -/
theorem post_represents (off : Nat) (paths : List (List (Nat × Rat))) (p : List (Nat × Rat)) (hp : p ∈ paths) :
    (∃ e ∈ post off paths, e.lines = (normPath off p).map (·.1) ∧ e.lats = (normPath off p).map (·.2)) ∧
    (post off paths).countP (fun e => decide (e.lines = (normPath off p).map (·.1) ∧
      e.lats = (normPath off p).map (·.2))) = 1 := by
  have hmem : normPath off p ∈ post.dedup [] (paths.map (normPath off)) :=
    (mem_dedup [] _ _).mpr ⟨List.mem_map.mpr ⟨p, hp, rfl⟩, by simp⟩
  refine ⟨⟨mkEntry (normPath off p), by rw [post_eq]; exact List.mem_map.mpr ⟨_, hmem, rfl⟩, rfl, rfl⟩, ?_⟩
  rw [post_eq, List.countP_map]
  have hc := (dedup_nodup [] (paths.map (normPath off))).count (a := normPath off p)
  rw [if_pos hmem, List.count_eq_countP] at hc
  rw [← hc]
  apply List.countP_congr
  intro x _
  simp only [Function.comp_apply]
  rw [decide_eq_true_iff, beq_iff_eq]
  simp only [mkEntry]
  constructor
  · rintro ⟨h1, h2⟩; exact pairs_ext h1 h2
  · rintro rfl; exact ⟨rfl, rfl⟩

-- non-vacuity: two rotations of the same cycle (found from line 3 and from line 5) and a second
-- cycle: mapped back and sorted the first two coincide and are reported once, latency 1 + 4 = 5
example :
    (post 1000 [[(3, 1), (5, 4)], [(5, 4), (1003, 1)], [(4, 2)]]).map (fun e => (e.lines, e.lats, e.latency)) =
      [([3, 5], [1, 4], 5), ([4], [2], 2)] := by
  decide +kernel

-- non-vacuity: a two-instruction accumulation loop has exactly one loop-carried cycle
example :
    let r (n : String) : Op := .reg { name := Text.ofString n }
    let mk (line : Nat) (src dst sd : List Op) (lat : Rat) : Ins :=
      { line := line, src := src, dst := dst, srcDst := sd, lat := lat, latWoLoad := none, hasLd := false,
        isLd := false, changes := [], changesPost := [] }
    (lcd .x86 false {} 1000 [mk 3 [r "xmm1"] [] [r "xmm0"] 4, mk 4 [r "rax"] [] [r "rbx"] 1]).map
      (fun e => (e.lines, e.latency)) = [([3], 4), ([4], 1)] := by
  decide +kernel

end OsacaVerif.Props.C05
