import OsacaVerif.Model.LCD
import OsacaVerif.Spec.Deps
import OsacaVerif.Gen.Consts
/-
  C05 — Loop-carried dependencies are exactly the cross-iteration dependency cycles.
  (Model: `LCD.lcd`; independent oracle: `Spec.cycles`.)
-/
namespace OsacaVerif.Props.C05
open OsacaVerif OsacaVerif.DG OsacaVerif.LCD

theorem foldl_max_ge (l : List Nat) (a : Nat) : a ≤ l.foldl max a ∧ ∀ x ∈ l, x ≤ l.foldl max a := by
  induction l generalizing a with
  | nil => simp
  | cons y ys ih =>
    obtain ⟨h1, h2⟩ := ih (max a y)
    refine ⟨by simp only [List.foldl_cons]; omega, ?_⟩
    intro x hx
    simp only [List.foldl_cons]
    rcases List.mem_cons.mp hx with rfl | hx
    · omega
    · exact h2 x hx

/-- **offset_ok** (∀ kernels, ∀ floors): the renumbering offset of the second copy is strictly larger
    than every line number of the kernel, so `line + offset` never collides with a kernel line and
    `s ≥ offset ↦ s − offset` maps every node back to its own line. -/
theorem offset_ok (floor : Nat) (k : List Ins) : ∀ i ∈ k, i.line < offsetOf floor k := by
  intro i hi
  have h := (foldl_max_ge (k.map (·.line)) 0).2 i.line (List.mem_map.mpr ⟨i, hi, rfl⟩)
  unfold offsetOf; omega

theorem offset_ge_floor (floor : Nat) (k : List Ins) : floor ≤ offsetOf floor k := by
  unfold offsetOf; omega

/-- mapping back is exact: a node of the second copy maps to its original line, a node of the first
    copy is left alone -/
theorem map_back (floor : Nat) (k : List Ins) (i : Ins) (hi : i ∈ k) :
    let off := offsetOf floor k
    (if i.line + off ≥ off then i.line + off - off else i.line + off) = i.line ∧
    (if i.line ≥ off then i.line - off else i.line) = i.line := by
  have := offset_ok floor k i hi
  simp only
  constructor
  · simp
  · rw [if_neg (by omega)]

/-- the two copies have disjoint line numbers -/
theorem double_disjoint (floor : Nat) (k : List Ins) :
    ∀ a ∈ k, ∀ b ∈ k, a.line ≠ b.line + offsetOf floor k := by
  intro a ha b _
  have := offset_ok floor k a ha
  omega

/-- the sorted (line, latency) list of `post` is a permutation-invariant normal form: inserting keeps
    the multiset -/
theorem insertPair_perm (x : Nat × Rat) (l : List (Nat × Rat)) : (insertPair x l).Perm (x :: l) := by
  induction l with
  | nil => simp [insertPair]
  | cons y ys ih =>
    simp only [insertPair]
    split
    · exact List.Perm.refl _
    · exact (List.Perm.cons y ih).trans (List.Perm.swap x y ys)

theorem sortPairs_perm (l : List (Nat × Rat)) : (sortPairs l).Perm l := by
  induction l with
  | nil => simp [sortPairs]
  | cons x xs ih =>
    simp only [sortPairs, List.foldr_cons]
    exact (insertPair_perm x _).trans (List.Perm.cons x ih)

-- non-vacuity: a two-instruction accumulation loop has exactly one loop-carried cycle
example :
    let r (n : String) : Op := .reg { name := Text.ofString n }
    let mk (line : Nat) (src dst sd : List Op) (lat : Rat) : Ins :=
      { line := line, src := src, dst := dst, srcDst := sd, lat := lat, latWoLoad := none, hasLd := false,
        isLd := false, changes := [], changesPost := [] }
    (lcd .x86 false {} 1000 [mk 3 [r "xmm1"] [] [r "xmm0"] 4, mk 4 [r "rax"] [] [r "rbx"] 1]).map
      (fun e => (e.lines, e.latency)) = [([3], 4), ([4], 1)] := by
  decide +kernel

end OsacaVerif.Props.C05
