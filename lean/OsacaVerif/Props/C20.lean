import OsacaVerif.Model.Import
import OsacaVerif.Spec.ImportSpec
import OsacaVerif.Lemmas.ImportNum
import OsacaVerif.Lemmas.ImportDecode
import OsacaVerif.Lemmas.ImportFlow
import OsacaVerif.Lemmas.ImportTextL
/-
  C20 — Benchmark import snaps measurements and emits every imported form.

  `Import.*` is the model of `db_interface.py` (`_validate_measurement`, `_create_db_operand*`,
  `_get_ibench_output`, `_get_asmbench_output`, `import_benchmark_output`) and of
  `hw_model.set_instruction(_entry)` / the emitted list of `dump`; every literal (1.05, 0.95,
  range(1, 11), round(.., 5), tags, separators, block offsets, the operand decision tables) is
  regenerated from the source (`Gen.Import`), so each theorem below is re-proved against what the
  code says now.  `Spec.Import.*` is written from the property statement / README only.
-/
namespace OsacaVerif.Props.C20
open OsacaVerif OsacaVerif.Text OsacaVerif.ImportText OsacaVerif.Import OsacaVerif.Gen.Import
open OsacaVerif.Spec.Import

/-! ## 1. Throughput: snapped to 1/n (n = 1..10) within 5 % -/

/-- **tp_snap_spec** (∀ m, r): a value is recorded exactly when the measurement lies in the closed
    5 % window of a reciprocal `1/n`, `n = 1..10`, and the value is that reciprocal rounded to five
    decimals. -/
theorem tp_snap_spec (m r : ℚ) :
    validateTp m = some r ↔
      ∃ n : ℕ, 1 ≤ n ∧ n ≤ 10 ∧ |m - 1 / (n : ℚ)| ≤ 1 / 20 / (n : ℚ) ∧ r = roundDigitsHE 5 (1 / (n : ℚ)) := by
  rw [validateTp_some_iff]
  constructor
  · rintro ⟨n, h1, h10, hw, hr⟩
    exact ⟨n, h1, h10, (inTpWindow_iff m n (by omega)).mp hw, hr⟩
  · rintro ⟨n, h1, h10, hw, hr⟩
    exact ⟨n, h1, h10, (inTpWindow_iff m n (by omega)).mpr hw, hr⟩

/-- **windows are disjoint, n is unique** (∀ m): this is what makes "the first n that fits" the
    same as "the n that fits"; it fails for an eleventh reciprocal. -/
theorem tp_window_unique (m : ℚ) (a b : ℕ) (ha : 1 ≤ a ∧ a ≤ 10) (hb : 1 ≤ b ∧ b ≤ 10)
    (wa : |m - 1 / (a : ℚ)| ≤ 1 / 20 / (a : ℚ)) (wb : |m - 1 / (b : ℚ)| ≤ 1 / 20 / (b : ℚ)) : a = b :=
  tp_windows_disjoint m a b ha hb ((inTpWindow_iff m a (by omega)).mpr wa) ((inTpWindow_iff m b (by omega)).mpr wb)

/-- **reject_spec, throughput** (∀ m): outside all ten windows nothing is recorded ("missing rather
    than invented"), and only then. -/
theorem tp_reject_spec (m : ℚ) :
    validateTp m = none ↔ ∀ n : ℕ, 1 ≤ n → n ≤ 10 → 1 / 20 / (n : ℚ) < |m - 1 / (n : ℚ)| := by
  rw [validateTp_none_iff]
  constructor
  · intro h n h1 h10
    have := h n h1 h10
    by_contra hc
    rw [(inTpWindow_iff m n (by omega)).mpr (not_lt.mp hc)] at this
    cases this
  · intro h n h1 h10
    cases hw : inTpWindow m n with
    | false => rfl
    | true => exact absurd ((inTpWindow_iff m n (by omega)).mp hw) (not_le.mpr (h n h1 h10))

/-- the ten values that can be recorded -/
theorem tp_recorded_values :
    reciprocals.map (fun (n : ℕ) => roundDigitsHE roundDigits (1 / (n : ℚ))) =
      [1, 1 / 2, 33333 / 100000, 1 / 4, 1 / 5, 16667 / 100000, 14286 / 100000, 1 / 8, 11111 / 100000, 1 / 10] :=
  tp_values

example : validateTp (501 / 1000) = some (1 / 2) ∧ validateTp (334 / 1000) = some (33333 / 100000) ∧
    validateTp (21 / 200) = some (1 / 10) ∧ validateTp (1051 / 1000) = none ∧ validateTp (3 / 1) = none ∧
    validateTp (94 / 1000) = none ∧ validateTp (1 / 11) = none := by decide +kernel
example : ∃ m r : ℚ, validateTp m = some r := ⟨1 / 7, 7143 / 50000, by decide +kernel⟩
example : ∃ m : ℚ, ∀ n : ℕ, 1 ≤ n → n ≤ 10 → 1 / 20 / (n : ℚ) < |m - 1 / (n : ℚ)| :=
  ⟨3, (tp_reject_spec 3).mp (by decide +kernel)⟩

/-! ## 2. Latency: nearest integer within 5 % -/

/-- **lt_snap_spec** (∀ m, r): a recorded latency is a non-negative integer, a nearest integer of the
    measurement, and within 5 % (of itself) of the measurement. -/
theorem lt_snap_spec (m r : ℚ) (h : validateLt m = some r) :
    ∃ k : ℤ, r = (k : ℚ) ∧ 0 ≤ k ∧ |m - (k : ℚ)| ≤ 1 / 2 ∧ |m - (k : ℚ)| ≤ 1 / 20 * (k : ℚ) :=
  validateLt_sound m r h

/-- completeness (∀ m, k): strictly within 5 % of an integer ⇒ recorded -/
theorem lt_snap_complete (m : ℚ) (k : ℤ) (h : |m - (k : ℚ)| < 1 / 20 * (k : ℚ)) :
    ∃ r, validateLt m = some r := by
  have := validateLt_complete m k h
  cases hv : validateLt m with
  | none => rw [hv] at this; cases this
  | some r => exact ⟨r, rfl⟩

/-- **reject_spec, latency** (∀ m): not within 5 % of any integer ⇒ nothing is recorded -/
theorem lt_reject_spec (m : ℚ) (h : ∀ k : ℤ, 1 / 20 * (k : ℚ) < |m - (k : ℚ)|) : validateLt m = none := by
  cases hv : validateLt m with
  | none => rfl
  | some r =>
    obtain ⟨k, _, _, _, hk⟩ := validateLt_sound m r hv
    exact absurd hk (not_le.mpr (h k))

example : validateLt (4013 / 1000) = some 4 ∧ validateLt (25 / 2) = some 12 ∧ validateLt (27 / 2) = some 14 ∧
    validateLt (5 / 2) = none ∧ validateLt (106 / 100) = none ∧ validateLt (105 / 100) = some 1 ∧
    validateLt 0 = some 0 ∧ validateLt (-1) = none := by decide +kernel
example : ∃ m : ℚ, ∀ k : ℤ, 1 / 20 * (k : ℚ) < |m - (k : ℚ)| := by
  refine ⟨5 / 2, fun k => ?_⟩
  rcases le_or_gt k 2 with h | h
  · have : (k : ℚ) ≤ 2 := by exact_mod_cast h
    rw [abs_of_nonneg (by linarith)]; linarith
  · have : (3 : ℚ) ≤ (k : ℚ) := by exact_mod_cast h
    rw [abs_of_nonpos (by linarith)]; linarith

/-! ## 3. The executable oracle (`Spec.Import.tpOk` / `ltOk`) accepts the model, for all m -/

theorem absQ_eq_abs (q : ℚ) : absQ q = |q| := by
  unfold absQ
  split
  · rw [abs_of_neg ‹_›]
  · rw [abs_of_nonneg (not_lt.mp ‹_›)]

theorem round5_table : ∀ n ∈ reciprocals, isRound5 (1 / (n : ℚ)) (roundDigitsHE roundDigits (1 / (n : ℚ))) = true := by
  decide +kernel

/-- the oracle the search evaluates on the implementation's outputs accepts every model output -/
theorem tp_meets_oracle (m : ℚ) : tpOk m (validateTp m) = true := by
  cases hv : validateTp m with
  | none =>
    simp only [tpOk, List.all_eq_true, List.mem_range, Bool.not_eq_true', decide_eq_false_iff_not, absQ_eq_abs]
    intro i hi
    have := (tp_reject_spec m).mp hv (i + 1) (by omega) (by omega)
    exact not_lt.mpr this.le
  | some r =>
    obtain ⟨n, h1, h10, hw, hr⟩ := (validateTp_some_iff m r).mp hv
    simp only [tpOk, List.any_eq_true, List.mem_range, Bool.and_eq_true, decide_eq_true_eq, absQ_eq_abs]
    refine ⟨n - 1, by omega, ?_⟩
    have e : n - 1 + 1 = n := by omega
    rw [e]
    exact ⟨hr ▸ round5_table n ((mem_reciprocals n).mpr ⟨h1, h10⟩), (inTpWindow_iff m n (by omega)).mp hw⟩

theorem lt_meets_oracle (m : ℚ) : ltOk m (validateLt m) = true := by
  cases hv : validateLt m with
  | none =>
    simp only [ltOk, List.all_eq_true, List.mem_range, Bool.not_eq_true', decide_eq_false_iff_not, absQ_eq_abs]
    intro k _ hlt
    have := validateLt_complete m (k : ℤ) (by push_cast; linarith)
    rw [hv] at this; cases this
  | some r =>
    obtain ⟨k, hr, _, h1, h2⟩ := validateLt_sound m r hv
    subst hr
    simp only [ltOk, Bool.and_eq_true, beq_iff_eq, decide_eq_true_eq, absQ_eq_abs]
    refine ⟨⟨Rat.den_intCast k, h1⟩, ?_⟩
    linarith

example : tpOk (1 / 2) (some 1) = false ∧ tpOk (1 / 2) none = false ∧ tpOk (21 / 40) none = true ∧
    tpOk (21 / 40) (some (1 / 2)) = true ∧ ltOk (5 / 2) (some 2) = false ∧ ltOk 4 none = false ∧
    ltOk (21 / 20) none = true ∧ ltOk (21 / 20) (some 1) = true := by decide +kernel

/-! ## 4. Operand codes: the documented convention -/

/-- **decode_table** (x86): every documented code decodes to the documented operand -/
theorem decode_table_x86 (code : Txt) (d : Dict) (h : docX86 code = some d) : createDbOperand .x86 code = some d :=
  decode_x86_documented code d h

/-- **decode_table** (AArch64) -/
theorem decode_table_a64 (code : Txt) (d : Dict) (h : docA64 code = some d) : createDbOperand .a64 code = some d :=
  decode_a64_documented code d h

/-- memory codes, ∀ flag strings (any letters, order, multiplicity): exactly the flags present -/
theorem decode_mem_flags_x86 (fl : Txt) :
    createDbOperand .x86 (109 :: fl) =
      some [(t "class", .s (t "memory")), (t "base", optS (fl.contains 98) "gpr"),
            (t "offset", optS (fl.contains 111) "imd"), (t "index", optS (fl.contains 105) "gpr"),
            (t "scale", .n (if fl.contains 115 then 8 else 1))] := decode_x86_mem fl

theorem decode_mem_flags_a64 (fl : Txt) :
    createDbOperand .a64 (109 :: fl) =
      some [(t "class", .s (t "memory")), (t "base", optS (fl.contains 98) "x"),
            (t "offset", optS (fl.contains 111) "imd"), (t "index", optS (fl.contains 105) "gpr"),
            (t "scale", .n (if fl.contains 115 then 8 else 1)),
            (t "pre_indexed", .b (fl.contains 114)), (t "post_indexed", .b (fl.contains 112))] := decode_a64_mem fl

example : (docX86 (t "mbois")).isSome ∧ (docX86 (t "r")).isSome ∧ (docX86 (t "z")).isSome ∧ (docX86 (t "q")).isNone ∧
    (docA64 (t "vs")).isSome ∧ (docA64 (t "v")).isSome ∧ (docA64 (t "mboisrp")).isSome ∧ (docA64 (t "q")).isSome ∧
    (docA64 (t "vq")).isNone ∧ (docA64 (t "k")).isNone := by decide +kernel
example : createDbOperand .a64 (t "mbop") =
    some [(t "class", .s (t "memory")), (t "base", .s (t "x")), (t "offset", .s (t "imd")), (t "index", .none),
          (t "scale", .n 1), (t "pre_indexed", .b false), (t "post_indexed", .b true)] := by decide +kernel

/-! ## 5. ibench: TP and LT lines of one form are merged into one entry -/

/-- **dispatch_spec** (∀ names, whatever the mnemonic contains): `NAME-TP` is a throughput line and
    not a latency line, `NAME-LT` is a latency line and not a throughput line. -/
theorem dispatch_spec (l : ILine) (k : Txt) :
    (l.instr = k ++ t "-TP" → isTP l = true ∧ isLT l = false) ∧
    (l.instr = k ++ t "-LT" → isTP l = false ∧ isLT l = true) := by
  have e1 : t "-TP" = ibTpTag := by decide +kernel
  have e2 : t "-LT" = ibLtTag := by decide +kernel
  constructor
  · intro h
    have : isTP l = true := by unfold isTP; rw [h, e1]; exact hasTag_tp k
    exact ⟨this, by simp [isLT, this]⟩
  · intro h
    have h1 : isTP l = false := by unfold isTP; rw [h, e2]; exact hasTag_tp_on_lt k
    have h2 : hasTag ibLtTag l.instr = true := by rw [h, e2]; exact hasTag_lt k
    exact ⟨h1, by simp [isLT, h1, h2]⟩

/-- the TP line and the LT line of `MNEMONIC-OPERANDS` have the same key, `MNEMONIC-OPERANDS` -/
theorem key_spec (mn ops : Txt) (h1 : 45 ∉ mn) (h2 : 45 ∉ ops) :
    keyOf (mn ++ 45 :: (ops ++ t "-TP")) = mn ++ 45 :: ops ∧ keyOf (mn ++ 45 :: (ops ++ t "-LT")) = mn ++ 45 :: ops := by
  have e1 : t "-TP" = 45 :: [84, 80] := by decide +kernel
  have e2 : t "-LT" = 45 :: [76, 84] := by decide +kernel
  rw [e1, e2]
  exact ⟨keyOf_form mn ops _ h1 h2, keyOf_form mn ops _ h1 h2⟩

/-- value taken from the LAST line satisfying `p`; `none` if there is none -/
def lastOf (p : ILine → Bool) (v : ILine → Option Rat) (ls : List ILine) : Option Rat :=
  ((ls.filter p).getLast?).bind v

theorem afterG_none (p v) (ls : List ILine) : afterG p v none ls = lastOf p v ls := by
  unfold afterG lastOf
  cases (ls.filter p).getLast? <;> rfl

/-- **ibench_merge** (∀ ISA, ∀ sequences of lines in any interleaving, of any length): if the
    import does not raise, there is exactly one entry per key, the keys are those of the
    non-skipped lines, and the entry of key `k` carries the validated measurement of the LAST
    throughput line of `k` (`none` if there is none or it was rejected), the validated measurement
    of the LAST latency line of `k`, and the mnemonic / decoded operands of a line of `k`. -/
theorem ibench_merge (isa : Isa) (ls : List ILine) (acc : Acc) (h : run isa ls [] = .ok acc) :
    (keys acc).Nodup ∧
    (∀ k, k ∈ keys acc ↔ ∃ l ∈ ls, l.skip = false ∧ keyL l = k) ∧
    (∀ k e, (k, e) ∈ acc →
      e.tp = lastOf (relTP k) valTp ls ∧ e.lt = lastOf (relLT k) valLt ls ∧
      ∃ l ∈ ls, l.skip = false ∧ keyL l = k ∧ ∃ e0, newEntry isa l.instr = .ok e0 ∧
        e.mnemonic = e0.mnemonic ∧ e.operands = e0.operands) := by
  have hnd : (keys acc).Nodup := run_nodup isa ls [] acc h (by simp [keys])
  have hev := run_evolves isa ls [] acc h
  refine ⟨hnd, ?_, ?_⟩
  · intro k
    have := (hev k).2 rfl
    constructor
    · intro hk
      rw [← lookup_isSome_iff] at hk
      rcases this with ⟨hn, _⟩ | ⟨e', _, _, _, l, hl, a, b, _⟩
      · rw [hn] at hk; cases hk
      · exact ⟨l, hl, a, b⟩
    · rintro ⟨l, hl, a, b⟩
      rcases this with ⟨_, hall⟩ | ⟨e', he', _⟩
      · rcases hall l hl with c | c
        · rw [a] at c; cases c
        · exact absurd b c
      · rw [← lookup_isSome_iff, he']; rfl
  · intro k e hmem
    have hl : lookup k acc = some e := (mem_iff_lookup acc hnd k e).mp hmem
    rcases (hev k).2 rfl with ⟨hn, _⟩ | ⟨e', he', a, b, c⟩
    · rw [hn] at hl; cases hl
    · rw [hl] at he'; injection he' with he'; subst he'
      exact ⟨by rw [a, afterG_none], by rw [b, afterG_none], c⟩

/-- the same for the text of the file (`viewLine` is what the loop body reads off a line) -/
theorem ibench_merge_text (isa : Isa) (lines : List Txt) (acc : Acc) (h : ibench isa lines = .ok acc) :
    (keys acc).Nodup ∧
    (∀ k e, (k, e) ∈ acc →
      e.tp = lastOf (relTP k) valTp (lines.map viewLine) ∧ e.lt = lastOf (relLT k) valLt (lines.map viewLine)) := by
  have := ibench_merge isa (lines.map viewLine) acc h
  exact ⟨this.1, fun k e hm => ⟨(this.2.2 k e hm).1, (this.2.2 k e hm).2.1⟩⟩

-- non-vacuity: interleaved TP/LT lines of two forms, a repeated TP line (the last one wins),
-- a mnemonic containing "TP", a rejected measurement
example :
    ibench .x86 ([ "Using frequency 2.50GHz.\n", "CVTPD2PS-x_x-LT: 4.013 (clock cycles)\n",
                   "vaddpd-x_x_x-TP: 0.95 (c)\n", "CVTPD2PS-x_x-TP: 0.501 (clock cycles)\n",
                   "vaddpd-x_x_x-TP: 0.334 (c)\n", "vaddpd-x_x_x-LT: 2.5 (c)\n"].map ofString) =
      .ok [ (t "CVTPD2PS-x_x", { mnemonic := t "CVTPD2PS", operands := [reg "name" "xmm", reg "name" "xmm"],
                                  tp := some (1 / 2), lt := some 4 }),
            (t "vaddpd-x_x_x", { mnemonic := t "vaddpd", operands := [reg "name" "xmm", reg "name" "xmm", reg "name" "xmm"],
                                  tp := some (33333 / 100000), lt := none }) ] := by decide +kernel

/-! ## 6. asmbench: a malformed block stops the import there, earlier entries are unaffected -/

/-- **asmbench_prefix** (∀ ISA, ∀ well-shaped blocks `bs`, ∀ continuation `rest` that starts with a
    malformed block — fewer than four lines left, or a non-blank fourth line — or is empty):
    the result is exactly the entries of `bs`, in order. -/
theorem asmbench_prefix (isa : Isa) (bs : List (List Txt)) (rest : List Txt)
    (hg : ∀ b ∈ bs, GoodShape b) (hb : BadStart rest) :
    asmbench isa (bs.flatten ++ rest) = foldBlocks isa bs [] :=
  asmGo_blocks isa bs rest [] _ (Nat.le_refl _) hg hb

/-- … in particular whatever follows the malformed block does not matter -/
theorem asmbench_stop_unaffected (isa : Isa) (bs : List (List Txt)) (rest : List Txt)
    (hg : ∀ b ∈ bs, GoodShape b) (hb : BadStart rest) :
    asmbench isa (bs.flatten ++ rest) = asmbench isa bs.flatten := by
  rw [asmbench_prefix isa bs rest hg hb]
  have := asmbench_prefix isa bs [] hg (Or.inl (by simp [abBlank]))
  rw [List.append_nil] at this
  exact this.symm

/-- what a block contributes: name line stripped, third line = throughput, second line = latency -/
theorem block_entry_spec (isa : Isa) (b : List Txt) (k : Txt) (e : Entry) (h : blockEntry isa b = .ok (k, e)) :
    k = strip (b.getD 0 []) ∧
    (∃ m, measurement 1 (b.getD 2 []) = .ok m ∧ e.tp = validateTp m) ∧
    (∃ m, measurement 1 (b.getD 1 []) = .ok m ∧ e.lt = validateLt m) := by
  unfold blockEntry at h
  simp only [abName, abTp, abLat, abTok] at h
  cases hn : newEntry isa (strip (b.getD 0 [])) with
  | err x => rw [hn] at h; cases h
  | ok e0 =>
    rw [hn] at h
    simp only [Res.bind] at h
    cases ht : measurement 1 (b.getD 2 []) with
    | err x => rw [ht] at h; cases h
    | ok tp =>
      rw [ht] at h
      simp only [] at h
      cases hl : measurement 1 (b.getD 1 []) with
      | err x => rw [hl] at h; cases h
      | ok lt =>
        rw [hl] at h
        simp only [Res.map] at h
        injection h with h
        injection h with h1 h2
        subst h2
        exact ⟨h1.symm, ⟨tp, rfl, rfl⟩, ⟨lt, rfl, rfl⟩⟩

-- non-vacuity: two good blocks, then a block without its blank line, then garbage; and a
-- truncated last block (the `IndexError` of the unrepaired code)
example :
    asmbench .a64 (["fadd-vd_vd_v\n", "Latency: 4.013 cy\n", "Throughput: 0.501 cy\n", "\n",
                    "ldp-d_d_mo\n", "Latency: 3.9 cy\n", "Throughput: 0.98 cy\n", "  \n",
                    "fmov-s_i\n", "Latency: 1.0 cy\n", "Throughput: 0.25 cy\n", "garbage\n", "x\n"].map ofString) =
    asmbench .a64 (["fadd-vd_vd_v\n", "Latency: 4.013 cy\n", "Throughput: 0.501 cy\n", "\n",
                    "ldp-d_d_mo\n", "Latency: 3.9 cy\n", "Throughput: 0.98 cy\n", "  \n"].map ofString) ∧
    (asmbench .a64 (["fadd-vd_vd_v\n", "Latency: 4.013 cy\n", "Throughput: 0.501 cy\n", "\n",
                     "ldp-d_d_mo\n", "Latency: 3.9 cy\n", "Throughput: 0.98 cy\n"].map ofString)).toOption.map List.length
      = some 1 := by decide +kernel
example : GoodShape (["fadd-vd_vd_v\n", "Latency: 4.013 cy\n", "Throughput: 0.501 cy\n", " \n"].map ofString) ∧
    BadStart (["fmov-s_i\n", "Latency: 1.0 cy\n", "Throughput: 0.25 cy\n"].map ofString) ∧
    BadStart (["fmov-s_i\n", "Latency: 1.0 cy\n", "Throughput: 0.25 cy\n", "next-x\n"].map ofString) := by
  refine ⟨⟨by decide +kernel, by decide +kernel⟩, Or.inl (by decide +kernel), Or.inr (by decide +kernel)⟩

/-! ## 7. Every imported form is emitted — where it is true, and where it is not (D11) -/

/-- AArch64 (∀ files, ∀ target models): whatever the import parsed is appended to the emitted list,
    every form, in order. -/
theorem import_emits_all_a64 (asm : Bool) (existing : List (Txt × Nat)) (lines : List Txt) (acc : Acc)
    (h : (if asm then asmbench .a64 lines else ibench .a64 lines) = .ok acc) :
    importBench .a64 asm existing lines = .ok (acc.map (·.2)) := by
  have hne : ∀ p ∈ acc, p.2.operands ≠ [] := by
    cases asm with
    | true => exact asmGo_operands_ne .a64 _ lines [] acc h (by simp)
    | false => exact run_operands_ne .a64 _ [] acc h (by simp)
  unfold importBench
  rw [h]
  simp only [Res.map, dumpAdded]
  have := (insertAll_a64 (acc.map (·.2)) { existing := existing, added := [] }
    (by intro e he; obtain ⟨p, hp, rfl⟩ := List.mem_map.mp he; exact hne p hp)).2
  rw [this]
  simp [List.map_map, Function.comp_def]

/- TODO-FULL (the property's "every imported form appears", for every ISA; FALSE of the current code on
   x86, see `d11_existing_form_swallows_import` and known finding D11-x86-same-mnemonic-arity):

   theorem import_emits_all (isa : Isa) (st : MState) (es : List Entry) :
       dumpAdded (insertAll isa st es) = dumpAdded st ++ es

   Proved below: the AArch64 instance without hypothesis (`import_emits_all_a64`) and, for any ISA, the
   statement under the no-collision hypothesis (`import_emits_all_partial`).  Missing: x86 when another
   form with the same upper-cased mnemonic and operand count is in the target model or earlier in the
   import. -/

/-- Any ISA (∀ entries, ∀ target models): if no imported form has the upper-cased mnemonic and
    operand count of a form of the target model or of an earlier imported form (as written), all
    are emitted, in order.  TODO-FULL: the property wants this without the hypothesis; on x86 it is
    false (next theorem), see known finding D11. -/
theorem import_emits_all_partial (isa : Isa) (st : MState) (es : List Entry)
    (h1 : ∀ e ∈ es, ∀ x ∈ st.existing, ¬ Collide x.1 x.2 e)
    (h2 : ∀ e ∈ es, ∀ y ∈ st.added, ¬ Collide y.1 y.2.operands.length e)
    (h3 : es.Pairwise (fun e1 e2 => ¬ Collide e1.mnemonic e1.operands.length e2)) :
    dumpAdded (insertAll isa st es) = dumpAdded st ++ es := by
  unfold dumpAdded
  rw [(insertAll_no_collision isa es st h1 h2 h3).2]
  simp [List.map_map, Function.comp_def]

/-- **D11** (∀ target models, ∀ entries): on x86 an imported form whose upper-cased mnemonic and
    operand count exist in the target model leaves the emitted state untouched — it is not
    emitted. -/
theorem d11_existing_form_swallows_import (st : MState) (e : Entry)
    (h : ∃ x ∈ st.existing, x.1 = upper e.mnemonic ∧ x.2 = e.operands.length) :
    dumpAdded (insert .x86 st e) = dumpAdded st := by
  rw [insert_x86_existing_invisible st e h]

-- witnesses: the same file on the two ISAs' rules; an existing form and an earlier imported form
example :
    (importBench .x86 false [(t "VADDPD", 3)] (["vaddpd-x_x_x-TP: 0.5\n", "FOO-x_x-TP: 0.5\n", "FOO-y_y-TP: 1.0\n"].map ofString)).toOption.map
      (fun es => es.map (·.operands.length)) = some [2] ∧
    (importBench .a64 false [(t "FADD", 3)] (["fadd-d_d_d-TP: 0.5\n", "FOO-d_d-TP: 0.5\n", "FOO-s_s-TP: 1.0\n"].map ofString)).toOption.map
      (fun es => es.map (·.operands.length)) = some [3, 2, 2] := by decide +kernel

end OsacaVerif.Props.C20
