import OsacaVerif.Model.Marker
import OsacaVerif.Spec.KernelSelect
import OsacaVerif.Lemmas.PyInt
import OsacaVerif.Lemmas.Marker
/-
  C11 — Kernel selection is exact and non-instruction lines are transparent (selection part).

  `Marker.reduceToSection`, `Marker.getLineRange`, `Marker.selectLines`, `Marker.parseFileNums` are the
  models of `reduce_to_section`, `get_line_range`, the `--lines` filter of `inspect` and the line
  numbering of `parse_file`; every literal in them is regenerated from the source (`Gen.MarkerConsts`).
  The statements below only use the vocabulary of `Spec.KernelSelect` (the marker convention typed in
  from the documentation, positional "between", set-theoretic denotation of `--lines`).
-/
namespace OsacaVerif.Props.C11
open OsacaVerif OsacaVerif.Text OsacaVerif.PyInt OsacaVerif.Marker OsacaVerif.Spec.KernelSelect

/-! ### the literals of the source are those of the convention -/

/-- the arguments a `find_marked_kernel_*` function passes agree with the convention of its ISA -/
def Agree (c : Cfg) (m : MarkerConv) : Prop :=
  c.movInstr = m.movs ∧ c.movReg = m.reg ∧ c.vals = [m.startVal, m.endVal] ∧ c.nop = m.nop ∧
  c.reverse = !m.immFirst ∧ c.comments = true ∧ m.startVal ≠ m.endVal ∧ m.nop ≠ []

instance (c : Cfg) (m : MarkerConv) : Decidable (Agree c m) := by unfold Agree; infer_instance

/-- x86: `mov`/`movl`, `ebx`, 111/222, `100,103,144`, immediate first, comment markers enabled -/
theorem x86_agree : Agree x86Cfg x86Marker := by decide
/-- AArch64: `mov`, `x1`, 111/222, `213,3,32,31`, immediate second, comment markers enabled -/
theorem a64_agree : Agree a64Cfg a64Marker := by decide

/-- comment marker texts, directive name, `int(x, 0)`, the index arithmetic (`i + 1`, `i + 1 +
    line_count`, `i`), the look-ahead distance, the operand positions and the ISA names of the source
    are what the model's structure and the specification assume -/
theorem shape_consts :
    Gen.commentStart = commentBegin ∧ Gen.commentEnd = commentEnd ∧ Gen.byteDirName = byteDirective ∧
    Gen.byteIntBase = 0 ∧ Gen.startOffComment = 1 ∧ Gen.endOffComment = 0 ∧ Gen.startOffBytes = 1 ∧
    Gen.endOffBytes = 0 ∧ Gen.lookAhead = 1 ∧ Gen.matchBytesOff = 1 ∧ Gen.srcIdx = 0 ∧ Gen.srcIdxRev = 1 ∧
    Gen.dstIdx = 1 ∧ Gen.dstIdxRev = 0 ∧ Gen.valIdxStart = 0 ∧ Gen.valIdxEnd = 1 ∧ Gen.isaLowered = true ∧
    Gen.x86IsaName = [120, 56, 54] ∧ Gen.a64IsaName = [97, 97, 114, 99, 104, 54, 52] ∧
    commentBegin ≠ commentEnd := by decide

/-- `--lines`: `:` becomes `-`, items are separated by `,`, a range is `start-end` with both ends
    included; `parse_file` splits at LF and numbers from 1 -/
theorem lines_consts :
    Gen.lrReplaceFrom = 58 ∧ Gen.lrReplaceTo = 45 ∧ Gen.lrListSep = 44 ∧ Gen.lrRangeSep = 45 ∧
    Gen.lrIdxStart = 0 ∧ Gen.lrIdxEnd = 1 ∧ Gen.lrEndInc = 1 ∧ Gen.pfSep = 10 ∧ Gen.pfFirstLine = 1 ∧
    Gen.pfStartLineDefault = 0 := by decide

/-! ### vocabulary: markers, look-alikes, quiet segments -/

/-- the marker move: an accepted mnemonic, the immediate `val` and the marker register in the
    operand order of the ISA -/
def MarkerMov (m : MarkerConv) (val : Int) (l : Line) : Prop :=
  (∃ mn, l.mnem = some mn ∧ mn ∈ m.movs) ∧
  l.ops[if m.immFirst then 0 else 1]? = some (.imm (some val)) ∧
  l.ops[if m.immFirst then 1 else 0]? = some (.reg m.reg)

/-- a directive line (no mnemonic) that is not itself a comment marker -/
def PlainLine (l : Line) : Prop :=
  l.mnem = none ∧ l.comment ≠ some commentBegin ∧ l.comment ≠ some commentEnd

/-- specification of "the nop bytes on one or on several `.byte` lines": every line is a `.byte`
    directive whose parameters are integer literals (`int(x, 0)`: decimal, `0x`, `0o`, `0b`), every line
    is needed (fewer bytes than the nop's before it), together they start with the nop bytes -/
def byteRunS (nop : List Int) : List Line → List Int → Bool
  | [], acc => acc.take nop.length == nop
  | l :: rest, acc =>
    (match l.dir with | some d => d.name == byteDirective | none => false) &&
    decide (acc.length < nop.length) &&
    match allIntsS (dirParams l) with
    | some vs => byteRunS nop rest (acc ++ vs)
    | none => false
where
  allIntsS : List (Option Txt) → Option (List Int)
    | [] => some []
    | p :: ps =>
      match p.bind pyInt0, allIntsS ps with
      | some v, some vs => some (v :: vs)
      | _, _ => none

theorem allIntsS_eq (ps : List (Option Txt)) : byteRunS.allIntsS ps = allInts ps := by
  induction ps with
  | nil => rfl
  | cons p ps ih =>
    have hb : byteInt p = p.bind pyInt0 := by
      cases p <;> simp [byteInt, show Gen.byteIntBase = 0 from rfl]
    simp only [byteRunS.allIntsS, allInts, ih, hb]
    cases p.bind pyInt0 <;> cases allInts ps <;> rfl

theorem byteRunS_eq (nop : List Int) (bl : List Line) (acc : List Int) :
    byteRunS nop bl acc = byteRun nop bl acc := by
  induction bl generalizing acc with
  | nil => rfl
  | cons l rest ih =>
    have hd : (match l.dir with | some d => d.name == byteDirective | none => false) = isByteDir l := by
      unfold isByteDir; cases l.dir <;> rfl
    simp only [byteRunS, byteRun, hd, allIntsS_eq]
    cases allInts (dirParams l) <;> simp [ih]

/-- a start marker in one of the documented styles -/
inductive StartMarker (m : MarkerConv) : List Line → Prop
  /-- a comment-only line `OSACA-BEGIN` -/
  | comment (l : Line) (h1 : l.mnem = none) (h2 : l.comment = some commentBegin) : StartMarker m [l]
  /-- the marker move of the start value followed by the nop bytes -/
  | bytes (mv : Line) (bl : List Line) (hm : MarkerMov m m.startVal mv) (hne : bl ≠ [])
      (hb : byteRunS m.nop bl [] = true) (hp : ∀ l ∈ bl, PlainLine l) : StartMarker m (mv :: bl)

/-- an end marker in one of the documented styles -/
inductive EndMarker (m : MarkerConv) : List Line → Prop
  | comment (l : Line) (h1 : l.mnem = none) (h2 : l.comment = some commentEnd) : EndMarker m [l]
  | bytes (mv : Line) (bl : List Line) (hm : MarkerMov m m.endVal mv) (hne : bl ≠ [])
      (hb : byteRunS m.nop bl [] = true) : EndMarker m (mv :: bl)

/-- a line that cannot be (the first line of) a marker, whatever follows it: a line without mnemonic
    whose comment is not a marker text; an instruction that is not the marker move; the marker move
    with another value or into another register (or whose operands are of another kind) -/
def Inert (m : MarkerConv) (l : Line) : Prop :=
  match l.mnem with
  | none => l.comment ≠ some commentBegin ∧ l.comment ≠ some commentEnd
  | some mn => mn ∉ m.movs ∨
      ∃ src dst, l.ops[if m.immFirst then 0 else 1]? = some src ∧
        l.ops[if m.immFirst then 1 else 0]? = some dst ∧
        (dst ≠ .reg m.reg ∨ (src ≠ .imm (some m.startVal) ∧ src ≠ .imm (some m.endVal)))

/-- a two-operand instruction that is not followed by the marker bytes: the next line is no directive
    at all, or the `.byte` lines that follow do not spell the nop bytes -/
def NoBytesAfter (m : MarkerConv) (l : Line) (rest : List Line) : Prop :=
  l.mnem.isSome ∧ (l.ops[0]?).isSome ∧ (l.ops[1]?).isSome ∧
  (hasDirective rest = false ∨ matchBytes rest m.nop = .miss)

/-- a segment free of markers (decoys of all three kinds allowed), given the lines after it -/
def Quiet (m : MarkerConv) : List Line → List Line → Prop
  | [], _ => True
  | l :: b, follow => (Inert m l ∨ NoBytesAfter m l (b ++ follow)) ∧ Quiet m b follow

/-! ### single-line facts -/

theorem opsMatch_iff (c : Cfg) (src dst : Opd) (w : Int) :
    opsMatch c src dst (some w) = true ↔ src = .imm (some w) ∧ dst = .reg c.movReg := by
  cases src with
  | imm v =>
    cases v with
    | none => simp [opsMatch]
    | some v => cases dst <;> simp [opsMatch]
  | reg r => simp [opsMatch]
  | other => simp [opsMatch]

theorem trigger_plain (c : Cfg) (l : Line) (rest : List Line) (h1 : l.mnem = none)
    (h2 : l.comment ≠ some commentBegin) (h3 : l.comment ≠ some commentEnd) :
    trigger c l rest = .none := by
  unfold trigger
  rw [h1]
  have e1 : Gen.commentStart = commentBegin := rfl
  have e2 : Gen.commentEnd = commentEnd := rfl
  simp only [e1, e2]
  split
  · simp [h2, h3]
  · rfl

/-- **look-alikes are not markers** (first two kinds: another value, another register, another
    mnemonic, non-marker comments): such a line triggers nothing whatever follows it -/
theorem decoy_not_marker (c : Cfg) (m : MarkerConv) (hag : Agree c m) (l : Line) (hi : Inert m l)
    (rest : List Line) : trigger c l rest = .none := by
  obtain ⟨hmov, hreg, hvals, _, hrev, _, _, _⟩ := hag
  unfold Inert at hi
  cases hm : l.mnem with
  | none =>
    rw [hm] at hi
    exact trigger_plain c l rest hm hi.1 hi.2
  | some mn =>
    rw [hm] at hi
    unfold trigger
    rw [hm]
    simp only
    by_cases hc : (c.movInstr.contains mn && hasDirective rest) = true
    · rw [if_pos hc]
      have hmem : mn ∈ m.movs := by
        rw [← hmov]
        simp only [Bool.and_eq_true, List.contains_iff_mem] at hc
        exact hc.1
      cases hi with
      | inl h => exact absurd hmem h
      | inr h =>
        obtain ⟨src, dst, hs, hd, hne⟩ := h
        have hsi : (if c.reverse then Gen.srcIdxRev else Gen.srcIdx) = (if m.immFirst then 0 else 1) := by
          rw [hrev]; cases m.immFirst <;> rfl
        have hdi : (if c.reverse then Gen.dstIdxRev else Gen.dstIdx) = (if m.immFirst then 1 else 0) := by
          rw [hrev]; cases m.immFirst <;> rfl
        rw [hsi, hdi, hs, hd]
        simp only
        have v0 : c.vals[Gen.valIdxStart]? = some m.startVal := by rw [hvals]; rfl
        have v1 : c.vals[Gen.valIdxEnd]? = some m.endVal := by rw [hvals]; rfl
        have n0 : opsMatch c src dst (some m.startVal) = false := by
          rw [Bool.eq_false_iff]; intro ht
          rw [opsMatch_iff, hreg] at ht
          cases hne with
          | inl h => exact h ht.2
          | inr h => exact h.1 ht.1
        have n1 : opsMatch c src dst (some m.endVal) = false := by
          rw [Bool.eq_false_iff]; intro ht
          rw [opsMatch_iff, hreg] at ht
          cases hne with
          | inl h => exact h ht.2
          | inr h => exact h.2 ht.1
        rw [v0, v1, n0, n1]
        simp
    · rw [if_neg hc]

/-- **look-alikes are not markers** (third kind): the marker move itself, not followed by the nop
    bytes, triggers nothing -/
theorem mov_without_bytes (c : Cfg) (m : MarkerConv) (hag : Agree c m) (l : Line) (rest : List Line)
    (h : NoBytesAfter m l rest) : trigger c l rest = .none := by
  obtain ⟨_, _, _, hnop, hrev, _, _, _⟩ := hag
  obtain ⟨hmn, h0, h1, hnb⟩ := h
  unfold trigger
  cases hm : l.mnem with
  | none => rw [hm] at hmn; simp at hmn
  | some mn =>
    simp only
    cases hnb with
    | inl hd => simp [hd]
    | inr hmiss =>
      split
      · have hsi : ∃ src, l.ops[if c.reverse then Gen.srcIdxRev else Gen.srcIdx]? = some src := by
          cases c.reverse
          · exact Option.isSome_iff_exists.mp h0
          · exact Option.isSome_iff_exists.mp h1
        have hdi : ∃ dst, l.ops[if c.reverse then Gen.dstIdxRev else Gen.dstIdx]? = some dst := by
          cases c.reverse
          · exact Option.isSome_iff_exists.mp h1
          · exact Option.isSome_iff_exists.mp h0
        obtain ⟨src, hs⟩ := hsi
        obtain ⟨dst, hd⟩ := hdi
        rw [hs, hd, hnop, hmiss]
        simp only
        split
        · rfl
        · split <;> rfl
      · rfl

/-- a `Quiet` segment is quiet for the scan -/
theorem quiet_quietSeg (c : Cfg) (m : MarkerConv) (hag : Agree c m) (seg follow : List Line)
    (h : Quiet m seg follow) : quietSeg c seg follow = true := by
  induction seg with
  | nil => rfl
  | cons l b ih =>
    obtain ⟨hl, hb⟩ := h
    simp only [quietSeg, Bool.and_eq_true, beq_iff_eq]
    refine ⟨?_, ih hb⟩
    cases hl with
    | inl hi => exact decoy_not_marker c m hag l hi _
    | inr hn => exact mov_without_bytes c m hag l _ hn

/-- a segment of inert lines is `Quiet` whatever follows it -/
theorem inert_quiet (m : MarkerConv) (seg follow : List Line) (h : ∀ l ∈ seg, Inert m l) :
    Quiet m seg follow := by
  induction seg with
  | nil => trivial
  | cons l b ih =>
    exact ⟨Or.inl (h l (by simp)), ih (fun x hx => h x (by simp [hx]))⟩

/-! ### markers are recognised -/

/-- the scan sees a start marker: its first line sets `index_start` to the line after the marker, its
    other lines trigger nothing -/
def IsStart (c : Cfg) (sm follow : List Line) : Prop :=
  ∃ h t, sm = h :: t ∧ trigger c h (t ++ follow) = .start sm.length ∧ quietSeg c t follow = true

/-- the scan sees an end marker: its first line sets `index_end` to its own index -/
def IsEnd (c : Cfg) (em follow : List Line) : Prop :=
  ∃ h t, em = h :: t ∧ trigger c h (t ++ follow) = .stop 0

theorem hasDirective_run (nop : List Int) (bl follow : List Line) (acc : List Int) (hne : bl ≠ [])
    (hb : byteRun nop bl acc = true) : hasDirective (bl ++ follow) = true := by
  cases bl with
  | nil => exact absurd rfl hne
  | cons l rest =>
    simp only [byteRun, Bool.and_eq_true] at hb
    have : isByteDir l = true := hb.1.1
    unfold isByteDir at this
    simp only [List.cons_append, hasDirective]
    cases hd : l.dir with
    | none => rw [hd] at this; simp at this
    | some d => rfl

/-- what the marker move followed by a complete byte run triggers -/
theorem trigger_markerMov (c : Cfg) (m : MarkerConv) (hag : Agree c m) (val : Int) (mv : Line)
    (bl follow : List Line) (hm : MarkerMov m val mv) (hne : bl ≠ [])
    (hb : byteRunS m.nop bl [] = true) :
    trigger c mv (bl ++ follow) =
      if val = m.startVal then .start (1 + bl.length)
      else if val = m.endVal then .stop 0 else .none := by
  obtain ⟨hmov, hreg, hvals, hnop, hrev, _, hne2, _⟩ := hag
  obtain ⟨⟨mn, hmn, hmem⟩, hs, hd⟩ := hm
  rw [byteRunS_eq] at hb
  unfold trigger
  rw [hmn]
  simp only
  have hc : c.movInstr.contains mn = true := by rw [hmov]; simpa using hmem
  have hdir := hasDirective_run m.nop bl follow [] hne hb
  rw [hc, hdir]
  simp only [Bool.and_self, if_true]
  have hsi : (if c.reverse then Gen.srcIdxRev else Gen.srcIdx) = (if m.immFirst then 0 else 1) := by
    rw [hrev]; cases m.immFirst <;> rfl
  have hdi : (if c.reverse then Gen.dstIdxRev else Gen.dstIdx) = (if m.immFirst then 1 else 0) := by
    rw [hrev]; cases m.immFirst <;> rfl
  rw [hsi, hdi, hs, hd]
  simp only
  have v0 : c.vals[Gen.valIdxStart]? = some m.startVal := by rw [hvals]; rfl
  have v1 : c.vals[Gen.valIdxEnd]? = some m.endVal := by rw [hvals]; rfl
  have hmb : matchBytes (bl ++ follow) c.nop = .hit bl.length := by
    unfold matchBytes
    rw [hnop, matchBytesGo_run m.nop bl follow [] 0 hb]
    simp
  rw [v0, v1, hmb]
  have om : ∀ w, opsMatch c (.imm (some val)) (.reg m.reg) (some w) = decide (val = w) := by
    intro w
    by_cases hw : val = w
    · rw [decide_eq_true hw, opsMatch_iff]; exact ⟨by rw [hw], by rw [hreg]⟩
    · rw [decide_eq_false hw, Bool.eq_false_iff, ne_eq, opsMatch_iff]
      intro h; apply hw; injection h.1 with h1; injection h1
  rw [om, om]
  by_cases h1 : val = m.startVal
  · simp [h1, show Gen.startOffBytes = 1 from rfl]
  · by_cases h2 : val = m.endVal
    · simp [h2, show Gen.endOffBytes = 0 from rfl, show Gen.startOffBytes = 1 from rfl]
    · simp [h1, h2]

theorem plain_quietSeg (c : Cfg) (bl follow : List Line) (hp : ∀ l ∈ bl, PlainLine l) :
    quietSeg c bl follow = true := by
  induction bl with
  | nil => rfl
  | cons l rest ih =>
    simp only [quietSeg, Bool.and_eq_true, beq_iff_eq]
    obtain ⟨h1, h2, h3⟩ := hp l (by simp)
    exact ⟨trigger_plain c l _ h1 h2 h3, ih (fun x hx => hp x (by simp [hx]))⟩

/-- every documented start-marker style is recognised, whatever follows the marker -/
theorem startMarker_isStart (c : Cfg) (m : MarkerConv) (hag : Agree c m) (sm : List Line)
    (h : StartMarker m sm) (follow : List Line) : IsStart c sm follow := by
  cases h with
  | comment l h1 h2 =>
    refine ⟨l, [], rfl, ?_, rfl⟩
    unfold trigger
    rw [h1]
    have e1 : Gen.commentStart = commentBegin := rfl
    simp [hag.2.2.2.2.2.1, h2, e1, show Gen.startOffComment = 1 from rfl]
  | bytes mv bl hm hne hb hp =>
    refine ⟨mv, bl, rfl, ?_, plain_quietSeg c bl follow hp⟩
    rw [trigger_markerMov c m hag m.startVal mv bl follow hm hne hb]
    simp only [if_true, List.length_cons]
    congr 1; omega

/-- every documented end-marker style is recognised, whatever follows the marker -/
theorem endMarker_isEnd (c : Cfg) (m : MarkerConv) (hag : Agree c m) (em : List Line)
    (h : EndMarker m em) (follow : List Line) : IsEnd c em follow := by
  cases h with
  | comment l h1 h2 =>
    refine ⟨l, [], rfl, ?_⟩
    unfold trigger
    rw [h1]
    have e1 : Gen.commentStart = commentBegin := rfl
    have e2 : Gen.commentEnd = commentEnd := rfl
    have hne : commentEnd ≠ commentBegin := by decide
    simp [hag.2.2.2.2.2.1, h2, e1, e2, hne, show Gen.endOffComment = 0 from rfl]
  | bytes mv bl hm hne hb =>
    refine ⟨mv, bl, rfl, ?_⟩
    rw [trigger_markerMov c m hag m.endVal mv bl follow hm hne hb]
    have : m.endVal ≠ m.startVal := fun e => hag.2.2.2.2.2.2.1 e.symm
    simp [this]

/-! ### the selection theorems -/

/-- scan of a five-part file whose prologue contains no end marker (it may contain further start
    markers: the *last* start marker before the first end marker counts), in terms of the scan's events -/
theorem marked_exact_sem (c : Cfg) (pro sm body em epi : List Line)
    (hpro : noStopSeg c pro (sm ++ (body ++ (em ++ epi))) = true)
    (hsm : IsStart c sm (body ++ (em ++ epi)))
    (hbody : quietSeg c body (em ++ epi) = true)
    (hem : IsEnd c em epi) :
    findMarkedSection c (pro ++ (sm ++ (body ++ (em ++ epi)))) =
      some (some (pro.length + sm.length), some (pro.length + sm.length + body.length)) := by
  unfold findMarkedSection
  obtain ⟨s', hs'⟩ := scan_noStop c pro _ hpro 0 none
  rw [hs']
  obtain ⟨h, t, hsmeq, htr, hq⟩ := hsm
  obtain ⟨h', t', hemeq, htr'⟩ := hem
  subst hsmeq
  rw [List.cons_append, scan, htr]
  simp only [Option.isSome_none, Bool.false_eq_true, if_false]
  rw [scan_quiet c t _ hq, scan_quiet c body _ hbody]
  subst hemeq
  rw [List.cons_append, scan, htr']
  simp only [Option.isSome_some, if_true, List.length_cons]
  congr 2
  · congr 1; omega
  · congr 1; omega

/-- **marked_exact** (∀ prologue, body, epilogue; ∀ marker style; both ISAs through `Agree`): for
    `file = prologue ++ start ++ body ++ end ++ epilogue` with prologue and body free of markers — decoy
    moves of other values, into other registers, or not followed by the nop bytes are allowed — and an
    arbitrary epilogue, the selected kernel is exactly `body`. -/
theorem marked_exact (c : Cfg) (m : MarkerConv) (hag : Agree c m) (pro sm body em epi : List Line)
    (hpro : Quiet m pro (sm ++ (body ++ (em ++ epi))))
    (hsm : StartMarker m sm)
    (hbody : Quiet m body (em ++ epi))
    (hem : EndMarker m em) :
    reduceWith c (pro ++ (sm ++ (body ++ (em ++ epi)))) = some body := by
  unfold reduceWith
  rw [marked_exact_sem c pro sm body em epi
    (quiet_noStop c _ _ (quiet_quietSeg c m hag _ _ hpro))
    (startMarker_isStart c m hag sm hsm _)
    (quiet_quietSeg c m hag _ _ hbody)
    (endMarker_isEnd c m hag em hem _)]
  simp only [Option.map_some]
  rw [slice_body]

/-- the same through `reduce_to_section(kernel, isa)` for x86 (`isa` in any case: `isa.lower()`) -/
theorem marked_exact_x86 (isa : Txt) (hisa : lower isa = [120, 56, 54]) (pro sm body em epi : List Line)
    (hpro : Quiet x86Marker pro (sm ++ (body ++ (em ++ epi)))) (hsm : StartMarker x86Marker sm)
    (hbody : Quiet x86Marker body (em ++ epi)) (hem : EndMarker x86Marker em) :
    reduceToSection (pro ++ (sm ++ (body ++ (em ++ epi)))) isa = .ok body := by
  unfold reduceToSection
  simp only [show Gen.isaLowered = true from rfl, if_true, hisa, show Gen.x86IsaName = [120, 56, 54] from rfl]
  rw [marked_exact x86Cfg x86Marker x86_agree pro sm body em epi hpro hsm hbody hem]

/-- the same for AArch64 -/
theorem marked_exact_a64 (isa : Txt) (hisa : lower isa = [97, 97, 114, 99, 104, 54, 52])
    (pro sm body em epi : List Line)
    (hpro : Quiet a64Marker pro (sm ++ (body ++ (em ++ epi)))) (hsm : StartMarker a64Marker sm)
    (hbody : Quiet a64Marker body (em ++ epi)) (hem : EndMarker a64Marker em) :
    reduceToSection (pro ++ (sm ++ (body ++ (em ++ epi)))) isa = .ok body := by
  unfold reduceToSection
  have h1 : ([97, 97, 114, 99, 104, 54, 52] : Txt) ≠ [120, 56, 54] := by decide
  simp only [show Gen.isaLowered = true from rfl, if_true, hisa, show Gen.x86IsaName = [120, 56, 54] from rfl,
    show Gen.a64IsaName = [97, 97, 114, 99, 104, 54, 52] from rfl, h1, if_false]
  rw [marked_exact a64Cfg a64Marker a64_agree pro sm body em epi hpro hsm hbody hem]

/-- the result is the positional "between" of the specification -/
theorem marked_exact_between (c : Cfg) (m : MarkerConv) (hag : Agree c m) (pro sm body em epi : List Line)
    (hpro : Quiet m pro (sm ++ (body ++ (em ++ epi)))) (hsm : StartMarker m sm)
    (hbody : Quiet m body (em ++ epi)) (hem : EndMarker m em) :
    reduceWith c (pro ++ (sm ++ (body ++ (em ++ epi)))) =
      some (between (pro ++ (sm ++ (body ++ (em ++ epi)))) pro.length sm.length body.length) := by
  rw [marked_exact c m hag pro sm body em epi hpro hsm hbody hem]
  unfold between
  have h1 : pro ++ (sm ++ (body ++ (em ++ epi))) = (pro ++ sm) ++ (body ++ (em ++ epi)) := by simp
  have h3 : pro.length + sm.length = (pro ++ sm).length := by simp
  rw [h1, h3, List.drop_left', List.take_left']
  · rfl
  · rfl

/-- **no_marker_whole**: without any marker the whole file is the kernel -/
theorem no_marker_whole (c : Cfg) (m : MarkerConv) (hag : Agree c m) (lines : List Line)
    (h : Quiet m lines []) : reduceWith c lines = some lines := by
  have hq := quiet_quietSeg c m hag lines [] h
  unfold reduceWith findMarkedSection
  have := scan_quiet c lines [] hq 0 none
  rw [List.append_nil] at this
  rw [this]
  simp [scan, slice]

/-- only a start marker: from the line after it to the end of the file -/
theorem start_only (c : Cfg) (m : MarkerConv) (hag : Agree c m) (pro sm rest : List Line)
    (hpro : Quiet m pro (sm ++ rest)) (hsm : StartMarker m sm) (hrest : Quiet m rest []) :
    reduceWith c (pro ++ (sm ++ rest)) = some rest := by
  unfold reduceWith findMarkedSection
  rw [scan_quiet c pro _ (quiet_quietSeg c m hag _ _ hpro)]
  obtain ⟨h, t, hsmeq, htr, hq⟩ := startMarker_isStart c m hag sm hsm rest
  subst hsmeq
  rw [List.cons_append, scan, htr]
  simp only [Option.isSome_none, Bool.false_eq_true, if_false]
  rw [scan_quiet c t _ hq]
  have := scan_quiet c rest [] (quiet_quietSeg c m hag _ _ hrest)
  rw [List.append_nil] at this
  rw [this]
  simp only [scan, Option.map_some, slice, Option.getD_some, Option.getD_none, List.take_length]
  have h3 : 0 + pro.length + (h :: t).length = (pro ++ (h :: t)).length := by simp
  have h4 : pro ++ h :: (t ++ rest) = (pro ++ h :: t) ++ rest := by simp
  rw [h3, h4, List.drop_left']
  rfl

/-- only an end marker (and no start marker after it either): from the beginning of the file to the
    line before the end marker -/
theorem end_only (c : Cfg) (m : MarkerConv) (hag : Agree c m) (pro em epi : List Line)
    (hpro : Quiet m pro (em ++ epi)) (hem : EndMarker m em)
    (hepi : ∀ h t, em = h :: t → Quiet m (t ++ epi) []) :
    reduceWith c (pro ++ (em ++ epi)) = some pro := by
  unfold reduceWith findMarkedSection
  rw [scan_quiet c pro _ (quiet_quietSeg c m hag _ _ hpro)]
  obtain ⟨h, t, hemeq, htr⟩ := endMarker_isEnd c m hag em hem epi
  subst hemeq
  rw [List.cons_append, scan, htr]
  simp only [Option.isSome_none, Bool.false_eq_true, if_false]
  have := scan_quiet_gen c (t ++ epi) [] (quiet_quietSeg c m hag _ _ (hepi h t rfl)) (0 + pro.length + 1)
    none (some (0 + pro.length + 0)) (by simp)
  rw [List.append_nil] at this
  rw [this]
  simp only [scan, Option.map_some, slice, Option.getD_some, Option.getD_none, List.drop_zero]
  have h3 : 0 + pro.length + 0 = pro.length := by omega
  rw [h3, List.take_left']
  rfl

/-- **noise lines are transparent for the selection** (∀ positions, ∀ noise): inserting lines without a
    mnemonic that are not marker comments (comments, labels, directives; blank lines never reach the parsed
    file, see `blank_line_transparent`) into a body of inert lines leaves the selection exact, and the
    instructions selected are the same as without the insertion. -/
theorem noise_transparent_select (c : Cfg) (m : MarkerConv) (hag : Agree c m)
    (pro sm b1 noise b2 em epi : List Line)
    (hpro : Quiet m pro (sm ++ ((b1 ++ (noise ++ b2)) ++ (em ++ epi)))) (hsm : StartMarker m sm)
    (hb1 : ∀ l ∈ b1, Inert m l) (hb2 : ∀ l ∈ b2, Inert m l)
    (hnoise : ∀ l ∈ noise, l.mnem = none ∧ l.comment ≠ some commentBegin ∧ l.comment ≠ some commentEnd)
    (hem : EndMarker m em) :
    reduceWith c (pro ++ (sm ++ ((b1 ++ (noise ++ b2)) ++ (em ++ epi)))) = some (b1 ++ (noise ++ b2)) ∧
    (b1 ++ (noise ++ b2)).filter (fun l => l.mnem.isSome) = (b1 ++ b2).filter (fun l => l.mnem.isSome) := by
  constructor
  · apply marked_exact c m hag pro sm _ em epi hpro hsm _ hem
    apply inert_quiet
    intro l hl
    simp only [List.mem_append] at hl
    rcases hl with h | h | h
    · exact hb1 l h
    · obtain ⟨h1, h2, h3⟩ := hnoise l h
      unfold Inert; rw [h1]; exact ⟨h2, h3⟩
    · exact hb2 l h
  · simp only [List.filter_append]
    have : noise.filter (fun l => l.mnem.isSome) = [] := by
      rw [List.filter_eq_nil_iff]
      intro l hl
      simp [(hnoise l hl).1]
    rw [this]; simp

/-! ### `--lines` -/

/-- the character map of `line_str.replace(":", "-")` -/
def colonToDash (c : Nat) : Nat := if c = Gen.lrReplaceFrom then Gen.lrReplaceTo else c

/-- a rendered item after the replacement -/
def itemPiece : Item → Txt
  | .single n => natDigits n
  | .range a b _ => natDigits a ++ 45 :: natDigits b

theorem natDigits_not_mem (n x : Nat) (hx : x = 44 ∨ x = 45 ∨ x = 58) : x ∉ natDigits n := by
  intro h
  have := natDigits_dig n x h
  unfold IsDig at this
  omega

theorem map_colonToDash_digits (n : Nat) : (natDigits n).map colonToDash = natDigits n := by
  rw [List.map_congr_left (g := id)]
  · simp
  · intro c hc
    have := natDigits_dig n c hc
    unfold IsDig at this
    have h58 : Gen.lrReplaceFrom = 58 := rfl
    simp only [colonToDash, h58, id]
    rw [if_neg (by omega)]

theorem render_replaced (it : Item) : it.render.map colonToDash = itemPiece it := by
  cases it with
  | single n => exact map_colonToDash_digits n
  | range a b colon =>
    simp only [Item.render, itemPiece, List.map_append, List.map_cons, map_colonToDash_digits]
    cases colon <;> rfl

theorem itemPiece_no_comma (it : Item) : 44 ∉ itemPiece it := by
  cases it with
  | single n => exact natDigits_not_mem n 44 (by simp)
  | range a b colon =>
    simp only [itemPiece, List.mem_append, List.mem_cons]
    intro h
    rcases h with h | h | h
    · exact natDigits_not_mem a 44 (by simp) h
    · omega
    · exact natDigits_not_mem b 44 (by simp) h

theorem pieceRange_item (it : Item) :
    pieceRange (itemPiece it) = some (it.denote.map (fun (n : Nat) => (n : Int))) := by
  have h45 : Gen.lrRangeSep = 45 := rfl
  cases it with
  | single n =>
    unfold pieceRange
    have : (itemPiece (.single n)).contains Gen.lrRangeSep = false := by
      rw [h45, Bool.eq_false_iff]
      intro h
      rw [List.contains_iff_mem] at h
      exact natDigits_not_mem n 45 (by simp) h
    rw [this]
    simp [itemPiece, pyInt10_natDigits, Item.denote]
  | range a b colon =>
    unfold pieceRange
    have : (itemPiece (.range a b colon)).contains Gen.lrRangeSep = true := by
      rw [h45, List.contains_iff_mem]; simp [itemPiece]
    rw [this]
    simp only [if_true, itemPiece, h45]
    rw [splitOn_append_sep 45 _ _ (natDigits_not_mem a 45 (by simp)),
        splitOn_no_sep 45 _ (natDigits_not_mem b 45 (by simp))]
    simp only [show Gen.lrIdxStart = 0 from rfl, show Gen.lrIdxEnd = 1 from rfl, List.getElem?_cons_zero,
      List.getElem?_cons_succ, pyInt10_natDigits, show Gen.lrEndInc = 1 from rfl]
    rw [rangeInt_nat]
    rfl

/-- **lines_denotation** (∀ `--lines` specifications: any non-empty list of single numbers and
    inclusive `a-b` / `a:b` ranges, any sizes): `get_line_range` of the rendered string is exactly the
    denotation — every named number, ranges with both ends included, in the order written. -/
theorem lines_denotation (items : List Item) (hne : items ≠ []) :
    getLineRange (renderSpec items) = some ((denoteAll items).map (fun (n : Nat) => (n : Int))) := by
  unfold getLineRange renderSpec
  have h44 : Gen.lrListSep = 44 := rfl
  have hmap : (joinWith 44 (items.map Item.render)).map
      (fun c => if c = Gen.lrReplaceFrom then Gen.lrReplaceTo else c) = joinWith 44 (items.map itemPiece) := by
    have := map_joinWith colonToDash 44 (items.map Item.render)
    have h1 : colonToDash 44 = 44 := by decide
    rw [h1, List.map_map] at this
    have h2 : ((fun p => List.map colonToDash p) ∘ Item.render) = itemPiece := by
      funext it; exact render_replaced it
    rw [h2] at this
    exact this
  simp only [hmap, h44]
  rw [splitOn_joinWith 44 (items.map itemPiece) (by simpa using hne)
    (by intro p hp; simp only [List.mem_map] at hp; obtain ⟨it, _, rfl⟩ := hp; exact itemPiece_no_comma it)]
  rw [List.map_map]
  have h3 : (pieceRange ∘ itemPiece) = (fun it => some (it.denote.map (fun (n : Nat) => (n : Int)))) := by
    funext it; exact pieceRange_item it
  rw [h3]
  have h4 : items.map (fun it => some (it.denote.map (fun (n : Nat) => (n : Int)))) =
      (items.map (fun it => it.denote.map (fun (n : Nat) => (n : Int)))).map some := by
    rw [List.map_map]; rfl
  rw [h4, collect_somes]
  congr 1
  simp only [denoteAll, List.flatMap_def, List.map_flatten, List.map_map]
  rfl

theorem mem_denoteAll (items : List Item) (n : Nat) : n ∈ denoteAll items ↔ Named items n := by
  unfold denoteAll Named
  simp only [List.mem_flatMap]
  constructor
  · rintro ⟨it, hit, hn⟩
    refine ⟨it, hit, ?_⟩
    cases it with
    | single m => simpa [Item.denote] using hn
    | range a b colon =>
      simp only [Item.denote, List.mem_range'_1] at hn
      simp only; omega
  · rintro ⟨it, hit, hn⟩
    refine ⟨it, hit, ?_⟩
    cases it with
    | single m => simpa [Item.denote] using hn
    | range a b colon =>
      simp only at hn
      simp only [Item.denote, List.mem_range'_1]; omega

/-- the `--lines` filter keeps exactly the lines whose number is in the range, in file order -/
theorem select_lines_spec (r : List Int) (kernel : List Line) :
    (selectLines r kernel).Sublist kernel ∧
    ∀ l, l ∈ selectLines r kernel ↔ l ∈ kernel ∧ (l.num : Int) ∈ r := by
  unfold selectLines
  refine ⟨List.filter_sublist, ?_⟩
  intro l
  simp [List.mem_filter]

/-- **select_lines_exact** (∀ specifications, ∀ files): `--lines` selects exactly the lines whose
    number is named by the specification — nothing else, nothing twice, in file order. -/
theorem select_lines_exact (items : List Item) (hne : items ≠ []) (kernel : List Line) :
    ∃ r, getLineRange (renderSpec items) = some r ∧ (selectLines r kernel).Sublist kernel ∧
      ∀ l, l ∈ selectLines r kernel ↔ l ∈ kernel ∧ Named items l.num := by
  refine ⟨_, lines_denotation items hne, (select_lines_spec _ kernel).1, ?_⟩
  intro l
  rw [(select_lines_spec _ kernel).2 l, ← mem_denoteAll]
  simp only [List.mem_map]
  constructor
  · rintro ⟨hk, k, hkm, hkn⟩
    have : k = l.num := by exact_mod_cast hkn
    exact ⟨hk, this ▸ hkm⟩
  · rintro ⟨hk, hm⟩
    exact ⟨hk, l.num, hm, rfl⟩

/-- a range that names the lines of `body` and none of the lines around it selects `body` -/
theorem select_segment (r : List Int) (pro body epi : List Line)
    (hp : ∀ l ∈ pro, (l.num : Int) ∉ r) (hb : ∀ l ∈ body, (l.num : Int) ∈ r)
    (he : ∀ l ∈ epi, (l.num : Int) ∉ r) : selectLines r (pro ++ (body ++ epi)) = body := by
  unfold selectLines
  rw [List.filter_append, List.filter_append]
  have h1 : pro.filter (fun l => r.contains (l.num : Int)) = [] := by
    rw [List.filter_eq_nil_iff]; intro l hl; simpa using hp l hl
  have h2 : epi.filter (fun l => r.contains (l.num : Int)) = [] := by
    rw [List.filter_eq_nil_iff]; intro l hl; simpa using he l hl
  have h3 : body.filter (fun l => r.contains (l.num : Int)) = body := by
    rw [List.filter_eq_self]; intro l hl; simpa using hb l hl
  rw [h1, h2, h3]; simp

/-- **three ways, same kernel** (selection level): for a marked file whose body carries the line
    numbers `a … b` (everything before it smaller, everything after it larger), the markers, `--lines
    a-b` (or `a:b`) and the body alone as a file select the same lines. -/
theorem three_ways_select (c : Cfg) (m : MarkerConv) (hag : Agree c m) (pro sm body em epi : List Line)
    (hpro : Quiet m pro (sm ++ (body ++ (em ++ epi)))) (hsm : StartMarker m sm)
    (hbody : Quiet m body (em ++ epi)) (hem : EndMarker m em) (halone : Quiet m body [])
    (a b : Nat) (colon : Bool)
    (hb : ∀ l ∈ body, a ≤ l.num ∧ l.num ≤ b) (hlo : ∀ l ∈ pro ++ sm, l.num < a)
    (hhi : ∀ l ∈ em ++ epi, b < l.num) :
    let file := pro ++ (sm ++ (body ++ (em ++ epi)))
    reduceWith c file = some body ∧
    (∃ r, getLineRange (renderSpec [.range a b colon]) = some r ∧ selectLines r file = body) ∧
    reduceWith c body = some body := by
  refine ⟨marked_exact c m hag pro sm body em epi hpro hsm hbody hem, ?_, no_marker_whole c m hag body halone⟩
  refine ⟨_, lines_denotation [.range a b colon] (by simp), ?_⟩
  have hfile : pro ++ (sm ++ (body ++ (em ++ epi))) = (pro ++ sm) ++ (body ++ (em ++ epi)) := by simp
  rw [hfile]
  have hmem : ∀ n : Nat, ((n : Int) ∈ (denoteAll [.range a b colon]).map (fun (n : Nat) => (n : Int))) ↔
      (a ≤ n ∧ n ≤ b) := by
    intro n
    simp only [denoteAll, List.flatMap_cons, List.flatMap_nil, List.append_nil, Item.denote, List.mem_map,
      List.mem_range'_1]
    constructor
    · rintro ⟨k, hk, hkn⟩; have : k = n := by exact_mod_cast hkn
      omega
    · intro h; exact ⟨n, by omega, rfl⟩
  apply select_segment
  · intro l hl; rw [hmem]; have := hlo l hl; omega
  · intro l hl; rw [hmem]; exact hb l hl
  · intro l hl; rw [hmem]; have := hhi l hl; omega

/-! ### which lines exist and how they are numbered (`parse_file`) -/

theorem numberFrom_texts (start i : Nat) (ts : List Txt) :
    (numberFrom start i ts).map (·.2) = ts.filter (fun t => !isBlank t) := by
  induction ts generalizing i with
  | nil => rfl
  | cons t ts ih =>
    rw [numberFrom]
    by_cases hb : isBlank t = true
    · simp [hb, ih]
    · simp [hb, ih]

theorem numberFrom_lower (start i : Nat) (ts : List Txt) :
    ∀ p ∈ numberFrom start i ts, i + Gen.pfFirstLine + start ≤ p.1 := by
  induction ts generalizing i with
  | nil => simp [numberFrom]
  | cons t ts ih =>
    rw [numberFrom]
    intro p hp
    split at hp
    · have := ih (i + 1) p hp; omega
    · simp only [List.mem_cons] at hp
      cases hp with
      | inl h => rw [h]; exact Nat.le_refl _
      | inr h => have := ih (i + 1) p h; omega

/-- line numbers are strictly increasing -/
theorem numbers_increasing (start i : Nat) (ts : List Txt) :
    ((numberFrom start i ts).map (·.1)).Pairwise (· < ·) := by
  induction ts generalizing i with
  | nil => simp [numberFrom]
  | cons t ts ih =>
    rw [numberFrom]
    split
    · exact ih (i + 1)
    · simp only [List.map_cons, List.pairwise_cons, List.mem_map]
      refine ⟨?_, ih (i + 1)⟩
      rintro n ⟨p, hp, rfl⟩
      have := numberFrom_lower start (i + 1) ts p hp
      omega

/-- a line's number is its position in the file (counted from `pfFirstLine + start`) -/
theorem number_is_position (start i : Nat) (ts : List Txt) :
    ∀ p ∈ numberFrom start i ts, ∃ k, ts[k]? = some p.2 ∧ p.1 = i + k + Gen.pfFirstLine + start := by
  induction ts generalizing i with
  | nil => simp [numberFrom]
  | cons t ts ih =>
    rw [numberFrom]
    intro p hp
    have step : ∀ q ∈ numberFrom start (i + 1) ts,
        ∃ k, (t :: ts)[k]? = some q.2 ∧ q.1 = i + k + Gen.pfFirstLine + start := by
      intro q hq
      obtain ⟨k, hk, hn⟩ := ih (i + 1) q hq
      exact ⟨k + 1, by simpa using hk, by omega⟩
    split at hp
    · exact step p hp
    · simp only [List.mem_cons] at hp
      cases hp with
      | inl h => exact ⟨0, by rw [h]; rfl, by rw [h]; simp⟩
      | inr h => exact step p h

/-- **blank lines are transparent** (∀ files, ∀ positions): inserting a whitespace-only line changes
    no line's text and drops no line; only the numbers of the later lines move (by one). -/
theorem blank_line_transparent (start : Nat) (xs ys : List Txt) (b : Txt) (hb : isBlank b = true) :
    (numberFrom start 0 (xs ++ b :: ys)).map (·.2) = (numberFrom start 0 (xs ++ ys)).map (·.2) := by
  rw [numberFrom_texts, numberFrom_texts, List.filter_append, List.filter_append, List.filter_cons]
  simp [hb]

/-- a selection by line number is not affected by blank lines *outside* the numbers it names: the
    numbers of a file are determined by position, see `number_is_position` -/
theorem parseFileNums_wf (content : Txt) :
    ((parseFileNums content).map (·.1)).Pairwise (· < ·) := numbers_increasing _ 0 _

/-! ### executable checkers for the vocabulary (used by the non-vacuity examples) -/

def inertB (m : MarkerConv) (l : Line) : Bool :=
  match l.mnem with
  | none => l.comment != some commentBegin && l.comment != some commentEnd
  | some mn => !m.movs.contains mn ||
      match l.ops[if m.immFirst then 0 else 1]?, l.ops[if m.immFirst then 1 else 0]? with
      | some src, some dst =>
        dst != .reg m.reg || (src != .imm (some m.startVal) && src != .imm (some m.endVal))
      | _, _ => false

def noBytesAfterB (m : MarkerConv) (l : Line) (rest : List Line) : Bool :=
  l.mnem.isSome && (l.ops[0]?).isSome && (l.ops[1]?).isSome &&
  (!hasDirective rest || matchBytes rest m.nop == .miss)

def quietB (m : MarkerConv) : List Line → List Line → Bool
  | [], _ => true
  | l :: b, follow => (inertB m l || noBytesAfterB m l (b ++ follow)) && quietB m b follow

def markerMovB (m : MarkerConv) (val : Int) (l : Line) : Bool :=
  (match l.mnem with | some mn => m.movs.contains mn | none => false) &&
  l.ops[if m.immFirst then 0 else 1]? == some (.imm (some val)) &&
  l.ops[if m.immFirst then 1 else 0]? == some (.reg m.reg)

def plainB (l : Line) : Bool :=
  l.mnem.isNone && l.comment != some commentBegin && l.comment != some commentEnd

theorem inertB_sound (m : MarkerConv) (l : Line) (h : inertB m l = true) : Inert m l := by
  unfold inertB at h
  unfold Inert
  cases hm : l.mnem with
  | none => rw [hm] at h; simpa using h
  | some mn =>
    rw [hm] at h
    simp only [Bool.or_eq_true, Bool.not_eq_true', List.contains_eq_mem, decide_eq_false_iff_not] at h
    cases h with
    | inl h => exact Or.inl h
    | inr h =>
      right
      cases hs : l.ops[if m.immFirst then 0 else 1]? with
      | none => rw [hs] at h; simp at h
      | some src =>
        cases hd : l.ops[if m.immFirst then 1 else 0]? with
        | none => rw [hs, hd] at h; simp at h
        | some dst =>
          rw [hs, hd] at h
          refine ⟨src, dst, rfl, rfl, ?_⟩
          simpa using h

theorem noBytesAfterB_sound (m : MarkerConv) (l : Line) (rest : List Line)
    (h : noBytesAfterB m l rest = true) : NoBytesAfter m l rest := by
  unfold noBytesAfterB at h
  simp only [Bool.and_eq_true, Bool.or_eq_true, Bool.not_eq_true', beq_iff_eq] at h
  exact ⟨h.1.1.1, h.1.1.2, h.1.2, h.2⟩

theorem quietB_sound (m : MarkerConv) (seg follow : List Line) (h : quietB m seg follow = true) :
    Quiet m seg follow := by
  induction seg with
  | nil => trivial
  | cons l b ih =>
    simp only [quietB, Bool.and_eq_true, Bool.or_eq_true] at h
    refine ⟨?_, ih h.2⟩
    cases h.1 with
    | inl hi => exact Or.inl (inertB_sound m l hi)
    | inr hn => exact Or.inr (noBytesAfterB_sound m l _ hn)

theorem markerMovB_sound (m : MarkerConv) (val : Int) (l : Line) (h : markerMovB m val l = true) :
    MarkerMov m val l := by
  unfold markerMovB at h
  simp only [Bool.and_eq_true, beq_iff_eq] at h
  refine ⟨?_, h.1.2, h.2⟩
  cases hm : l.mnem with
  | none => rw [hm] at h; simp at h
  | some mn => rw [hm] at h; exact ⟨mn, rfl, by simpa using h.1.1⟩

theorem plainB_sound (l : Line) (h : plainB l = true) : PlainLine l := by
  unfold plainB at h
  simp only [Bool.and_eq_true, Option.isNone_iff_eq_none, bne_iff_ne, ne_eq] at h
  exact ⟨h.1.1, h.1.2, h.2⟩

/-! ### non-vacuity: concrete files of both ISAs satisfy the hypotheses, and the model computes the
    stated result on them -/

namespace Ex
def ins (n : Nat) (mn : Txt) (ops : List Opd) : Line := ⟨n, some mn, none, none, ops⟩
def cmt (n : Nat) (t : Txt) : Line := ⟨n, none, some t, none, []⟩
def dir (n : Nat) (name : Txt) (ps : List Txt) (c : Option Txt := none) : Line :=
  ⟨n, none, c, some ⟨name, ps.map some⟩, []⟩
def mov : Txt := [109, 111, 118]
def movl : Txt := [109, 111, 118, 108]
def addl : Txt := [97, 100, 100, 108]
def ebx : Txt := [101, 98, 120]
def eax : Txt := [101, 97, 120]
def x1 : Txt := [120, 49]
def x2 : Txt := [120, 50]
def byte : Txt := [98, 121, 116, 101]
def p2align : Txt := [112, 50, 97, 108, 105, 103, 110]
def isaX86 : Txt := [88, 56, 54]          -- "X86": any case
def isaA64 : Txt := [65, 65, 114, 99, 104, 54, 52]  -- "AArch64"

/-- x86 prologue with all three kinds of decoys: other value, other register, no bytes after -/
def pro : List Line := [
  ins 1 movl [.imm (some 112), .reg ebx], dir 2 byte [[49, 48, 48], [49, 48, 51], [49, 52, 52]],
  ins 3 movl [.imm (some 111), .reg eax], dir 4 byte [[49, 48, 48], [49, 48, 51], [49, 52, 52]],
  ins 5 movl [.imm (some 111), .reg ebx], ins 6 addl [.imm (some 1), .reg eax],
  ins 7 movl [.imm (some 111), .reg ebx], dir 8 byte [[49, 48, 48], [49, 48, 51], [49, 52, 53]],
  cmt 9 [79, 83, 65, 67, 65, 45, 66, 69, 71, 73, 78, 88]]
/-- `mov $111, %ebx` / `.byte 0x64` / `.byte 103,144` (hex and decimal, two lines) -/
def sm : List Line := [ins 10 mov [.imm (some 111), .reg ebx], dir 11 byte [[48, 120, 54, 52]],
  dir 12 byte [[49, 48, 51], [49, 52, 52]] (some [109])]
/-- the body starts with a `.byte` line of its own and ends with a bare marker move -/
def body : List Line := [dir 13 byte [[55]], ins 14 addl [.imm (some 1), .reg eax],
  dir 15 p2align [[52]], ins 16 movl [.imm (some 222), .reg ebx]]
def emC : List Line := [cmt 17 commentEnd]
def emB : List Line := [ins 17 movl [.imm (some 222), .reg ebx], dir 18 byte [[49, 48, 48]],
  dir 19 byte [[49, 48, 51]], dir 20 byte [[49, 52, 52]]]
/-- the epilogue is arbitrary: here it contains both kinds of markers again -/
def epi : List Line := [cmt 21 commentBegin, ins 22 addl [.imm (some 1), .reg eax], cmt 23 commentEnd]

example : Quiet x86Marker pro (sm ++ (body ++ (emC ++ epi))) := quietB_sound _ _ _ (by decide +kernel)
example : Quiet x86Marker body (emC ++ epi) := quietB_sound _ _ _ (by decide +kernel)
example : Quiet x86Marker body (emB ++ epi) := quietB_sound _ _ _ (by decide +kernel)
example : Quiet x86Marker body [] := quietB_sound _ _ _ (by decide +kernel)
example : StartMarker x86Marker sm :=
  .bytes _ _ (markerMovB_sound _ _ _ (by decide +kernel)) (by simp) (by decide +kernel)
    (fun l hl => plainB_sound l (by revert l; decide +kernel))
example : StartMarker x86Marker [cmt 10 commentBegin] := .comment _ rfl rfl
example : EndMarker x86Marker emC := .comment _ rfl rfl
example : EndMarker x86Marker emB :=
  .bytes _ _ (markerMovB_sound _ _ _ (by decide +kernel)) (by simp) (by decide +kernel)
/-- and the model really computes `body` (directly, without the theorem) -/
example : reduceToSection (pro ++ (sm ++ (body ++ (emC ++ epi)))) isaX86 = .ok body := by decide +kernel
example : reduceToSection (pro ++ (sm ++ (body ++ (emB ++ epi)))) isaX86 = .ok body := by decide +kernel
example : reduceToSection (pro ++ body) isaX86 = .ok (pro ++ body) := by decide +kernel

/-- AArch64: `mov x1, #111` / `.byte 213,3,32,31`; immediate is the second operand -/
def smA : List Line := [ins 3 mov [.reg x1, .imm (some 111)],
  dir 4 byte [[50, 49, 51], [51], [51, 50], [51, 49]]]
def proA : List Line := [ins 1 mov [.reg x2, .imm (some 111)], dir 2 byte [[50, 49, 51], [51], [51, 50], [51, 49]]]
def bodyA : List Line := [ins 5 mov [.reg x1, .reg x2], ins 6 mov [.reg x1, .imm (some 5)]]
def emA : List Line := [ins 7 mov [.reg x1, .imm (some 222)], dir 8 byte [[48, 120, 100, 53], [51]],
  dir 9 byte [[51, 50], [51, 49]]]
example : Quiet a64Marker proA (smA ++ (bodyA ++ (emA ++ []))) := quietB_sound _ _ _ (by decide +kernel)
example : Quiet a64Marker bodyA (emA ++ []) := quietB_sound _ _ _ (by decide +kernel)
example : StartMarker a64Marker smA :=
  .bytes _ _ (markerMovB_sound _ _ _ (by decide +kernel)) (by simp) (by decide +kernel)
    (fun l hl => plainB_sound l (by revert l; decide +kernel))
example : EndMarker a64Marker emA :=
  .bytes _ _ (markerMovB_sound _ _ _ (by decide +kernel)) (by simp) (by decide +kernel)
example : reduceToSection (proA ++ (smA ++ (bodyA ++ (emA ++ [])))) isaA64 = .ok bodyA := by decide +kernel
-- the x86 marker is not an AArch64 marker (operand order, register)
example : reduceToSection (pro ++ (sm ++ (body ++ (emC ++ epi)))) isaA64 ≠ .ok body := by decide +kernel

-- decoys, one by one
example : Inert x86Marker (ins 1 movl [.imm (some 112), .reg ebx]) := inertB_sound _ _ (by decide +kernel)
example : Inert x86Marker (ins 1 movl [.imm (some 111), .reg eax]) := inertB_sound _ _ (by decide +kernel)
example : ¬ Inert x86Marker (ins 1 movl [.imm (some 111), .reg ebx]) := by
  intro h
  rcases h with h | ⟨src, dst, hs, hd, h⟩
  · exact h (by decide)
  · simp only [x86Marker, ins, if_true] at hs hd
    injection hs with hs; injection hd with hd
    subst hs; subst hd
    rcases h with h | h
    · exact h rfl
    · exact h.1 rfl

-- `--lines`
example : renderSpec [.single 7, .range 10 12 false, .range 3 4 true] =
    [55, 44, 49, 48, 45, 49, 50, 44, 51, 58, 52] := by decide +kernel   -- "7,10-12,3:4"
example : denoteAll [.single 7, .range 10 12 false, .range 3 4 true] = [7, 10, 11, 12, 3, 4] := by
  decide +kernel
example : getLineRange [55, 44, 49, 48, 45, 49, 50, 44, 51, 58, 52] = some [7, 10, 11, 12, 3, 4] := by
  decide +kernel
example : getLineRange [55, 44, 44, 56] = none := by decide +kernel        -- "7,,8": ValueError
example : natDigits 1234 = [49, 50, 51, 52] ∧ natDigits 0 = [48] := by decide +kernel
example : (selectLines [14, 15, 16] (pro ++ (sm ++ (body ++ (emC ++ epi))))).map (·.num) = [14, 15, 16] := by
  decide +kernel

-- numbering: blank lines are skipped but counted
example : parseFileNums [97, 10, 32, 9, 10, 10, 98, 10] = [(1, [97]), (4, [98])] := by decide +kernel
example : pyInt0 [48, 120, 54, 52] = some 100 ∧ pyInt0 [48, 49] = none ∧ pyInt0 [49, 95, 48] = some 10 ∧
    pyInt10 [32, 43, 48, 55, 32] = some 7 := by decide +kernel
end Ex

end OsacaVerif.Props.C11
