import OsacaVerif.Lemmas.EndToEndOpt
import OsacaVerif.Props.EndToEnd
import OsacaVerif.Props.EndToEndA64
import OsacaVerif.Props.C02Duality
/-
  End to end under the DEFAULT (optimal) scheduling: `osaca` without `--fixed`.

  `ArchSemantics.assign_optimal_throughput` (called twice by `osaca.inspect`) is modelled relationally (C01 / C02:
  any sequence of guarded 0.01-cycle moves).  `EndToEnd.analyseWith isa m o file P` is the whole analysis from
  the file text to the report with the per-line pressure vectors `P` supplied; `EndToEnd.OptimalOutcome` is the
  relation "admissible report of the file under optimal scheduling" (`P` feasible per instruction line for that
  line's micro-ops within `INC / 2` per micro-op — the bound `Props.C01.steps_feasible` proves).

  * `opt_factors`, `opt_fixed`, `opt_factors_ok` — `analyseWith … P` is `analyse` with the pressure cells of the
    lines replaced; `--fixed` is the instance `P = uniformP`;
  * `opt_invariant_part` — for EVERY `P` everything but the pressure cells and the port totals is that of the
    `--fixed` run: outcome kind, parsed file, kernel, rows (latency, latency without load, throughput), edges,
    critical path, LCD dictionary / figure / marks, report rows (flags, used ports, texts), CP and LCD columns;
  * `opt_uniform_admissible` — the uniform pressures are admissible with slack 0: the relation contains the
    `--fixed` report;
  * `opt_totals_feasible`, `opt_bottleneck_ge_optimum` — for admissible `P` the port totals are a feasible
    fractional schedule of all summed micro-ops within Σ εᵢ, so the reported bottleneck is ≥ optimum − Σ εᵢ
    (− half a cent of rounding);
  * `opt_report_roundtrip` — the report of `analyseWith … P` reads back to its view.

  For ALL files, models, ISA databases, options and pressure assignments.
-/
namespace OsacaVerif.Props.EndToEndOpt
open OsacaVerif OsacaVerif.Text OsacaVerif.EndToEnd OsacaVerif.Pipeline OsacaVerif.Ports OsacaVerif.Spec
open OsacaVerif.Props.EndToEnd

/-! ### 0. `analyseWith` is `analyse` with the pressure cells replaced -/

/-- **opt_factors**: the outcome of `analyseWith … P` is the outcome of the `--fixed` analysis — the same parse
    error, exception, selection failure — and an analysis is the analysis of the SAME kernel lines with their
    pressure vectors replaced (`setPressure P`), then the same graph / critical path / LCD / column sums / report -/
theorem opt_factors (isa : Operand.Isa) (m : Model) (o : Opts) (file : Txt) (P : Pressures) :
    analyseWith isa m o file P =
      match analyse isa m o file with
      | .ok r => .ok (resultOf m o (r.parsed.map (setPressure P)) (r.kernel.map (setPressure P))
                        (analyze (EndToEnd.cfgOf isa m o) (r.kernel.map (setPressure P))))
      | .parseError n e => .parseError n e
      | .semError n e => .semError n e
      | .badIsa => .badIsa
      | .raised => .raised
      | .badLines => .badLines
      | .emptyKernel => .emptyKernel := by
  unfold analyseWith analyse
  cases collect (parseFileOf isa file) with
  | error ne => rfl
  | ok fs => exact assemble_withPressure isa m o _ P

/-- **`--fixed` is the instance `P = uniformP`** -/
theorem opt_fixed (isa : Operand.Isa) (m : Model) (o : Opts) (file : Txt) :
    analyseWith isa m o file uniformP = analyse isa m o file := by
  unfold analyseWith analyse
  cases collect (parseFileOf isa file) with
  | error ne => rfl
  | ok fs =>
    have : (linesOf isa m fs).map (withPressure uniformP) = linesOf isa m fs := by
      have h : withPressure uniformP = id := by funext l; rfl
      rw [h, List.map_id]
    simp only [this]

theorem analyse_ok_resultOf (isa : Operand.Isa) (m : Model) (o : Opts) (file : Txt) (r : Result)
    (h : analyse isa m o file = .ok r) :
    r = resultOf m o r.parsed r.kernel (analyze (EndToEnd.cfgOf isa m o) r.kernel) := by
  obtain ⟨fs, k, _, _, _, _, hr⟩ := analyse_ok_inv isa m o file r h
  rw [hr]; rfl

/-- an analysis under `P`: the kernel of the `--fixed` run with replaced pressures; graph, critical path and LCD of
    the `--fixed` run; rows and column sums recomputed; the report and the text rendered from them with the same
    warning flags -/
theorem opt_factors_ok (isa : Operand.Isa) (m : Model) (o : Opts) (file : Txt) (P : Pressures) (r' : Result)
    (h : analyseWith isa m o file P = .ok r') :
    ∃ r, analyse isa m o file = .ok r ∧
      r'.parsed = r.parsed.map (setPressure P) ∧ r'.kernel = r.kernel.map (setPressure P) ∧
      r'.analysis = analyze (EndToEnd.cfgOf isa m o) r'.kernel ∧
      r'.analysis = { r.analysis with
                      rows := r'.kernel.map (rowOf m.mm.ports.length)
                      colSums := Ports.colSums Gen.tpSumSkipValue Gen.tpSumDigits (r'.kernel.map (toPorts m.mm.ports.length)) } ∧
      r'.report = toReport o.repr m.mm.ports o.ignoreUnknown m.mm.ports.length r'.kernel r'.analysis ∧
      r'.text = Report.fullAnalysis o.version o.file o.arch o.stamp (Report.archWarningFlag o.archGiven)
        (Report.lengthWarningFlag (linesGiven o.mode) r.kernel.length r.parsed.length) false r'.report := by
  rw [opt_factors] at h
  cases hr : analyse isa m o file with
  | ok r =>
    simp only [hr, EndToEnd.Outcome.ok.injEq] at h
    subst h
    have hres := analyse_ok_resultOf isa m o file r hr
    have ha : r.analysis = analyze (EndToEnd.cfgOf isa m o) r.kernel := by
      conv_lhs => rw [hres]
      rfl
    refine ⟨r, rfl, rfl, rfl, rfl, ?_, rfl, ?_⟩
    · rw [ha]
      exact analyze_setPressure P (EndToEnd.cfgOf isa m o) r.kernel
    · simp [resultOf]
  | parseError n e => simp [hr] at h
  | semError n e => simp [hr] at h
  | badIsa => simp [hr] at h
  | raised => simp [hr] at h
  | badLines => simp [hr] at h
  | emptyKernel => simp [hr] at h

/-! ### 1. everything but the pressure cells and the port totals is that of the `--fixed` run -/

/-- a line without its pressure vector -/
def erasePL (l : PLine) : PLine := { l with sem := { l.sem with pressure := [] } }
def eraseRow (r : Row) : Row := { r with pressure := [] }
/-- an analysis without the pressure cells of its rows and without the port totals -/
def eraseAnalysis (a : Analysis) : Analysis := { a with rows := a.rows.map eraseRow, colSums := [] }
/-- the record the report is rendered from, without pressure cells and totals -/
def eraseReport (r : Report.Analysis) : Report.Analysis :=
  { r with rows := r.rows.map (fun x => { x with press := [] }), tpSum := [] }
/-- a result without pressure cells, totals and the rendered text (which shows them; it is a function of the
    report record and the options, `opt_factors_ok`) -/
def eraseResult (r : Result) : Result :=
  { parsed := r.parsed.map erasePL, kernel := r.kernel.map erasePL, analysis := eraseAnalysis r.analysis,
    report := eraseReport r.report, text := [] }
def eraseOutcome : EndToEnd.Outcome → EndToEnd.Outcome
  | .ok r => .ok (eraseResult r)
  | x => x

theorem erasePL_setPressure (P : Pressures) (l : PLine) : erasePL (setPressure P l) = erasePL l := by
  unfold setPressure
  cases P l.num <;> rfl

theorem eraseRow_setPressure (P : Pressures) (n : Nat) (l : PLine) :
    eraseRow (rowOf n (setPressure P l)) = eraseRow (rowOf n l) := by
  simp only [rowOf, eraseRow, semOf, setPressure_isInstr, setPressure_num]
  split
  · rw [setPressure_sem]
  · rfl

theorem eraseReport_setPressure (P : Pressures) (repr : Rat → Txt) (ports : List Txt) (iu : Bool) (n : Nat)
    (k : List PLine) (a a' : Analysis) (h1 : a'.cpMarks = a.cpMarks) (h2 : a'.lcdDict = a.lcdDict) :
    eraseReport (toReport repr ports iu n (k.map (setPressure P)) a') = eraseReport (toReport repr ports iu n k a) := by
  simp only [toReport, eraseReport, h1, h2, List.map_map, textOf_setPressure]
  congr 1
  apply List.map_congr_left
  intro l _
  simp only [Function.comp_def, semOf, setPressure_isInstr, setPressure_num, setPressure_text]
  split
  · rw [setPressure_sem]
  · rfl

/-- **opt_invariant_part** (∀ files, models, options, ∀ pressure assignments `P` — admissible or not): the run under
    `P` and the `--fixed` run have the same outcome kind, and an analysis differs at most in the pressure cells and
    the port totals: the parsed file, the selected kernel, every row's latency / latency without load / throughput,
    the dependency edges with their weights, critical path total and marks, the LCD entries, dictionary, figure and
    marks, and of the report the rows (line, used ports, flags, text), the CP and LCD columns and the CP sum are
    equal.  The balancer cannot change anything else. -/
theorem opt_invariant_part (isa : Operand.Isa) (m : Model) (o : Opts) (file : Txt) (P : Pressures) :
    eraseOutcome (analyseWith isa m o file P) = eraseOutcome (analyse isa m o file) := by
  rw [opt_factors]
  cases hr : analyse isa m o file with
  | ok r =>
    simp only [eraseOutcome, EndToEnd.Outcome.ok.injEq]
    have hres := analyse_ok_resultOf isa m o file r hr
    conv_rhs => rw [hres]
    have ha := analyze_setPressure P (EndToEnd.cfgOf isa m o) r.kernel
    simp only [eraseResult, resultOf, Result.mk.injEq, List.map_map]
    refine ⟨?_, ?_, ?_, ?_, trivial⟩
    · apply List.map_congr_left; intro l _; exact erasePL_setPressure P l
    · apply List.map_congr_left; intro l _; exact erasePL_setPressure P l
    · rw [ha]
      simp only [eraseAnalysis, analyze, analyzeCore, List.map_map]
      congr 1
      apply List.map_congr_left; intro l _; exact eraseRow_setPressure P _ l
    · apply eraseReport_setPressure <;> rw [ha]
  | parseError n e => rfl
  | semError n e => rfl
  | badIsa => rfl
  | raised => rfl
  | badLines => rfl
  | emptyKernel => rfl

/-- the named parts, for an analysis under `P` next to the `--fixed` analysis -/
theorem opt_invariant_values (isa : Operand.Isa) (m : Model) (o : Opts) (file : Txt) (P : Pressures) (r r' : Result)
    (h : analyse isa m o file = .ok r) (h' : analyseWith isa m o file P = .ok r') :
    r'.kernel.map (·.num) = r.kernel.map (·.num) ∧
    r'.analysis.rows.map (fun x => (x.line, x.instr, x.lat, x.latWoLoad, x.tp)) =
      r.analysis.rows.map (fun x => (x.line, x.instr, x.lat, x.latWoLoad, x.tp)) ∧
    r'.analysis.edges = r.analysis.edges ∧ r'.analysis.cpTotal = r.analysis.cpTotal ∧
    r'.analysis.cpMarks = r.analysis.cpMarks ∧ r'.analysis.lcd = r.analysis.lcd ∧
    r'.analysis.lcdDict = r.analysis.lcdDict ∧ r'.analysis.lcdFigure = r.analysis.lcdFigure ∧
    r'.analysis.lcdMarks = r.analysis.lcdMarks ∧
    r'.report.rows.map (fun x => (x.line, x.used, x.hasMnemonic, x.flags, x.text)) =
      r.report.rows.map (fun x => (x.line, x.used, x.hasMnemonic, x.flags, x.text)) ∧
    r'.report.cp = r.report.cp ∧ r'.report.cpSum = r.report.cpSum ∧ r'.report.deps = r.report.deps ∧
    r'.report.ports = r.report.ports ∧ r'.report.ignoreUnknown = r.report.ignoreUnknown := by
  have e := opt_invariant_part isa m o file P
  rw [h, h'] at e
  simp only [eraseOutcome, EndToEnd.Outcome.ok.injEq, eraseResult, Result.mk.injEq] at e
  obtain ⟨_, ek, ea, er, _⟩ := e
  have e1 : r'.analysis.edges = r.analysis.edges := by
    have := congrArg (fun a : Analysis => a.edges) ea
    exact this
  have e2 : r'.analysis.cpTotal = r.analysis.cpTotal := by
    have := congrArg (fun a : Analysis => a.cpTotal) ea
    exact this
  have e3 : r'.analysis.cpMarks = r.analysis.cpMarks := by
    have := congrArg (fun a : Analysis => a.cpMarks) ea
    exact this
  have e4 : r'.analysis.lcd = r.analysis.lcd := by
    have := congrArg (fun a : Analysis => a.lcd) ea
    exact this
  have e5 : r'.analysis.lcdDict = r.analysis.lcdDict := by
    have := congrArg (fun a : Analysis => a.lcdDict) ea
    exact this
  have e6 : r'.analysis.lcdFigure = r.analysis.lcdFigure := by
    have := congrArg (fun a : Analysis => a.lcdFigure) ea
    exact this
  have e7 : r'.analysis.lcdMarks = r.analysis.lcdMarks := by
    have := congrArg (fun a : Analysis => a.lcdMarks) ea
    exact this
  have e8 : r'.report.cp = r.report.cp := by
    have := congrArg (fun a : Report.Analysis => a.cp) er
    exact this
  have e9 : r'.report.cpSum = r.report.cpSum := by
    have := congrArg (fun a : Report.Analysis => a.cpSum) er
    exact this
  have e10 : r'.report.deps = r.report.deps := by
    have := congrArg (fun a : Report.Analysis => a.deps) er
    exact this
  have e11 : r'.report.ports = r.report.ports := by
    have := congrArg (fun a : Report.Analysis => a.ports) er
    exact this
  have e12 : r'.report.ignoreUnknown = r.report.ignoreUnknown := by
    have := congrArg (fun a : Report.Analysis => a.ignoreUnknown) er
    exact this
  refine ⟨?_, ?_, e1, e2, e3, e4, e5, e6, e7, ?_, e8, e9, e10, e11, e12⟩
  · have := congrArg (List.map (·.num)) ek
    simpa [List.map_map, Function.comp_def, erasePL, PLine.num] using this
  · have := congrArg (fun a : Analysis => a.rows.map (fun x => (x.line, x.instr, x.lat, x.latWoLoad, x.tp))) ea
    simpa [eraseAnalysis, eraseRow, List.map_map, Function.comp_def] using this
  · have := congrArg (fun a : Report.Analysis => a.rows.map (fun x => (x.line, x.used, x.hasMnemonic, x.flags, x.text))) er
    simpa [eraseReport, List.map_map, Function.comp_def] using this


/-! ### 2. the uniform pressures are admissible -/

/-- every kernel line of an analysis is a line of the file, computed from its text, without exception -/
theorem kernel_line (isa : Operand.Isa) (m : Model) (o : Opts) (file : Txt) (r : Result) (h : analyse isa m o file = .ok r)
    (l : PLine) (hl : l ∈ r.kernel) :
    l = (lineOfText isa m l.num l.text).pl ∧ (lineOfText isa m l.num l.text).err = none := by
  obtain ⟨fs, k, hc, hs, _, he, hr⟩ := analyse_ok_inv isa m o file r h
  have hk : r.kernel = k := by rw [hr]; rfl
  rw [hk] at hl
  have hsub := select_sublist _ _ _ hs
  have hlines := linesOf_file isa m _ fs hc
  have hl' := hsub.subset hl
  rw [hlines] at hl'
  obtain ⟨t, ht, e⟩ := textLines_mem isa m _ l hl'
  have htext : l.text = t := by rw [e]; exact lineOfText_text isa m _ t
  rw [htext]
  refine ⟨e, ?_⟩
  have hmem : lineOfText isa m l.num t ∈ linesOf isa m fs := by
    rw [hlines]; exact List.mem_map.mpr ⟨(l.num, t), ht, rfl⟩
  exact firstErr_none _ _ he _ hmem l hl (by simp)

/-- the pressure vector of an instruction line of the file is the uniform split of the line's micro-ops
    (`Compose.assignTpLt_uniform` through the per-line composition) -/
theorem lineOfText_pressure (isa : Operand.Isa) (m : Model) (n : Nat) (t : Txt)
    (herr : (lineOfText isa m n t).err = none) (hi : (lineOfText isa m n t).pl.isInstr = true) :
    (lineOfText isa m n t).pl.sem.pressure = uniform m.mm.ports.length (uopsOfText isa m t) := by
  unfold lineOfText at herr hi ⊢
  unfold uopsOfText
  cases hp : parseLineOf isa t with
  | err e => simp [hp, PLine.isInstr] at hi
  | ok f =>
    simp only [hp, lineOf] at herr hi ⊢
    cases hs : semOfStages m (stagesOf isa m f) with
    | error e => simp [hs] at herr
    | ok s =>
      unfold semOfStages at hs
      cases ht : (stagesOf isa m f).tplt with
      | error e => simp [ht] at hs
      | ok tp =>
        simp only [ht] at hs
        cases hc : (stagesOf isa m f).changes with
        | error e => simp [hc] at hs
        | ok ch =>
          cases hcp : (stagesOf isa m f).changesPost with
          | error e => simp [hc, hcp] at hs
          | ok chp =>
            simp only [hc, hcp, Except.ok.injEq] at hs
            rw [← hs]
            exact Compose.assignTpLt_uniform m.mm _ tp (by simpa [stagesOf] using ht)

/-- **the `--fixed` pressure of a kernel line is the uniform split of `uopsOfText`** -/
theorem kernel_pressure_uniform (isa : Operand.Isa) (m : Model) (o : Opts) (file : Txt) (r : Result)
    (h : analyse isa m o file = .ok r) (l : PLine) (hl : l ∈ r.kernel) (hi : l.isInstr = true) :
    l.sem.pressure = uniform m.mm.ports.length (uopsOfText isa m l.text) := by
  obtain ⟨e, herr⟩ := kernel_line isa m o file r h l hl
  have hi' : (lineOfText isa m l.num l.text).pl.isInstr = true := by rw [← e]; exact hi
  have := lineOfText_pressure isa m l.num l.text herr hi'
  rw [← e] at this
  exact this

theorem slackOf_nonneg (us : List Uop) : 0 ≤ slackOf us := by
  unfold slackOf
  have h1 : (0 : Rat) ≤ Gen.balanceInc / 2 := by decide +kernel
  have h2 : (0 : Rat) ≤ (us.length : Rat) := by exact_mod_cast Nat.zero_le _
  exact mul_nonneg h1 h2

/-- **the uniform pressure of every kernel line is exactly feasible** (ε = 0) for the line's micro-ops, provided
    these are well-formed (non-negative cycles and multipliers, non-empty port sets inside the port list) -/
theorem opt_uniform_feasible (isa : Operand.Isa) (m : Model) (o : Opts) (file : Txt) (r : Result)
    (h : analyse isa m o file = .ok r) (l : PLine) (hl : l ∈ r.kernel) (hi : l.isInstr = true)
    (hw : WFUops m.mm.ports.length (uopsOfText isa m l.text)) :
    Feasible 0 m.mm.ports.length (uopsOfText isa m l.text) l.sem.pressure := by
  rw [kernel_pressure_uniform isa m o file r h l hl hi]
  exact Spec.uniform_feasible _ _ hw

/-- **opt_uniform_admissible** (∀ files, models, options): the pressures of the `--fixed` run are admissible — with
    slack 0 — so the relation `OptimalOutcome` is not empty and contains the `--fixed` outcome.  Hypothesis: the
    micro-ops of the kernel's instruction lines are well-formed (`Spec.WFUops`; a property of the model's data,
    C15). -/
theorem opt_uniform_admissible (isa : Operand.Isa) (m : Model) (o : Opts) (file : Txt)
    (hw : ∀ k, kernelOf isa m o file = some k → ∀ l ∈ k, l.isInstr = true →
      WFUops m.mm.ports.length (uopsOfText isa m l.text)) :
    (∀ k, kernelOf isa m o file = some k → Admissible isa m 0 k uniformP) ∧
    OptimalOutcome isa m o file (analyse isa m o file) := by
  have hadm : ∀ k, kernelOf isa m o file = some k → Admissible isa m 0 k uniformP := by
    intro k hk l hl hi
    unfold kernelOf at hk
    cases hr : analyse isa m o file with
    | ok r =>
      simp only [hr, Option.some.injEq] at hk
      subst hk
      have hf := opt_uniform_feasible isa m o file r hr l hl hi
        (hw r.kernel (by simp [kernelOf, hr]) l hl hi)
      have : (uniformP l.num).getD l.sem.pressure = l.sem.pressure := rfl
      rw [this]
      exact feasible_mono hf (by have := slackOf_nonneg (uopsOfText isa m l.text); linarith)
    | parseError n e => simp [hr] at hk
    | semError n e => simp [hr] at hk
    | badIsa => simp [hr] at hk
    | raised => simp [hr] at hk
    | badLines => simp [hr] at hk
    | emptyKernel => simp [hr] at hk
  exact ⟨hadm, uniformP, hadm, (opt_fixed isa m o file).symm⟩

/-- the executable test is sound: no inadmissible line reported ⇒ `Admissible` -/
theorem inadmissible_nil_admissible (isa : Operand.Isa) (m : Model) (tol : Rat) (htol : 0 ≤ tol) (k : List PLine)
    (P : Pressures) (h : inadmissible isa m tol k P = []) : Admissible isa m tol k P := by
  intro l hl hi
  unfold inadmissible at h
  rw [List.filterMap_eq_nil_iff] at h
  have := h l (List.mem_filter.mpr ⟨hl, hi⟩)
  cases hp : P l.num with
  | none => simp [hp] at this
  | some v =>
    simp only [hp, Option.map_eq_none_iff] at this
    simp only [Option.getD_some]
    exact Props.C01Oracle.checkFeasible_sound _
      (by have := slackOf_nonneg (uopsOfText isa m l.text); linarith) _ _ _ this


/-! ### 3. the port totals of an admissible run are a feasible schedule of the kernel's micro-ops -/

/-- the kernel lines `get_throughput_sum` adds up: throughput different from the skip value (0) -/
def summed (n : Nat) (k : List PLine) : List PLine := k.filter fun l => (semOf n l).tp != Gen.tpSumSkipValue

/-- the summed lines as `Props.C02.Instr`: micro-ops of the line, its pressure vector, its slack -/
def summedInstrs (isa : Operand.Isa) (m : Model) (k : List PLine) : List C02.Instr :=
  (summed m.mm.ports.length k).map fun l =>
    { uops := uopsOfText isa m l.text, v := (semOf m.mm.ports.length l).pressure, ε := slackOf (uopsOfText isa m l.text) }

theorem kernelOf_some (isa : Operand.Isa) (m : Model) (o : Opts) (file : Txt) (k : List PLine)
    (hk : kernelOf isa m o file = some k) : ∃ r, analyse isa m o file = .ok r ∧ r.kernel = k := by
  unfold kernelOf at hk
  cases hr : analyse isa m o file with
  | ok r => simp only [hr, Option.some.injEq] at hk; exact ⟨r, rfl, hk⟩
  | parseError n e => simp [hr] at hk
  | semError n e => simp [hr] at hk
  | badIsa => simp [hr] at hk
  | raised => simp [hr] at hk
  | badLines => simp [hr] at hk
  | emptyKernel => simp [hr] at hk

/-- the kernel of a run under `P` is the `--fixed` kernel with the pressures replaced -/
theorem opt_kernel (isa : Operand.Isa) (m : Model) (o : Opts) (file : Txt) (P : Pressures) (k : List PLine) (r' : Result)
    (hk : kernelOf isa m o file = some k) (h : analyseWith isa m o file P = .ok r') :
    r'.kernel = k.map (setPressure P) := by
  obtain ⟨r, hr, e, hker, _⟩ := opt_factors_ok isa m o file P r' h
  obtain ⟨r2, hr2, e2⟩ := kernelOf_some isa m o file k hk
  rw [hr] at hr2
  cases hr2
  rw [← e2]; exact hker

theorem setPressure_pressure (P : Pressures) (l : PLine) :
    (setPressure P l).sem.pressure = (P l.num).getD l.sem.pressure := by
  unfold setPressure
  cases P l.num <;> rfl

/-- under admissible `P` every line of the kernel carries a vector that is feasible for its micro-ops (an
    instruction line by admissibility, any other line the zero vector for no micro-ops) -/
theorem opt_line_feasible (isa : Operand.Isa) (m : Model) (tol : Rat) (k : List PLine) (P : Pressures)
    (hadm : Admissible isa m tol k P) (l : PLine) (hl : l ∈ k) (hi : l.isInstr = true) :
    Feasible (slackOf (uopsOfText isa m l.text) + tol) m.mm.ports.length (uopsOfText isa m (setPressure P l).text)
      (semOf m.mm.ports.length (setPressure P l)).pressure := by
  have := hadm l hl hi
  rw [setPressure_text]
  simp only [semOf, setPressure_isInstr, hi, if_true, setPressure_pressure]
  exact this

/-- **opt_totals_feasible** (`Props.C02.kernel_feasible` lifted through the composition; ∀ files, models, options,
    ∀ admissible `P`): the port totals the analysis under `P` reports are, before rounding, `Props.C02.totals` of the
    summed lines (throughput ≠ 0), and form a fractional schedule of ALL micro-ops of these lines that is feasible
    within the sum of the per-line slacks `Σ INC/2 · #micro-opsᵢ`; the reported totals are these sums rounded to
    two places. -/
theorem opt_totals_feasible (isa : Operand.Isa) (m : Model) (o : Opts) (file : Txt) (P : Pressures) (k : List PLine)
    (r' : Result) (hk : kernelOf isa m o file = some k) (hadm : Admissible isa m 0 k P)
    (h : analyseWith isa m o file P = .ok r') (hne : summed m.mm.ports.length r'.kernel ≠ []) :
    let exact := colSumsExact Gen.tpSumSkipValue (r'.kernel.map (toPorts m.mm.ports.length))
    let ins := summedInstrs isa m r'.kernel
    exact = C02.totals m.mm.ports.length ins ∧
    Feasible (C02.slack ins) m.mm.ports.length (C02.allUops ins) exact ∧
    r'.analysis.colSums = exact.map (roundHalfEven · Gen.tpSumDigits) := by
  intro exact ins
  have hker := opt_kernel isa m o file P k r' hk h
  obtain ⟨_, _, _, _, _, ha, _, _⟩ := opt_factors_ok isa m o file P r' h
  -- every line of the kernel under `P`: an admissible instruction line, or a line that is not summed and carries zeros
  have hline : ∀ l' ∈ r'.kernel,
      (l'.isInstr = true ∧ Feasible (slackOf (uopsOfText isa m l'.text)) m.mm.ports.length (uopsOfText isa m l'.text)
        (semOf m.mm.ports.length l').pressure) ∨
      (l'.isInstr = false ∧ semOf m.mm.ports.length l' = noiseSem m.mm.ports.length) := by
    intro l' hl'
    rw [hker] at hl'
    obtain ⟨l, hl, rfl⟩ := List.mem_map.mp hl'
    cases hi : l.isInstr with
    | true =>
      left
      have := opt_line_feasible isa m 0 k P hadm l hl hi
      rw [add_zero] at this
      rw [setPressure_text] at this ⊢
      exact ⟨by rw [setPressure_isInstr]; exact hi, this⟩
    | false =>
      right
      exact ⟨by rw [setPressure_isInstr]; exact hi, by simp [semOf, setPressure_isInstr, hi]⟩
  have hlen : ∀ pl ∈ r'.kernel.map (toPorts m.mm.ports.length), pl.pressure.length = m.mm.ports.length := by
    intro pl hpl
    obtain ⟨l', hl', rfl⟩ := List.mem_map.mp hpl
    rcases hline l' hl' with ⟨_, hf⟩ | ⟨_, hn⟩
    · exact hf.len
    · simp [toPorts, hn, noiseSem, zeros]
  have hfilter : (r'.kernel.map (toPorts m.mm.ports.length)).filter (·.tp != Gen.tpSumSkipValue) =
      (summed m.mm.ports.length r'.kernel).map (toPorts m.mm.ports.length) := by
    rw [List.filter_map]; rfl
  have h1 : exact = C02.totals m.mm.ports.length ins := by
    apply colSumsExact_eq_totals Gen.tpSumSkipValue m.mm.ports.length _ ins hlen
    · rw [hfilter]; simpa using hne
    · rw [hfilter]
      simp [ins, summedInstrs, List.map_map, Function.comp_def, toPorts]
  refine ⟨h1, ?_, ?_⟩
  · rw [h1]
    apply C02.kernel_feasible
    intro i hi
    obtain ⟨l', hl', rfl⟩ := List.mem_map.mp hi
    obtain ⟨hmem, htp⟩ := List.mem_filter.mp hl'
    rcases hline l' hmem with ⟨_, hf⟩ | ⟨_, hn⟩
    · exact hf
    · exfalso
      rw [hn] at htp
      simp [noiseSem, Gen.tpSumSkipValue] at htp
  · rw [ha]
    rfl


theorem slack_nonneg (isa : Operand.Isa) (m : Model) (k : List PLine) : 0 ≤ C02.slack (summedInstrs isa m k) := by
  unfold C02.slack
  apply List.sum_nonneg
  intro x hx
  obtain ⟨i, hi, rfl⟩ := List.mem_map.mp hx
  obtain ⟨l, _, rfl⟩ := List.mem_map.mp hi
  exact slackOf_nonneg _

/-- **the reported bottleneck is close to the optimum** (`Props.C02Duality.feasible_ge_optimum` on the totals): for
    admissible `P` the busiest port of the exact totals carries at least `opt − Σ εᵢ`, the busiest port of the REPORTED
    (rounded) totals at least `opt − Σ εᵢ − 0.005`, where `opt` is the optimum of fractionally scheduling all
    micro-ops of the summed lines on their admissible ports (`Spec.IsOptimum`) -/
theorem opt_bottleneck_ge_optimum (isa : Operand.Isa) (m : Model) (o : Opts) (file : Txt) (P : Pressures) (k : List PLine)
    (r' : Result) (hk : kernelOf isa m o file = some k) (hadm : Admissible isa m 0 k P)
    (h : analyseWith isa m o file P = .ok r') (hne : summed m.mm.ports.length r'.kernel ≠ [])
    (hports : m.mm.ports ≠ [])
    (hw : WFUops m.mm.ports.length (C02.allUops (summedInstrs isa m r'.kernel)))
    (opt : Rat) (hopt : IsOptimum m.mm.ports.length (C02.allUops (summedInstrs isa m r'.kernel)) opt) :
    opt - C02.slack (summedInstrs isa m r'.kernel) ≤
      maxLoad (colSumsExact Gen.tpSumSkipValue (r'.kernel.map (toPorts m.mm.ports.length))) ∧
    opt - C02.slack (summedInstrs isa m r'.kernel) - 1/200 ≤ maxLoad r'.analysis.colSums := by
  obtain ⟨_, hf, hc⟩ := opt_totals_feasible isa m o file P k r' hk hadm h hne
  refine ⟨C02Duality.feasible_ge_optimum _ (slack_nonneg isa m _) _ _ hw _ hf opt hopt, ?_⟩
  obtain ⟨p, hp, hle⟩ := C02Duality.feasible_ge_optimum_port _ m.mm.ports.length
    (List.length_pos_iff.mpr hports) _ hw _ hf opt hopt
  have := maxLoad_map_round_ge _ p (by rw [hf.len]; exact hp)
  rw [hc]
  show _ ≤ maxLoad (List.map (roundHalfEven · 2) _)
  linarith

/-! ### 4. the report of a run under `P` reads back -/

/-- **the report record of a run under `P` is well-formed** (hypotheses of `e2e_report_wf`, and one pressure value per
    port in the vectors `P` names — implied by admissibility, `Admissible.lengths`) -/
theorem opt_report_wf (isa : Operand.Isa) (m : Model) (o : Opts) (file : Txt) (P : Pressures) (k : List PLine) (r' : Result)
    (hk : kernelOf isa m o file = some k) (h : analyseWith isa m o file P = .ok r')
    (hlen : ∀ l ∈ k, l.isInstr = true → ∀ v, P l.num = some v → v.length = m.mm.ports.length)
    (hports : m.mm.ports ≠ []) (hnames : ∀ n ∈ m.mm.ports, Report.NameOk n ∧ Report.NoNL n)
    (hrepr : ∀ q, Report.TokOk (o.repr q) ∧ Report.WordOk (o.repr q) ∧ Report.NoNL (o.repr q)) :
    Report.WF r'.report := by
  obtain ⟨r, hr, _, hker, _, ha, hrep, _⟩ := opt_factors_ok isa m o file P r' h
  obtain ⟨r2, hr2, e2⟩ := kernelOf_some isa m o file k hk
  rw [hr] at hr2; cases hr2
  subst e2
  have hwf := e2e_report_wf isa m o file r hr hports hnames hrepr
  obtain ⟨_, _, _, _, _, _, _, _, _, _, ecp, ecs, edeps, _, _⟩ := opt_invariant_values isa m o file P r r' hr h
  have hrep0 : r.report = toReport o.repr m.mm.ports o.ignoreUnknown m.mm.ports.length r.kernel
      (analyze (EndToEnd.cfgOf isa m o) r.kernel) := by
    conv_lhs => rw [analyse_ok_resultOf isa m o file r hr]
    rfl
  -- the rows of the `--fixed` report, line by line
  have hrow : ∀ l ∈ r.kernel, (semOf m.mm.ports.length l).pressure.length = m.mm.ports.length ∧
      (semOf m.mm.ports.length l).used.length = m.mm.ports.length ∧ Report.NoNL l.text := by
    intro l hl
    have := hwf.rows { line := l.num, press := (semOf m.mm.ports.length l).pressure, used := (semOf m.mm.ports.length l).used,
                       hasMnemonic := l.isInstr, flags := (semOf m.mm.ports.length l).flags, text := l.text } (by
      rw [hrep0]; simp only [toReport]; exact List.mem_map.mpr ⟨l, by simpa using hl, rfl⟩)
    have hp : r.report.ports = m.mm.ports := by rw [hrep0]; rfl
    simpa [hp] using this
  have hrow' : ∀ l ∈ r.kernel, (semOf m.mm.ports.length (setPressure P l)).pressure.length = m.mm.ports.length ∧
      (semOf m.mm.ports.length (setPressure P l)).used.length = m.mm.ports.length ∧ Report.NoNL (setPressure P l).text := by
    intro l hl
    obtain ⟨a, b, c⟩ := hrow l hl
    rw [setPressure_text]
    simp only [semOf, setPressure_isInstr] at a b ⊢
    cases hi : l.isInstr with
    | false => simp only [hi] at a b ⊢; exact ⟨a, b, c⟩
    | true =>
      simp only [hi, if_true] at a b ⊢
      refine ⟨?_, by rw [setPressure_sem]; exact b, c⟩
      rw [setPressure_pressure]
      cases hp : P l.num with
      | none => exact a
      | some v => exact hlen l hl hi v hp
  have hp' : r'.report.ports = m.mm.ports := by rw [hrep]; rfl
  refine ⟨by rw [hp']; exact hports, by rw [hp']; exact hnames, ?_, ?_, by rw [ecp]; exact hwf.cp,
    by rw [edeps]; exact hwf.deps, by rw [ecs]; exact hwf.cpSum, ?_⟩
  · have hne := hwf.rows_ne
    rw [hrep0] at hne
    rw [hrep, hker]
    simpa [toReport] using hne
  · intro row hrow2
    rw [hrep] at hrow2
    simp only [toReport] at hrow2
    obtain ⟨l', hl', rfl⟩ := List.mem_map.mp hrow2
    rw [hker] at hl'
    obtain ⟨l, hl, rfl⟩ := List.mem_map.mp hl'
    rw [hp']
    exact hrow' l hl
  · rw [hp', hrep]
    show r'.analysis.colSums = [] ∨ r'.analysis.colSums.length = m.mm.ports.length
    rw [ha]
    apply colSums_len
    intro pl hpl
    obtain ⟨l', hl', rfl⟩ := List.mem_map.mp hpl
    rw [hker] at hl'
    obtain ⟨l, hl, rfl⟩ := List.mem_map.mp hl'
    exact (hrow' l hl).1

/-- admissible pressures have one value per port -/
theorem Admissible.lengths {isa : Operand.Isa} {m : Model} {tol : Rat} {k : List PLine} {P : Pressures}
    (hadm : Admissible isa m tol k P) :
    ∀ l ∈ k, l.isInstr = true → ∀ v, P l.num = some v → v.length = m.mm.ports.length := by
  intro l hl hi v hv
  have := (hadm l hl hi).len
  rw [hv] at this
  exact this

/-- **opt_report_roundtrip** (`e2e_report_roundtrip` for a run under `P`): the table `analyseWith … P` prints reads
    back (`Spec.Report.parseTable`) to the view of its analysis — the pressure cells of `P` at the shown precision,
    the totals line (or the missing-data warning) with the column sums of `P`, CP and LCD cells, flags, texts — and
    the printed text is that table between the header block and the LCD list. -/
theorem opt_report_roundtrip (isa : Operand.Isa) (m : Model) (o : Opts) (file : Txt) (P : Pressures) (k : List PLine) (r' : Result)
    (hk : kernelOf isa m o file = some k) (h : analyseWith isa m o file P = .ok r')
    (hlen : ∀ l ∈ k, l.isInstr = true → ∀ v, P l.num = some v → v.length = m.mm.ports.length)
    (hports : m.mm.ports ≠ []) (hnames : ∀ n ∈ m.mm.ports, Report.NameOk n ∧ Report.NoNL n)
    (hrepr : ∀ q, Report.TokOk (o.repr q) ∧ Report.WordOk (o.repr q) ∧ Report.NoNL (o.repr q)) :
    Spec.Report.parseTable (Report.combinedView r'.report) = some (Report.view r'.report) ∧
    (∃ pre post, r'.text = pre ++ Report.combinedView r'.report ++ post) ∧
    r'.report.rows.map (·.line) = r'.kernel.map (·.num) ∧
    r'.report.rows.map (·.press) = r'.kernel.map (fun l => (semOf m.mm.ports.length l).pressure) ∧
    r'.report.tpSum = r'.analysis.colSums := by
  have hwf := opt_report_wf isa m o file P k r' hk h hlen hports hnames hrepr
  obtain ⟨r, _, _, _, _, _, hrep, ht⟩ := opt_factors_ok isa m o file P r' h
  refine ⟨Props.C13.report_roundtrip r'.report hwf, ?_, ?_, ?_, ?_⟩
  · refine ⟨Report.headerReport o.version o.file o.arch o.stamp ++
        Report.warningsHeader (Report.archWarningFlag o.archGiven)
          (Report.lengthWarningFlag (linesGiven o.mode) r.kernel.length r.parsed.length) ++ Report.symbolMap,
      Report.warningsFooter false ++ Report.lcdList r'.report, ?_⟩
    rw [ht, Report.fullAnalysis]
    simp only [List.append_assoc]
  · rw [hrep]; simp [toReport]
  · rw [hrep]; simp [toReport]
  · rw [hrep]; simp [toReport]


/-! ### non-vacuity: the example model of `Props/EndToEnd.lean` (two ports `0`, `1`; `ADD gpr, gpr` = one micro-op of 1 cycle on
    `01`; load default one micro-op of 1 cycle on `0`), the file

      1  addq (%rax), %rbx      micro-ops [1 on 01] ++ [1 on 0]: uniform [3/2, 1/2]
      2  addq %rcx, %rbx        micro-op  [1 on 01]:             uniform [1/2, 1/2]

    and the non-uniform pressures `exP`: line 1 ↦ [1, 1] (the load on port 0, the addition on port 1), line 2 ↦ [3/4, 1/4]
    — both exactly feasible — and `exBad`: line 1 ↦ [1/2, 3/2] (port 1 cannot take the load: Hall's condition fails). -/
namespace ExOpt
open Ex

def file : Txt := OsacaVerif.Spec.X86R.joinLines [l1, l3]
def exP : Pressures := fun n => if n = 1 then some [1, 1] else if n = 2 then some [3/4, 1/4] else none
def exBad : Pressures := fun n => if n = 1 then some [1/2, 3/2] else if n = 2 then some [3/4, 1/4] else none

def onOk {α : Type} (x : EndToEnd.Outcome) (f : Result → α) (d : α) : α :=
  match x with
  | .ok r => f r
  | _ => d

/-- the micro-ops summed under `exP`, the slack, the number of summed lines (closed terms for the kernel) -/
def exUops : List Uop := onOk (analyseWith .x86 model opts file exP) (fun r' => C02.allUops (summedInstrs .x86 model r'.kernel)) []
def exSlack : Rat := onOk (analyseWith .x86 model opts file exP) (fun r' => C02.slack (summedInstrs .x86 model r'.kernel)) 0
def exSummed : Nat := onOk (analyseWith .x86 model opts file exP) (fun r' => (summed model.mm.ports.length r'.kernel).length) 0

end ExOpt
open ExOpt Ex

/-- the micro-ops of the two lines, from their TEXT: register form + load default; own entry through the `q` fall-back -/
example : (uopsOfText .x86 model l1).map (fun u => (u.cycles, u.ports, u.mult)) = [(1, [0, 1], 1), (1, [0], 1)] ∧
    (uopsOfText .x86 model l3).map (fun u => (u.cycles, u.ports, u.mult)) = [(1, [0, 1], 1)] ∧
    slackOf (uopsOfText .x86 model l1) = 1/100 := by decide +kernel

/-- the `--fixed` run and the run under `exP`: the pressure cells and the totals differ ([2, 1] vs [7/4, 5/4]: the
    bottleneck drops from 2 to 1.75), everything else is equal (`opt_invariant_part`), here shown by evaluation -/
example : checkOk (analyse .x86 model opts file) (fun r =>
      r.analysis.rows.map (·.pressure) == [[3/2, 1/2], [1/2, 1/2]] && r.analysis.colSums == [2, 1] &&
      r.analysis.cpTotal == 6 && r.analysis.lcdFigure == 2 && r.analysis.edges.length == 2) = true ∧
    checkOk (analyseWith .x86 model opts file exP) (fun r =>
      r.analysis.rows.map (·.pressure) == [[1, 1], [3/4, 1/4]] && r.analysis.colSums == [7/4, 5/4] &&
      r.analysis.cpTotal == 6 && r.analysis.lcdFigure == 2 && r.analysis.edges.length == 2 &&
      r.report.rows.map (·.press) == [[1, 1], [3/4, 1/4]] && r.report.tpSum == [7/4, 5/4]) = true := by
  decide +kernel

theorem ex_analysed : checkOk (analyse .x86 model opts file) (fun r =>
    (inadmissible .x86 model 0 r.kernel exP).isEmpty &&
    (inadmissible .x86 model 0 r.kernel exBad).map (·.1) == [1] &&
    (inadmissible .x86 model 0 r.kernel uniformP).map (·.1) == [1, 2]) = true := by decide +kernel

/-- `exP` is admissible: a NON-uniform admissible assignment exists (hypotheses of the theorems below satisfiable) -/
theorem ex_admissible : ∃ k, kernelOf .x86 model opts file = some k ∧ Admissible .x86 model 0 k exP := by
  obtain ⟨r, hr, hp⟩ := ex_checkOk_elim ex_analysed
  simp only [Bool.and_eq_true, List.isEmpty_iff] at hp
  exact ⟨r.kernel, by simp [kernelOf, hr], inadmissible_nil_admissible .x86 model 0 le_rfl _ _ hp.1.1⟩

/-- the predicate bites: `[1/2, 3/2]` is no feasible split of line 1's micro-ops within the slack 1/100 (the load
    micro-op is confined to port 0: Hall's condition for `{0}` asks for 1 − 1/100 there) -/
example : ¬ Feasible (1/100) 2 [⟨1, [0, 1], 1⟩, ⟨1, [0], 1⟩] [1/2, 3/2] :=
  fun h => absurd (h.hall [0] (by decide) (by decide)) (by decide +kernel)

/-- `opt_uniform_admissible` on the file: the micro-ops are well-formed, so the `--fixed` outcome is an `OptimalOutcome` -/
example : OptimalOutcome .x86 model opts file (analyse .x86 model opts file) := by
  refine (opt_uniform_admissible .x86 model opts file ?_).2
  intro k hk l hl hi
  obtain ⟨r, hr, rfl⟩ := kernelOf_some .x86 model opts file k hk
  have c : checkOk (analyse .x86 model opts file) (fun r => r.kernel.all fun l =>
      decide (WFUops model.mm.ports.length (uopsOfText .x86 model l.text))) = true := by decide +kernel
  obtain ⟨r0, hr0, hp⟩ := ex_checkOk_elim c
  rw [hr] at hr0; cases hr0
  exact of_decide_eq_true (List.all_eq_true.mp hp l hl)

/-- … and so is the outcome under the non-uniform `exP` -/
example : OptimalOutcome .x86 model opts file (analyseWith .x86 model opts file exP) := by
  obtain ⟨k, hk, hadm⟩ := ex_admissible
  refine ⟨exP, ?_, rfl⟩
  intro k' hk'
  rw [hk] at hk'; cases hk'
  exact hadm

theorem ex_closed : WFUops 2 exUops ∧ lowerBound exUops = 3/2 ∧ exSlack = 3/200 ∧ exSummed = 2 := by decide +kernel

/-- `opt_totals_feasible` and `opt_bottleneck_ge_optimum` under `exP`: the totals `[7/4, 5/4]` are a feasible schedule of the
    three micro-ops within 3/200; the optimum of scheduling them on two ports is 3/2; the reported bottleneck 7/4 respects
    `3/2 − 3/200 − 1/200` -/
example : ∀ r', analyseWith .x86 model opts file exP = .ok r' →
    Feasible (3/200) 2 (C02.allUops (summedInstrs .x86 model r'.kernel))
      (colSumsExact Gen.tpSumSkipValue (r'.kernel.map (toPorts 2))) ∧
    IsOptimum 2 (C02.allUops (summedInstrs .x86 model r'.kernel)) (3/2) ∧
    (3/2 : Rat) - 3/200 - 1/200 ≤ maxLoad r'.analysis.colSums := by
  intro r' h
  obtain ⟨k, hk, hadm⟩ := ex_admissible
  obtain ⟨hw, hlb, hs, hn⟩ := ex_closed
  unfold exUops at hw hlb
  unfold exSlack at hs
  unfold exSummed at hn
  rw [h] at hw hlb hs hn
  change WFUops 2 (C02.allUops (summedInstrs .x86 model r'.kernel)) at hw
  change lowerBound (C02.allUops (summedInstrs .x86 model r'.kernel)) = 3/2 at hlb
  change C02.slack (summedInstrs .x86 model r'.kernel) = 3/200 at hs
  change (summed model.mm.ports.length r'.kernel).length = 2 at hn
  have hne : summed model.mm.ports.length r'.kernel ≠ [] := by
    intro e; rw [e] at hn; simp at hn
  have hopt : IsOptimum 2 (C02.allUops (summedInstrs .x86 model r'.kernel)) (3/2) :=
    (C02Duality.optimum_eq_lowerBound 2 _ hw (3/2)).mpr hlb.symm
  have ht := (opt_totals_feasible .x86 model opts file exP k r' hk hadm h hne).2.1
  have hb := (opt_bottleneck_ge_optimum .x86 model opts file exP k r' hk hadm h hne (by decide +kernel) hw (3/2) hopt).2
  rw [hs] at ht hb
  exact ⟨ht, hopt, hb⟩

/-- `opt_report_roundtrip` under `exP`: the report with the non-uniform cells reads back -/
example : checkOk (analyseWith .x86 model opts file exP) (fun _ => true) = true ∧
    ∀ r', analyseWith .x86 model opts file exP = .ok r' →
      Spec.Report.parseTable (Report.combinedView r'.report) = some (Report.view r'.report) := by
  refine ⟨by decide +kernel, fun r' h => ?_⟩
  obtain ⟨k, hk, hadm⟩ := ex_admissible
  exact (opt_report_roundtrip .x86 model opts file exP k r' hk h (Admissible.lengths hadm) (by decide +kernel) ex_names_ok ex_reprEx_ok).1

/-- a load multiplier: the load micro-op carries it (`Spec.withMult`), and the stored pressure is the uniform split of the
    micro-ops WITH their multipliers (`[1/2 + 1/2·1, 1/2]`) -/
def ExOpt.modelHalf : Model := { Ex.model with mm := { Ex.mm with loadMult := some [(.str Ex.gpr, .num (1/2))] } }

example : (uopsOfText .x86 ExOpt.modelHalf l1).map (fun u => (u.cycles, u.ports, u.mult)) = [(1, [0, 1], 1), (1, [0], 1/2)] ∧
    checkOk (analyse .x86 ExOpt.modelHalf opts file) (fun r =>
      r.analysis.rows.map (·.pressure) == [[1, 1/2], [1/2, 1/2]] &&
      (inadmissible .x86 ExOpt.modelHalf 0 r.kernel (fun n => if n = 1 then some [3/4, 3/4] else some [1/2, 1/2])).isEmpty &&
      (inadmissible .x86 ExOpt.modelHalf 0 r.kernel (fun n => if n = 1 then some [1/4, 5/4] else some [1/2, 1/2])).map (·.1) == [1]) = true := by
  decide +kernel

/-- AArch64: `ldr d1, [x2], #8` (register form `LDR d, x` + load default) and `add x2, x2, #8`; the post-indexed load balanced
    to `[1, 1]` is admissible, the report under it reads back -/
example : (uopsOfText .a64 EndToEndA64.ExA64.model EndToEndA64.ExA64.l1).map (fun u => (u.cycles, u.ports, u.mult)) =
      [(1, [0, 1], 1), (1, [0], 1)] ∧
    checkOk (analyse .a64 EndToEndA64.ExA64.model EndToEndA64.ExA64.opts
        (OsacaVerif.Spec.X86R.joinLines [EndToEndA64.ExA64.l1, EndToEndA64.ExA64.l4])) (fun r =>
      r.analysis.rows.map (·.pressure) == [[3/2, 1/2], [1/2, 1/2]] &&
      (inadmissible .a64 EndToEndA64.ExA64.model 0 r.kernel (fun n => if n = 1 then some [1, 1] else some [1/4, 3/4])).isEmpty) = true ∧
    checkOk (analyseWith .a64 EndToEndA64.ExA64.model EndToEndA64.ExA64.opts
        (OsacaVerif.Spec.X86R.joinLines [EndToEndA64.ExA64.l1, EndToEndA64.ExA64.l4])
        (fun n => if n = 1 then some [1, 1] else some [1/4, 3/4])) (fun r =>
      r.analysis.colSums == [5/4, 7/4] && r.analysis.cpTotal == 7) = true := by
  decide +kernel

end OsacaVerif.Props.EndToEndOpt
