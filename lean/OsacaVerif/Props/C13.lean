import OsacaVerif.Model.Report
import OsacaVerif.Model.ReportView
import OsacaVerif.Spec.ReportView
namespace OsacaVerif.Props.C13
open OsacaVerif OsacaVerif.Text OsacaVerif.Fmt OsacaVerif.Report OsacaVerif.Spec.Report

theorem arch_warning_iff (archGiven : Bool) : archWarningFlag archGiven = true ↔ archGiven = false := by
  cases archGiven <;> simp [archWarningFlag]

end OsacaVerif.Props.C13
