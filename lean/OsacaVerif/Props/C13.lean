import OsacaVerif.Lemmas.ReportTable
import OsacaVerif.Lemmas.ReportLcd
/-
  C13 — Text report, machine-readable output and totals agree.

  Model: `Report.combinedView` & co. (Model/Report.lean) mirror osaca/frontend.py with every literal
  regenerated from the source (`Gen.Report`).  Reader / specification: `Spec.Report.parseTable`,
  `shownOk` (Spec/ReportView.lean, no generated constants).  `Report.view a` is the machine-readable
  content of analysis `a` at the precision the report shows.

  All theorems are for *all* analyses: any number and naming of ports, any number of lines, any
  magnitudes (≥ 10, ≥ 100, …), any flags — proved by induction over the cell / line lists.
-/
namespace OsacaVerif.Props.C13
open OsacaVerif OsacaVerif.Text OsacaVerif.Fmt OsacaVerif.Report OsacaVerif.Spec.Report
open OsacaVerif.Gen.Report

/-! ### the cell formatter -/

/-- **cell formatter round trip** (∀ sign, digits, decimals, and whatever follows that is not part
    of a number): a printed number is read back with exactly its digits and its number of decimals. -/
theorem fmt2_roundtrip (s : Shown) (rest : Txt) (hr : NumEnd rest) :
    parseNum (renderShown s ++ rest) = some (s, rest) := parseNum_renderShown s rest hr

/-- `"{:.pf}".format(x)` read back gives `x` rounded half-even to `p` decimals (∀ x, p). -/
theorem fmtFixed_roundtrip (x : Rat) (p : Nat) (rest : Txt) (hr : NumEnd rest) :
    parseNum (fmtFixed x p ++ rest) = some (shown x p, rest) := parseNum_renderShown _ rest hr

/-- **shown precision**: what is printed for `x` with `p` decimals is a nearest `p`-decimal number to
    `x` (`|x·10^p − m| ≤ 1/2`) and carries the sign of `x` (∀ x, p). -/
theorem shown_nearest (x : Rat) (p : Nat) : shownOk (shown x p) x = true := by
  have hd : 0 < x.den := x.den_pos
  have := roundHE_near (x.num.natAbs * 10 ^ p) x.den hd
  unfold shownOk
  rw [Bool.and_eq_true]
  exact ⟨decide_eq_true this, by simp [shown, isNeg]⟩

/-- at an exact tie the even neighbour is shown (Python's `format`/`round` on the exact value) -/
theorem shown_tie_even (x : Rat) (p : Nat) (h : 2 * ((x.num.natAbs * 10 ^ p) % x.den) = x.den) :
    (shown x p).mant % 2 = 0 := roundHE_tie_even _ _ h

/-- the value of a shown literal determines it among literals with the same number of decimals:
    two different `p`-decimal literals are never both shown for… the same digits (no merging) -/
theorem shown_injective (s t : Shown) (h : renderShown s = renderShown t) : s = t := by
  have h1 := parseNum_renderShown s [] numEnd_nil
  have h2 := parseNum_renderShown t [] numEnd_nil
  rw [h, h2] at h1
  simpa using h1.symm

/-! ### cells and lines -/

/-- **row renderer / row parser round trip** (∀ number of ports, by induction over the cell list):
    cells never merge or truncate - every cell is read back blank or with its value at the
    column's precision, whatever its magnitude. -/
theorem cells_roundtrip (xs : List Rat) (us : List Bool) (ls ss : List Nat) (names : List Txt) (rest : Txt)
    (hu : us.length = xs.length) (hl : ls.length = xs.length) (hs : ss.length = xs.length)
    (hn : names.length = xs.length) (hok : CellsOk xs us ls) :
    parseCells (colsOf names ls ss) ((cellBodies xs us ls ss).flatMap (fun b => 32 :: b) ++ rest) =
      some (cellViews xs us ls, rest) := parseCells_render xs us ls ss names rest hu hl hs hn hok

/-- the column widths computed by `_get_max_port_len` leave every cell of every kernel line at
    least one decimal (so the fall-back format is never used in a kernel line), ∀ kernels -/
theorem widths_sufficient (ports : List Txt) (rows : List Row) (r : Row) (hr : r ∈ rows)
    (hlen : r.press.length = ports.length) : CellsOk r.press r.used (maxPortLen ports rows) :=
  cellsOk_maxPortLen ports rows r hr hlen

theorem row_roundtrip (a : Analysis) (hwf : WF a) (r : Row) (hr : r ∈ a.rows) :
    parseRow (colsOf a.ports (maxPortLen a.ports a.rows) (sepList colSep groupSep a.ports))
      (renderRow a (maxPortLen a.ports a.rows) (sepList colSep groupSep a.ports) r) =
      some (rowView a (maxPortLen a.ports a.rows) r) :=
  parseRow_render a _ r hwf.ports_ne (maxPortLen_length _ _) (rowOk_of_wf a hwf r hr)

/-- the totals line: the non-blank totals in port order, then the CP and LCD totals
    (∀ magnitudes: also when a total needs the fall-back format or overflows its column) -/
theorem totals_roundtrip (a : Analysis) (hwf : WF a) (plens : List Nat) :
    parseSummary (summaryRow a plens) =
      some (.summary ((sumViews (sumsOf a) plens).filterMap id) a.cpSum (lcdSumRepr a)) :=
  parseSummary_render a plens (sumsOf_ne_nil a hwf) hwf.cpSum.1 (lcdSumRepr_ok a hwf).1

/-! ### the whole table -/

/-- **report_roundtrip**: reading the text of `combined_view` back yields exactly the
    machine-readable content at the shown precision: port columns, every line with its pressure
    cells, CP and LCD cells, flag symbols and text, and the totals line or the missing-data warning
    with its number (∀ well-formed analyses). -/
theorem report_roundtrip (a : Analysis) (hwf : WF a) : parseTable (combinedView a) = some (view a) :=
  parseTable_render a hwf

/-- the cells of `view` against the values: blank only for an unused zero, otherwise nearest at the
    shown precision -/
def CellsAgree : List (Option Shown) → List Rat → List Bool → Prop
  | c :: cs, x :: xs, u :: us =>
    (match c with
      | none => x.num = 0 ∧ u = false
      | some s => shownOk s x = true) ∧ CellsAgree cs xs us
  | [], _, _ => True
  | _ :: _, _, _ => False

theorem cells_agree (xs : List Rat) (us : List Bool) (ls : List Nat) :
    CellsAgree (cellViews xs us ls) xs us := by
  induction xs generalizing us ls with
  | nil => simp [cellViews, CellsAgree]
  | cons x xs ih =>
    cases us with
    | nil => simp [cellViews, CellsAgree]
    | cons u us =>
    cases ls with
    | nil => simp [cellViews, CellsAgree]
    | cons l ls =>
      simp only [cellViews, CellsAgree]
      refine ⟨?_, ih us ls⟩
      unfold cellView
      by_cases hz : (decide (x.num = 0) && !u) = true
      · simp only [hz, if_true]; simpa using hz
      · simp only [hz, Bool.false_eq_true, if_false]; exact shown_nearest _ _

/-- every line of the view shows the line's own pressures (`PortPressure` of the dict) -/
theorem view_cells_agree (a : Analysis) (r : Row) (_hr : r ∈ a.rows) :
    CellsAgree (rowView a (maxPortLen a.ports a.rows) r).cells r.press r.used := cells_agree _ _ _

/-- totals against the values: the shown totals are the non-zero totals, each nearest at its precision -/
def SumsAgree : List Shown → List Rat → Prop
  | ss, x :: xs => if x.num = 0 then SumsAgree ss xs else
      match ss with
      | s :: ss' => shownOk s x = true ∧ SumsAgree ss' xs
      | [] => False
  | ss, [] => ss = []

theorem sums_agree (xs : List Rat) (ls : List Nat) (h : xs.length ≤ ls.length) :
    SumsAgree ((sumViews xs ls).filterMap id) xs := by
  induction xs generalizing ls with
  | nil => simp [sumViews, SumsAgree]
  | cons x xs ih =>
    cases ls with
    | nil => simp at h
    | cons l ls =>
      simp only [sumViews, SumsAgree]
      unfold sumView
      by_cases hz : x.num = 0
      · simp only [hz, if_true, List.filterMap_cons]
        exact ih ls (by simpa using h)
      · simp only [hz, if_false]
        by_cases hp : cellPrec x l = 0
        · simp only [hp, if_true, List.filterMap_cons, id]
          exact ⟨shown_nearest _ _, ih ls (by simpa using h)⟩
        · simp only [hp, if_false, List.filterMap_cons, id]
          exact ⟨shown_nearest _ _, ih ls (by simpa using h)⟩

/-! ### unknown instructions -/

theorem unknown_symbol : (88, unknownFlag) ∈ flagSymbols := by decide

/-- **unknown_logic**: without `--ignore-unknown`, if any line lacks data the report ends with the
    missing-data warning stating the number of such lines and shows no totals; every such line
    (that is an instruction) is marked `X`.  Otherwise the totals line is shown. -/
theorem unknown_logic (a : Analysis) (hwf : WF a) :
    (a.ignoreUnknown = false ∧ a.rows.any isUnknown = true →
      (∃ v, parseTable (combinedView a) = some v ∧ v.tail = .missing (numMissing a.rows)) ∧
      numMissing a.rows = (a.rows.filter isUnknown).length ∧
      ∀ r ∈ a.rows, isUnknown r = true → r.hasMnemonic = true →
        88 ∈ (rowView a (maxPortLen a.ports a.rows) r).flags) ∧
    (a.ignoreUnknown = true ∨ a.rows.any isUnknown = false →
      ∃ v sums cp lcd, parseTable (combinedView a) = some v ∧ v.tail = .summary sums cp lcd) := by
  constructor
  · rintro ⟨h1, h2⟩
    refine ⟨⟨view a, report_roundtrip a hwf, ?_⟩, rfl, ?_⟩
    · simp [view, tailView, showsTotals, h1, h2]
    · intro r _ hu hm
      simp only [rowView, hm, if_true, List.mem_filterMap]
      refine ⟨(88, unknownFlag), unknown_symbol, ?_⟩
      have : r.flags.contains unknownFlag = true := hu
      simpa using this
  · intro h
    have : showsTotals a = true := by
      unfold showsTotals
      rcases h with h | h <;> simp [h]
    refine ⟨view a, (sumViews (sumsOf a) (maxPortLen a.ports a.rows)).filterMap id, a.cpSum, lcdSumRepr a,
      report_roundtrip a hwf, ?_⟩
    simp only [view, tailView, this, if_true]

/-! ### selection of the loop-carried dependency -/

theorem foldl_max_ge_all (ds : List Dep) (d : Dep) :
    let m := ds.foldl (fun best e => if best.lat < e.lat then e else best) d
    d.lat ≤ m.lat ∧ ∀ e ∈ ds, e.lat ≤ m.lat := by
  induction ds generalizing d with
  | nil => exact ⟨Rat.le_refl, by simp⟩
  | cons e es ih =>
    simp only [List.foldl_cons]
    have := ih (if d.lat < e.lat then e else d)
    simp only [] at this ⊢
    refine ⟨?_, ?_⟩
    · refine Rat.le_trans ?_ this.1
      split
      · rename_i h; exact Rat.le_of_lt h
      · exact Rat.le_refl
    · intro e' he'
      simp only [List.mem_cons] at he'
      rcases he' with rfl | he'
      · refine Rat.le_trans ?_ this.1
        split
        · exact Rat.le_refl
        · rename_i h; exact Rat.not_lt.mp h
      · exact this.2 e' he'

/-- **lcd_selection**: the LCD column and the LCD total come from one and the same entry of the
    dependency dictionary, which has the maximal latency (so the total is the maximum loop-carried
    latency); with no dependency the column is empty and the total is `0.0`. -/
theorem lcd_selection (a : Analysis) :
    (a.deps = [] → lcdMembers a = [] ∧ lcdSumRepr a = [48, 46, 48]) ∧
    (a.deps ≠ [] → ∃ d ∈ a.deps, lcdMembers a = d.members ∧ lcdSumRepr a = d.latRepr ∧
      ∀ e ∈ a.deps, e.lat ≤ d.lat) := by
  constructor
  · intro h; simp [lcdMembers, lcdSumRepr, h, firstMax]
  · intro h
    cases hd : a.deps with
    | nil => exact absurd hd h
    | cons e es =>
      have hm := foldl_max_mem es e
      have hg := foldl_max_ge_all es e
      refine ⟨_, hm, ?_, ?_, ?_⟩
      · simp [lcdMembers, hd, firstMax]
      · simp [lcdSumRepr, hd, firstMax]
      · intro e' he'
        simp only [List.mem_cons] at he'
        rcases he' with rfl | he'
        · exact hg.1
        · exact hg.2 e' he'

/-- the first of several maximal entries is taken (Python's `max`): nothing before it is as large -/
theorem lcd_selection_first (e : Dep) (es : List Dep) :
    ∀ (pre post : List Dep) (d : Dep), e :: es = pre ++ d :: post →
      (∀ x ∈ pre, x.lat < d.lat) → (∀ x ∈ post, x.lat ≤ d.lat) → firstMax (e :: es) = some d := by
  intro pre post d hsplit hpre hpost
  simp only [firstMax, Option.some.injEq]
  -- fold over `pre` ends at its strict maximum or moves on; generalise over the running best
  have key : ∀ (l : List Dep) (b : Dep), (∀ x ∈ l, x.lat ≤ b.lat) →
      l.foldl (fun best e => if best.lat < e.lat then e else best) b = b := by
    intro l
    induction l with
    | nil => intro b _; rfl
    | cons x xs ih =>
      intro b hb
      simp only [List.foldl_cons]
      have : ¬ b.lat < x.lat := Rat.not_lt.mpr (hb x (by simp))
      simp only [this, if_false]
      exact ih b (fun y hy => hb y (by simp [hy]))
  have key2 : ∀ (pre : List Dep) (b : Dep), b.lat < d.lat → (∀ x ∈ pre, x.lat < d.lat) →
      (pre ++ d :: post).foldl (fun best e => if best.lat < e.lat then e else best) b = d := by
    intro pre
    induction pre with
    | nil =>
      intro b hb _
      simp only [List.nil_append, List.foldl_cons, hb, if_true]
      exact key post d hpost
    | cons x xs ih =>
      intro b hb hx
      simp only [List.cons_append, List.foldl_cons]
      apply ih
      · split
        · exact hx x (by simp)
        · exact hb
      · exact fun y hy => hx y (by simp [hy])
  cases pre with
  | nil =>
    simp only [List.nil_append, List.cons.injEq] at hsplit
    obtain ⟨rfl, rfl⟩ := hsplit
    exact key es e hpost
  | cons p ps =>
    simp only [List.cons_append, List.cons.injEq] at hsplit
    obtain ⟨rfl, rfl⟩ := hsplit
    exact key2 ps e (hpre e (by simp)) (fun y hy => hpre y (by simp [hy]))

/-! ### the list of loop-carried dependencies -/

/-- **lcdlist_roundtrip**: reading the LCD list back yields one entry per dictionary entry (in key
    order) with the first line number of its key, its latency at the shown precision (one decimal)
    and all its member lines (∀ numbers of entries and members, any instruction text without newline). -/
theorem lcdlist_roundtrip (a : Analysis) (hroot : ∀ d ∈ a.deps, NoNL d.root) :
    parseLcdList (lcdList a) = some ((sortDeps a.deps).map lcdView) :=
  parseLcdList_render a hroot (fun d hd => (sortDeps_perm a.deps).mem_iff.mp hd)

/-- the list shows every loop-carried dependency exactly once (sorting is a permutation) -/
theorem lcdlist_complete (a : Analysis) : (sortDeps a.deps).Perm a.deps := sortDeps_perm a.deps

/-- each shown entry agrees with its dictionary entry: latency nearest at one decimal, same member lines -/
theorem lcdlist_entry (d : Dep) :
    shownOk (lcdView d).lat d.lat = true ∧ (lcdView d).members = d.members.map (·.1) :=
  ⟨shown_nearest _ _, rfl⟩

/-! ### warnings and default model -/

/-- **warning_logic** (option logic of `osaca.inspect`): the no-micro-architecture warning is requested
    exactly when no `--arch` was given; the large-kernel warning exactly when no `--lines` was given,
    the kernel is the whole parsed file and it has more than `lengthThreshold` (= 100) lines. -/
theorem warning_logic (archGiven linesGiven : Bool) (kernelLen parsedLen : Nat) :
    (archWarningFlag archGiven = true ↔ archGiven = false) ∧
    (lengthWarningFlag linesGiven kernelLen parsedLen = true ↔
      linesGiven = false ∧ kernelLen = parsedLen ∧ 100 < kernelLen) := by
  have : lengthThreshold = 100 := by decide
  cases archGiven <;> cases linesGiven <;> simp [archWarningFlag, lengthWarningFlag, this]

/-- the warning texts are printed exactly when requested (header and footer blocks of the report),
    and the three texts cannot be mistaken for one another -/
theorem warning_texts (aw lw lcdw : Bool) :
    detectWarnings (warningsHeader aw lw ++ warningsFooter lcdw) = (aw, lw, lcdw) := by
  cases aw <;> cases lw <;> cases lcdw <;> decide +kernel

/-- the machine-readable `Warnings` list carries the same three flags (plus the unknown-instruction
    entry exactly when some line lacks data) -/
theorem dict_warnings (aw lw lcdw : Bool) (rows : List Row) :
    dictWarningList aw lw lcdw rows =
      (if aw then [dictWarnings.getD 0 []] else []) ++ (if lw then [dictWarnings.getD 1 []] else []) ++
      (if lcdw then [dictWarnings.getD 2 []] else []) ++
      (if rows.any isUnknown then [dictWarnings.getD 3 []] else []) := by
  have : dictWarnings = [dictWarnings.getD 0 [], dictWarnings.getD 1 [], dictWarnings.getD 2 [], dictWarnings.getD 3 []] := by
    decide +kernel
  unfold dictWarningList
  rw [this]
  simp

/-- both ISAs have a default model (used when no `--arch` is given) -/
theorem default_arch_defined :
    (defaultArch [120, 56, 54]).isSome = true ∧ (defaultArch [97, 97, 114, 99, 104, 54, 52]).isSome = true := by
  decide +kernel

/-! ### non-vacuity -/

private def exRow (n : Nat) (p : List Rat) : Row :=
  { line := n, press := p, used := p.map (fun x => x.num != 0), hasMnemonic := true, flags := [], text := [97, 100, 100] }

private def exA : Analysis :=
  { ports := [[48], [48, 68, 86], [49]]
    rows := [exRow 7 [1/2, 0, 25/2], exRow 8 [0, 100, 1/3], { exRow 12 [0, 0, 0] with flags := [unknownFlag] }]
    cp := [(8, [52, 46, 48])]
    deps := [{ key := [56], lat := 1, latRepr := [49, 46, 48], root := [97], members := [(8, [49, 46, 48])] }]
    ignoreUnknown := true
    tpSum := [1/2, 100, 77/6]
    cpSum := [52, 46, 48] }

-- a concrete analysis with a two-digit and a three-digit pressure, a grouped port pair and an
-- unknown instruction is rendered and read back
example : parseTable (combinedView exA) = some (view exA) := by decide +kernel
example : (view exA).rows.length = 3 ∧ (view exA).cols.length = 3 ∧
    ((view exA).rows.map (·.cells)) =
      [[some ⟨false, 50, 2⟩, none, some ⟨false, 1250, 2⟩],
       [none, some ⟨false, 10000, 2⟩, some ⟨false, 333, 3⟩],
       [none, none, none]] := by decide +kernel
example : (view { exA with ignoreUnknown := false }).tail = .missing 1 := by decide +kernel
example : parseNum (fmtFixed (2675 / 1000) 2 ++ [32]) = some (⟨false, 268, 2⟩, [32]) := by decide +kernel
example : shown (5 / 1000) 2 = ⟨false, 0, 2⟩ ∧ shown (15 / 1000) 2 = ⟨false, 2, 2⟩ ∧
    shown (-1 / 1000) 2 = ⟨true, 0, 2⟩ := by decide +kernel
example : shownOk ⟨false, 33, 2⟩ (1 / 3) = true ∧ shownOk ⟨false, 34, 2⟩ (1 / 3) = false := by decide +kernel
example : lengthWarningFlag false 101 101 = true ∧ lengthWarningFlag false 100 100 = false ∧
    lengthWarningFlag true 101 101 = false ∧ lengthWarningFlag false 101 150 = false := by decide +kernel
example : lcdMembers exA = [(8, [49, 46, 48])] := by decide +kernel
example : parseLcdList (lcdList exA) = some [⟨8, ⟨false, 10, 1⟩, [8]⟩] := by decide +kernel

end OsacaVerif.Props.C13
