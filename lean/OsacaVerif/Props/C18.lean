import OsacaVerif.Model.History
import OsacaVerif.Model.HistoryGen
import OsacaVerif.Spec.HistoryIndep
import OsacaVerif.Lemmas.History
/-
  C18 — Analyses are independent of what was analysed before in the same process.

  `History.analyse cfg db kernel` is the model of one analysis with the machine model / ISA database
  as explicit state and Python's list aliasing made explicit (`Val.ref` / `Val.own`,
  `extendInPlace` / `extendFresh`); `History.inspect` adds the process: runtime cache and loader.
  `cfg` says, site by site, whether the source copies or shares, and whether it extends in place;
  `History.genCfg` is that record regenerated from the source (`Gen.HistoryCfg`).
  `Spec.HistoryIndep` states history independence for an arbitrary step function.

  Everything below is for ALL databases, kernels and histories (induction), for every safe
  configuration; `gen_cfg_safe` is the one place where the current source enters.
-/
namespace OsacaVerif.Props.C18
open OsacaVerif OsacaVerif.History OsacaVerif.Spec.HistoryIndep

/-! ### one analysis does not change the database -/

/-- **The source as it is now never extends a list of the model in place.**
    (Fails to compile when `assign_tp_lt` goes back to `data_port_uops += st_data_port_uops`.) -/
theorem gen_cfg_safe : genCfg.safe = true := by decide

/-- `analyse_preserves_db` (∀ db, ∀ kernel of any length, ∀ safe configuration) -/
theorem analyse_preserves_db (cfg : Cfg) (h : cfg.safe = true) (db : Db) (k : Kernel) :
    (analyse cfg db k).1 = db := by
  simp [analyse, semantics_db h]

/-- … for the current source -/
theorem analyse_preserves_db_gen (db : Db) (k : Kernel) : (analyse genCfg db k).1 = db :=
  analyse_preserves_db genCfg gen_cfg_safe db k

/-- the report of a safe analysis is rendered against the database it started from -/
theorem analyse_report (cfg : Cfg) (h : cfg.safe = true) (db : Db) (k : Kernel) :
    (analyse cfg db k).2 = (semantics cfg db k).2.map (Row.show db) := by
  simp [analyse, semantics_db h]

/-- the database used for the counterexamples: one form, one load entry, one store entry -/
def db1 : Db := ⟨[[1]], [[2]], [[3]], [4], [5], [[6]]⟩
/-- `addq %rax, 8(%rbx)`: register form 0, load entry 0, store entry 0 -/
def rmw1 : Kernel := [⟨.rmw 0 (.entry 0) (.entry 0), none⟩]

/-- **Exactness**: every unsafe configuration (in particular the unrepaired `+=` on the table's own
    list, defect D5) has a database and a kernel — the load+store instruction — that change it. -/
theorem analyse_unsafe_changes_db (cfg : Cfg) (h : cfg.safe = false) :
    ∃ db k, (analyse cfg db k).1 ≠ db := by
  refine ⟨db1, rmw1, ?_⟩
  have h1 : cfg.rmwInPlace = true := by
    unfold Cfg.safe at h; cases h1 : cfg.rmwInPlace <;> simp_all
  have h2 : cfg.loadByRef = true := by
    unfold Cfg.safe at h; cases h2 : cfg.loadByRef <;> simp_all
  simp [analyse, semantics, step, stepIns, composeRmw, loadVal, storeUops, extendInPlace, h1, h2,
    db1, rmw1, Db.write, Db.read]

/-- the unrepaired code, concretely: the load table grows from `[2]` to `[2, 3]` -/
theorem unrepaired_grows_load_table :
    (analyse { genCfg with rmwInPlace := true } db1 rmw1).1.loads = [[2, 3]] := by decide

/-! ### histories sharing one model object (OSACA used as a library) -/

theorem runHistory_eq_runFrom (cfg : Cfg) (db : Db) (ks : List Kernel) :
    runHistory cfg db ks = runFrom (analyse cfg) db ks := by
  induction ks generalizing db with
  | nil => rfl
  | cons k ks ih => simp [runHistory, runFrom, ih]

/-- ∀ histories (induction): the database at the end is the one at the start, and every report is
    the report the same kernel gets on the initial database -/
theorem runHistory_safe (cfg : Cfg) (h : cfg.safe = true) (db : Db) (ks : List Kernel) :
    runHistory cfg db ks = (db, ks.map (fun k => (analyse cfg db k).2)) := by
  induction ks with
  | nil => rfl
  | cons k ks ih => simp [runHistory, analyse_preserves_db cfg h, ih]

/-- **`history_independent`** in the vocabulary of the specification -/
theorem history_independent (cfg : Cfg) (h : cfg.safe = true) (db : Db) :
    HistoryIndependent (analyse cfg) db := by
  intro ks
  rw [← runHistory_eq_runFrom, runHistory_safe cfg h]

theorem history_independent_gen (db : Db) : HistoryIndependent (analyse genCfg) db :=
  history_independent genCfg gen_cfg_safe db

/-- the state observation of the harness (the digest) never changes -/
theorem state_preserved (cfg : Cfg) (h : cfg.safe = true) (db : Db) :
    StatePreserved (analyse cfg) (fun d => d) db := by
  intro ks
  rw [← runHistory_eq_runFrom, runHistory_safe cfg h]

/-- element-wise form: the `i`-th report of any history is the fresh report of the `i`-th kernel -/
theorem history_independent_get (cfg : Cfg) (h : cfg.safe = true) (db : Db) (ks : List Kernel)
    (i : Nat) (hi : i < ks.length) :
    (runHistory cfg db ks).2[i]? = some (analyse cfg db ks[i]).2 := by
  rw [runHistory_safe cfg h]
  simp [hi]

/-- analysing the same kernel twice, with anything in between and before, gives equal reports -/
theorem repeat_equal (cfg : Cfg) (h : cfg.safe = true) (db : Db) (pre mid : List Kernel) (k : Kernel) :
    (runHistory cfg db (pre ++ [k] ++ mid ++ [k])).2[pre.length]? =
    (runHistory cfg db (pre ++ [k] ++ mid ++ [k])).2[pre.length + 1 + mid.length]? := by
  rw [runHistory_safe cfg h]
  have h1 : ¬ (pre.length + 1 + mid.length < pre.length) := by omega
  have h2 : pre.length + 1 + mid.length - pre.length = mid.length + 1 := by omega
  simp [List.getElem?_append, h1, h2]

/-- for an unsafe configuration sharing one model object the *report* depends on the history:
    the second analysis of the load+store instruction shows one more store micro-op -/
theorem unsafe_shared_history_dependent (cfg : Cfg) (h : cfg.safe = false) :
    ∃ db k, (runHistory cfg db [k, k]).2[1]? ≠ some (analyse cfg db k).2 := by
  refine ⟨db1, rmw1, ?_⟩
  have h1 : cfg.rmwInPlace = true := by
    unfold Cfg.safe at h; cases h1 : cfg.rmwInPlace <;> simp_all
  have h2 : cfg.loadByRef = true := by
    unfold Cfg.safe at h; cases h2 : cfg.loadByRef <;> simp_all
  simp [runHistory, analyse, semantics, step, stepIns, composeRmw, loadVal, storeUops, extendInPlace,
    h1, h2, db1, rmw1, Db.write, Db.read, Row.show, Val.get, hidVal]

/-! ### the process: `MachineModel._runtime_cache`, the loader, `osaca.inspect` -/

theorem runProc_eq_runFrom (cfg : Cfg) (disk : Nat → Db) (p : Proc) (rs : List Request) :
    runProc cfg disk p rs = runFrom (inspect cfg disk) p rs := by
  induction rs generalizing p with
  | nil => rfl
  | cons r rs ih => simp [runProc, runFrom, ih]

theorem lookup_clean {disk : Nat → Db} {p : Proc} (hc : p.Clean disk) (path : Nat) :
    (p.lookup path).getD (disk path) = disk path := by
  unfold Proc.lookup
  cases hf : p.cache.find? (fun e => e.1 == path) with
  | none => rfl
  | some e =>
    have hm := List.mem_of_find?_eq_some hf
    have hp := List.find?_some hf
    simp at hp
    simp [hc e hm, hp]

/-- in a clean process the loader hands out what is on disk, whichever way it is written -/
theorem loadModel_clean (cfg : Cfg) {disk : Nat → Db} {p : Proc} (hc : p.Clean disk) (path : Nat) :
    loadModel cfg disk p path = disk path := by
  unfold loadModel
  by_cases hs : cfg.cacheShadowed <;> simp [hs, lookup_clean hc]

/-- a safe `inspect` keeps the cache clean and answers as on the disk data -/
theorem inspect_clean (cfg : Cfg) (h : cfg.safe = true) {disk : Nat → Db} {p : Proc} (hc : p.Clean disk)
    (r : Request) :
    (inspect cfg disk p r).1.Clean disk ∧ (inspect cfg disk p r).2 = (analyse cfg (disk r.path) r.kernel).2 := by
  constructor
  · intro e he
    simp only [inspect, List.mem_cons, List.mem_filter] at he
    rcases he with he | ⟨he, _⟩
    · subst he
      simp [analyse_preserves_db cfg h, loadModel_clean cfg hc]
    · exact hc e he
  · simp [inspect, loadModel_clean cfg hc]

theorem fresh_clean (disk : Nat → Db) : Proc.fresh.Clean disk := by
  intro e he; simp [Proc.fresh] at he

/-- the report of a fresh process -/
theorem inspect_fresh (cfg : Cfg) (disk : Nat → Db) (r : Request) :
    (inspect cfg disk Proc.fresh r).2 = (analyse cfg (disk r.path) r.kernel).2 := by
  unfold inspect loadModel Proc.lookup Proc.fresh
  by_cases hs : cfg.cacheShadowed <;> simp [hs]

/-- ∀ histories from any clean process state (induction): cache stays clean, reports are fresh reports -/
theorem runProc_clean (cfg : Cfg) (h : cfg.safe = true) (disk : Nat → Db) (p : Proc) (hc : p.Clean disk)
    (rs : List Request) :
    (runProc cfg disk p rs).1.Clean disk ∧
    (runProc cfg disk p rs).2 = rs.map (fun r => (inspect cfg disk Proc.fresh r).2) := by
  induction rs generalizing p with
  | nil => exact ⟨hc, rfl⟩
  | cons r rs ih =>
    have hi := inspect_clean cfg h hc r
    have := ih (inspect cfg disk p r).1 hi.1
    exact ⟨this.1, by simp [runProc, this.2, hi.2, inspect_fresh]⟩

/-- **`inspect_history_independent`**: for a safe configuration — with the runtime cache shadowed by
    the pickle lookup (the code as it is) *or* effective (the obvious clean-up) — every `inspect` of
    every history answers as a fresh process does. -/
theorem inspect_history_independent (cfg : Cfg) (h : cfg.safe = true) (disk : Nat → Db) :
    HistoryIndependent (inspect cfg disk) Proc.fresh := by
  intro rs
  rw [← runProc_eq_runFrom]
  exact (runProc_clean cfg h disk Proc.fresh (fresh_clean disk) rs).2

theorem inspect_history_independent_gen (disk : Nat → Db) :
    HistoryIndependent (inspect genCfg disk) Proc.fresh :=
  inspect_history_independent genCfg gen_cfg_safe disk

/-- what the harness's digest of `_runtime_cache` observes: after any history every cached
    data object equals a fresh load -/
theorem cache_clean_after_any_history (cfg : Cfg) (h : cfg.safe = true) (disk : Nat → Db)
    (rs : List Request) : (runProc cfg disk Proc.fresh rs).1.Clean disk :=
  (runProc_clean cfg h disk Proc.fresh (fresh_clean disk) rs).1

/-- Why defect D5 never showed in a *report* of the command-line tool: as long as the runtime cache
    is shadowed by the reload, reports are fresh reports even for an unsafe configuration
    (∀ histories, ∀ process states). -/
theorem shadowed_reports_fresh (cfg : Cfg) (hs : cfg.cacheShadowed = true) (disk : Nat → Db) (p : Proc)
    (rs : List Request) :
    (runProc cfg disk p rs).2 = rs.map (fun r => (inspect cfg disk Proc.fresh r).2) := by
  induction rs generalizing p with
  | nil => rfl
  | cons r rs ih =>
    simp [runProc, ih, inspect, loadModel, hs]

/-- … but the cached data object is polluted (this is what the digest sees) -/
theorem unsafe_cache_polluted (cfg : Cfg) (h : cfg.safe = false) :
    ∃ (disk : Nat → Db) (r : Request), ¬ (inspect cfg disk Proc.fresh r).1.Clean disk := by
  refine ⟨fun _ => db1, ⟨0, rmw1⟩, ?_⟩
  have h1 : cfg.rmwInPlace = true := by
    unfold Cfg.safe at h; cases h1 : cfg.rmwInPlace <;> simp_all
  have h2 : cfg.loadByRef = true := by
    unfold Cfg.safe at h; cases h2 : cfg.loadByRef <;> simp_all
  intro hc
  have := hc (0, (analyse cfg (loadModel cfg (fun _ => db1) Proc.fresh 0) rmw1).1) (by simp [inspect])
  have hl : loadModel cfg (fun _ => db1) Proc.fresh 0 = db1 := by
    unfold loadModel Proc.lookup Proc.fresh
    by_cases hs : cfg.cacheShadowed <;> simp [hs]
  rw [hl] at this
  revert this
  simp [analyse, semantics, step, stepIns, composeRmw, loadVal, storeUops, extendInPlace, h1, h2,
    db1, rmw1, Db.write, Db.read]

/-- … and once the runtime cache is effective the pollution reaches the next report -/
theorem unsafe_unshadowed_history_dependent (cfg : Cfg) (h : cfg.safe = false)
    (hs : cfg.cacheShadowed = false) :
    ∃ (disk : Nat → Db) (r : Request),
      (runProc cfg disk Proc.fresh [r, r]).2[1]? ≠ some (inspect cfg disk Proc.fresh r).2 := by
  refine ⟨fun _ => db1, ⟨0, rmw1⟩, ?_⟩
  have h1 : cfg.rmwInPlace = true := by
    unfold Cfg.safe at h; cases h1 : cfg.rmwInPlace <;> simp_all
  have h2 : cfg.loadByRef = true := by
    unfold Cfg.safe at h; cases h2 : cfg.loadByRef <;> simp_all
  simp [runProc, inspect, loadModel, Proc.lookup, Proc.fresh, hs, analyse, semantics, step, stepIns,
    composeRmw, loadVal, storeUops, extendInPlace, h1, h2, db1, rmw1, Db.write, Db.read, Row.show,
    Val.get, hidVal]

/-! ### non-vacuity -/

/-- a kernel with every kind of line -/
def kAll : Kernel :=
  [⟨.found 0, some 0⟩, ⟨.load 0 (.entry 0), none⟩, ⟨.load 0 .dflt, none⟩, ⟨.store 0 (.entry 0), some 0⟩,
   ⟨.rmw 0 (.entry 0) (.entry 0), none⟩, ⟨.rmw 0 .dflt .dflt, none⟩, ⟨.unknown, none⟩, ⟨.other, none⟩]

-- the current configuration is what the translator says, and it is safe
example : genCfg.rmwInPlace = false ∧ genCfg.loadByRef = true ∧ genCfg.foundByRef = true := by decide
-- the model really computes something: rows of the repaired code on `db1`
example : (analyse genCfg db1 kAll).2.map (·.uops) =
    [[1], [1, 2], [1, 4], [1, 3], [1, 2, 3], [1, 4, 5], [], []] := by decide
example : (analyse genCfg db1 kAll).2.map (·.known) = [true, true, true, true, true, true, false, true] := by decide
example : (analyse genCfg db1 kAll).2.map (·.hid) = [[6], [], [], [6], [], [], [], []] := by decide
example : (analyse genCfg db1 kAll).1 = db1 := by decide
-- references are really handed out: the row of a found form aliases the table
example : ((semantics genCfg db1 kAll).2.map (·.uops.isRef)) =
    [true, false, false, false, false, false, false, false] := by decide
-- the unrepaired code: database changed, second report differs, cache polluted
example : (analyse { genCfg with rmwInPlace := true } db1 rmw1).1 ≠ db1 := by decide
example : (runHistory { genCfg with rmwInPlace := true } db1 [rmw1, rmw1]).2.map (fun r => r.map (·.uops)) =
    [[[1, 2, 3]], [[1, 2, 3, 3]]] := by decide
example : (runHistory genCfg db1 [rmw1, rmw1]).2.map (fun r => r.map (·.uops)) =
    [[[1, 2, 3]], [[1, 2, 3]]] := by decide
-- within one kernel the unrepaired code already shows the growth (two load+store instructions)
example : (analyse { genCfg with rmwInPlace := true } db1 (rmw1 ++ rmw1)).2.map (·.uops) =
    [[1, 2, 3], [1, 2, 3, 3]] := by decide
-- the safe hypothesis is satisfiable and refutable
example : ({ genCfg with rmwInPlace := true } : Cfg).safe = false := by decide
example : ({ genCfg with rmwInPlace := true, loadByRef := false } : Cfg).safe = true := by decide
-- process level: shadowed cache hides the pollution from the reports, unshadowed does not
example : (runProc { genCfg with rmwInPlace := true, cacheShadowed := true } (fun _ => db1) Proc.fresh [⟨0, rmw1⟩, ⟨0, rmw1⟩]).2.map
    (fun r => r.map (·.uops)) = [[[1, 2, 3]], [[1, 2, 3]]] := by decide
example : (runProc { genCfg with rmwInPlace := true, cacheShadowed := false } (fun _ => db1) Proc.fresh
    [⟨0, rmw1⟩, ⟨0, rmw1⟩]).2.map (fun r => r.map (·.uops)) = [[[1, 2, 3]], [[1, 2, 3, 3]]] := by decide
example : (runProc genCfg (fun _ => db1) Proc.fresh [⟨0, kAll⟩, ⟨1, rmw1⟩, ⟨0, kAll⟩]).1.cache.map (·.1) = [0, 1] := by
  decide
-- the oracle
example : firstDiff [1, 2, 3] [1, 2, 4] = some 2 ∧ firstDiff [1, 2] [1, 2] = none ∧ firstDiff [1] [1, 2] = some 1 := by
  decide
example : firstPolluted [(0, 7), (1, 8)] [[(0, 7)], [(0, 7), (1, 9)], [(1, 8)]] = some 1 := by decide

end OsacaVerif.Props.C18
