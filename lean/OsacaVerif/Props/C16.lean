import OsacaVerif.Model.Workers
import OsacaVerif.Model.LcdPost
import OsacaVerif.Lemmas.Workers
import OsacaVerif.Lemmas.LcdPost
import OsacaVerif.Spec.LcdSet
/-
  C16 — LCD result is independent of process scheduling and worker count.

  `Workers.partition/slices` are the scheduling expressions of `check_for_loopcarried_dep`
  (regenerated from the source into `Gen.WorkersConsts`), `LcdPost.post` is the model of the
  post-processing of the shared list, `Workers.Interleave` is "any arrival order".
  All theorems hold for kernels of any length and any worker count.
-/
namespace OsacaVerif.Props.C16
open OsacaVerif OsacaVerif.Workers OsacaVerif.LcdPost

/-! ### the partition -/

/-- **partition_covers** (∀ kernel, ∀ n ≥ 1, also n > klen): the slices handed to the workers, in
    worker order, concatenate to the kernel — no root is dropped, none is searched twice, order
    is kept. -/
theorem partition_covers {α : Type} (kernel : List α) (n : Nat) (hn : 1 ≤ n) :
    (slices kernel n).flatten = kernel := by
  rw [slices_eq]
  have h := flatten_slices_prefix kernel (workload kernel.length n) n
  simp only [start_eq, stop_eq]
  rw [h]
  exact List.take_of_length_le (le_mul_workload kernel.length n hn)

/-- there is one slice per worker -/
theorem partition_count {α : Type} (kernel : List α) (n : Nat) : (slices kernel n).length = n := by
  simp [slices_eq]

/-- consecutive slices do not overlap and are in order: worker `t` stops where or before worker
    `t+1` starts -/
theorem partition_ordered (klen n t : Nat) : stop klen n t ≤ start klen n (t + 1) := by
  rw [stop_eq, start_eq]; exact Nat.min_le_left _ _

/-- the last worker's slice ends at the end of the kernel -/
theorem partition_last (klen n : Nat) (hn : 1 ≤ n) : stop klen n (n - 1) = klen := by
  rw [stop_eq]
  have : n - 1 + 1 = n := by omega
  rw [this]
  exact Nat.min_eq_right (le_mul_workload klen n hn)

/-- every position of the kernel lies in the index range of exactly one worker -/
theorem partition_index_unique (klen n i : Nat) (hn : 1 ≤ n) (hi : i < klen) :
    ∃ t, t < n ∧ start klen n t ≤ i ∧ i < stop klen n t ∧
      ∀ t', start klen n t' ≤ i → i < stop klen n t' → t' = t := by
  have hw := workload_pos klen n
  refine ⟨i / workload klen n, ?_, ?_, ?_, ?_⟩
  · have h1 := le_mul_workload klen n hn
    apply Nat.div_lt_of_lt_mul
    rw [Nat.mul_comm]; omega
  · rw [start_eq]; exact Nat.div_mul_le_self i _
  · rw [stop_eq]
    apply Nat.lt_min.mpr
    refine ⟨?_, hi⟩
    rw [Nat.mul_comm]
    exact Nat.lt_mul_div_succ i hw
  · intro t' h1 h2
    rw [start_eq] at h1
    rw [stop_eq] at h2
    have h3 : i < (t' + 1) * workload klen n := Nat.lt_of_lt_of_le h2 (Nat.min_le_left _ _)
    exact (Nat.div_eq_of_lt_le h1 h3).symm

/-- what `kernel[s:e]` contains -/
theorem pySlice_getElem_opt {α : Type} (l : List α) (s e j : Nat) :
    (pySlice l s e)[j]? = if s + j < e then l[s + j]? else none := by
  unfold pySlice
  rw [List.getElem?_drop, List.getElem?_take]

-- non-vacuity: 7 roots on 3 workers, 3 roots on 5 workers (n > klen), 50 roots on 16 workers
example : slices [1, 2, 3, 4, 5, 6, 7] 3 = [[1, 2, 3], [4, 5, 6], [7]] := by decide +kernel
example : slices [10, 20, 30] 5 = [[10], [20], [30], [], []] := by decide +kernel
example : partition 50 16 = (4, [0,4,8,12,16,20,24,28,32,36,40,44,48,52,56,60],
    [4,8,12,16,20,24,28,32,36,40,44,48,50,50,50,50]) := by decide +kernel
example : Gen.useParallel 50 = true ∧ Gen.useParallel 49 = false := by decide +kernel

/-! ### order-insensitivity of the post-processing -/

/-- **post_perm_invariant**: if contributions with the same `lat_path` carry the same `lat_sum`
    (`SumByKey`, a decidable predicate evaluated on every real run), the dictionary – content AND
    insertion order – is the same for every arrival order of the same paths. -/
theorem post_perm_invariant (sumF : List Rat → Rat) (lat : Nat → Nat → Rat) (offset : Nat)
    (l₁ l₂ : List Path) (h : SumByKey (l₁.map (norm sumF lat offset))) (p : l₁.Perm l₂) :
    post sumF lat offset l₁ = post sumF lat offset l₂ := by
  unfold post postE
  rw [sortDesc_eq_of_perm (dedup_perm h (p.map _))]

theorem sumExact_perm {l₁ l₂ : List Rat} (p : l₁.Perm l₂) : sumExact l₁ = sumExact l₂ := by
  unfold sumExact
  apply p.foldl_eq'
  intro x _ y _ z
  rw [Rat.add_assoc, Rat.add_comm x y, ← Rat.add_assoc]

/-- with exact arithmetic the hypothesis always holds: the sum is a function of the sorted
    `lat_path` -/
theorem sumExact_sumByKey (lat : Nat → Nat → Rat) (offset : Nat) (l : List Path) :
    SumByKey (l.map (norm sumExact lat offset)) := by
  have key : ∀ p : Path, (norm sumExact lat offset p).1 =
      sumExact ((norm sumExact lat offset p).2.map (·.2)) := by
    intro p
    simp only [norm, sortKey]
    exact sumExact_perm ((sortKey_perm _).map _).symm
  intro x hx y hy hxy
  obtain ⟨p, _, rfl⟩ := List.mem_map.mp hx
  obtain ⟨q, _, rfl⟩ := List.mem_map.mp hy
  rw [key p, key q, hxy]

/-- order-insensitivity without side condition for exact sums -/
theorem post_exact_perm_invariant (lat : Nat → Nat → Rat) (offset : Nat) (l₁ l₂ : List Path)
    (p : l₁.Perm l₂) : post sumExact lat offset l₁ = post sumExact lat offset l₂ :=
  post_perm_invariant _ _ _ _ _ (sumExact_sumByKey lat offset l₁) p

/-- the hypothesis cannot be dropped: a summation that is not a function of the sorted
    `lat_path` (as float addition in path order is not) makes the result depend on which of two
    rotations of a cycle arrives first.  Here `sumF` = first summand, paths `1→2→1'`, `2→1'→2'`. -/
theorem sumByKey_needed :
    ∃ (sumF : List Rat → Rat) (lat : Nat → Nat → Rat) (l₁ l₂ : List Path),
      l₁.Perm l₂ ∧ post sumF lat 1000 l₁ ≠ post sumF lat 1000 l₂ := by
  refine ⟨fun l => l.headD 0, fun s _ => if s % 1000 = 1 then 3 else 5,
    [[1, 2, 1001], [2, 1001, 1002]], [[2, 1001, 1002], [1, 2, 1001]], List.Perm.swap _ _ _, ?_⟩
  decide +kernel

/-! ### completeness / soundness of the dictionary w.r.t. the paths -/

/-- every dictionary item is the contribution of one of the paths, filed under its own lines -/
theorem post_sound (sumF : List Rat → Rat) (lat : Nat → Nat → Rat) (offset : Nat) (l : List Path)
    (x : List Nat × Entry) (hx : x ∈ post sumF lat offset l) :
    (∃ p ∈ l, x.2 = norm sumF lat offset p) ∧ x.1 = dictKey x.2.2 := by
  have h := mem_mkDict _ x hx
  have h2 : x.2 ∈ dedup [] (l.map (norm sumF lat offset)) := (sortDesc_perm _).subset h.1
  obtain ⟨p, hp, e⟩ := List.mem_map.mp (dedup_sub _ _ _ h2).1
  exact ⟨⟨p, hp, e.symm⟩, h.2.symm⟩

theorem sorted_dedup_lines_distinct (es : List Entry) (hu : LinesUnique es) :
    (sortDesc (dedup [] es)).Pairwise (fun a b => dictKey a.2 ≠ dictKey b.2) := by
  have h1 : (dedup [] es).Pairwise (fun a b => dictKey a.2 ≠ dictKey b.2) := by
    have hk := dedup_keys_distinct [] es
    have hsub := dedup_sub [] es
    exact List.Pairwise.imp_of_mem
      (fun {a b} ha hb hne e => hne (hu a (hsub a ha).1 b (hsub b hb).1 e)) hk
  exact (sortDesc_perm _).symm.pairwise h1 (fun {a b} h e => h e.symm)

/-- no path is lost: under the two hypotheses every path's contribution is in the dictionary -/
theorem post_complete (sumF : List Rat → Rat) (lat : Nat → Nat → Rat) (offset : Nat) (l : List Path)
    (hs : SumByKey (l.map (norm sumF lat offset))) (hu : LinesUnique (l.map (norm sumF lat offset)))
    (p : Path) (hp : p ∈ l) :
    (dictKey (norm sumF lat offset p).2, norm sumF lat offset p) ∈ post sumF lat offset l := by
  apply mkDict_complete _ (sorted_dedup_lines_distinct _ hu)
  apply (sortDesc_perm _).symm.subset
  exact (mem_dedup_iff _ hs _).mpr (List.mem_map_of_mem hp)

/-- **post_mono** (used by C19): the post-processing of a sub-collection of the paths is a
    sub-dictionary of the post-processing of all paths – same keys, same latencies. -/
theorem post_mono (sumF : List Rat → Rat) (lat : Nat → Nat → Rat) (offset : Nat) (part full : List Path)
    (hsub : ∀ p ∈ part, p ∈ full)
    (hs : SumByKey (full.map (norm sumF lat offset))) (hu : LinesUnique (full.map (norm sumF lat offset)))
    (x : List Nat × Entry) (hx : x ∈ post sumF lat offset part) : x ∈ post sumF lat offset full := by
  obtain ⟨⟨p, hp, e⟩, hk⟩ := post_sound _ _ _ _ x hx
  have := post_complete sumF lat offset full hs hu p (hsub p hp)
  rw [← e, ← hk] at this
  exact this

/-! ### parallel = sequential -/

/-- **parallel_eq_sequential**: for every kernel, every worker count `n ≥ 1`, every function
    `batch` giving the paths found from a root, and every arrival order of the workers' batches,
    the multi-process result equals the single-process result (`for instr in kernel: extend`). -/
theorem parallel_eq_sequential {α : Type} (sumF : List Rat → Rat) (lat : Nat → Nat → Rat) (offset : Nat)
    (kernel : List α) (batch : α → List Path) (n : Nat) (hn : 1 ≤ n)
    (arr : List (List Path)) (harr : Interleave (queues batch kernel n) arr)
    (h : SumByKey ((kernel.flatMap batch).map (norm sumF lat offset))) :
    post sumF lat offset arr.flatten = post sumF lat offset (kernel.flatMap batch) := by
  have h1 : arr.Perm ((queues batch kernel n).flatten) := harr.perm
  have h2 : (queues batch kernel n).flatten = kernel.map batch := by
    unfold queues
    rw [← List.map_flatten, partition_covers kernel n hn]
  have h3 : arr.flatten.Perm (kernel.flatMap batch) := by
    rw [List.flatMap_def, ← h2]; exact h1.flatten
  exact (post_perm_invariant sumF lat offset _ _ h h3.symm).symm

/-- the same for the executable arrival order `merge sched` (any schedule) -/
theorem parallel_eq_sequential_merge {α : Type} (sumF : List Rat → Rat) (lat : Nat → Nat → Rat)
    (offset : Nat) (kernel : List α) (batch : α → List Path) (n : Nat) (hn : 1 ≤ n) (sched : List Nat)
    (h : SumByKey ((kernel.flatMap batch).map (norm sumF lat offset))) :
    post sumF lat offset (merge sched (queues batch kernel n)).flatten
      = post sumF lat offset (kernel.flatMap batch) :=
  parallel_eq_sequential sumF lat offset kernel batch n hn _ (merge_interleave _ _) h

/-- two runs with different worker counts and different arrival orders agree -/
theorem worker_count_irrelevant {α : Type} (sumF : List Rat → Rat) (lat : Nat → Nat → Rat) (offset : Nat)
    (kernel : List α) (batch : α → List Path) (n₁ n₂ : Nat) (h₁ : 1 ≤ n₁) (h₂ : 1 ≤ n₂)
    (arr₁ arr₂ : List (List Path)) (ha₁ : Interleave (queues batch kernel n₁) arr₁)
    (ha₂ : Interleave (queues batch kernel n₂) arr₂)
    (h : SumByKey ((kernel.flatMap batch).map (norm sumF lat offset))) :
    post sumF lat offset arr₁.flatten = post sumF lat offset arr₂.flatten := by
  rw [parallel_eq_sequential sumF lat offset kernel batch n₁ h₁ arr₁ ha₁ h,
    parallel_eq_sequential sumF lat offset kernel batch n₂ h₂ arr₂ ha₂ h]

-- non-vacuity: a two-instruction cycle found from both roots, arriving in either order, gives
-- one entry "1-2" with latency 8; a second cycle "2" (self-dependency) with latency 5 comes after
example :
    post sumExact (fun s _ => if s % 1000 = 1 then 3 else 5) 1000
      [[2, 1001, 1002], [1, 2, 1001], [2, 1002]]
      = [([1, 2], (8, [(1, 3), (2, 5)])), ([2], (5, [(2, 5)]))] := by decide +kernel
example :
    post sumExact (fun s _ => if s % 1000 = 1 then 3 else 5) 1000
      (merge [1, 0, 1] (queues (fun r => if r = 1 then [[1, 2, 1001]] else [[2, 1001, 1002], [2, 1002]])
        [1, 2] 2)).flatten
      = [([1, 2], (8, [(1, 3), (2, 5)])), ([2], (5, [(2, 5)]))] := by decide +kernel
example : sumByKeyB ([[2, 1001, 1002], [1, 2, 1001], [2, 1002]].map
    (norm sumExact (fun s _ => if s % 1000 = 1 then 3 else 5) 1000)) = true := by decide +kernel

/-! ### model ↔ Spec -/

/-- the slices of the model satisfy the Spec's covering predicate -/
theorem partition_meets_spec (kernel : List Nat) (n : Nat) (hn : 1 ≤ n) :
    Spec.Lcd.coversB kernel (slices kernel n) = true := by
  simp [Spec.Lcd.coversB, partition_covers kernel n hn]

theorem ltPair_eq_not_lePair (x y : Nat × Rat) : Spec.Lcd.ltPair y x = !lePair x y := by
  obtain ⟨x1, x2⟩ := x; obtain ⟨y1, y2⟩ := y
  simp only [Spec.Lcd.ltPair, lePair]
  by_cases h1 : y1 < x1
  · have : ¬ x1 < y1 := by omega
    have h3 : ¬ x1 = y1 := by omega
    simp [h1, this, h3]
  · by_cases h2 : x1 < y1
    · have h3 : ¬ y1 = x1 := by omega
      simp [h1, h2, h3]
    · have h3 : x1 = y1 := by omega
      subst h3
      simp only [Nat.lt_irrefl, false_or, true_and, decide_false, Bool.false_or, beq_self_eq_true, Bool.true_and]
      by_cases h4 : x2 ≤ y2
      · have : ¬ y2 < x2 := Rat.not_lt.mpr h4
        simp [h4, this]
      · have : y2 < x2 := Rat.not_le.mp h4
        simp [h4, this]

theorem insertSorted_eq (x : Nat × Rat) (l : List (Nat × Rat)) :
    Spec.Lcd.insertSorted x l = insertBy lePair x l := by
  induction l with
  | nil => rfl
  | cons y ys ih =>
    simp only [Spec.Lcd.insertSorted, insertBy, ltPair_eq_not_lePair, ih]
    cases lePair x y <;> simp

theorem canon_eq_sortKey (k : Key) : Spec.Lcd.canon k = sortKey k := by
  unfold Spec.Lcd.canon sortKey isort
  induction k with
  | nil => rfl
  | cons x xs ih => simp only [List.foldr_cons, ih, insertSorted_eq]

theorem edges_eq_pairwise (p : List Nat) : Spec.Lcd.edges p = pairwise p := by
  induction p with
  | nil => rfl
  | cons a r ih =>
    cases r with
    | nil => rfl
    | cons b r' => simp only [Spec.Lcd.edges, pairwise, ih]

theorem normSrc_eq_mod (offset s : Nat) (h : s < 2 * offset) : normSrc offset s = s % offset := by
  unfold normSrc
  split
  · next hge =>
    have : s - offset < offset := by omega
    rw [Nat.mod_eq_sub_mod hge, Nat.mod_eq_of_lt this]
  · next hlt => rw [Nat.mod_eq_of_lt (by omega)]

theorem mem_pairwise_left {α : Type} (l : List α) (sd : α × α) (h : sd ∈ pairwise l) : sd.1 ∈ l := by
  induction l with
  | nil => simp [pairwise] at h
  | cons a r ih =>
    cases r with
    | nil => simp [pairwise] at h
    | cons b r' =>
      simp only [pairwise, List.mem_cons] at h
      rcases h with h | h
      · subst h; simp
      · exact List.mem_cons_of_mem _ (ih (by simpa using h))

theorem foldl_add_eq (a : Rat) (l : List Rat) :
    l.foldl (· + ·) a = a + l.foldr (· + ·) 0 := by
  induction l generalizing a with
  | nil => simp [Rat.add_zero]
  | cons x xs ih => simp only [List.foldl_cons, List.foldr_cons, ih, Rat.add_assoc]

theorem sumExact_eq_foldr (l : List Rat) : sumExact l = l.foldr (· + ·) 0 := by
  unfold sumExact
  rw [foldl_add_eq, Rat.zero_add]

/-- **norm_eq_cycleOf**: for paths of the doubled kernel (all nodes `< 2·offset`) the model's
    contribution of a path is exactly the Spec's cycle of that path -/
theorem norm_eq_cycleOf (lat : Nat → Nat → Rat) (offset : Nat) (p : Path)
    (hp : ∀ s ∈ p, s < 2 * offset) :
    norm sumExact lat offset p = ((Spec.Lcd.cycleOf lat offset p).2, (Spec.Lcd.cycleOf lat offset p).1) := by
  have hes : latPath lat offset p
      = (Spec.Lcd.edges p).map (fun sd => (sd.1 % offset, lat sd.1 sd.2)) := by
    unfold latPath
    rw [edges_eq_pairwise]
    apply List.map_congr_left
    intro sd hsd
    rw [normSrc_eq_mod offset sd.1 (hp _ (mem_pairwise_left p sd hsd))]
  simp only [norm, Spec.Lcd.cycleOf, hes, canon_eq_sortKey, sumExact_eq_foldr]

/-- every dictionary value is the Spec's cycle of one of the paths -/
theorem post_sound_spec (lat : Nat → Nat → Rat) (offset : Nat) (l : List Path)
    (hl : ∀ p ∈ l, ∀ s ∈ p, s < 2 * offset)
    (x : List Nat × Entry) (hx : x ∈ post sumExact lat offset l) :
    ∃ p ∈ l, (x.2.2, x.2.1) = Spec.Lcd.cycleOf lat offset p := by
  obtain ⟨⟨p, hp, e⟩, _⟩ := post_sound sumExact lat offset l x hx
  refine ⟨p, hp, ?_⟩
  rw [e, norm_eq_cycleOf lat offset p (hl p hp)]

/-- every path's Spec cycle is a dictionary value (no cycle lost) when different cycles have
    different line lists -/
theorem post_complete_spec (lat : Nat → Nat → Rat) (offset : Nat) (l : List Path)
    (hl : ∀ p ∈ l, ∀ s ∈ p, s < 2 * offset)
    (hu : LinesUnique (l.map (norm sumExact lat offset))) (p : Path) (hp : p ∈ l) :
    ∃ x ∈ post sumExact lat offset l, (x.2.2, x.2.1) = Spec.Lcd.cycleOf lat offset p := by
  refine ⟨_, post_complete sumExact lat offset l (sumExact_sumByKey lat offset l) hu p hp, ?_⟩
  rw [norm_eq_cycleOf lat offset p (hl p hp)]

-- non-vacuity: a path of the doubled kernel and its Spec cycle
example : Spec.Lcd.cycleOf (fun s _ => if s % 1000 = 1 then 3 else 5) 1000 [2, 1001, 1002]
    = ([(1, 3), (2, 5)], 8) := by decide +kernel
example : Spec.Lcd.agreesB (fun s _ => if s % 1000 = 1 then 3 else 5) 1000
    [[2, 1001, 1002], [1, 2, 1001], [2, 1002]] [([(1, 3), (2, 5)], 8), ([(2, 5)], 5)] = true := by
  decide +kernel

end OsacaVerif.Props.C16
