import OsacaVerif.Props.EndToEnd
import OsacaVerif.Gen.IsaDb_aarch64
/-
  End to end (AArch64): the statements of `Props/EndToEnd.lean` for `EndToEnd.analyseA64 = analyse .a64` — the
  function from the TEXT of an AArch64 assembly file to the analysis and its report, composed from
  `ParseA64.parseFile` (C10), `Glue.formA64`, `Isa.assignSrcDst .a64` (default roles first-operand-destination,
  write-back of pre- or post-indexed bases; C03Roles), `Compose.assignTpLt` on an AArch64 machine model (`.`-suffix
  fall-back, register form + load/store tables; C07, C08), `Isa.regChanges .a64`, `Pipeline.run` with
  `DG.Isa.a64` and `p_index_latency` (C11Pipeline) and the report model (C13).

  Every theorem here is the `.a64` instance of an ISA-generic theorem of `Props/EndToEnd.lean`; the statements are
  written out with the AArch64 stage functions so that they can be read on their own.  Each one has a non-vacuity
  `example` evaluated by the kernel on the file

      1  ldr d1, [x2], #8      post-indexed load, composed from its register form `LDR d, x` + the load default
      2  // note               comment-only line
      3  foo x3, x2            unknown mnemonic (default roles: first operand destination)
      4  add x2, x2, #8        own entry

  Dependency edges: load node of 1 → 1 (load latency 4), 1 → 3 and 1 → 4 through the WRITTEN-BACK base `x2` with the
  weight `p_index_latency = 2` (not the latency 1 of the `ldr`); critical path 7; LCD 1-4 (2 + 1).
-/
namespace OsacaVerif.Props.EndToEndA64
open OsacaVerif OsacaVerif.Text OsacaVerif.EndToEnd OsacaVerif.ParseX86 OsacaVerif.Pipeline
open OsacaVerif.Spec.X86R (joinLines)
open OsacaVerif.Props.C11Pipeline (setNum eraseNum SameOnInstr)
open OsacaVerif.Props.EndToEnd

/-! ### the AArch64 front end behind `analyse .a64` -/

/-- `parse_line`: `ParserAArch64.parse_line` through the glue; `ValueError` and every other exception are errors -/
theorem parseLineOf_a64 (t : Txt) : parseLineOf .a64 t = resA64 (ParseA64.parseLine t) := rfl

/-- `parse_file`: the AArch64 parser model's own transcription of `BaseParser.parse_file` -/
theorem parseFileOf_a64 (c : Txt) :
    parseFileOf .a64 c = (ParseA64.parseFile c 0).map fun x => ⟨x.lineNo, x.text, resA64 x.out⟩ := rfl

/-- an instruction line behind the glue: mnemonic, comment, operands as selection / the matcher see them -/
theorem formA64_instr (mn : Txt) (ops : List ParseA64.Operand) (c : Option Txt) :
    Glue.formA64 (.instr mn ops c) =
      { mnemonic := some mn, comment := c, selOps := ops.map Glue.opdA64, operands := Glue.opndsA64 ops } := rfl

/-- the key `Glue.keyA64` identifies an AArch64 operand under `==`: equal keys ⇒ equal on every field
    `RegisterOperand.__eq__` (name, prefix, lanes, shape, index), `ImmediateOperand.__eq__` and `MemoryOperand.__eq__`
    (offset, base, index register, scale, pre_indexed, post_indexed) compare (`Glue.eqViewA64` erases the fields they
    do not read: the predication of a register, shift operator / amount of an index register); operands of the
    classes without `__eq__` (identifier, condition code, prefetch operation) equal only the one at their own position -/
theorem glue_a64_key_identifies (i j : Nat) (a b : ParseA64.Operand) (h : Glue.keyA64 i a = Glue.keyA64 j b) :
    Glue.eqViewA64 a = Glue.eqViewA64 b ∨
    (i = j ∧ ((∃ x y, a = .ident x ∧ b = .ident y) ∨ (∃ x y, a = .cond x ∧ b = .cond y) ∨
              (∃ t g p t' g' p', a = .prf t g p ∧ b = .prf t' g' p'))) := Glue.keyA64_eq i j a b h

/-- the matcher's view of the operands of an AArch64 instruction line is the operand-by-operand conversion -/
theorem glue_a64_operands (mn : Txt) (ops : List ParseA64.Operand) (c : Option Txt) :
    (Glue.formA64 (.instr mn ops c)).operands.map (·.p) = ops.map Glue.poperandA64 := glue_operands_a64 mn ops c

/-! ### 1. `analyseA64` is the composition of the stage models -/

/-- **e2e_a64_factors** (file level) -/
theorem e2e_a64_factors (m : Model) (o : Opts) (file : Txt) :
    analyseA64 m o file =
      match collect ((ParseA64.parseFile file 0).map fun x => (⟨x.lineNo, x.text, resA64 x.out⟩ : FLine)) with
      | .error (n, e) => .parseError n e
      | .ok fs => assemble .a64 m o (fs.map fun x => lineOf .a64 m x.1 x.2.1 x.2.2) := rfl

/-- **e2e_a64_factors** (line level): an instruction line `mn ops` gets `Isa.assignSrcDst .a64` (roles incl. the
    write-back registers), `Compose.assignTpLt` on the instruction with those roles, and `Isa.regChanges .a64`
    (both variants: the register changes and the post-index change) — through `Glue.opndsA64`, nothing else. -/
theorem e2e_a64_factors_line (m : Model) (num : Nat) (text mn : Txt) (ops : List ParseA64.Operand) (c : Option Txt) :
    lineOf .a64 m num text (Glue.formA64 (.instr mn ops c)) =
      (let opnds := Glue.opndsA64 ops
       let roles := Isa.assignSrcDst .a64 m.isaDb (some mn) opnds
       let sel : Marker.Line := { num := num, mnem := some mn, comment := c, dir := none, ops := ops.map Glue.opdA64 }
       match Compose.assignTpLt m.mm (Glue.composeIns (some mn) opnds roles.sem),
             Isa.regChanges .a64 m.isaDb (some mn) opnds roles.sem false,
             Isa.regChanges .a64 m.isaDb (some mn) opnds roles.sem true with
       | .ok t, .ok ch, .ok chp =>
         { pl := { sel := sel
                   sem := { src := roles.sem.src.map Isa.toDG, dst := roles.sem.dst.map Isa.toDG,
                            srcDst := roles.sem.srcDst.map Isa.toDG, lat := t.lat, latWoLoad := some t.latWoLoad,
                            hasLd := roles.hasLd, isLd := t.flags.contains Gen.flagLD,
                            changes := ch.map fun e => (e.1, Isa.toChange e.2),
                            changesPost := chp.map fun e => (e.1, Isa.toChange e.2),
                            tp := t.tp, pressure := t.pressure, used := Glue.usedMask m.mm.ports t.uops,
                            flags := Glue.flagsOf roles t }
                   text := text } }
       | .error e, _, _ => { pl := { sel := sel, text := text }, err := some (.tplt e) }
       | .ok _, .error e, _ => { pl := { sel := sel, text := text }, err := some (.changes e) }
       | .ok _, .ok _, .error e => { pl := { sel := sel, text := text }, err := some (.changes e) }) :=
  e2e_factors_line .a64 m num text (Glue.formA64 (.instr mn ops c))

/-- **e2e_a64_factors** (analysis level) -/
theorem e2e_a64_factors_ok (m : Model) (o : Opts) (file : Txt) (r : Result) (h : analyseA64 m o file = .ok r) :
    ∃ fs k, collect (parseFileOf .a64 file) = .ok fs ∧
      r.parsed = (linesOf .a64 m fs).map (·.pl) ∧
      select o.mode r.parsed = .ok k ∧ k ≠ [] ∧ r.kernel = k ∧
      Pipeline.run (cfgOf .a64 m o) o.mode r.parsed = .ok r.analysis ∧
      r.analysis = analyze (cfgOf .a64 m o) k ∧
      r.report = toReport o.repr m.mm.ports o.ignoreUnknown m.mm.ports.length k r.analysis ∧
      r.text = Report.fullAnalysis o.version o.file o.arch o.stamp (Report.archWarningFlag o.archGiven)
        (Report.lengthWarningFlag (linesGiven o.mode) k.length r.parsed.length) false r.report :=
  e2e_factors_ok .a64 m o file r h

/-- the analysis runs with the AArch64 register-dependence relation and the model's `p_index_latency` -/
theorem e2e_a64_cfg (m : Model) (o : Opts) :
    cfgOf .a64 m o = { isa := .a64, flagDeps := o.flagDeps, par := m.par, floor := o.floor, nports := m.mm.ports.length } := rfl

/-! ### 2. per-line locality -/

/-- **e2e_a64_per_line_local** -/
theorem e2e_a64_per_line_local (m : Model) (file : Txt) (fs : List (Nat × Txt × Glue.Form))
    (h : collect (parseFileOf .a64 file) = .ok fs) :
    linesOf .a64 m fs = (numbered 0 0 (splitLines file)).map (fun p => lineOfText .a64 m p.1 p.2) ∧
    ∀ n n' t, lineOfText .a64 m n t = setLineNum n (lineOfText .a64 m n' t) :=
  e2e_per_line_local .a64 m file fs h

/-- **e2e_a64_per_line_local** (two files, any options) -/
theorem e2e_a64_per_line_local_files (m : Model) (o1 o2 : Opts) (file1 file2 : Txt) (r1 r2 : Result)
    (h1 : analyseA64 m o1 file1 = .ok r1) (h2 : analyseA64 m o2 file2 = .ok r2)
    (p1 p2 : PLine) (hp1 : p1 ∈ r1.parsed) (hp2 : p2 ∈ r2.parsed) (ht : p1.text = p2.text) :
    eraseNum p1 = eraseNum p2 :=
  e2e_per_line_local_files .a64 m o1 o2 file1 file2 r1 r2 h1 h2 p1 p2 hp1 hp2 ht

/-- **e2e_a64_rows_local** -/
theorem e2e_a64_rows_local (m : Model) (o : Opts) (file : Txt) (r : Result) (h : analyseA64 m o file = .ok r) :
    r.analysis.rows = r.kernel.map (rowOf m.mm.ports.length) ∧ r.kernel.Sublist r.parsed ∧
    ∀ row ∈ r.analysis.rows, ∃ t, (row.line, t) ∈ numbered 0 0 (splitLines file) ∧
      row = { rowOfText .a64 m t with line := row.line } :=
  e2e_rows_local .a64 m o file r h

/-! ### 3. an unknown instruction stays isolated -/

/-- **e2e_a64_unknown_isolated**: replace the line `l` of an AArch64 file by a line `l'` whose mnemonic has no entry
    in the model — neither directly nor cut at the first `.`, for whatever operands (so neither as a register
    form).  Every other line of the file carries the same data, the replaced line is an instruction with zeros
    and both unknown flags, every other row of the analysis is unchanged. -/
theorem e2e_a64_unknown_isolated (m : Model) (o : Opts) (xs ys : List Txt) (l l' : Txt)
    (hnl : ∀ t ∈ xs ++ l :: ys, 10 ∉ t) (hnl' : 10 ∉ l')
    (hb : isBlank l = false) (hb' : isBlank l' = false)
    (f' : Glue.Form) (mn' : Txt) (hp' : resA64 (ParseA64.parseLine l') = .ok f') (hmn : f'.mnemonic = some mn')
    (hno : ∀ ops, Match.lookupWithFallbacks m.mm.isa m.mm.db mn' ops = none)
    (r1 r2 : Result) (h1 : analyseA64 m o (joinLines (xs ++ l :: ys)) = .ok r1)
    (h2 : analyseA64 m o (joinLines (xs ++ l' :: ys)) = .ok r2) :
    (∀ p, p.num ≠ xs.length + 1 → (p ∈ r1.parsed ↔ p ∈ r2.parsed)) ∧
    (∀ row ∈ r2.analysis.rows, row.line = xs.length + 1 →
      row.instr = true ∧ row.tp = 0 ∧ row.lat = 0 ∧ row.latWoLoad = some 0 ∧
      row.pressure = Ports.zeros m.mm.ports.length) ∧
    (∀ rr ∈ r2.report.rows, rr.line = xs.length + 1 →
      rr.hasMnemonic = true ∧ rr.press = Ports.zeros m.mm.ports.length ∧
      Gen.flagTpUnknown ∈ rr.flags ∧ Gen.flagLtUnknown ∈ rr.flags) ∧
    (∀ row1 ∈ r1.analysis.rows, ∀ row2 ∈ r2.analysis.rows, row1.line = row2.line →
      row1.line ≠ xs.length + 1 → row1 = row2) :=
  e2e_unknown_isolated .a64 m o xs ys l l' hnl hnl' hb hb' f' mn' hp' hmn hno r1 r2 h1 h2

theorem e2e_a64_unknown_isolated_lines (m : Model) (o : Opts) (spec : Txt) (ho : o.mode = .lines spec)
    (xs ys : List Txt) (l l' : Txt) (hnl : ∀ t ∈ xs ++ l :: ys, 10 ∉ t) (hnl' : 10 ∉ l')
    (hb : isBlank l = false) (hb' : isBlank l' = false)
    (r1 r2 : Result) (h1 : analyseA64 m o (joinLines (xs ++ l :: ys)) = .ok r1)
    (h2 : analyseA64 m o (joinLines (xs ++ l' :: ys)) = .ok r2) :
    r1.analysis.rows.map (·.line) = r2.analysis.rows.map (·.line) :=
  e2e_unknown_isolated_lines .a64 m o spec ho xs ys l l' hnl hnl' hb hb' r1 r2 h1 h2

/-! ### 4. comment, label and directive lines are transparent — at the level of the file TEXT -/

/-- **e2e_a64_noise_transparent_text**: insert a `// …` comment line, a label line or a directive line behind the
    first `|xs|` lines of an AArch64 file; if the new selection selects the old lines the old one selects, the two
    analyses agree on the instructions up to the renaming of line numbers. -/
theorem e2e_a64_noise_transparent_text (m : Model) (o1 o2 : Opts) (hfd : o1.flagDeps = o2.flagDeps)
    (hfl : o1.floor = o2.floor) (xs ys : List Txt) (n : Txt) (hne : xs ++ ys ≠ [])
    (hnl : ∀ t ∈ xs ++ n :: ys, 10 ∉ t) (hn : IsNoise .a64 n) (r1 r2 : Result)
    (h1 : analyseA64 m o1 (joinLines (xs ++ ys)) = .ok r1)
    (h2 : analyseA64 m o2 (joinLines (xs ++ n :: ys)) = .ok r2)
    (S1 S2 : Nat → Bool)
    (hk1 : r1.kernel = r1.parsed.filter fun p => S1 p.num)
    (hk2 : r2.kernel = r2.parsed.filter fun p => S2 p.num)
    (hS : ∀ x, S2 (shiftAt xs.length x) = S1 x) :
    ∃ (a₀ : Analysis) (g1 g2 : Nat → Nat), Incr g1 ∧ Incr g2 ∧
      (∀ j (h : j < (r1.kernel.filter (·.isInstr)).length), g1 j = ((r1.kernel.filter (·.isInstr))[j]).num) ∧
      (∀ j (h : j < (r2.kernel.filter (·.isInstr)).length), g2 j = ((r2.kernel.filter (·.isInstr))[j]).num) ∧
      a₀ = analyze (EndToEnd.cfgOf .a64 m o1) (Props.C11Pipeline.canon (r1.kernel.filter (·.isInstr))) ∧
      SameOnInstr m.mm.ports.length r1.analysis (a₀.rename g1) ∧
      SameOnInstr m.mm.ports.length r2.analysis (a₀.rename g2) :=
  e2e_noise_transparent_text .a64 m o1 o2 hfd hfl xs ys n hne hnl hn r1 r2 h1 h2 S1 S2 hk1 hk2 hS

theorem e2e_a64_noise_transparent_values (m : Model) (o1 o2 : Opts) (hfd : o1.flagDeps = o2.flagDeps)
    (hfl : o1.floor = o2.floor) (xs ys : List Txt) (n : Txt) (hne : xs ++ ys ≠ [])
    (hnl : ∀ t ∈ xs ++ n :: ys, 10 ∉ t) (hn : IsNoise .a64 n) (r1 r2 : Result)
    (h1 : analyseA64 m o1 (joinLines (xs ++ ys)) = .ok r1)
    (h2 : analyseA64 m o2 (joinLines (xs ++ n :: ys)) = .ok r2)
    (S1 S2 : Nat → Bool)
    (hk1 : r1.kernel = r1.parsed.filter fun p => S1 p.num)
    (hk2 : r2.kernel = r2.parsed.filter fun p => S2 p.num)
    (hS : ∀ x, S2 (shiftAt xs.length x) = S1 x) :
    r1.analysis.lcdFigure = r2.analysis.lcdFigure ∧ r1.analysis.colSums = r2.analysis.colSums ∧
    r1.analysis.edges.map (·.w) = r2.analysis.edges.map (·.w) ∧
    r1.analysis.lcd.map (fun e => (e.lats, e.latency)) = r2.analysis.lcd.map (fun e => (e.lats, e.latency)) :=
  e2e_noise_transparent_values .a64 m o1 o2 hfd hfl xs ys n hne hnl hn r1 r2 h1 h2 S1 S2 hk1 hk2 hS

theorem e2e_a64_noise_transparent_whole_file (m : Model) (o : Opts) (xs ys : List Txt) (n : Txt) (hne : xs ++ ys ≠ [])
    (hnl : ∀ t ∈ xs ++ n :: ys, 10 ∉ t) (hn : IsNoise .a64 n) (r1 r2 : Result)
    (h1 : analyseA64 m o (joinLines (xs ++ ys)) = .ok r1)
    (h2 : analyseA64 m o (joinLines (xs ++ n :: ys)) = .ok r2)
    (hk1 : r1.kernel = r1.parsed) (hk2 : r2.kernel = r2.parsed) :
    ∃ (a₀ : Analysis) (g1 g2 : Nat → Nat), Incr g1 ∧ Incr g2 ∧
      SameOnInstr m.mm.ports.length r1.analysis (a₀.rename g1) ∧
      SameOnInstr m.mm.ports.length r2.analysis (a₀.rename g2) :=
  e2e_noise_transparent_whole_file .a64 m o xs ys n hne hnl hn r1 r2 h1 h2 hk1 hk2

theorem e2e_a64_noise_transparent_lines (m : Model) (o1 o2 : Opts) (s1 s2 : Txt) (R1 R2 : List Int)
    (hm1 : o1.mode = .lines s1) (hm2 : o2.mode = .lines s2)
    (hR1 : Marker.getLineRange s1 = some R1) (hR2 : Marker.getLineRange s2 = some R2)
    (hfd : o1.flagDeps = o2.flagDeps) (hfl : o1.floor = o2.floor)
    (xs ys : List Txt) (n : Txt) (hne : xs ++ ys ≠ [])
    (hnl : ∀ t ∈ xs ++ n :: ys, 10 ∉ t) (hn : IsNoise .a64 n)
    (hS : ∀ x : Nat, R2.contains ((shiftAt xs.length x : Nat) : Int) = R1.contains (x : Int))
    (r1 r2 : Result)
    (h1 : analyseA64 m o1 (joinLines (xs ++ ys)) = .ok r1)
    (h2 : analyseA64 m o2 (joinLines (xs ++ n :: ys)) = .ok r2) :
    ∃ (a₀ : Analysis) (g1 g2 : Nat → Nat), Incr g1 ∧ Incr g2 ∧
      SameOnInstr m.mm.ports.length r1.analysis (a₀.rename g1) ∧
      SameOnInstr m.mm.ports.length r2.analysis (a₀.rename g2) :=
  e2e_noise_transparent_lines .a64 m o1 o2 s1 s2 R1 R2 hm1 hm2 hR1 hR2 hfd hfl xs ys n hne hnl hn hS r1 r2 h1 h2

/-! ### 5. the report reads back -/

theorem e2e_a64_report_wf (m : Model) (o : Opts) (file : Txt) (r : Result) (h : analyseA64 m o file = .ok r)
    (hports : m.mm.ports ≠ []) (hnames : ∀ n ∈ m.mm.ports, Report.NameOk n ∧ Report.NoNL n)
    (hrepr : ∀ q, Report.TokOk (o.repr q) ∧ Report.WordOk (o.repr q) ∧ Report.NoNL (o.repr q)) :
    Report.WF r.report :=
  e2e_report_wf .a64 m o file r h hports hnames hrepr

/-- **e2e_a64_report_roundtrip** -/
theorem e2e_a64_report_roundtrip (m : Model) (o : Opts) (file : Txt) (r : Result) (h : analyseA64 m o file = .ok r)
    (hports : m.mm.ports ≠ []) (hnames : ∀ n ∈ m.mm.ports, Report.NameOk n ∧ Report.NoNL n)
    (hrepr : ∀ q, Report.TokOk (o.repr q) ∧ Report.WordOk (o.repr q) ∧ Report.NoNL (o.repr q)) :
    Spec.Report.parseTable (Report.combinedView r.report) = some (Report.view r.report) ∧
    (∃ pre post, r.text = pre ++ Report.combinedView r.report ++ post) ∧
    r.report.rows.map (·.line) = r.kernel.map (·.num) ∧
    r.report.tpSum = r.analysis.colSums ∧
    r.report.cp.map (·.1) = r.analysis.cpMarks.map (·.1) :=
  e2e_report_roundtrip .a64 m o file r h hports hnames hrepr

/-! ### non-vacuity: a concrete AArch64 model and file, evaluated by the kernel

  Model: two ports `0`, `1`; entries `LDR d, x` (the REGISTER form of the load: throughput 1, latency 1, one micro-op
  on `01`) and `ADD x, x, imd`; load default `[[1, '0']]`; load latency 4 for the register type of the entry operand
  at the substituted position (`x`); `p_index_latency = 2`; the shipped AArch64 ISA database `Gen.isaDbA64`. -/
namespace ExA64

def pd : Txt := [100]
def px : Txt := [120]
def regE (p : Txt) : Operand.EOperand := .reg none (some p) none
def mm : Compose.MModel :=
  { isa := .a64, ports := [[48], [49]]
    db := [{ name := [76, 68, 82], operands := [regE pd, regE px], tp := .num 1, lat := .num 1,
             pp := .list [.list [.num 1, .str [48, 49]]] },
           { name := [65, 68, 68], operands := [regE px, regE px, .imm (.str [105, 110, 116])], tp := .num 1, lat := .num 1,
             pp := .list [.list [.num 1, .str [48, 49]]] }]
    loadRows := [], loadDefault := .list [.list [.num 1, .str [48]]], storeRows := [], storeDefault := .list []
    loadLatency := [(.str px, .num 4)], loadMult := none, storeMult := none }
def model : Model := { mm := mm, isaDb := Gen.isaDbA64, par := { pIdx := 2 } }

def opts : Opts :=
  { mode := .markers [97, 97, 114, 99, 104, 54, 52], repr := Props.EndToEnd.Ex.reprEx, version := [48], file := [107, 46, 115],
    arch := [83, 89, 78], stamp := [110, 111, 119] }
def optsL (spec : Txt) : Opts := { opts with mode := .lines spec }

def l1 : Txt := [108, 100, 114, 32, 100, 49, 44, 32, 91, 120, 50, 93, 44, 32, 35, 56]           -- ldr d1, [x2], #8
def ln : Txt := [47, 47, 32, 110, 111, 116, 101]                                               -- // note
def lu : Txt := [102, 111, 111, 32, 120, 51, 44, 32, 120, 50]                                  -- foo x3, x2
def lk : Txt := [97, 100, 100, 32, 120, 51, 44, 32, 120, 50, 44, 32, 35, 56]                   -- add x3, x2, #8
def l4 : Txt := [97, 100, 100, 32, 120, 50, 44, 32, 120, 50, 44, 32, 35, 56]                   -- add x2, x2, #8
def foo : Txt := [102, 111, 111]

end ExA64
open ExA64
abbrev checkOk := Props.EndToEnd.Ex.checkOk

/-- the analysis of the four-line AArch64 file, from its text: the post-indexed load composed from its register form
    (latency 1 + 4, pressure `[1/2 + 1, 1/2]`, `performs_load`), the comment (zeros, not an instruction), the unknown
    line (zeros, both unknown flags), the edges through the written-back base `x2` with the weight `p_index_latency`,
    the load node, critical path, LCD, column sums, and the missing-data branch of the report -/
example : checkOk (analyseA64 model opts (joinLines [l1, ln, lu, l4])) (fun r =>
    r.analysis.rows.map (fun x => (x.line, x.instr, x.lat, x.latWoLoad, x.tp, x.pressure)) ==
      [(1, true, 5, some 1, 1, [3/2, 1/2]), (2, false, 0, some 0, 0, [0, 0]), (3, true, 0, some 0, 0, [0, 0]),
       (4, true, 1, some 1, 1, [1/2, 1/2])] &&
    r.analysis.edges.map (fun e => (e.src.line, e.src.load, e.dst.line, e.w)) ==
      [(1, true, 1, 4), (1, false, 3, 2), (1, false, 4, 2)] &&
    r.analysis.cpTotal == 7 && r.analysis.cpMarks == [(1, 6), (4, 1)] &&
    r.analysis.lcdDict.map (fun d => (d.1, d.2.1)) == [([1, 4], 3)] &&
    r.analysis.lcdFigure == 3 && r.analysis.colSums == [2, 1] &&
    r.report.rows.map (fun x => (x.line, x.flags, x.used)) ==
      [(1, [Gen.flagHasLd], [true, true]), (2, [], [false, false]),
       (3, [Gen.flagTpUnknown, Gen.flagLtUnknown], [false, false]), (4, [], [true, true])] &&
    !Report.showsTotals r.report && r.kernel.length == 4 && r.parsed.length == 4) = true := by
  decide +kernel

/-- the roles of the post-indexed load: the memory operand is a source, the base register `x2` is appended to
    `src_dst` with the post-index flag (the write-back), the register change is `x2 ↦ x2 + 8` -/
example : (match parseLineOf .a64 l1 with
    | .ok f =>
      let s := stagesOf .a64 model f
      (match s.roles.sem.srcDst with
       | [.wb 1 b false true (.int 8)] => b.name == [50] && b.pfx == some px
       | _ => false) &&
      s.roles.hasLd && !s.roles.hasSt &&
      (match s.changesPost with | .ok [(n, some d)] => n == [120, 50] && d.value == some 8 | _ => false)
    | .err _ => false) = true := by
  decide +kernel

/-- **post-index by a register, from the TEXT** `ld1 {v0.4s}, [x2], x1`: the parser leaves its own dictionary as
    `post_indexed` (`PostIdx.other`), the glue hands `Isa.Val.absent` on, the base `x2` is appended to `src_dst` with the
    post-index flag, and the post-indexed register-change query answers `{x2: None}` — not an exception (before the
    repair of `get_reg_changes`: `KeyError: 'value'`, and with it no analysis of any file that contains such a line) -/
def lr : Txt := [108, 100, 49, 32, 123, 118, 48, 46, 52, 115, 125, 44, 32, 91, 120, 50, 93, 44, 32, 120, 49]   -- ld1 {v0.4s}, [x2], x1
def ls : Txt := [115, 116, 114, 32, 100, 49, 44, 32, 91, 120, 50, 93]                                          -- str d1, [x2]
def ll : Txt := [108, 100, 114, 32, 100, 51, 44, 32, 91, 120, 50, 93]                                          -- ldr d3, [x2]
example : (match parseLineOf .a64 lr with
    | .ok f =>
      let s := stagesOf .a64 model f
      (match s.roles.sem.srcDst with
       | [.wb 1 b false true .absent] => b.name == [50] && b.pfx == some px
       | _ => false) &&
      s.roles.hasLd && !s.roles.hasSt &&
      (match s.changesPost with | .ok [(n, none)] => n == [120, 50] | _ => false) &&
      (match s.changes with | .ok [(n, none)] => n == [118, 48] | _ => false)
    | .err _ => false) = true := by
  decide +kernel

/-- … and the whole analysis of `str d1, [x2]` / `ld1 {v0.4s}, [x2], x1` / `ldr d3, [x2]` / `add x2, x2, #8`: the `ld1` itself
    still loads what the store wrote (store→load edge 1 → 2: the base is unchanged up to there), its written-back base
    reaches the later readers of `x2` with `p_index_latency` (2 → 3, 2 → 4, weight 2), and the `ldr` behind it has NO
    store→load edge from line 1 (only its own load node): the base is unknown after the register post-index -/
example : checkOk (analyseA64 model opts (joinLines [ls, lr, ll, l4])) (fun r =>
    r.analysis.edges.map (fun e => (e.src.line, e.src.load, e.dst.line, e.w)) ==
      [(1, false, 2, 0), (2, true, 2, 0), (2, false, 3, 2), (2, false, 4, 2), (3, true, 3, 4)] &&
    r.kernel.length == 4) = true := by
  decide +kernel

/-- outcomes other than an analysis: a line the AArch64 parser rejects, `--lines` that selects nothing -/
example : (match analyseA64 model opts (joinLines [l1, [91, 91], l4]) with | .parseError 2 _ => true | _ => false) = true := by
  decide +kernel
example : (match analyseA64 model (optsL [57]) (joinLines [l1, l4]) with | .emptyKernel => true | _ => false) = true := by
  decide +kernel

/-- AArch64 byte markers: `mov x1, #111` + `.byte 213,3,32,31` … `mov x1, #222` + `.byte 213,3,32,31` select the
    two lines in between -/
example : checkOk (analyseA64 model opts (joinLines
    [[109, 111, 118, 32, 120, 49, 44, 32, 35, 49, 49, 49], [46, 98, 121, 116, 101, 32, 50, 49, 51, 44, 51, 44, 51, 50, 44, 51, 49],
     l1, l4,
     [109, 111, 118, 32, 120, 49, 44, 32, 35, 50, 50, 50], [46, 98, 121, 116, 101, 32, 50, 49, 51, 44, 51, 44, 51, 50, 44, 51, 49]]))
    (fun r => r.kernel.map (·.num) == [3, 4] && r.parsed.length == 6) = true := by
  decide +kernel

/-- the model has no entry for `foo`, whatever the operands, with or without the cut at the first `.` -/
theorem ex_no_foo : ∀ ops, Match.lookupWithFallbacks model.mm.isa model.mm.db foo ops = none := by
  intro ops
  have h1 : Match.getInstruction .a64 mm.db foo ops = none := by
    simp [Match.getInstruction, mm, Match.entryMatches, foo, upper, upperC]
  have h2 : Match.fallbackName .a64 foo = none := by decide +kernel
  show Match.lookupWithFallbacks .a64 mm.db foo ops = none
  simp [Match.lookupWithFallbacks, h1, h2]

/-- `e2e_a64_unknown_isolated` on the file: line 3 `add x3, x2, #8` replaced by `foo x3, x2` -/
example : checkOk (analyseA64 model opts (joinLines ([l1, ln] ++ lk :: [l4]))) (fun _ => true) = true ∧
    checkOk (analyseA64 model opts (joinLines ([l1, ln] ++ lu :: [l4]))) (fun _ => true) = true ∧
    ∀ r1 r2, analyseA64 model opts (joinLines ([l1, ln] ++ lk :: [l4])) = .ok r1 →
      analyseA64 model opts (joinLines ([l1, ln] ++ lu :: [l4])) = .ok r2 →
      (∀ row ∈ r2.analysis.rows, row.line = 3 → row.tp = 0 ∧ row.lat = 0 ∧ row.pressure = [0, 0]) ∧
      (∀ row1 ∈ r1.analysis.rows, ∀ row2 ∈ r2.analysis.rows, row1.line = row2.line → row1.line ≠ 3 → row1 = row2) := by
  refine ⟨by decide +kernel, by decide +kernel, fun r1 r2 h1 h2 => ?_⟩
  have h := e2e_a64_unknown_isolated model opts [l1, ln] [l4] lk lu
    (by decide +kernel) (by decide +kernel) (by decide +kernel) (by decide +kernel)
    (Glue.formA64 (.instr foo [.reg { pre := px, name := [51] }, .reg { pre := px, name := [50] }] none)) foo
    (by decide +kernel) rfl ex_no_foo r1 r2 h1 h2
  exact ⟨fun row hr hl => let x := h.2.1 row hr hl; ⟨x.2.1, x.2.2.1, x.2.2.2.2⟩, h.2.2.2⟩

/-- the `//` comment line is a noise line of the AArch64 parser -/
theorem ex_ln_noise : IsNoise .a64 ln :=
  ⟨by decide +kernel, Glue.formA64 (.comment [110, 111, 116, 101]), by decide +kernel, rfl⟩

/-- `e2e_a64_noise_transparent_text`, whole file: `[l1, lu, l4]` and `[l1, // note, lu, l4]` -/
example : checkOk (analyseA64 model opts (joinLines ([l1] ++ [lu, l4]))) (fun r => r.kernel.length == r.parsed.length) = true ∧
    checkOk (analyseA64 model opts (joinLines ([l1] ++ ln :: [lu, l4]))) (fun r => r.kernel.length == r.parsed.length) = true ∧
    ∀ r1 r2, analyseA64 model opts (joinLines ([l1] ++ [lu, l4])) = .ok r1 →
      analyseA64 model opts (joinLines ([l1] ++ ln :: [lu, l4])) = .ok r2 →
      ∃ (a₀ : Analysis) (g1 g2 : Nat → Nat), Incr g1 ∧ Incr g2 ∧
        SameOnInstr 2 r1.analysis (a₀.rename g1) ∧ SameOnInstr 2 r2.analysis (a₀.rename g2) := by
  have c1 : checkOk (analyseA64 model opts (joinLines ([l1] ++ [lu, l4]))) (fun r => r.kernel.length == r.parsed.length) = true := by
    decide +kernel
  have c2 : checkOk (analyseA64 model opts (joinLines ([l1] ++ ln :: [lu, l4]))) (fun r => r.kernel.length == r.parsed.length) = true := by
    decide +kernel
  refine ⟨c1, c2, fun r1 r2 h1 h2 => ?_⟩
  obtain ⟨r1', e1, q1⟩ := ex_checkOk_elim c1
  obtain ⟨r2', e2, q2⟩ := ex_checkOk_elim c2
  rw [h1] at e1; cases e1
  rw [h2] at e2; cases e2
  have k1 := ((e2e_a64_rows_local model opts _ r1 h1).2.1).eq_of_length (by simpa using q1)
  have k2 := ((e2e_a64_rows_local model opts _ r2 h2).2.1).eq_of_length (by simpa using q2)
  exact e2e_a64_noise_transparent_whole_file model opts [l1] [lu, l4] ln (by simp)
    (by decide +kernel) ex_ln_noise r1 r2 h1 h2 k1 k2

/-- `e2e_a64_noise_transparent_lines`: `--lines 1,2-3` on the file without the comment and `--lines 1,3-4` with it -/
example : checkOk (analyseA64 model (optsL [49, 44, 50, 45, 51]) (joinLines ([l1] ++ [lu, l4]))) (fun _ => true) = true ∧
    checkOk (analyseA64 model (optsL [49, 44, 51, 45, 52]) (joinLines ([l1] ++ ln :: [lu, l4]))) (fun r => r.kernel.length == 3) = true ∧
    ∀ r1 r2, analyseA64 model (optsL [49, 44, 50, 45, 51]) (joinLines ([l1] ++ [lu, l4])) = .ok r1 →
      analyseA64 model (optsL [49, 44, 51, 45, 52]) (joinLines ([l1] ++ ln :: [lu, l4])) = .ok r2 →
      ∃ (a₀ : Analysis) (g1 g2 : Nat → Nat), Incr g1 ∧ Incr g2 ∧
        SameOnInstr 2 r1.analysis (a₀.rename g1) ∧ SameOnInstr 2 r2.analysis (a₀.rename g2) := by
  refine ⟨by decide +kernel, by decide +kernel, fun r1 r2 h1 h2 => ?_⟩
  exact e2e_a64_noise_transparent_lines model (optsL [49, 44, 50, 45, 51]) (optsL [49, 44, 51, 45, 52])
    [49, 44, 50, 45, 51] [49, 44, 51, 45, 52] [1, 2, 3] [1, 3, 4] rfl rfl
    (by decide +kernel) (by decide +kernel) rfl rfl [l1] [lu, l4] ln (by simp)
    (by decide +kernel) ex_ln_noise ex_shift_ok r1 r2 h1 h2

theorem ex_names_ok : ∀ n ∈ model.mm.ports, Report.NameOk n ∧ Report.NoNL n := by
  intro n hn
  have : n = [48] ∨ n = [49] := by simpa [model, mm] using hn
  rcases this with rfl | rfl <;> exact ⟨⟨by decide, by decide⟩, by unfold Report.NoNL; decide⟩

/-- `e2e_a64_report_roundtrip` on the file -/
example : checkOk (analyseA64 model opts (joinLines [l1, ln, lu, l4])) (fun _ => true) = true ∧
    ∀ r, analyseA64 model opts (joinLines [l1, ln, lu, l4]) = .ok r →
      Spec.Report.parseTable (Report.combinedView r.report) = some (Report.view r.report) := by
  refine ⟨by decide +kernel, fun r h => ?_⟩
  exact (e2e_a64_report_roundtrip model opts _ r h (by decide) ex_names_ok ex_reprEx_ok).1

/-- `e2e_a64_per_line_local_files`: line 4 of the long file and line 3 of the short one have the same text -/
example : ∀ r1 r2, analyseA64 model opts (joinLines [l1, ln, lu, l4]) = .ok r1 →
    analyseA64 model (optsL [49, 44, 50, 45, 51]) (joinLines [l1, lu, l4]) = .ok r2 →
    ∀ p1 ∈ r1.parsed, ∀ p2 ∈ r2.parsed, p1.text = p2.text → eraseNum p1 = eraseNum p2 :=
  fun r1 r2 h1 h2 p1 hp1 p2 hp2 ht => e2e_a64_per_line_local_files model _ _ _ _ r1 r2 h1 h2 p1 p2 hp1 hp2 ht

end OsacaVerif.Props.EndToEndA64
