import OsacaVerif.Model.LCD
import OsacaVerif.Spec.Deps
import OsacaVerif.Lemmas.Chain
/-
  C04 — Critical path is the longest latency-weighted dependency chain.

  The pinned code does NOT satisfy the property (known finding D7, see DESIGN.md §6):
  `get_critical_path` picks the path by edge weights only and overwrites the per-line CP latency of an
  instruction that is entered through its own load node.  The model `LCD.cpCandidates` mirrors the
  code as it is; what is proved is the negative result on a concrete witness (replayed on the real
  code by the check) and the parts that do hold.
-/
namespace OsacaVerif.Props.C04
open OsacaVerif OsacaVerif.DG OsacaVerif.LCD OsacaVerif.Spec

def mkIns (line : Nat) (src dst sd : List Op) (lat : Rat) (lwl : Option Rat) (hasLd : Bool) : Ins :=
  { line := line, src := src, dst := dst, srcDst := sd, lat := lat, latWoLoad := lwl, hasLd := hasLd,
    isLd := false, changes := [], changesPost := [] }

def r (n : String) : Op := .reg { name := Text.ofString n }

/-- witness kernel (shape of `examples/update` on zen2): a multiply with a memory source (latency 7,
    3 without the load) feeding a store -/
def witness : List Ins :=
  [ mkIns 1 [.mem ⟨some ⟨[], Text.ofString "rax", false, false⟩, none, 1, none, false, false, [1]⟩, r "xmm1"]
      [r "xmm0"] [] 7 (some 3) true,
    mkIns 2 [r "xmm0"] [.mem ⟨some ⟨[], Text.ofString "rax", false, false⟩, none, 1, none, false, false, [1]⟩] [] 0 (some 0) false ]

/-- **the full property is false of the pinned code** (`cp_underreports`): the reported total of the
    witness kernel is 3, although the multiply alone takes 7 cycles. -/
theorem cp_underreports :
    (cpCandidates witness (create .x86 false {} witness)).map (fun c => (c.map (·.2)).sum) = [3] ∧
    longestChain [⟨1, 7, 4⟩, ⟨2, 0, 0⟩] [⟨1, 2, 3⟩] = 7 := by
  decide +kernel

/-- with no dependency at all the result is the single slowest instruction with its own latency
    (∀ kernels whose maximal latency is positive) -/
theorem cp_no_deps (k : List Ins)
    (hpos : 0 < (k.map (·.lat)).foldl (fun (m : Rat) (x : Rat) => if m < x then x else m) 0) :
    ∀ c ∈ cpCandidates k [], ∃ i ∈ k, c = [(i.line, i.lat)] := by
  intro c hc
  have hall : ∀ fuel n, allPaths [] fuel n = [([n], 0)] := by
    intro fuel n
    cases fuel <;> simp [allPaths, succsN]
  have hbest : ∀ (l : List (List Node × Rat)), (∀ x ∈ l, x.2 = 0) →
      l.foldl (fun (m : Rat) (ps : List Node × Rat) => if m < ps.2 then ps.2 else m) 0 = 0 := by
    intro l hl
    induction l with
    | nil => rfl
    | cons x xs ih =>
      simp only [List.foldl_cons, hl x List.mem_cons_self]
      have : ¬ ((0 : Rat) < 0) := by decide
      simp only [this, if_false]
      exact ih (fun y hy => hl y (List.mem_cons_of_mem _ hy))
  simp only [cpCandidates] at hc
  rw [hbest _ (by
    intro x hx
    simp only [List.mem_flatMap] at hx
    obtain ⟨n, _, hx⟩ := hx
    rw [hall] at hx
    simp at hx; rw [hx])] at hc
  simp only [hpos, if_true, List.mem_map, List.mem_filter] at hc
  obtain ⟨i, ⟨hi, _⟩, rfl⟩ := hc
  exact ⟨i, hi, rfl⟩

/-! ### the oracle `Spec.longestChain` IS the maximum chain length (`Lemmas/Chain.lean`)

  A chain (`Spec.Chain`) is a start line plus the list of edges followed; it is genuine
  (`Chain.Valid infos es`) when it starts at an instruction, every edge belongs to `es` and leads to
  an instruction, and consecutive edges are linked.  Its length (`Chain.len`) is what the property
  says: `lat i` for a single instruction, `loadStage i₁ + Σ w + lat iₙ` otherwise.
  Hypotheses: distinct line numbers, and `FwdIn infos es` — every edge between two instructions
  points forward in the order of `infos` (decidable; implied by increasing lines and `src < dst`,
  `fwdIn_of_sorted`). -/

/-- **`longestChain_ge_chain`**: the dynamic programme dominates the length of EVERY genuine chain
    (∀ instruction lists with distinct lines, ∀ forward edge lists, ∀ chains) -/
theorem longestChain_ge_chain (infos : List LatInfo) (es : List WEdge)
    (hnd : (infos.map (·.line)).Nodup) (hfwd : FwdIn infos es) (c : Chain) (hv : c.Valid infos es) :
    c.len infos ≤ longestChain infos es :=
  longestChain_ge infos es hnd hfwd c hv

/-- **`longestChain_is_max`**: the value of the dynamic programme is attained by a genuine chain and
    dominates all of them — it is the maximum chain length (0 for the empty kernel) -/
theorem longestChain_is_max (infos : List LatInfo) (es : List WEdge)
    (hnd : (infos.map (·.line)).Nodup) (hfwd : FwdIn infos es) (hne : infos ≠ []) :
    (∃ c : Chain, c.Valid infos es ∧ c.len infos = longestChain infos es) ∧
    (∀ c : Chain, c.Valid infos es → c.len infos ≤ longestChain infos es) :=
  ⟨longestChain_attained infos es hnd hne, longestChain_ge infos es hnd hfwd⟩

-- non-vacuity: the hypotheses hold of the witness' instruction table and edge list; the chain 1 → 2
-- is genuine, has length loadStage 4 + weight 3 + latency 0 = 7, and attains the maximum
example : ([⟨1, 7, 4⟩, ⟨2, 0, 0⟩] : List LatInfo).map (·.line) = [1, 2] ∧
    FwdIn [⟨1, 7, 4⟩, ⟨2, 0, 0⟩] [⟨1, 2, 3⟩] := by decide +kernel
example : (Chain.mk 1 [⟨1, 2, 3⟩]).Valid [⟨1, 7, 4⟩, ⟨2, 0, 0⟩] [⟨1, 2, 3⟩] ∧
    (Chain.mk 1 [⟨1, 2, 3⟩]).len [⟨1, 7, 4⟩, ⟨2, 0, 0⟩] = 7 ∧
    longestChain [⟨1, 7, 4⟩, ⟨2, 0, 0⟩] [⟨1, 2, 3⟩] = 7 := by decide +kernel

end OsacaVerif.Props.C04
