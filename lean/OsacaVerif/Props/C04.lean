import OsacaVerif.Model.LCD
import OsacaVerif.Spec.Deps
import OsacaVerif.Lemmas.Chain
import OsacaVerif.Lemmas.CritPath
import OsacaVerif.Lemmas.CpRepaired
import OsacaVerif.Props.C03
/-
  C04 — Critical path is the longest latency-weighted dependency chain.

  The pinned code is now REPAIRED (`fix: critical path under-reports …`): `get_critical_path` is one
  pass over the lines (`LCD.cpTable` / `LCD.cpStep` / `LCD.cpTotal`, marking in `Model/CpMark.lean`:
  `LCD.cpPath`, `LCD.cpMarks`).  For it the full property is proved, for kernels of any length
  (second half of this file): `cpTotal_eq_longestChain`, `cp_is_longest`, `cp_ge_every_instr`,
  `cp_ge_every_chain`, `cp_lines_form_chain`, `cp_lines_sum`, `cp_marked_chain_is_longest`.

  The theorems about `LCD.cpCandidates` / `LCD.cpReport` (first half) model the code as it was BEFORE
  the repair (known finding D7, DESIGN.md §6: the path was picked by edge weights only and the
  per-line CP latency of an instruction entered through its own load node was overwritten).  They
  are kept as the witness for the unrepaired variant: `cp_underreports` (the old total is strictly
  too small on a concrete kernel, replayed on the real code by the check) and `cp_never_overreports`
  (the defect was one-sided).  `Spec.longestChain` is the oracle of both halves
  (`longestChain_is_max`: it IS the maximum chain length).
-/
namespace OsacaVerif.Props.C04
open OsacaVerif OsacaVerif.DG OsacaVerif.LCD OsacaVerif.Spec

def mkIns (line : Nat) (src dst sd : List Op) (lat : Rat) (lwl : Option Rat) (hasLd : Bool) : Ins :=
  { line := line, src := src, dst := dst, srcDst := sd, lat := lat, latWoLoad := lwl, hasLd := hasLd,
    isLd := false, changes := [], changesPost := [] }

def r (n : String) : Op := .reg { name := Text.ofString n }

/-- witness kernel (shape of `examples/update` on zen2): a multiply with a memory source (latency 7,
    3 without the load) feeding a store -/
def witness : List Ins :=
  [ mkIns 1 [.mem ⟨some ⟨[], Text.ofString "rax", false, false⟩, none, 1, none, none, false, false, [1]⟩, r "xmm1"]
      [r "xmm0"] [] 7 (some 3) true,
    mkIns 2 [r "xmm0"] [.mem ⟨some ⟨[], Text.ofString "rax", false, false⟩, none, 1, none, none, false, false, [1]⟩] [] 0 (some 0) false ]

/-- **the full property is false of the code before the repair** (`cp_underreports`): the total the
    unrepaired variant reports for the witness kernel is 3, although the multiply alone takes 7 cycles
    (the repaired code reports 7, see the examples after `cpTotal_eq_longestChain`). -/
theorem cp_underreports :
    (cpCandidates witness (create .x86 false {} witness)).map (fun c => (c.map (·.2)).sum) = [3] ∧
    longestChain [⟨1, 7, 4⟩, ⟨2, 0, 0⟩] [⟨1, 2, 3⟩] = 7 := by
  decide +kernel

/-- with no dependency at all the result is the single slowest instruction with its own latency
    (∀ kernels whose maximal latency is positive) -/
theorem cp_no_deps (k : List Ins)
    (hpos : 0 < (k.map (·.lat)).foldl (fun (m : Rat) (x : Rat) => if m < x then x else m) 0) :
    ∀ c ∈ cpCandidates k [], ∃ i ∈ k, c = [(i.line, i.lat)] := by
  intro c hc
  have hall : ∀ fuel n, allPaths [] fuel n = [([n], 0)] := by
    intro fuel n
    cases fuel <;> simp [allPaths, succsN]
  have hbest : ∀ (l : List (List Node × Rat)), (∀ x ∈ l, x.2 = 0) →
      l.foldl (fun (m : Rat) (ps : List Node × Rat) => if m < ps.2 then ps.2 else m) 0 = 0 := by
    intro l hl
    induction l with
    | nil => rfl
    | cons x xs ih =>
      simp only [List.foldl_cons, hl x List.mem_cons_self]
      have : ¬ ((0 : Rat) < 0) := by decide
      simp only [this, if_false]
      exact ih (fun y hy => hl y (List.mem_cons_of_mem _ hy))
  simp only [cpCandidates] at hc
  rw [hbest _ (by
    intro x hx
    simp only [List.mem_flatMap] at hx
    obtain ⟨n, _, hx⟩ := hx
    rw [hall] at hx
    simp at hx; rw [hx])] at hc
  simp only [hpos, if_true, List.mem_map, List.mem_filter] at hc
  obtain ⟨i, ⟨hi, _⟩, rfl⟩ := hc
  exact ⟨i, hi, rfl⟩

/-! ### the oracle `Spec.longestChain` IS the maximum chain length (`Lemmas/Chain.lean`)

  A chain (`Spec.Chain`) is a start line plus the list of edges followed; it is genuine
  (`Chain.Valid infos es`) when it starts at an instruction, every edge belongs to `es` and leads to
  an instruction, and consecutive edges are linked.  Its length (`Chain.len`) is what the property
  says: `lat i` for a single instruction, `loadStage i₁ + Σ w + lat iₙ` otherwise.
  Hypotheses: distinct line numbers, and `FwdIn infos es` — every edge between two instructions
  points forward in the order of `infos` (decidable; implied by increasing lines and `src < dst`,
  `fwdIn_of_sorted`). -/

/-- **`longestChain_ge_chain`**: the dynamic programme dominates the length of EVERY genuine chain
    (∀ instruction lists with distinct lines, ∀ forward edge lists, ∀ chains) -/
theorem longestChain_ge_chain (infos : List LatInfo) (es : List WEdge)
    (hnd : (infos.map (·.line)).Nodup) (hfwd : FwdIn infos es) (c : Chain) (hv : c.Valid infos es) :
    c.len infos ≤ longestChain infos es :=
  longestChain_ge infos es hnd hfwd c hv

/-- **`longestChain_is_max`**: the value of the dynamic programme is attained by a genuine chain and
    dominates all of them — it is the maximum chain length (0 for the empty kernel) -/
theorem longestChain_is_max (infos : List LatInfo) (es : List WEdge)
    (hnd : (infos.map (·.line)).Nodup) (hfwd : FwdIn infos es) (hne : infos ≠ []) :
    (∃ c : Chain, c.Valid infos es ∧ c.len infos = longestChain infos es) ∧
    (∀ c : Chain, c.Valid infos es → c.len infos ≤ longestChain infos es) :=
  ⟨longestChain_attained infos es hnd hne, longestChain_ge infos es hnd hfwd⟩

-- non-vacuity: the hypotheses hold of the witness' instruction table and edge list; the chain 1 → 2
-- is genuine, has length loadStage 4 + weight 3 + latency 0 = 7, and attains the maximum
example : ([⟨1, 7, 4⟩, ⟨2, 0, 0⟩] : List LatInfo).map (·.line) = [1, 2] ∧
    FwdIn [⟨1, 7, 4⟩, ⟨2, 0, 0⟩] [⟨1, 2, 3⟩] := by decide +kernel
example : (Chain.mk 1 [⟨1, 2, 3⟩]).Valid [⟨1, 7, 4⟩, ⟨2, 0, 0⟩] [⟨1, 2, 3⟩] ∧
    (Chain.mk 1 [⟨1, 2, 3⟩]).len [⟨1, 7, 4⟩, ⟨2, 0, 0⟩] = 7 ∧
    longestChain [⟨1, 7, 4⟩, ⟨2, 0, 0⟩] [⟨1, 2, 3⟩] = 7 := by decide +kernel

/-! ### what the UNREPAIRED `get_critical_path` reports, against the chains of the property
    (`Lemmas/CritPath.lean`)

  `isPath es p`: consecutive nodes of `p` are linked by an edge of `es` (a genuine path);
  `ForwardEdges es`: the shape `Props.C03.edges_forward` proves for `create`; `instrPart p`: `p`
  without a leading load node; `chainOf es p`: the dependency chain `p` stands for (its instructions
  and the path's edge weights); `infosOf k` / `wedgesOf es`: the instruction table and edge list the
  check hands to the oracle; `NonnegStages k`: `latWoLoad ≤ lat` for instructions with a load node. -/

/-- the total `full_analysis_dict` computes from the per-line `latency_cp` values -/
def total (c : List (Nat × Rat)) : Rat := (c.map (·.2)).sum

/-- **`cpReport_total_le_chain`** (the code as it is, ∀ kernels, ∀ genuine paths): the chain a path
    stands for is a genuine chain, and the reported total never exceeds its length as the property
    defines it (`lat` for one instruction; `loadStage i₁ + Σ w + lat iₙ` otherwise) — the reported
    total is `Σ w + lat iₙ`, the load stage of the first instruction is lost (defect (a) of D7).
    Equality holds when the chain is a single instruction or its first instruction has load stage 0. -/
theorem cpReport_total_le_chain (k : List Ins) (hk : WFKernel k) (hst : NonnegStages k) (es : List Edge)
    (hfw : ForwardEdges es) (p : List Node) (hne : p ≠ []) (hp : isPath es p = true)
    (hin : ∀ n ∈ p, n.line ∈ k.map (·.line)) :
    (chainOf es p).Valid (infosOf k) (wedgesOf es) ∧
    total (cpReport k es p) ≤ (chainOf es p).len (infosOf k) ∧
    ((edgesOf es (instrPart p) = [] ∨ stageOf (infosOf k) (headLine (instrPart p)) = 0) →
      total (cpReport k es p) = (chainOf es p).len (infosOf k)) := by
  have hnd : (k.map (·.line)).Nodup := nodup_of_sorted _ hk
  have ht := cpReport_total k hnd es hfw p hne hp hin
  have hl := chainOf_len k es p hne
  have h0 := stageOf_infosOf_nonneg k hst (headLine (instrPart p))
  refine ⟨chainOf_valid k es hfw p hne hp hin, ?_, ?_⟩
  · unfold total
    rw [ht, hl]
    split <;> linarith
  · intro h
    unfold total
    rw [ht, hl]
    rcases h with h | h
    · rw [if_pos h]; ring
    · split <;> linarith

/-- **equality when the path does not start at a load node** (path reading): the reported total is
    exactly the sum of the edge weights along the path plus the latency of its last instruction -/
theorem cpReport_total_eq_path (k : List Ins) (hk : WFKernel k) (es : List Edge)
    (hfw : ForwardEdges es) (p : List Node) (hne : p ≠ []) (hp : isPath es p = true)
    (hin : ∀ n ∈ p, n.line ∈ k.map (·.line)) (hstart : ∀ a ∈ p.head?, a.load = false) :
    total (cpReport k es p) = pathW (edgeW es) p + latOfK k (lastLine p) := by
  have hip : instrPart p = p := by
    match p, hstart with
    | [], _ => rfl
    | [a], _ => rfl
    | a :: b :: rest, hstart =>
      have : a.load = false := hstart a (by simp)
      simp [instrPart, this]
  have := cpReport_total k (nodup_of_sorted _ hk) es hfw p hne hp hin
  rw [hip] at this
  exact this

/-- and when it does start at a load node, exactly the weight of the load edge is missing -/
theorem cpReport_total_load_start (k : List Ins) (hk : WFKernel k) (es : List Edge)
    (hfw : ForwardEdges es) (a b : Node) (rest : List Node) (ha : a.load = true)
    (hp : isPath es (a :: b :: rest) = true) (hin : ∀ n ∈ a :: b :: rest, n.line ∈ k.map (·.line)) :
    total (cpReport k es (a :: b :: rest)) =
      pathW (edgeW es) (a :: b :: rest) + latOfK k (lastLine (a :: b :: rest)) - edgeW es a b := by
  have := cpReport_total k (nodup_of_sorted _ hk) es hfw _ (by simp) hp hin
  unfold total
  rw [this]
  simp only [instrPart, ha, if_true, pathW, lastLine]
  ring

theorem fwdIn_of_forwardEdges (k : List Ins) (hk : WFKernel k) (es : List Edge) (hfw : ForwardEdges es) :
    FwdIn (infosOf k) (wedgesOf es) := by
  apply fwdIn_of_sorted
  · rw [infosOf_lines]; exact hk
  · intro we hwe
    simp only [wedgesOf, List.mem_filterMap] at hwe
    obtain ⟨e, he, hval⟩ := hwe
    by_cases h1 : e.src.load = false
    · by_cases h2 : e.dst.load = false
      · simp only [h1, h2, Bool.not_false, Bool.and_self, if_true, Option.some.injEq] at hval
        subst hval
        rcases (hfw e he).2 with h | h
        · exact h.2
        · rw [h1] at h; cases h.1
      · simp [h2] at hval
    · simp [h1] at hval

/-- a reported path never exceeds the longest chain -/
theorem cpReport_le_longest (k : List Ins) (hk : WFKernel k) (hst : NonnegStages k) (es : List Edge)
    (hfw : ForwardEdges es) (p : List Node) (hne : p ≠ []) (hp : isPath es p = true)
    (hin : ∀ n ∈ p, n.line ∈ k.map (·.line)) :
    total (cpReport k es p) ≤ longestChain (infosOf k) (wedgesOf es) := by
  obtain ⟨hv, hle, _⟩ := cpReport_total_le_chain k hk hst es hfw p hne hp hin
  refine le_trans hle (longestChain_ge _ _ ?_ (fwdIn_of_forwardEdges k hk es hfw) _ hv)
  rw [infosOf_lines]; exact nodup_of_sorted _ hk

/-- every path enumerated by `allPaths` is a genuine path from its start node; its other nodes are
    targets of edges -/
theorem allPaths_spec (es : List Edge) : ∀ (fuel : Nat) (n : Node) (p : List Node) (s : Rat),
    (p, s) ∈ allPaths es fuel n →
      p.head? = some n ∧ isPath es p = true ∧ ∀ m ∈ p, m = n ∨ ∃ e ∈ es, e.dst = m := by
  intro fuel
  induction fuel with
  | zero =>
    intro n p s h
    simp only [allPaths, List.mem_singleton, Prod.mk.injEq] at h
    obtain ⟨rfl, _⟩ := h
    simp [isPath]
  | succ fuel ih =>
    intro n p s h
    simp only [allPaths, List.mem_cons, Prod.mk.injEq, List.mem_flatMap, List.mem_map] at h
    rcases h with ⟨rfl, _⟩ | ⟨⟨m, w⟩, hmw, ⟨p', s'⟩, hp', hpe, _⟩
    · simp [isPath]
    · simp only at hpe hp'
      subst hpe
      simp only [succsN, List.mem_filterMap] at hmw
      obtain ⟨e, he, hval⟩ := hmw
      by_cases hsrc : e.src = n
      · simp only [hsrc, beq_self_eq_true, if_true, Option.some.injEq, Prod.mk.injEq] at hval
        obtain ⟨hd, _⟩ := hval
        obtain ⟨hhead, hpath, hnodes⟩ := ih m p' s' hp'
        cases p' with
        | nil => simp at hhead
        | cons m' t =>
          simp only [List.head?_cons, Option.some.injEq] at hhead
          subst hhead
          refine ⟨rfl, ?_, ?_⟩
          · simp only [isPath, Bool.and_eq_true, List.any_eq_true, beq_iff_eq]
            exact ⟨⟨e, he, hsrc, hd⟩, hpath⟩
          · intro x hx
            rcases List.mem_cons.mp hx with rfl | hx
            · exact Or.inl rfl
            · rcases hnodes x hx with rfl | h
              · exact Or.inr ⟨e, he, hd⟩
              · exact Or.inr h
      · have : (e.src == n) = false := by simpa using hsrc
        simp [this] at hval

theorem nodesOf_line (k : List Ins) (es : List Edge) (n : Node) (h : n ∈ nodesOf k es) :
    n.line ∈ k.map (·.line) := by
  simp only [nodesOf, List.mem_flatMap, List.mem_append, List.mem_singleton] at h
  obtain ⟨i, hi, h | h⟩ := h
  · split at h
    · simp only [List.mem_singleton] at h; subst h; exact List.mem_map.mpr ⟨i, hi, rfl⟩
    · simp at h
  · subst h; exact List.mem_map.mpr ⟨i, hi, rfl⟩

/-- **`cp_never_overreports`, graph-generic form**: for every forward graph over the kernel's lines,
    whatever `get_critical_path` returns (any candidate of the model: any edge-heaviest path, or the
    single slowest instruction) has a total that never exceeds the longest dependency chain. -/
theorem cpCandidates_le_longest (k : List Ins) (hk : WFKernel k) (hst : NonnegStages k) (es : List Edge)
    (hfw : ForwardEdges es) (hin : ∀ e ∈ es, e.dst.line ∈ k.map (·.line)) :
    ∀ c ∈ cpCandidates k es, total c ≤ longestChain (infosOf k) (wedgesOf es) := by
  intro c hc
  have hnd : ((infosOf k).map (·.line)).Nodup := by rw [infosOf_lines]; exact nodup_of_sorted _ hk
  simp only [cpCandidates] at hc
  split at hc
  · -- the single slowest instruction
    simp only [List.mem_map, List.mem_filter] at hc
    obtain ⟨i, ⟨hi, _⟩, rfl⟩ := hc
    have hinfo : (⟨i.line, i.lat, loadStageOf i⟩ : LatInfo) ∈ infosOf k :=
      List.mem_map.mpr ⟨i, hi, rfl⟩
    have hv := single_valid (infosOf k) (wedgesOf es) _ hinfo
    have hlen : (Chain.mk i.line []).len (infosOf k) = i.lat := by
      simp only [Chain.len]
      exact latOf_eq (infosOf k) hnd _ hinfo
    have := longestChain_ge _ _ hnd (fwdIn_of_forwardEdges k hk es hfw) _ hv
    rw [hlen] at this
    simpa [total] using this
  · simp only [List.mem_map, List.mem_filter, List.mem_flatMap] at hc
    obtain ⟨⟨p, s⟩, ⟨⟨n, hn, hps⟩, _⟩, rfl⟩ := hc
    obtain ⟨hhead, hpath, hnodes⟩ := allPaths_spec es _ n p s hps
    have hne : p ≠ [] := by intro h; rw [h] at hhead; simp at hhead
    refine cpReport_le_longest k hk hst es hfw p hne hpath ?_
    intro m hm
    rcases hnodes m hm with rfl | ⟨e, he, rfl⟩
    · exact nodesOf_line k es _ hn
    · exact hin e he

/-- **`cp_never_overreports`**: on the dependency graph OSACA builds (`create`), for every kernel with
    increasing line numbers and `latWoLoad ≤ lat`, every possible result of the unrepaired
    `get_critical_path` has a total ≤ the longest latency-weighted dependency chain.  Together with
    `cp_underreports` (strictly smaller on the witness): the defect is one-sided. -/
theorem cp_never_overreports (isa : Isa) (fd : Bool) (par : Params) (k : List Ins) (hk : WFKernel k)
    (hst : NonnegStages k) :
    ∀ c ∈ cpCandidates k (create isa fd par k),
      total c ≤ longestChain (infosOf k) (wedgesOf (create isa fd par k)) := by
  apply cpCandidates_le_longest k hk hst
  · intro e he
    exact C03.edges_forward isa fd par k hk e he
  · intro e he
    obtain ⟨_, b, hb, hbl⟩ := C03.edges_in_kernel isa fd par k hk e he
    exact List.mem_map.mpr ⟨b, hb, hbl⟩

-- non-vacuity: the witness kernel satisfies every hypothesis; its graph has the genuine path
-- load(1) → 1 → 2, reported with total 3 < chain length 7 = longest chain
example : WFKernel witness ∧ NonnegStages witness ∧ ForwardEdges (create .x86 false {} witness) := by
  decide +kernel
example :
    let es := create .x86 false {} witness
    let p : List Node := [⟨1, true⟩, ⟨1, false⟩, ⟨2, false⟩]
    isPath es p = true ∧ total (cpReport witness es p) = 3 ∧
    (chainOf es p).len (infosOf witness) = 7 ∧
    longestChain (infosOf witness) (wedgesOf es) = 7 := by
  decide +kernel

-- the equality clause cannot be weakened to "p does not start at a load node": the path 1 → 2 of the
-- witness starts at the instruction node, is reported with total 3 (= its path weight, as
-- `cpReport_total_eq_path` says), but the chain 1 → 2 of the property has length 7, because the load
-- stage of instruction 1 belongs to the chain whether or not the path visits the load node
example :
    let es := create .x86 false {} witness
    let p : List Node := [⟨1, false⟩, ⟨2, false⟩]
    isPath es p = true ∧ total (cpReport witness es p) = 3 ∧
    pathW (edgeW es) p + latOfK witness (lastLine p) = 3 ∧
    (chainOf es p).len (infosOf witness) = 7 := by
  decide +kernel

/-! ### the REPAIRED `get_critical_path` (`LCD.cpTable` / `LCD.cpStep` / `LCD.cpTotal`,
    `Lemmas/CpRepaired.lean`)

  Hypotheses (all decidable): `WFKernel k` — strictly increasing line numbers; `LoadsKnown k` —
  `latency_wo_load` is known wherever an instruction has a separate load node; `NonnegStages k` —
  `latWoLoad ≤ lat` there; `NonnegLats k`, `NonnegParams par` — non-negative latencies and model
  parameters.  Graph-generic forms take instead `NonnegWeights es` (all edge weights ≥ 0) and
  `LoadStagesAgree k es` (the edge from the load node of a line carries that instruction's load
  stage); `create_nonnegWeights` / `create_loadStagesAgree` establish them for `DG.create`. -/

/-- **`cpTotal_eq_longestChain`, graph-generic**: for ANY kernel (any length) and ANY edge list with
    non-negative weights whose load-node edges carry the load stages, the total the repaired code
    reports is the value of the declarative longest-chain programme — the two tables agree row by row
    (`cpTable_eq_table`: `carried.1 = b`, `longer.map (·.1) = ext`). -/
theorem cpTotal_eq_longestChain_graph (k : List Ins) (es : List Edge) (hw : NonnegWeights es)
    (hls : LoadStagesAgree k es) :
    cpTotal k es = longestChain (infosOf k) (wedgesOf es) :=
  cpTotal_eq_longestChain_of k es hw hls

/-- **`cpTotal_eq_longestChain`**: on the dependency graph OSACA builds, for every kernel with
    increasing line numbers, known load latencies and non-negative latencies, the critical-path total
    of the repaired `get_critical_path` EQUALS the oracle `Spec.longestChain` (which is the maximum
    chain length, `longestChain_is_max`). -/
theorem cpTotal_eq_longestChain (isa : Isa) (fd : Bool) (par : Params) (k : List Ins) (hk : WFKernel k)
    (hkn : LoadsKnown k) (hst : NonnegStages k) (hlat : NonnegLats k) (hpar : NonnegParams par) :
    cpTotal k (create isa fd par k) = longestChain (infosOf k) (wedgesOf (create isa fd par k)) :=
  cpTotal_eq_longestChain_of k _ (create_nonnegWeights isa fd par k hst hlat hpar)
    (create_loadStagesAgree isa fd par k hk hkn)

-- non-vacuity: the witness kernel of the old defect satisfies every hypothesis, and the repaired
-- code reports 7 = load stage 4 + edge 3 + latency 0 (the old code reported 3)
example : WFKernel witness ∧ LoadsKnown witness ∧ NonnegStages witness ∧ NonnegLats witness ∧
    NonnegParams {} := by decide +kernel
example : NonnegWeights (create .x86 false {} witness) ∧
    LoadStagesAgree witness (create .x86 false {} witness) := by decide +kernel
example : cpTotal witness (create .x86 false {} witness) = 7 ∧
    longestChain (infosOf witness) (wedgesOf (create .x86 false {} witness)) = 7 := by decide +kernel

/-- a kernel whose first instruction has a load node but no `latency_wo_load` -/
def unknownLoad : List Ins :=
  [ mkIns 1 [.mem ⟨some ⟨[], Text.ofString "rax", false, false⟩, none, 1, none, none, false, false, [1]⟩]
      [r "xmm0"] [] 7 none true,
    mkIns 2 [r "xmm0"] [r "xmm1"] [] 0 (some 0) false ]

/-- a kernel with a negative latency -/
def negLat : List Ins :=
  [ mkIns 1 [] [r "xmm0"] [] (-1) none false, mkIns 2 [r "xmm0"] [r "xmm1"] [] 5 none false ]

-- the hypotheses are needed (model as written): (a) without `LoadsKnown` the model's load edge weighs
-- `lat − 0` while the oracle's load stage is 0 (the real code cannot compute `latency − None` at all);
-- (b) with a negative edge weight `chain_length` adds the negative `longer` value where the longest
-- chain is the single instruction
example : ¬ LoadsKnown unknownLoad ∧ WFKernel unknownLoad ∧
    cpTotal unknownLoad (create .x86 false {} unknownLoad) = 14 ∧
    longestChain (infosOf unknownLoad) (wedgesOf (create .x86 false {} unknownLoad)) = 7 := by
  decide +kernel
example : ¬ NonnegLats negLat ∧ WFKernel negLat ∧ LoadsKnown negLat ∧
    cpTotal negLat (create .x86 false {} negLat) = 4 ∧
    longestChain (infosOf negLat) (wedgesOf (create .x86 false {} negLat)) = 5 := by
  decide +kernel

/-! ### corollaries at the property's wording -/

theorem forwardEdges_create (isa : Isa) (fd : Bool) (par : Params) (k : List Ins) (hk : WFKernel k) :
    ForwardEdges (create isa fd par k) :=
  fun e he => C03.edges_forward isa fd par k hk e he

/-- **`cp_is_longest`, graph-generic**: over any forward graph with non-negative weights whose load
    edges carry the load stages, the reported total is the MAXIMUM of `Chain.len` over all genuine
    dependency chains: attained by one, dominating all. -/
theorem cp_is_longest_graph (k : List Ins) (hk : WFKernel k) (hne : k ≠ []) (es : List Edge)
    (hfw : ForwardEdges es) (hw : NonnegWeights es) (hls : LoadStagesAgree k es) :
    (∃ c : Chain, c.Valid (infosOf k) (wedgesOf es) ∧ c.len (infosOf k) = cpTotal k es) ∧
    (∀ c : Chain, c.Valid (infosOf k) (wedgesOf es) → c.len (infosOf k) ≤ cpTotal k es) := by
  rw [cpTotal_eq_longestChain_of k es hw hls]
  apply longestChain_is_max
  · rw [infosOf_lines]; exact nodup_of_sorted _ hk
  · exact fwdIn_of_forwardEdges k hk es hfw
  · simpa [infosOf] using hne

/-- **`cp_is_longest`** (the property): for every non-empty kernel with increasing lines, known load
    latencies and non-negative latencies, the critical-path total of the repaired
    `get_critical_path` on OSACA's dependency graph is the length of the longest latency-weighted
    dependency chain — `lat i` for a single instruction, `loadStage i₁ + Σ w + lat iₙ` otherwise:
    some genuine chain has exactly this length and no genuine chain is longer. -/
theorem cp_is_longest (isa : Isa) (fd : Bool) (par : Params) (k : List Ins) (hk : WFKernel k)
    (hkn : LoadsKnown k) (hst : NonnegStages k) (hlat : NonnegLats k) (hpar : NonnegParams par)
    (hne : k ≠ []) :
    (∃ c : Chain, c.Valid (infosOf k) (wedgesOf (create isa fd par k)) ∧
      c.len (infosOf k) = cpTotal k (create isa fd par k)) ∧
    (∀ c : Chain, c.Valid (infosOf k) (wedgesOf (create isa fd par k)) →
      c.len (infosOf k) ≤ cpTotal k (create isa fd par k)) :=
  cp_is_longest_graph k hk hne _ (forwardEdges_create isa fd par k hk)
    (create_nonnegWeights isa fd par k hst hlat hpar) (create_loadStagesAgree isa fd par k hk hkn)

/-- **`cp_ge_every_chain`**: the reported critical path is never smaller than any dependency chain
    (also for the empty kernel, which has no chain) -/
theorem cp_ge_every_chain (isa : Isa) (fd : Bool) (par : Params) (k : List Ins) (hk : WFKernel k)
    (hkn : LoadsKnown k) (hst : NonnegStages k) (hlat : NonnegLats k) (hpar : NonnegParams par)
    (c : Chain) (hv : c.Valid (infosOf k) (wedgesOf (create isa fd par k))) :
    c.len (infosOf k) ≤ cpTotal k (create isa fd par k) := by
  rw [cpTotal_eq_longestChain isa fd par k hk hkn hst hlat hpar]
  refine longestChain_ge _ _ ?_ (fwdIn_of_forwardEdges k hk _ (forwardEdges_create isa fd par k hk)) c hv
  rw [infosOf_lines]; exact nodup_of_sorted _ hk

theorem cp_ge_every_instr_graph (k : List Ins) (hk : WFKernel k) (es : List Edge)
    (hfw : ForwardEdges es) (hw : NonnegWeights es) (hls : LoadStagesAgree k es) (i : Ins) (hi : i ∈ k) :
    i.lat ≤ cpTotal k es := by
  have hnd : ((infosOf k).map (·.line)).Nodup := by rw [infosOf_lines]; exact nodup_of_sorted _ hk
  have hinfo : (⟨i.line, i.lat, loadStageOf i⟩ : LatInfo) ∈ infosOf k := List.mem_map.mpr ⟨i, hi, rfl⟩
  have hv := single_valid (infosOf k) (wedgesOf es) _ hinfo
  have hlen : (Chain.mk i.line []).len (infosOf k) = i.lat := by
    simp only [Chain.len]
    exact latOf_eq (infosOf k) hnd _ hinfo
  rw [cpTotal_eq_longestChain_of k es hw hls, ← hlen]
  exact longestChain_ge _ _ hnd (fwdIn_of_forwardEdges k hk es hfw) _ hv

/-- **`cp_ge_every_instr`**: the reported critical path is never smaller than the latency of any
    single instruction of the kernel (what the old code violated: `cp_underreports`) -/
theorem cp_ge_every_instr (isa : Isa) (fd : Bool) (par : Params) (k : List Ins) (hk : WFKernel k)
    (hkn : LoadsKnown k) (hst : NonnegStages k) (hlat : NonnegLats k) (hpar : NonnegParams par)
    (i : Ins) (hi : i ∈ k) : i.lat ≤ cpTotal k (create isa fd par k) :=
  cp_ge_every_instr_graph k hk _ (forwardEdges_create isa fd par k hk)
    (create_nonnegWeights isa fd par k hst hlat hpar) (create_loadStagesAgree isa fd par k hk hkn) i hi

-- non-vacuity: on the witness the chain 1 → 2 is genuine and attains the reported total; the
-- multiply alone (latency 7) does not exceed it
example :
    let es := create .x86 false {} witness
    witness ≠ [] ∧ ForwardEdges es ∧ (Chain.mk 1 [⟨1, 2, 3⟩]).Valid (infosOf witness) (wedgesOf es) ∧
    (Chain.mk 1 [⟨1, 2, 3⟩]).len (infosOf witness) = cpTotal witness es ∧
    (witness.map (·.lat)) = [7, 0] := by decide +kernel

/-! ### the marking of the repaired code (`Model/CpMark.lean`): `cpPath` — the marked lines, found by
    walking the predecessor pointers of the table back from the first line with the largest
    `chain_length`; `cpMarks` — their `latency_cp` values.  `UniquePairs es`: each (source, target)
    pair occurs once in `es`, as in a networkx graph (decidable; `dedupLast_nodup` for `create`). -/

/-- **`cp_lines_form_chain`, graph-generic**: consecutive marked lines are linked by an edge of the
    graph between their instruction nodes (no hypothesis at all); over a forward graph they are
    strictly ascending; all of them are lines of the kernel. -/
theorem cp_lines_form_chain_graph (k : List Ins) (es : List Edge) :
    isPath es ((cpPath k es).map instrNode) = true ∧
    (ForwardEdges es → (cpPath k es).Pairwise (· < ·)) ∧
    (∀ l ∈ cpPath k es, l ∈ k.map (·.line)) ∧
    (cpMarks k es).map (·.1) = cpPath k es :=
  ⟨cpPath_isPath k es, cpPath_sorted k es, cpPath_lines k es, cpMarks_lines k es⟩

/-- **`cp_lines_form_chain`**: on OSACA's dependency graph of a kernel with increasing lines, the
    lines the repaired `get_critical_path` marks are lines of the kernel, strictly ascending, and each
    is linked to the next by a dependency edge — they form a dependency chain. -/
theorem cp_lines_form_chain (isa : Isa) (fd : Bool) (par : Params) (k : List Ins) (hk : WFKernel k) :
    isPath (create isa fd par k) ((cpPath k (create isa fd par k)).map instrNode) = true ∧
    (cpPath k (create isa fd par k)).Pairwise (· < ·) ∧
    (∀ l ∈ cpPath k (create isa fd par k), l ∈ k.map (·.line)) ∧
    (cpMarks k (create isa fd par k)).map (·.1) = cpPath k (create isa fd par k) :=
  ⟨cpPath_isPath k _, cpPath_sorted k _ (forwardEdges_create isa fd par k hk), cpPath_lines k _,
    cpMarks_lines k _⟩

/-- **`cp_lines_sum`, graph-generic**: for every kernel with increasing lines and every edge list with
    unique (source, target) pairs, the per-line CP latencies of the marked lines add up to the
    reported total (the walk back reaches the start of the chain within the fuel). -/
theorem cp_lines_sum_graph (k : List Ins) (hk : WFKernel k) (es : List Edge) (hu : UniquePairs es) :
    ((cpMarks k es).map (·.2)).sum = cpTotal k es :=
  cpMarks_sum k es (nodup_of_sorted _ hk) hu

theorem uniquePairs_create (isa : Isa) (fd : Bool) (par : Params) (k : List Ins) :
    UniquePairs (create isa fd par k) := dedupLast_nodup _

/-- **`cp_lines_sum`**: on OSACA's dependency graph, for every kernel with increasing lines, the
    `latency_cp` values the repaired `get_critical_path` writes to the marked lines add up to the
    critical-path total (what `Summary.CriticalPath` sums). -/
theorem cp_lines_sum (isa : Isa) (fd : Bool) (par : Params) (k : List Ins) (hk : WFKernel k) :
    ((cpMarks k (create isa fd par k)).map (·.2)).sum = cpTotal k (create isa fd par k) :=
  cp_lines_sum_graph k hk _ (uniquePairs_create isa fd par k)

/-- **the marked lines are a longest chain** (`cp_marked_chain_is_longest`): the dependency chain
    through the marked lines is a genuine chain of the property, its length — `lat` for a single
    line, `loadStage i₁ + Σ w + lat iₙ` otherwise — is the sum of the per-line CP latencies, equals
    the reported total, and no genuine chain is longer. -/
theorem cp_marked_chain_is_longest (isa : Isa) (fd : Bool) (par : Params) (k : List Ins) (hk : WFKernel k)
    (hkn : LoadsKnown k) (hst : NonnegStages k) (hlat : NonnegLats k) (hpar : NonnegParams par)
    (hne : k ≠ []) :
    (chainOf (create isa fd par k) ((cpPath k (create isa fd par k)).map instrNode)).Valid (infosOf k)
      (wedgesOf (create isa fd par k)) ∧
    (chainOf (create isa fd par k) ((cpPath k (create isa fd par k)).map instrNode)).len (infosOf k) =
      cpTotal k (create isa fd par k) ∧
    (∀ c : Chain, c.Valid (infosOf k) (wedgesOf (create isa fd par k)) →
      c.len (infosOf k) ≤
        (chainOf (create isa fd par k) ((cpPath k (create isa fd par k)).map instrNode)).len (infosOf k)) := by
  have hfw := forwardEdges_create isa fd par k hk
  have hnd : (k.map (·.line)).Nodup := nodup_of_sorted _ hk
  have hpne : cpPath k (create isa fd par k) ≠ [] := cpPath_ne_nil k _ hne
  have hlen : (chainOf (create isa fd par k) ((cpPath k (create isa fd par k)).map instrNode)).len
      (infosOf k) = cpTotal k (create isa fd par k) := by
    rw [← marksOf_sum_eq_len k _ hnd (create_loadStagesAgree isa fd par k hk hkn) _ hpne
      (cpPath_lines k _), ← cpMarks_eq]
    exact cp_lines_sum isa fd par k hk
  refine ⟨?_, hlen, ?_⟩
  · apply chainOf_valid k _ hfw _ (by simpa using hpne) (cpPath_isPath k _)
    intro n hn
    obtain ⟨l, hl, rfl⟩ := List.mem_map.mp hn
    exact cpPath_lines k _ l hl
  · intro c hv
    rw [hlen]
    exact cp_ge_every_chain isa fd par k hk hkn hst hlat hpar c hv

/-- a kernel with ties and a zero-latency line: the chains 1 → 3 and 2 → 3 both have length 4 + 3, and
    1 → 3 → 4 has the same length (line 4 has latency 0) -/
def tieKernel : List Ins :=
  [ mkIns 1 [] [r "xmm0"] [] 4 none false,
    mkIns 2 [] [r "xmm1"] [] 4 none false,
    mkIns 3 [r "xmm0", r "xmm1"] [r "xmm2"] [] 3 none false,
    mkIns 4 [r "xmm2"] [r "xmm3"] [] 0 none false ]

/-- the witness with a store of latency 1: the longest chain starts at the load stage of line 1 -/
def loadChain : List Ins :=
  [ mkIns 1 [.mem ⟨some ⟨[], Text.ofString "rax", false, false⟩, none, 1, none, none, false, false, [1]⟩, r "xmm1"]
      [r "xmm0"] [] 7 (some 3) true,
    mkIns 2 [r "xmm0"] [.mem ⟨some ⟨[], Text.ofString "rax", false, false⟩, none, 1, none, none, false, false, [1]⟩] [] 1 (some 1) false ]

-- non-vacuity.  A chain starting at a load: line 1 gets load stage 4 + edge 3, line 2 its latency 1.
example : WFKernel loadChain ∧ LoadsKnown loadChain ∧ NonnegStages loadChain ∧ NonnegLats loadChain ∧
    UniquePairs (create .x86 false {} loadChain) ∧
    cpPath loadChain (create .x86 false {} loadChain) = [1, 2] ∧
    cpMarks loadChain (create .x86 false {} loadChain) = [(1, 7), (2, 1)] ∧
    cpTotal loadChain (create .x86 false {} loadChain) = 8 := by decide +kernel
-- On the old witness the multiply alone (7) ties with the chain 1 → 2 (4 + 3 + 0): as Python's `max`, the
-- first maximal line wins and the path is the single line 1.
example : cpPath witness (create .x86 false {} witness) = [1] ∧
    cpMarks witness (create .x86 false {} witness) = [(1, 7)] ∧
    cpTotal witness (create .x86 false {} witness) = 7 := by decide +kernel
-- Ties between predecessors (first maximal candidate: line 1, not 2) and between end lines (3, not 4).
example : WFKernel tieKernel ∧ LoadsKnown tieKernel ∧ NonnegStages tieKernel ∧ NonnegLats tieKernel ∧
    cpPath tieKernel (create .x86 false {} tieKernel) = [1, 3] ∧
    cpMarks tieKernel (create .x86 false {} tieKernel) = [(1, 4), (3, 3)] ∧
    cpTotal tieKernel (create .x86 false {} tieKernel) = 7 := by decide +kernel
-- No dependencies: the single slowest instruction; the empty kernel: nothing marked, total 0.
example : cpMarks negLat [] = [(2, 5)] ∧ cpTotal negLat [] = 5 ∧ cpMarks [] [] = [] ∧
    cpTotal [] [] = 0 := by decide +kernel

/-- **`cp_no_deps`, repaired code**: without any dependency the repaired `get_critical_path` marks
    exactly one instruction, with its own latency, and no instruction of the kernel is slower
    (∀ non-empty kernels with increasing lines) -/
theorem cp_no_deps_repaired (k : List Ins) (hk : WFKernel k) (hne : k ≠ []) :
    ∃ i ∈ k, cpMarks k [] = [(i.line, i.lat)] ∧ cpTotal k [] = i.lat ∧ ∀ j ∈ k, j.lat ≤ i.lat := by
  have hnd : (k.map (·.line)).Nodup := nodup_of_sorted _ hk
  have hrows : ∀ r ∈ cpTable k [], r.longer = none := by
    apply cpTable_forall
    intro pre i post _ _
    rfl
  have hcl : ∀ j : Ins, chainLengthAt k (cpTable k []) j = j.lat := by
    intro j
    unfold chainLengthAt
    cases hf : (cpTable k []).find? (·.line == j.line) with
    | none => simp
    | some r => simp [hrows r (List.mem_of_find?_eq_some hf)]
  cases hl : cpLast k (cpTable k []) with
  | none => exact absurd (cpLast_none k _ hl) hne
  | some i =>
    obtain ⟨hi, htot⟩ := cpLast_spec k [] i hl
    have hq : ((cpTable k []).find? (·.line == i.line)).bind (fun r => r.longer.map (·.2)) = none := by
      cases hf : (cpTable k []).find? (·.line == i.line) with
      | none => rfl
      | some r => simp [hrows r (List.mem_of_find?_eq_some hf)]
    have hpath : cpPath k [] = [i.line] := by
      unfold cpPath
      simp only [hl, hq, cpBack_none]
    have hlat : cpLatOf k i.line = i.lat := by
      unfold cpLatOf
      rw [find?_of_nodup_key (·.line) k hnd i hi]
    refine ⟨i, hi, ?_, by rw [htot, hcl], ?_⟩
    · simp [cpMarks, hpath, cpMarksFrom, hlat]
    · intro j hj
      rw [← hcl i, ← htot, cpTotal_eq_maxOr0]
      refine le_trans (le_of_eq (hcl j).symm) (maxOr0_ge _ _ (List.mem_map.mpr ⟨j, hj, rfl⟩))

end OsacaVerif.Props.C04
