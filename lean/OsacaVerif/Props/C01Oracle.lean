import OsacaVerif.Lemmas.FeasibleOracle
/-
  C01/C02/C15 — the executable search oracle means what the declarative spec says.

  `Spec.checkFeasible` (run by the driver on the implementation's vectors) enumerates only the
  subsets of the *used* ports; `Spec.Feasible` quantifies over every duplicate-free port set.
  Here: the check returns `none` exactly on feasible vectors (∀ ε ≥ 0, ∀ port counts, ∀ micro-op
  lists, ∀ vectors), and `Spec.lowerBound` is the maximum of confined(S)/|S| over the non-empty
  port sets.
-/
namespace OsacaVerif.Props.C01Oracle
open OsacaVerif OsacaVerif.Ports OsacaVerif.Spec

/-- the clauses the executable check tests, as propositions -/
theorem checkFeasible_none_iff (ε : Rat) (n : Nat) (us : List Uop) (v : List Rat) :
    checkFeasible ε n us v = none ↔
      v.length = n ∧ (∀ p < n, -ε ≤ v.getD p 0) ∧
      (∀ p < n, (∀ u ∈ us, p ∉ u.ports) → v.getD p 0 = 0) ∧
      totalAmount us - ε * n ≤ v.sum ∧ v.sum ≤ totalAmount us + ε * n ∧
      (∀ S ∈ sublists (usedPorts us), confined us S - ε * S.length ≤ sumOn v S) := by
  unfold checkFeasible
  split_ifs with h1 h2 h3 h4 h5
  · simp only [false_iff]
    intro h; exact absurd h.1 (by simpa using h1)
  · simp only [false_iff]
    intro h
    obtain ⟨p, hp, hlt⟩ : ∃ p, p < n ∧ v.getD p 0 < -ε := by simpa using h2
    exact absurd (h.2.1 p hp) (not_le.mpr hlt)
  · simp only [false_iff]
    intro h
    obtain ⟨p, hp, hno, hne⟩ : ∃ p, p < n ∧ (∀ u ∈ us, p ∉ u.ports) ∧ v.getD p 0 ≠ 0 := by
      simpa using h3
    exact hne (h.2.2.1 p hp hno)
  · simp only [false_iff]
    intro h
    have : v.sum < totalAmount us - ε * n ∨ totalAmount us + ε * n < v.sum := by simpa using h4
    rcases this with h' | h'
    · exact absurd h.2.2.2.1 (not_le.mpr h')
    · exact absurd h.2.2.2.2.1 (not_le.mpr h')
  · simp only [false_iff]
    intro h
    obtain ⟨S, hS, hlt⟩ : ∃ S, S ∈ sublists (usedPorts us) ∧
        sumOn v S < confined us S - ε * S.length := by simpa using h5
    exact absurd (h.2.2.2.2.2 S hS) (not_le.mpr hlt)
  · simp only [true_iff]
    refine ⟨by simpa using h1, ?_, ?_, ?_, ?_, ?_⟩
    · intro p hp
      have : ∀ p, p < n → -ε ≤ v.getD p 0 := by simpa using h2
      exact this p hp
    · intro p hp hno
      have : ∀ p, p < n → (∀ u ∈ us, p ∉ u.ports) → v.getD p 0 = 0 := by simpa using h3
      exact this p hp hno
    · have : totalAmount us - ε * n ≤ v.sum ∧ v.sum ≤ totalAmount us + ε * n := by simpa using h4
      exact this.1
    · have : totalAmount us - ε * n ≤ v.sum ∧ v.sum ≤ totalAmount us + ε * n := by simpa using h4
      exact this.2
    · intro S hS
      have : ∀ S, S ∈ sublists (usedPorts us) → confined us S - ε * S.length ≤ sumOn v S := by
        simpa using h5
      exact this S hS

/-- **soundness of the executable oracle** (∀ ε ≥ 0, ∀ n, ∀ micro-op lists, ∀ vectors): when
    `checkFeasible` reports no failing clause, the vector is `Feasible ε` in the declarative sense —
    in particular the Hall inequality holds for *every* duplicate-free port set, not only for the
    enumerated subsets of the used ports. (No well-formedness of the micro-ops is needed.) -/
theorem checkFeasible_sound (ε : Rat) (hε : 0 ≤ ε) (n : Nat) (us : List Uop) (v : List Rat)
    (h : checkFeasible ε n us v = none) : Feasible ε n us v := by
  obtain ⟨h1, h2, h3, h4, h5, h6⟩ := (checkFeasible_none_iff ε n us v).mp h
  exact ⟨h1, h2, h3, h4, h5, hall_of_used ε hε n us v h3 h6⟩

/-- the statement in the form asked for (with the unused hypothesis `WFUops`) -/
theorem checkFeasible_sound' (ε : Rat) (hε : 0 ≤ ε) (n : Nat) (us : List Uop) (v : List Rat)
    (_hw : WFUops n us) : checkFeasible ε n us v = none → Feasible ε n us v :=
  checkFeasible_sound ε hε n us v

/-- micro-ops whose ports lie inside the port list (the part of `WFUops` completeness needs) -/
def PortsBounded (n : Nat) (us : List Uop) : Prop := ∀ u ∈ us, ∀ p ∈ u.ports, p < n

instance (n : Nat) (us : List Uop) : Decidable (PortsBounded n us) := by
  unfold PortsBounded; infer_instance

theorem WFUops.portsBounded {n : Nat} {us : List Uop} (hw : WFUops n us) : PortsBounded n us :=
  fun u hu => (hw u hu).2.2.2

/-- **completeness of the executable oracle**: every feasible vector passes the check (the
    enumerated sets are duplicate-free sets of ports below `n` because the micro-ops' ports are). -/
theorem checkFeasible_complete (ε : Rat) (n : Nat) (us : List Uop) (v : List Rat)
    (hb : PortsBounded n us) (h : Feasible ε n us v) : checkFeasible ε n us v = none := by
  rw [checkFeasible_none_iff]
  refine ⟨h.len, h.nonneg, h.support, h.totalLo, h.totalHi, ?_⟩
  intro S hS
  have hsub : S.Sublist (usedPorts us) := (mem_sublists _ _).mp hS
  apply h.hall S (hsub.nodup (nodup_usedPorts us))
  intro p hp
  obtain ⟨u, hu, hpu⟩ := (mem_usedPorts us p).mp (hsub.subset hp)
  exact hb u hu p hpu

/-- **the oracle decides feasibility** (∀ ε ≥ 0, well-formed micro-ops) -/
theorem checkFeasible_iff (ε : Rat) (hε : 0 ≤ ε) (n : Nat) (us : List Uop) (v : List Rat)
    (hw : WFUops n us) : checkFeasible ε n us v = none ↔ Feasible ε n us v :=
  ⟨checkFeasible_sound ε hε n us v, checkFeasible_complete ε n us v (WFUops.portsBounded hw)⟩

/-- the hypothesis `0 ≤ ε` is in fact not needed: for ε < 0 the two total clauses contradict each
    other unless `n = 0`, and then the only port set is the empty one -/
theorem checkFeasible_sound_all (ε : Rat) (n : Nat) (us : List Uop) (v : List Rat)
    (h : checkFeasible ε n us v = none) : Feasible ε n us v := by
  by_cases hε : 0 ≤ ε
  · exact checkFeasible_sound ε hε n us v h
  · obtain ⟨h1, h2, h3, h4, h5, h6⟩ := (checkFeasible_none_iff ε n us v).mp h
    refine ⟨h1, h2, h3, h4, h5, ?_⟩
    have hn : n = 0 := by
      by_contra hn
      have hpos : (0 : Rat) < n := by exact_mod_cast Nat.pos_of_ne_zero hn
      have : ε * n < 0 := mul_neg_of_neg_of_pos (not_le.mp hε) hpos
      linarith
    intro S _ hSn
    have : S = [] := by
      cases S with
      | nil => rfl
      | cons a S => exact absurd (hSn a List.mem_cons_self) (by omega)
    subst this
    exact h6 [] ((mem_sublists _ _).mpr (List.nil_sublist _))

/-! ### the exact lower bound (C02) -/

/-- **`lowerBound` dominates every port set** (∀ micro-op lists): for every non-empty
    duplicate-free set `S` of used ports (in any order), confined(S)/|S| ≤ lowerBound. -/
theorem lowerBound_ge (us : List Uop) (S : List Nat) (hne : S ≠ []) (hS : S.Nodup)
    (hsub : ∀ p ∈ S, p ∈ usedPorts us) : confined us S / S.length ≤ lowerBound us := by
  have hperm : (restrict us S).Perm S := by
    refine (restrict_perm us S hS).trans ?_
    rw [List.filter_eq_self.mpr (by intro p hp; simpa using hsub p hp)]
  have hne' : restrict us S ≠ [] := by
    intro h; rw [h] at hperm; exact hne hperm.symm.eq_nil
  have hmem : restrict us S ∈ (sublists (usedPorts us)).filter (· ≠ []) := by
    simp [restrict_mem_sublists, hne']
  have := (foldl_max_spec (fun S : List Nat => confined us S / S.length)
    ((sublists (usedPorts us)).filter (· ≠ [])) 0).2.1 _ hmem
  rw [confined_restrict, hperm.length_eq] at this
  exact this

theorem lowerBound_nonneg (us : List Uop) : 0 ≤ lowerBound us :=
  (foldl_max_spec (fun S : List Nat => confined us S / S.length)
    ((sublists (usedPorts us)).filter (· ≠ [])) 0).1

/-- **`lowerBound` is attained** (or is 0): it equals confined(S)/|S| for some non-empty
    duplicate-free set `S` of used ports. -/
theorem lowerBound_attained (us : List Uop) :
    lowerBound us = 0 ∨ ∃ S : List Nat, S ≠ [] ∧ S.Nodup ∧ (∀ p ∈ S, p ∈ usedPorts us) ∧
      lowerBound us = confined us S / S.length := by
  rcases (foldl_max_spec (fun S : List Nat => confined us S / S.length)
    ((sublists (usedPorts us)).filter (· ≠ [])) 0).2.2 with h | ⟨S, hS, h⟩
  · exact Or.inl h
  · right
    have hS' := List.mem_filter.mp hS
    have hsub : S.Sublist (usedPorts us) := (mem_sublists _ _).mp hS'.1
    exact ⟨S, by simpa using hS'.2, hsub.nodup (nodup_usedPorts us), fun p hp => hsub.subset hp, h⟩

/-- **`lowerBound_spec`**: `lowerBound us` is the maximum of 0 and confined(S)/|S| over the
    non-empty duplicate-free sets of used ports. -/
theorem lowerBound_spec (us : List Uop) :
    0 ≤ lowerBound us ∧
    (∀ S : List Nat, S ≠ [] → S.Nodup → (∀ p ∈ S, p ∈ usedPorts us) →
      confined us S / S.length ≤ lowerBound us) ∧
    (lowerBound us = 0 ∨ ∃ S : List Nat, S ≠ [] ∧ S.Nodup ∧ (∀ p ∈ S, p ∈ usedPorts us) ∧
      lowerBound us = confined us S / S.length) :=
  ⟨lowerBound_nonneg us, lowerBound_ge us, lowerBound_attained us⟩

theorem amount_nonneg_of_wf {n : Nat} {us : List Uop} (hw : WFUops n us) :
    ∀ u ∈ us, 0 ≤ u.amount := fun u hu => mul_nonneg (hw u hu).2.1 (hw u hu).1

theorem confined_nonneg {n : Nat} {us : List Uop} (hw : WFUops n us) (S : List Nat) :
    0 ≤ confined us S := by
  unfold confined
  apply List.sum_nonneg
  intro x hx
  obtain ⟨u, hu, rfl⟩ := List.mem_map.mp hx
  exact amount_nonneg_of_wf hw u (List.mem_filter.mp hu).1

/-- for well-formed micro-ops the bound holds for **every** non-empty duplicate-free port set, used
    or not: unused ports only enlarge |S| -/
theorem lowerBound_ge_all (n : Nat) (us : List Uop) (hw : WFUops n us) (S : List Nat) (hne : S ≠ [])
    (hS : S.Nodup) : confined us S / S.length ≤ lowerBound us := by
  have hlen : (0 : Rat) < S.length := by
    have : 0 < S.length := List.length_pos_iff.mpr hne
    exact_mod_cast this
  by_cases hr : restrict us S = []
  · -- no used port in S: nothing is confined to S
    have h0 : confined us S = 0 := by
      rw [← confined_restrict, hr]
      unfold confined
      have : us.filter (fun u => u.ports.all (· ∈ ([] : List Nat))) = [] := by
        apply List.filter_eq_nil_iff.mpr
        intro u hu
        have hp := (hw u hu).2.2.1
        cases hports : u.ports with
        | nil => exact absurd hports hp
        | cons a as => simp
      rw [this]; rfl
    rw [h0]; simpa using lowerBound_nonneg us
  · have h1 := lowerBound_ge us (restrict us S) hr ((nodup_usedPorts us).filter _)
      (fun p hp => ((mem_restrict us S p).mp hp).1)
    rw [confined_restrict] at h1
    have hr0 : (0 : Rat) < (restrict us S).length := by
      have : 0 < (restrict us S).length := List.length_pos_iff.mpr hr
      exact_mod_cast this
    have hle : ((restrict us S).length : Rat) ≤ S.length := by
      exact_mod_cast length_restrict_le us S hS
    exact le_trans (div_le_div_of_nonneg_left (confined_nonneg hw S) hr0 hle) h1

-- non-vacuity: a feasible and an infeasible vector, the bound of a 3-micro-op instruction
example : checkFeasible 0 3 [⟨1, [0, 1], 1⟩, ⟨2, [1], 1⟩] [1/2, 5/2, 0] = none := by decide +kernel
example : checkFeasible 0 3 [⟨1, [0, 1], 1⟩, ⟨2, [1], 1⟩] [2, 1, 0] = some "hall" := by
  decide +kernel
example : Feasible 0 3 [⟨1, [0, 1], 1⟩, ⟨2, [1], 1⟩] [1/2, 5/2, 0] :=
  checkFeasible_sound 0 (by decide) 3 _ _ (by decide +kernel)
example : PortsBounded 3 [⟨1, [0, 1], 1⟩, ⟨2, [1], 1⟩] := by decide +kernel
example : lowerBound [⟨1, [0, 1], 1⟩, ⟨2, [1], 1⟩, ⟨1/2, [0, 1, 2], 2⟩] = 2 := by decide +kernel
example : usedPorts [⟨1, [0, 1], 1⟩, ⟨2, [1], 1⟩, ⟨1/2, [2, 1, 0], 2⟩] = [0, 1, 2] := by
  decide +kernel

end OsacaVerif.Props.C01Oracle
