import OsacaVerif.Model.RegDep
import OsacaVerif.Spec.RegUniverse
import OsacaVerif.Lemmas.Text
/-
  C12 — Register dependence equals architectural register overlap.

  `RegDep.x86` / `RegDep.a64` are the models of the two `is_reg_dependend_of` methods; every
  table they use is regenerated from the source (`Gen.RegTables`).  `Spec.x86Universe`,
  `Spec.archOverlap`, `Spec.a64Class` are built from the architectures' naming rules only.
-/
namespace OsacaVerif.Props.C12
open OsacaVerif OsacaVerif.Text OsacaVerif.RegDep OsacaVerif.Spec

/-! ### x86 -/

theorem isVectorRegister_upper (a : Txt) : isVectorRegister (upper a) = isVectorRegister a := by
  simp [isVectorRegister]

theorem isBasicGpr_upper (a : Txt) : isBasicGpr (upper a) = isBasicGpr a := by
  simp [isBasicGpr]

/-- The x86 relation only looks at the upper-cased names (∀ names, any length). -/
theorem x86_upper (a b : Txt) : x86 a b = x86 (upper a) (upper b) := by
  simp [x86, isVectorRegister_upper, isBasicGpr_upper]

/-- **Case-insensitivity** (∀ names): any two spellings that agree up to ASCII case behave alike. -/
theorem x86_case_insensitive (a a' b b' : Txt) (ha : upper a = upper a') (hb : upper b = upper b') :
    x86 a b = x86 a' b' := by
  rw [x86_upper a b, x86_upper a' b', ha, hb]

/-- The finite table: on the whole structured universe the code's relation *is* family equality.
    Decided by the kernel (`decide +kernel`, no axioms beyond `propext`). -/
theorem x86_table :
    (x86Universe.all fun a => x86Universe.all fun b => x86 a.name b.name == archOverlap a b) = true := by
  decide +kernel

/-- **C12 for x86**: for all registers of the universe, in any mixture of upper and lower case,
    dependence = architectural overlap. -/
theorem x86_dep_eq_overlap (a b : Reg) (ha : a ∈ x86Universe) (hb : b ∈ x86Universe)
    (sa sb : Txt) (hsa : upper sa = upper a.name) (hsb : upper sb = upper b.name) :
    x86 sa sb = archOverlap a b := by
  rw [x86_case_insensitive sa a.name sb b.name hsa hsb]
  have h := x86_table
  rw [List.all_eq_true] at h
  have h2 := h a ha
  rw [List.all_eq_true] at h2
  simpa using h2 b hb

theorem archOverlap_refl (a : Reg) : archOverlap a a = true := by simp [archOverlap]
theorem archOverlap_symm (a b : Reg) : archOverlap a b = archOverlap b a := by
  simp [archOverlap, Bool.beq_comm]
theorem archOverlap_trans (a b c : Reg) (h1 : archOverlap a b = true) (h2 : archOverlap b c = true) :
    archOverlap a c = true := by
  simp [archOverlap] at *; omega

/-- reflexive / symmetric / transitive on the universe, through the code's relation -/
theorem x86_refl (a : Reg) (ha : a ∈ x86Universe) : x86 a.name a.name = true := by
  rw [x86_dep_eq_overlap a a ha ha _ _ rfl rfl]; exact archOverlap_refl a
theorem x86_symm (a b : Reg) (ha : a ∈ x86Universe) (hb : b ∈ x86Universe) :
    x86 a.name b.name = x86 b.name a.name := by
  rw [x86_dep_eq_overlap a b ha hb _ _ rfl rfl, x86_dep_eq_overlap b a hb ha _ _ rfl rfl]
  exact archOverlap_symm a b
theorem x86_trans (a b c : Reg) (ha : a ∈ x86Universe) (hb : b ∈ x86Universe) (hc : c ∈ x86Universe)
    (h1 : x86 a.name b.name = true) (h2 : x86 b.name c.name = true) : x86 a.name c.name = true := by
  rw [x86_dep_eq_overlap a b ha hb _ _ rfl rfl] at h1
  rw [x86_dep_eq_overlap b c hb hc _ _ rfl rfl] at h2
  rw [x86_dep_eq_overlap a c ha hc _ _ rfl rfl]
  exact archOverlap_trans a b c h1 h2
/-- registers of different families are never dependent -/
theorem x86_families_disjoint (a b : Reg) (ha : a ∈ x86Universe) (hb : b ∈ x86Universe)
    (h : a.fam ≠ b.fam) : x86 a.name b.name = false := by
  rw [x86_dep_eq_overlap a b ha hb _ _ rfl rfl]; simp [archOverlap, h]

-- non-vacuity: the universe really contains the families the property names
example : (⟨ofString "rbp", 5⟩ : Reg) ∈ x86Universe ∧ (⟨ofString "bpl", 5⟩ : Reg) ∈ x86Universe ∧
    (⟨ofString "r10w", 110⟩ : Reg) ∈ x86Universe ∧ (⟨ofString "zmm31", 231⟩ : Reg) ∈ x86Universe ∧
    (⟨ofString "ah", 0⟩ : Reg) ∈ x86Universe ∧ x86Universe.length = 180 := by decide +kernel
example : x86 (ofString "RbP") (ofString "ebp") = true ∧ x86 (ofString "r1") (ofString "r10") = false ∧
    x86 (ofString "mm1") (ofString "xmm1") = false ∧ x86 (ofString "k1") (ofString "k1") = true := by
  decide +kernel

/-! ### AArch64 -/

/-- class part of the AArch64 test on single-letter prefixes -/
def clsPart (pa pb : Txt) : Bool :=
  Gen.a64PrefixClasses.any (fun cls => isInfix (lower pa) cls && isInfix (lower pb) cls)

theorem a64_unfold (pa na pb nb : Txt) :
    a64 pa na pb nb = ((lower na == lower nb) && clsPart pa pb) := by
  have : Gen.a64NameFold = true := by decide
  simp [a64, clsPart, this]

def a64AllPrefixes : List Nat := a64Prefixes ++ a64Prefixes.map upperC

theorem a64_class_table :
    (a64AllPrefixes.all fun p => a64AllPrefixes.all fun q =>
      clsPart [p] [q] == (a64Class (lowerC p) == a64Class (lowerC q))) = true := by
  decide +kernel

/-- **C12 for AArch64** (∀ register names/numbers of any length, ∀ prefixes of the universe in
    either case): dependent iff same name (case-insensitively) and same architectural class —
    `w`/`x` views, the `b h s d q v z` views, a predicate register with itself. -/
theorem a64_dep_eq_overlap (p q : Nat) (hp : p ∈ a64AllPrefixes) (hq : q ∈ a64AllPrefixes)
    (na nb : Txt) :
    a64 [p] na [q] nb = ((lower na == lower nb) && (a64Class (lowerC p) == a64Class (lowerC q))) := by
  rw [a64_unfold]
  have h := a64_class_table
  rw [List.all_eq_true] at h
  have h2 := h p hp
  rw [List.all_eq_true] at h2
  have h3 := h2 q hq
  simp only [beq_iff_eq] at h3
  rw [h3]

theorem a64_refl (p : Nat) (hp : p ∈ a64AllPrefixes) (n : Txt) : a64 [p] n [p] n = true := by
  rw [a64_dep_eq_overlap p p hp hp]; simp
theorem a64_symm (p q : Nat) (hp : p ∈ a64AllPrefixes) (hq : q ∈ a64AllPrefixes) (na nb : Txt) :
    a64 [p] na [q] nb = a64 [q] nb [p] na := by
  rw [a64_dep_eq_overlap p q hp hq, a64_dep_eq_overlap q p hq hp]
  rw [Bool.beq_comm (a := lower na), Bool.beq_comm (a := a64Class (lowerC p))]
theorem a64_trans (p q r : Nat) (hp : p ∈ a64AllPrefixes) (hq : q ∈ a64AllPrefixes)
    (hr : r ∈ a64AllPrefixes) (na nb nc : Txt)
    (h1 : a64 [p] na [q] nb = true) (h2 : a64 [q] nb [r] nc = true) : a64 [p] na [r] nc = true := by
  rw [a64_dep_eq_overlap p q hp hq] at h1
  rw [a64_dep_eq_overlap q r hq hr] at h2
  rw [a64_dep_eq_overlap p r hp hr]
  simp only [Bool.and_eq_true, beq_iff_eq] at *
  exact ⟨h1.1.trans h2.1, h1.2.trans h2.2⟩
theorem a64_case_insensitive (p q : Nat) (hp : p ∈ a64AllPrefixes) (hq : q ∈ a64AllPrefixes)
    (na nb : Txt) : a64 [p] na [q] nb = a64 [lowerC p] (lower na) [lowerC q] (lower nb) := by
  have hp' : lowerC p ∈ a64AllPrefixes := by
    revert p; decide +kernel
  have hq' : lowerC q ∈ a64AllPrefixes := by
    revert q; decide +kernel
  rw [a64_dep_eq_overlap p q hp hq, a64_dep_eq_overlap _ _ hp' hq']; simp
theorem a64_families_disjoint (p q : Nat) (hp : p ∈ a64AllPrefixes) (hq : q ∈ a64AllPrefixes)
    (na nb : Txt) (h : a64Class (lowerC p) ≠ a64Class (lowerC q)) : a64 [p] na [q] nb = false := by
  rw [a64_dep_eq_overlap p q hp hq]; simp [h]

-- non-vacuity
example : a64 (ofString "p") (ofString "3") (ofString "P") (ofString "3") = true ∧
    a64 (ofString "w") (ofString "7") (ofString "x") (ofString "7") = true ∧
    a64 (ofString "x") (ofString "ZR") (ofString "w") (ofString "zr") = true ∧
    a64 (ofString "x") (ofString "7") (ofString "d") (ofString "7") = false ∧
    a64 (ofString "v") (ofString "7") (ofString "z") (ofString "7") = true ∧
    a64 (ofString "p") (ofString "7") (ofString "z") (ofString "7") = false := by decide +kernel

end OsacaVerif.Props.C12
