import OsacaVerif.Model.ParseX86
import OsacaVerif.Gen.X86Parser
import OsacaVerif.Spec.X86Render
import OsacaVerif.Lemmas.ParseX86File
import OsacaVerif.Lemmas.ParseX86Line
import OsacaVerif.Lemmas.ParseX86Tabs
/-
  C09 — x86 AT&T parser recovers every line and operand exactly as written.

  Model:  `ParseX86.parseLine` / `parseFile` (Model/ParseX86.lean) — a recursive-descent
          re-implementation of the pyparsing grammar of `ParserX86ATT.construct_parser`, of
          `parse_line`'s four stages, `process_operand` and `BaseParser.parse_file`.
  Spec:   `Spec.X86R.renderLine` (Spec/X86Render.lean) — how an instruction AST is written under a
          layout; `Line.valid` — the lines the property quantifies over; `IsSplit` — the lines of a file.
  Tie:    `gen_*` / `grammar_unchanged` below (translator), and the correspondence harness.

  Proofs of the long lemmas live in Lemmas/ParseX86*.lean; this file states the property.
-/
namespace OsacaVerif.Props.C09
open OsacaVerif OsacaVerif.Text OsacaVerif.X86 OsacaVerif.ParseX86
open OsacaVerif.Gen.X86Parser
open OsacaVerif.Spec.X86R

/-! ### The tie to the source: every literal the model hard-wires, as the translator reads it now -/

/-- the `pp.` character-set constants by name -/
def ppClass (name : Txt) (c : Nat) : Bool :=
  if name == [97, 108, 112, 104, 97, 115] then isAlphaC c                                   -- alphas
  else if name == [97, 108, 112, 104, 97, 110, 117, 109, 115] then isAlnumC c               -- alphanums
  else if name == [110, 117, 109, 115] then isDigitC c                                      -- nums
  else if name == [104, 101, 120, 110, 117, 109, 115] then isHexC c                         -- hexnums
  else if name == [112, 114, 105, 110, 116, 97, 98, 108, 101, 115] then isPrintC c          -- printables
  else false

/-- membership in a `Word(...)` class as the source writes it -/
def inClass (w : WordClass) (c : Nat) : Bool :=
  (ppClass w.1 c || w.2.1.contains c) && !w.2.2.1.contains c

theorem gen_numbers :
    decimalSign = [45] ∧ hexSign = [45] ∧ hexPrefix = [48, 120] ∧
    (∀ c, isDigitC c = inClass decimalDigits c) ∧ (∀ c, isHexC c = inClass hexDigits c) ∧
    decimalDigits.2.2.2 = 0 ∧ hexDigits.2.2.2 = 0 := by
  refine ⟨by decide, by decide, by decide, ?_, ?_, by decide, by decide⟩ <;> intro c <;>
    simp [inClass, ppClass, decimalDigits, hexDigits]

theorem gen_comment :
    commentSymbols = [[35], [47, 47]] ∧ (∀ c, isPrintC c = inClass commentWord c) ∧
    commentWord.2.2.2 = 0 := by
  refine ⟨by decide, ?_, by decide⟩; intro c; simp [inClass, ppClass, commentWord]

theorem gen_identifier :
    (∀ c, isIdFirst c = inClass identFirst c) ∧ identFirst.2.2.2 = 1 ∧
    (∀ c, isIdRest c = inClass identRest c) ∧ identRest.2.2.2 = 0 ∧
    (∀ c, isLabelRest c = inClass labelRest c) ∧ labelRest.2.2.2 = 0 ∧
    nameDelim = [58, 58] ∧ relocationSymbol = [64] ∧ (∀ c, isAlphaC c = inClass relocationWord c) ∧
    idOffsetPlus = [43] ∧ numericSuffixes = [[98], [102]] ∧ numericSuffixCaseless = true ∧
    (∀ c, isSuffixC c = (numericSuffixes.contains [lowerC c] && (c < 128))) := by
  refine ⟨?_, by decide, ?_, by decide, ?_, by decide, by decide, by decide, ?_, by decide, by decide,
    by decide, ?_⟩ <;> intro c
  · simp [inClass, ppClass, identFirst, isIdFirst]; grind
  · simp [inClass, ppClass, identRest, isIdRest]; grind
  · simp [inClass, ppClass, labelRest, isLabelRest, isIdRest]; grind
  · simp [inClass, ppClass, relocationWord]
  · simp [isSuffixC, numericSuffixes, lowerC]; grind

theorem gen_register :
    registerLiterals = [[37], [40], [41], [123], [37], [125], [123], [122], [125]] ∧
    (∀ w ∈ registerWords, w.2.2.2 = 0) ∧
    (∀ c, registerWords.map (fun w => inClass w c) = [isAlnumC c, isDigitC c, isAlnumC c]) := by
  refine ⟨by decide, by decide, ?_⟩; intro c; simp [registerWords, inClass, ppClass]

theorem gen_memory :
    immediateSymbol = [36] ∧ (∀ c, isScaleC c = inClass scaleWord c) ∧ scaleWord.2.2.2 = 1 ∧
    memoryLiterals = [[42], [40], [44], [44], [41], [123], [37], [125]] := by
  refine ⟨by decide, ?_, by decide, by decide⟩; intro c
  simp [inClass, ppClass, scaleWord, isScaleC]; grind

theorem gen_directive :
    directiveSymbol = [46] ∧ (∀ c, isDirNameC c = inClass directiveName c) ∧
    (∀ c, isDirParamC c = inClass directiveParam c) ∧ directiveParamSeps = [[44], [44]] ∧
    directiveName.2.2.2 = 0 ∧ directiveParam.2.2.2 = 0 := by
  refine ⟨by decide, ?_, ?_, by decide, by decide, by decide⟩ <;> intro c
  · simp [inClass, ppClass, directiveName, isDirNameC]; grind
  · simp [inClass, ppClass, directiveParam, isDirParamC]; grind

theorem gen_instruction :
    mnemonicPrefixes = [[100, 97, 116, 97, 49, 54], [100, 97, 116, 97, 51, 50]] ∧
    (∀ c, isMnC c = inClass mnemonicWord c) ∧ mnemonicWord.2.2.2 = 0 ∧ mnemonicSplit = ([44], 0) ∧
    instructionResultNames = [[111, 112, 101, 114, 97, 110, 100, 49], [111, 112, 101, 114, 97, 110, 100, 50], [111, 112, 101, 114, 97, 110, 100, 51], [111, 112, 101, 114, 97, 110, 100, 52]] ∧ operandsAppended = instructionResultNames ∧
    instructionSeparators = [[44], [44], [44]] ∧
    stageOrder = [[99, 111, 109, 109, 101, 110, 116], [108, 97, 98, 101, 108], [100, 105, 114, 101, 99, 116, 105, 118, 101], [105, 110, 115, 116, 114, 117, 99, 116, 105, 111, 110]] := by
  refine ⟨by decide, ?_, by decide, by decide, by decide, by decide, by decide, by decide⟩; intro c
  simp [inClass, ppClass, mnemonicWord, isMnC]; grind

/-- `int(x, 0)` everywhere, scale 1 when omitted, offset/base/index read from the keys of the same
    name, `MemoryOperand`/`RegisterOperand` built from them -/
theorem gen_postprocess :
    intBases = [0, 0, 0, 0] ∧ scaleDefault = 1 ∧
    memoryKeys = [[111, 102, 102, 115, 101, 116, 61, 111, 102, 102, 115, 101, 116], [98, 97, 115, 101, 61, 98, 97, 115, 101], [105, 110, 100, 101, 120, 61, 105, 110, 100, 101, 120]] ∧ memoryCtor = [[98, 97, 115, 101, 61, 98, 97, 115, 101, 79, 112], [105, 110, 100, 101, 120, 61, 105, 110, 100, 101, 120, 79, 112], [111, 102, 102, 115, 101, 116, 61, 111, 102, 102, 115, 101, 116], [115, 99, 97, 108, 101, 61, 115, 99, 97, 108, 101]] ∧ memoryRegCtor = [[98, 97, 115, 101, 79, 112, 61, 98, 97, 115, 101, 91, 110, 97, 109, 101, 93], [105, 110, 100, 101, 120, 79, 112, 61, 105, 110, 100, 101, 120, 91, 110, 97, 109, 101, 93]] := by
  decide

/-- `parse_file`: `split("\n")`, `enumerate` from 0, line number `i + 1 + start_line`,
    blank test `line.strip() == ""`, the untouched `line` handed to `parse_line` -/
theorem gen_parse_file :
    lineSeparator = [10] ∧ enumerateStart = 0 ∧ lineNumberConst = 1 ∧
    lineNumberTerms = [[105], [115, 116, 97, 114, 116, 95, 108, 105, 110, 101]] ∧ blankTest = [115, 116, 114, 105, 112] ∧ parseLineArg = [108, 105, 110, 101] := by
  decide

/-- the constructed pyparsing grammar (comment, directive, instruction_parser, label, register,
    white characters / packrat) is the one `Model/ParseX86.lean` was written for and validated
    against; digests of the structural dump `Gen/X86Grammar.txt` -/
def modelledGrammarDigest : List Nat := [885879855628226773, 1112279963143875836, 867575040509712305, 175462622727771971, 319726640196078429, 487930237708278757]

theorem grammar_unchanged : grammarDigest = modelledGrammarDigest := by decide

/-! ### 1. Files: one parsed line per non-blank line, in order, numbered `i+1`, text verbatim -/

/-- **`parseFile_lines`** (∀ files, ∀ start offsets): the result of `parse_file` is, in order,
    exactly the non-blank lines of the file — the `i`-th line (0-based) of `split("\n")` appears
    iff it is not blank, carries the number `i + 1 + start`, its text verbatim, and the parse of
    exactly that text. -/
theorem parseFile_lines (start : Nat) (content : Txt) :
    parseFile start content =
      (((splitLines content).zipIdx 0).filter (fun q => !isBlank q.1)).map
        (fun q => ⟨q.2 + 1 + start, q.1, parseLine q.1⟩) :=
  fileLoop_spec parseLine start (splitLines content) 0

/-- the lines `parse_file` works on are *the* lines of the file: no line feed inside, and joined
    by line feeds they give the content back … -/
theorem split_spec (content : Txt) : IsSplit content (splitLines content) := splitLines_spec content

/-- … and this determines them. -/
theorem split_determined (content : Txt) (ls : List Txt) (h : IsSplit content ls) :
    ls = splitLines content := split_unique content ls h

/-- **`parseFile_wf`**: line numbers are strictly increasing (hence distinct: exactly one parsed
    line per source line) and start above `start`. -/
theorem parseFile_wf (start : Nat) (content : Txt) :
    (parseFile start content).Pairwise (fun a b => a.lineNo < b.lineNo) ∧
    ∀ x ∈ parseFile start content, start < x.lineNo := by
  refine ⟨fileLoop_sorted parseLine start _ 0, fun x hx => ?_⟩
  have := fileLoop_lineNo_ge parseLine start _ 0 x hx
  omega

/-- every non-blank line is there, under its number (completeness, spelled out) -/
theorem parseFile_complete (start : Nat) (content : Txt) (i : Nat) (l : Txt)
    (hl : (splitLines content)[i]? = some l) (hb : isBlank l = false) :
    ⟨i + 1 + start, l, parseLine l⟩ ∈ parseFile start content := by
  rw [parseFile_lines]
  apply List.mem_map.mpr
  refine ⟨(l, i), List.mem_filter.mpr ⟨?_, by simp [hb]⟩, rfl⟩
  rw [List.mem_zipIdx_iff_getElem?]
  simpa using hl

/-- and nothing else (soundness, spelled out) -/
theorem parseFile_sound (start : Nat) (content : Txt) (x : PLine) (hx : x ∈ parseFile start content) :
    ∃ i, (splitLines content)[i]? = some x.text ∧ x.lineNo = i + 1 + start ∧
      isBlank x.text = false ∧ x.res = parseLine x.text := by
  rw [parseFile_lines] at hx
  obtain ⟨q, hq, rfl⟩ := List.mem_map.mp hx
  obtain ⟨hz, hb⟩ := List.mem_filter.mp hq
  rw [List.mem_zipIdx_iff_getElem?] at hz
  exact ⟨q.2, by simpa using hz, rfl, by simpa using hb, rfl⟩

-- non-vacuity: a file with a blank line, a white-only line, CRLF, and a last line without line feed
example : (parseFile 0 [109, 111, 118, 10, 10, 32, 9, 10, 35, 120, 13, 10, 114, 101, 116]).map
    (fun x => (x.lineNo, x.text)) = [(1, [109, 111, 118]), (4, [35, 120, 13]), (5, [114, 101, 116])] := by
  decide +kernel
example : splitLines [97, 10, 10, 98, 10] = [[97], [], [98], []] := by decide +kernel

/-! ### 2. The four line classes are exclusive -/

/-- **`classify_exclusive`**: every successfully parsed line belongs to exactly one of the classes
    comment / label / directive / instruction, as read off the `InstructionForm` fields the
    parser fills (`mnemonic`, `label`, `directive`, `comment`). -/
theorem classify_exclusive (t : Txt) (f : Form) (h : parseLine t = .ok f) : f.classes.length = 1 := by
  unfold parseLine parseExpanded at h
  split at h
  · cases h; rfl
  · split at h
    · cases h; rfl
    · split at h
      · cases h; rfl
      · unfold instructionLine at h
        split at h
        · cases h
        · split at h
          · cases h
          · cases h; rfl

/-- which class it is follows the order of the stages: the first stage that matches decides -/
theorem classify_by_stage (t : Txt) :
    let e := expandTabs 0 t
    (∀ c, commentLine e = some c → parseLine t = .ok { comment := some c }) ∧
    (∀ n c, commentLine e = none → labelLine e = some (n, c) →
      parseLine t = .ok { label := some n, comment := c }) ∧
    (∀ n ps c, commentLine e = none → labelLine e = none → directiveLine e = some (n, ps, c) →
      parseLine t = .ok { directive := some (n, ps), comment := c }) ∧
    (commentLine e = none → labelLine e = none → directiveLine e = none →
      parseLine t = instructionLine e) := by
  refine ⟨fun c h => ?_, fun n c h1 h2 => ?_, fun n ps c h1 h2 h3 => ?_, fun h1 h2 h3 => ?_⟩ <;>
    simp [parseLine, parseExpanded, *]

/-- an instruction result is only ever produced by the instruction stage: it has no label and
    no directive (the converse directions likewise) -/
theorem instruction_form_pure (t : Txt) (f : Form) (h : parseLine t = .ok f) (hm : f.mnemonic.isSome) :
    f.label = none ∧ f.directive = none := by
  unfold parseLine parseExpanded at h
  split at h
  · cases h; simp at hm
  · split at h
    · cases h; simp at hm
    · split at h
      · cases h; simp at hm
      · unfold instructionLine at h
        split at h
        · cases h
        · split at h
          · cases h
          · cases h; exact ⟨rfl, rfl⟩

-- non-vacuity: one line of each class
example : parseLine [35, 32, 104, 105] = .ok { comment := some [104, 105] } := by decide +kernel      -- "# hi"
example : parseLine [46, 76, 49, 58] = .ok { label := some [46, 76, 49] } := by decide +kernel         -- ".L1:"
example : parseLine [46, 116, 101, 120, 116] = .ok { directive := some ([116, 101, 120, 116], []) } := by
  decide +kernel                                                                                       -- ".text"
example : parseLine [114, 101, 116] = .ok { mnemonic := some [114, 101, 116] } := by decide +kernel    -- "ret"

/-! ### 3. Numbers -/

/-- **`parseNat (renderNat n) = n` for all `n`** and all notations (decimal; `0x` hexadecimal with
    upper- or lower-case digits and any number of leading zeros): the model of Python's `int(·, 0)`
    reads back every rendered natural number … -/
theorem parseNat_renderNat (f : NumFmt) (n : Nat) : pyNat0 (renderNat f n) = some n :=
  pyNat0_renderNat f n

/-- … and every integer, with sign. -/
theorem parseInt_renderInt (f : NumFmt) (v : Int) : pyInt0 (renderInt f v) = some v :=
  pyInt0_renderInt f v

example : renderInt { hex := true, upper := true, zeros := 2 } (-2748) = [45, 48, 120, 48, 48, 65, 66, 67] := by
  decide +kernel                                                                                -- "-0x00ABC"
example : renderInt {} 18446744073709551615 =
    [49, 56, 52, 52, 54, 55, 52, 52, 48, 55, 51, 55, 48, 57, 53, 53, 49, 54, 49, 53] := by decide +kernel
example : pyInt0 [48, 49, 48] = none := by decide +kernel        -- int("010", 0) raises: not in the domain

/-! ### 4. Tokens and operands, whatever the blanks -/

/-- **whitespace-insensitivity of the number token**: after any blanks, a rendered integer is read as
    one number token with exactly its text, and the position left is right behind it. -/
theorem number_any_blanks (f : NumFmt) (v : Int) (b k : Txt) (hb : AllWs b) (hk : Tail SepC k) :
    offsetG (b ++ (renderInt f v ++ k)) = some (.num (renderInt f v), k) :=
  offsetG_num SepC_punct f v hb hk

/-- **register names verbatim**, after any blanks -/
theorem register_any_blanks (n b k : Txt) (hn : validReg n = true) (hb : AllWs b) (hk : Tail SepC k) :
    register (b ++ 37 :: (n ++ k)) = some (n, skipWs k) :=
  register_ok SepC_punct (by decide) hn hb hk

/-- **memory operands**: `disp(base,index,scale)` in all six combinations with a base or an index,
    displacement absent / number / label, scale written or omitted, blanks anywhere inside -/
theorem memory_any_blanks (L : OpLayout) (hbl : L.blanks.all blank = true) (off : Option Off)
    (base index : Option Txt) (scale : Nat) (hoff : validOff off = true)
    (hb : base.all validReg = true) (hi : index.all validReg = true) (hs : validScale scale = true)
    (hbi : (base.isSome || index.isSome) = true) (b k : Txt) (hb0 : AllWs b) (hk : nextC k ≠ some 123) :
    memory (b ++ (renderMem L off base index scale ++ k)) =
      some ({ off := rawOff L.num off, base := base, index := index,
              scale := scaleSeen L scale index, empty := false }, skipWs k) :=
  memory_paren L hbl off base index scale hoff hb hi hs hbi hb0 hk

/-- **operand round trip** (∀ operands of the domain, ∀ layouts, both operand rules of the grammar):
    parsing the rendering of an operand and post-processing it gives the operand back, and the
    parser stops at the separator. -/
theorem operand_roundtrip (L : OpLayout) (hbl : L.blanks.all blank = true) (o : Operand)
    (hv : validOperand o = true) (b k : Txt) (hb : AllWs b) (hk : Tail SepC k) :
    ∃ raw r, skipWs r = skipWs k ∧ postOp raw = .ok o ∧
      operandFirst (b ++ (renderOperand L o ++ k)) = some (raw, r) ∧
      (L.bare = false → operandRest (b ++ (renderOperand L o ++ k)) = some (raw, r)) := by
  obtain ⟨r, h1, h2, h3⟩ := operand_ok L hbl o hv hb hk
  exact ⟨rawOp L o, r, h1, postOp_rawOp L o hv, h2, h3⟩

/-! ### 5. The round trip -/

/-- **`x86_roundtrip_expanded`** (∀ instruction lines of the domain: 0–4 operands — registers,
    immediates decimal/hex with sign, `$label`s, a bare label first, memory operands in the seven
    non-empty base/index/displacement combinations with scales 1/2/4/8, scale 1 written or omitted —
    ∀ layouts: blanks **and tabs** before and after every token, around commas, inside the
    parentheses, any indentation, optional trailing `#` or `//` comment):
    the four stages of `parse_line`, run on the text, return an instruction form with exactly the
    mnemonic, the operands in order, and the comment's words. -/
theorem x86_roundtrip_expanded (l : Line) (hv : l.valid = true) :
    parseExpanded (renderLine l) = .ok l.expected :=
  roundtrip_expanded l hv

/-- `str.expandtabs` on a rendered line is the rendering of the same AST under another layout of
    the domain (each tab of the layout becomes one to eight blanks; tokens contain no tab) -/
theorem expandTabs_relayout (l : Line) (hv : l.valid = true) (col : Nat) :
    ∃ l' : Line, l'.valid = true ∧ l'.expected = l.expected ∧
      expandTabs col (renderLine l) = renderLine l' :=
  exp_line l hv (exp_expandTabs (renderLine l) col)

/-- **`x86_roundtrip`** — the property's statement about instruction lines, at full strength:
    for every instruction AST of the domain (0–4 operands; register names; decimal / hexadecimal
    immediates of any size with sign; labels as `$label` anywhere or bare in first position; memory
    references in all seven non-empty displacement/base/index combinations, displacement a signed
    number or a label, scales 1/2/4/8 with scale 1 written or omitted) and **every layout** (blanks
    and tabs before the mnemonic, after it, before and after every operand and comma, inside the
    parentheses, decimal or `0x` notation with either digit case and leading zeros, optional trailing
    `#` / `//` comment of any words), `parse_line` on the rendered text returns the form with exactly
    this mnemonic, exactly these operands in order (register names verbatim, immediates and
    displacements as integers, scale 1 when omitted), no label, no directive, and the comment's words. -/
theorem x86_roundtrip (l : Line) (hv : l.valid = true) : parseLine (renderLine l) = .ok l.expected :=
  roundtrip_full l hv

/-- and through `parse_file`: a file consisting of rendered lines and blank lines gives exactly these
    ASTs under the right line numbers (combination of `parseFile_complete` and `x86_roundtrip`) -/
theorem x86_roundtrip_file (start : Nat) (content : Txt) (i : Nat) (l : Line) (hv : l.valid = true)
    (hl : (splitLines content)[i]? = some (renderLine l)) (hb : isBlank (renderLine l) = false) :
    ⟨i + 1 + start, renderLine l, .ok l.expected⟩ ∈ parseFile start content := by
  have := parseFile_complete start content i (renderLine l) hl hb
  rwa [x86_roundtrip l hv] at this

/-- the class of a rendered instruction line is `instruction`, and only that -/
theorem x86_roundtrip_class (l : Line) (hv : l.valid = true) :
    l.expected.classes = [Class.instruction] := rfl

/-! ### non-vacuity of the round trip -/

/-- `"\tvfmadd231pd\t-0x040 ( %rsi\t, %rax,  8 ) , %zmm31,$-18446744073709551615\t, $.LC0 //LLVM-MCA-BEGIN \tx=1 "` -/
def demo : Line :=
  { indent := [9], mn := [118, 102, 109, 97, 100, 100, 50, 51, 49, 112, 100],
    ops := [ ({ pre := [9], post := [32], num := { hex := true, upper := true, zeros := 1 },
                w1 := [32], w2 := [32], w3 := [9], w4 := [32], w5 := [], w6 := [32, 32], w7 := [32] },
               .mem (some (.imm (-64))) (some [114, 115, 105]) (some [114, 97, 120]) 8 false),
             ({ pre := [32], post := [] }, .reg [122, 109, 109, 51, 49]),
             ({ pre := [], post := [9] }, .imm (-18446744073709551615)),
             ({ pre := [32] }, .ident [46, 76, 67, 48]) ],
    trail := [32],
    comment := some { slashes := true, words := [([], [76, 76, 86, 77, 45, 77, 67, 65, 45, 66, 69, 71, 73, 78]), ([32, 9], [120, 61, 49])], last := [32] } }

example : demo.valid = true := by decide +kernel
example : renderLine demo = [9, 118, 102, 109, 97, 100, 100, 50, 51, 49, 112, 100, 9, 45, 48, 120, 48, 52, 48, 32, 40, 32, 37, 114, 115, 105, 9, 44, 32, 37, 114, 97, 120, 44, 32, 32, 56, 32, 41, 32, 44, 32, 37, 122, 109, 109, 51, 49, 44, 36, 45, 49, 56, 52, 52, 54, 55, 52, 52, 48, 55, 51, 55, 48, 57, 53, 53, 49, 54, 49, 53, 9, 44, 32, 36, 46, 76, 67, 48, 32, 47, 47, 76, 76, 86, 77, 45, 77, 67, 65, 45, 66, 69, 71, 73, 78, 32, 9, 120, 61, 49, 32] := by decide +kernel
example : parseExpanded (renderLine demo) = .ok
    { mnemonic := some [118, 102, 109, 97, 100, 100, 50, 51, 49, 112, 100],
      operands := [.mem (some (.imm (-64))) (some [114, 115, 105]) (some [114, 97, 120]) 8 false, .reg [122, 109, 109, 51, 49],
                   .imm (-18446744073709551615), .ident [46, 76, 67, 48]],
      comment := some [76, 76, 86, 77, 45, 77, 67, 65, 45, 66, 69, 71, 73, 78, 32, 120, 61, 49] } :=
  x86_roundtrip_expanded demo (by decide +kernel)
-- through `parse_line` itself (tabs expanded first), by the theorem and by evaluating the model
example : parseLine (renderLine demo) = .ok demo.expected := x86_roundtrip demo (by decide +kernel)
example : parseLine (renderLine demo) = .ok demo.expected := by decide +kernel

/-- `"mov -8 , (, %rcx,1)"`: a displacement standing alone (negative, blank before the comma) and an
    index without base with scale 1 written out -/
def demo2 : Line :=
  { mn := [109, 111, 118],
    ops := [ ({ pre := [32], post := [32] }, .mem (some (.imm (-8))) none none 1 false),
             ({ pre := [32], showScale := true, w4 := [32] }, .mem none none (some [114, 99, 120]) 1 false) ] }
example : renderLine demo2 = [109, 111, 118, 32, 45, 56, 32, 44, 32, 40, 44, 32, 37, 114, 99, 120, 44, 49, 41] := by decide +kernel
example : parseLine (renderLine demo2) = .ok demo2.expected :=
  x86_roundtrip demo2 (by decide +kernel)

/-- `"jmp .L10"` (bare label) and `"ret"` (no operand) -/
def demo3 : Line := { mn := [106, 109, 112], ops := [({ pre := [32], bare := true }, .ident [46, 76, 49, 48])] }
def demo4 : Line := { mn := [114, 101, 116] }
example : parseLine (renderLine demo3) = .ok { mnemonic := some [106, 109, 112], operands := [.ident [46, 76, 49, 48]] } :=
  x86_roundtrip demo3 (by decide +kernel)
example : parseLine (renderLine demo4) = .ok { mnemonic := some [114, 101, 116] } :=
  x86_roundtrip demo4 (by decide +kernel)

/-! ### model knowledge (documented, not part of the property) -/

-- separators are optional in the grammar: `mov %rax %rbx` parses like `mov %rax, %rbx`
example : parseLine [109, 111, 118, 32, 37, 114, 97, 120, 32, 37, 114, 98, 120] = .ok { mnemonic := some [109, 111, 118], operands := [.reg [114, 97, 120], .reg [114, 98, 120]] } := by
  decide +kernel
-- `mov (), %rax`: a memory operand without any part makes `process_memory_address` raise AttributeError
example : parseLine [109, 111, 118, 32, 40, 41, 44, 32, 37, 114, 97, 120] = .err .attr := by decide +kernel
-- `mov $010, %rax`: `int("010", 0)` raises ValueError
example : parseLine [109, 111, 118, 32, 36, 48, 49, 48, 44, 32, 37, 114, 97, 120] = .err .value := by decide +kernel
-- a bare label is an operand only in first position: `mov %rax, foo` is rejected
example : parseLine [109, 111, 118, 32, 37, 114, 97, 120, 44, 32, 102, 111, 111] = .err .value := by decide +kernel
-- register masks are accepted and dropped: `vaddpd %zmm0, %zmm1, %zmm2{%k1}{z}`
example : parseLine [118, 97, 100, 100, 112, 100, 32, 37, 122, 109, 109, 48, 44, 32, 37, 122, 109, 109, 49, 44, 32, 37, 122, 109, 109, 50, 123, 37, 107, 49, 125, 123, 122, 125] =
    .ok { mnemonic := some [118, 97, 100, 100, 112, 100],
          operands := [.reg [122, 109, 109, 48], .reg [122, 109, 109, 49], .reg [122, 109, 109, 50]] } := by decide +kernel

end OsacaVerif.Props.C09
