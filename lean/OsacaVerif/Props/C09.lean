import OsacaVerif.Model.ParseX86
import OsacaVerif.Gen.X86Parser
/-
  C09 — x86 AT&T parser recovers every line and operand exactly as written.
-/
namespace OsacaVerif.Props.C09
open OsacaVerif OsacaVerif.Text OsacaVerif.X86 OsacaVerif.ParseX86
open OsacaVerif.Gen.X86Parser

/-! ### The tie to the source: every literal the model hard-wires, as the translator reads it now -/

/-- the `pp.` character-set constants by name -/
def ppClass (name : Txt) (c : Nat) : Bool :=
  if name == [97, 108, 112, 104, 97, 115] then isAlphaC c                                   -- alphas
  else if name == [97, 108, 112, 104, 97, 110, 117, 109, 115] then isAlnumC c               -- alphanums
  else if name == [110, 117, 109, 115] then isDigitC c                                      -- nums
  else if name == [104, 101, 120, 110, 117, 109, 115] then isHexC c                         -- hexnums
  else if name == [112, 114, 105, 110, 116, 97, 98, 108, 101, 115] then isPrintC c          -- printables
  else false

/-- membership in a `Word(...)` class as the source writes it -/
def inClass (w : WordClass) (c : Nat) : Bool :=
  (ppClass w.1 c || w.2.1.contains c) && !w.2.2.1.contains c

theorem gen_numbers :
    decimalSign = [45] ∧ hexSign = [45] ∧ hexPrefix = [48, 120] ∧
    (∀ c, isDigitC c = inClass decimalDigits c) ∧ (∀ c, isHexC c = inClass hexDigits c) ∧
    decimalDigits.2.2.2 = 0 ∧ hexDigits.2.2.2 = 0 := by
  refine ⟨by decide, by decide, by decide, ?_, ?_, by decide, by decide⟩ <;> intro c <;>
    simp [inClass, ppClass, decimalDigits, hexDigits]

theorem gen_comment :
    commentSymbols = [[35], [47, 47]] ∧ (∀ c, isPrintC c = inClass commentWord c) ∧
    commentWord.2.2.2 = 0 := by
  refine ⟨by decide, ?_, by decide⟩; intro c; simp [inClass, ppClass, commentWord]

theorem gen_identifier :
    (∀ c, isIdFirst c = inClass identFirst c) ∧ identFirst.2.2.2 = 1 ∧
    (∀ c, isIdRest c = inClass identRest c) ∧ identRest.2.2.2 = 0 ∧
    (∀ c, isLabelRest c = inClass labelRest c) ∧ labelRest.2.2.2 = 0 ∧
    nameDelim = [58, 58] ∧ relocationSymbol = [64] ∧ (∀ c, isAlphaC c = inClass relocationWord c) ∧
    idOffsetPlus = [43] ∧ numericSuffixes = [[98], [102]] ∧ numericSuffixCaseless = true ∧
    (∀ c, isSuffixC c = (numericSuffixes.contains [lowerC c] && (c < 128))) := by
  refine ⟨?_, by decide, ?_, by decide, ?_, by decide, by decide, by decide, ?_, by decide, by decide,
    by decide, ?_⟩ <;> intro c
  · simp [inClass, ppClass, identFirst, isIdFirst]; grind
  · simp [inClass, ppClass, identRest, isIdRest]; grind
  · simp [inClass, ppClass, labelRest, isLabelRest, isIdRest]; grind
  · simp [inClass, ppClass, relocationWord]
  · simp [isSuffixC, numericSuffixes, lowerC]; grind

theorem gen_register :
    registerLiterals = [[37], [40], [41], [123], [37], [125], [123], [122], [125]] ∧
    (∀ w ∈ registerWords, w.2.2.2 = 0) ∧
    (∀ c, registerWords.map (fun w => inClass w c) = [isAlnumC c, isDigitC c, isAlnumC c]) := by
  refine ⟨by decide, by decide, ?_⟩; intro c; simp [registerWords, inClass, ppClass]

theorem gen_memory :
    immediateSymbol = [36] ∧ (∀ c, isScaleC c = inClass scaleWord c) ∧ scaleWord.2.2.2 = 1 ∧
    memoryLiterals = [[42], [40], [44], [44], [41], [123], [37], [125]] := by
  refine ⟨by decide, ?_, by decide, by decide⟩; intro c
  simp [inClass, ppClass, scaleWord, isScaleC]; grind

theorem gen_directive :
    directiveSymbol = [46] ∧ (∀ c, isDirNameC c = inClass directiveName c) ∧
    (∀ c, isDirParamC c = inClass directiveParam c) ∧ directiveParamSeps = [[44], [44]] ∧
    directiveName.2.2.2 = 0 ∧ directiveParam.2.2.2 = 0 := by
  refine ⟨by decide, ?_, ?_, by decide, by decide, by decide⟩ <;> intro c
  · simp [inClass, ppClass, directiveName, isDirNameC]; grind
  · simp [inClass, ppClass, directiveParam, isDirParamC]; grind

theorem gen_instruction :
    mnemonicPrefixes = [[100, 97, 116, 97, 49, 54], [100, 97, 116, 97, 51, 50]] ∧
    (∀ c, isMnC c = inClass mnemonicWord c) ∧ mnemonicWord.2.2.2 = 0 ∧ mnemonicSplit = ([44], 0) ∧
    instructionResultNames = [[111, 112, 101, 114, 97, 110, 100, 49], [111, 112, 101, 114, 97, 110, 100, 50], [111, 112, 101, 114, 97, 110, 100, 51], [111, 112, 101, 114, 97, 110, 100, 52]] ∧ operandsAppended = instructionResultNames ∧
    instructionSeparators = [[44], [44], [44]] ∧
    stageOrder = [[99, 111, 109, 109, 101, 110, 116], [108, 97, 98, 101, 108], [100, 105, 114, 101, 99, 116, 105, 118, 101], [105, 110, 115, 116, 114, 117, 99, 116, 105, 111, 110]] := by
  refine ⟨by decide, ?_, by decide, by decide, by decide, by decide, by decide, by decide⟩; intro c
  simp [inClass, ppClass, mnemonicWord, isMnC]; grind

/-- `int(x, 0)` everywhere, scale 1 when omitted, offset/base/index read from the keys of the same
    name, `MemoryOperand`/`RegisterOperand` built from them -/
theorem gen_postprocess :
    intBases = [0, 0, 0, 0] ∧ scaleDefault = 1 ∧
    memoryKeys = [[111, 102, 102, 115, 101, 116, 61, 111, 102, 102, 115, 101, 116], [98, 97, 115, 101, 61, 98, 97, 115, 101], [105, 110, 100, 101, 120, 61, 105, 110, 100, 101, 120]] ∧ memoryCtor = [[98, 97, 115, 101, 61, 98, 97, 115, 101, 79, 112], [105, 110, 100, 101, 120, 61, 105, 110, 100, 101, 120, 79, 112], [111, 102, 102, 115, 101, 116, 61, 111, 102, 102, 115, 101, 116], [115, 99, 97, 108, 101, 61, 115, 99, 97, 108, 101]] ∧ memoryRegCtor = [[98, 97, 115, 101, 79, 112, 61, 98, 97, 115, 101, 91, 110, 97, 109, 101, 93], [105, 110, 100, 101, 120, 79, 112, 61, 105, 110, 100, 101, 120, 91, 110, 97, 109, 101, 93]] := by
  decide

/-- `parse_file`: `split("\n")`, `enumerate` from 0, line number `i + 1 + start_line`,
    blank test `line.strip() == ""`, the untouched `line` handed to `parse_line` -/
theorem gen_parse_file :
    lineSeparator = [10] ∧ enumerateStart = 0 ∧ lineNumberConst = 1 ∧
    lineNumberTerms = [[105], [115, 116, 97, 114, 116, 95, 108, 105, 110, 101]] ∧ blankTest = [115, 116, 114, 105, 112] ∧ parseLineArg = [108, 105, 110, 101] := by
  decide

/-- the constructed pyparsing grammar (comment, directive, instruction_parser, label, register,
    white characters / packrat) is the one `Model/ParseX86.lean` was written for and validated
    against; digests of the structural dump `Gen/X86Grammar.txt` -/
def modelledGrammarDigest : List Nat := [885879855628226773, 1112279963143875836, 867575040509712305, 175462622727771971, 319726640196078429, 487930237708278757]

theorem grammar_unchanged : grammarDigest = modelledGrammarDigest := by decide

end OsacaVerif.Props.C09
