import OsacaVerif.Model.Compose
import OsacaVerif.Spec.Composed
namespace OsacaVerif.Props.C08
theorem placeholder : True := trivial
end OsacaVerif.Props.C08
