import OsacaVerif.Lemmas.Compose
import OsacaVerif.Lemmas.Feasible
/-
  C08 — Memory-operand forms compose register-form data with load/store data.

  `Compose.assignTpLt` is the model of `ArchSemantics.assign_tp_lt` (own entry / composition / unknown),
  `Spec.Composed` the property's wording.  All literals (flag names, store latency, matcher constants)
  come from `Gen.MatchConsts`.
-/
namespace OsacaVerif.Props.C08
open OsacaVerif OsacaVerif.Text OsacaVerif.Operand OsacaVerif.Match OsacaVerif.Ports OsacaVerif.Spec
open OsacaVerif.Compose OsacaVerif.Lemmas.Compose

/-- what is observed of a result -/
def observed (r : Result) : Observed :=
  { tp := r.tp, lat := r.lat, latWoLoad := r.latWoLoad, pressure := r.pressure,
    unknownFlag := r.flags.contains Gen.flagTpUnknown || r.flags.contains Gen.flagLtUnknown }

/-- resolved micro-ops that only name ports of the model -/
def Bounded (n : Nat) (us : List Uop) : Prop := ∀ u ∈ us, (∀ p ∈ u.ports, p < n) ∧ u.mult = 1

/-! ### the load and store parts -/

theorem loadPart_spec (m : MModel) (rt : Option Txt) (i : Ins) (items : List Y) (mult : Rat) (v : List Rat)
    (h : loadPart m rt i = .ok (items, mult, v)) :
    ∃ us, v = uniform m.ports.length (us.map (withMult mult)) ∧ Bounded m.ports.length us ∧
      (hasLd i = false → us = [] ∧ mult = 1) ∧
      (hasLd i = true → ∃ mem, firstMem (i.source ++ i.srcDst) = some mem ∧
          resolveList m.ports (chooseLoad m rt mem) = .ok us ∧ multiplier m.loadMult rt = .ok mult) := by
  unfold loadPart at h
  cases hl : hasLd i with
  | false =>
    simp only [hl, Bool.false_eq_true, if_false, Except.ok.injEq, Prod.mk.injEq] at h
    obtain ⟨_, h2, h3⟩ := h
    refine ⟨[], ?_, by intro u hu; simp at hu, fun _ => ⟨rfl, h2.symm⟩, by simp⟩
    rw [← h3]; simp [zerosN, uniform_nil]
  | true =>
    simp only [hl, if_true] at h
    cases hm : firstMem (i.source ++ i.srcDst) with
    | none => simp [hm] at h
    | some mem =>
      simp only [hm, bind_ok] at h
      obtain ⟨vv, hv, mu, hmu, its, _, hr⟩ := h
      simp only [pure, Except.pure, Except.ok.injEq, Prod.mk.injEq] at hr
      obtain ⟨_, hr2, hr3⟩ := hr
      obtain ⟨us, hus, hvv, hb⟩ := averageY_ok m.ports _ vv hv
      subst hr2
      refine ⟨us, ?_, hb, by simp, fun _ => ⟨mem, rfl, hus, hmu⟩⟩
      rw [← hr3, hvv, scale_uniform]

theorem storePart_spec (m : MModel) (rt : Option Txt) (i : Ins) (items : List Y) (mult : Rat) (v : List Rat)
    (wb : Bool) (h : storePart m rt i = .ok (items, mult, v, wb)) :
    ∃ us, v = uniform m.ports.length (us.map (withMult mult)) ∧ Bounded m.ports.length us ∧
      (hasSt i = false → us = [] ∧ mult = 1 ∧ wb = false) ∧
      (hasSt i = true → wb = writeBackOnly m.isa i ∧ ∃ mem, firstMem (i.destination ++ i.srcDst) = some mem ∧
          resolveList m.ports (if wb then Y.list [] else chooseStore m rt mem) = .ok us ∧
          multiplier m.storeMult rt = .ok mult) := by
  unfold storePart at h
  cases hl : hasSt i with
  | false =>
    simp only [hl, Bool.false_eq_true, if_false, Except.ok.injEq, Prod.mk.injEq] at h
    obtain ⟨_, h2, h3, h4⟩ := h
    refine ⟨[], ?_, by intro u hu; simp at hu, fun _ => ⟨rfl, h2.symm, h4.symm⟩, by simp⟩
    rw [← h3]; simp [zerosN, uniform_nil]
  | true =>
    simp only [hl, if_true] at h
    cases hm : firstMem (i.destination ++ i.srcDst) with
    | none => simp [hm] at h
    | some mem =>
      simp only [hm, bind_ok] at h
      obtain ⟨vv, hv, mu, hmu, its, _, hr⟩ := h
      simp only [pure, Except.pure, Except.ok.injEq, Prod.mk.injEq] at hr
      obtain ⟨_, hr2, hr3, hr4⟩ := hr
      obtain ⟨us, hus, hvv, hb⟩ := averageY_ok m.ports _ vv hv
      subst hr2
      refine ⟨us, ?_, hb, by simp, fun _ => ⟨hr4.symm, mem, rfl, ?_, hmu⟩⟩
      · rw [← hr3, hvv, scale_uniform]
      · rw [← hr4]; exact hus

/-! ### the composed instruction -/

/-- **compose_spec** (∀ models, ∀ instructions, ∀ register forms): whenever the composition path returns
    numbers, they are `Composed` of ingredients that come from the model exactly as the property says:
    the register form's micro-ops, throughput and latency; the load micro-ops of the row chosen for the
    first memory source operand and the register type, times the load multiplier; the store micro-ops
    likewise (none for a write-back-only access on AArch64); the load latency of the register type. -/
theorem compose_spec (m : MModel) (e : Entry) (i : Ins) (ops' : List POperand) (r : Result)
    (h : compose m e i ops' = .ok r) :
    ∃ (p : Parts) (rt : Option Txt),
      p.n = m.ports.length ∧
      resolveList m.ports e.pp = .ok p.reg ∧ numOf e.tp = .ok p.tpReg ∧ numOf e.lat = .ok p.latReg ∧
      p.hasLd = hasLd i ∧
      (∃ eop, e.operands[ops'.idxOf POperand.wild]? = some eop ∧ getRegType m.isa eop = .ok rt) ∧
      (hasLd i = false → p.ld = [] ∧ p.mLd = 1) ∧
      (hasLd i = true → loadLatency m rt = .ok p.loadLat ∧
          ∃ mem, firstMem (i.source ++ i.srcDst) = some mem ∧
            resolveList m.ports (chooseLoad m rt mem) = .ok p.ld ∧ multiplier m.loadMult rt = .ok p.mLd) ∧
      (hasSt i = false → p.st = [] ∧ p.mSt = 1) ∧
      (hasSt i = true → r.removedSt = writeBackOnly m.isa i ∧
          ∃ mem, firstMem (i.destination ++ i.srcDst) = some mem ∧
            resolveList m.ports (if r.removedSt then Y.list [] else chooseStore m rt mem) = .ok p.st ∧
            multiplier m.storeMult rt = .ok p.mSt) ∧
      Bounded p.n p.reg ∧ Bounded p.n p.ld ∧ Bounded p.n p.st ∧
      Composed p (observed r) := by
  unfold compose at h
  simp only [bind_ok] at h
  obtain ⟨eop, heop, rt, hrt, ⟨ldItems, mLd, ldV⟩, hld, ⟨stItems, mSt, stV, wb⟩, hst, dmax, hdmax, tpReg, htp,
    ll, hll, latReg, hlat, regV, hregV, regItems, _, hres⟩ := h
  simp only [pure, Except.pure, Except.ok.injEq] at hres
  obtain ⟨ld, hldV, hldB, hld0, hld1⟩ := loadPart_spec m rt i ldItems mLd ldV hld
  obtain ⟨st, hstV, hstB, hst0, hst1⟩ := storePart_spec m rt i stItems mSt stV wb hst
  obtain ⟨reg, hreg, hregV', hregB⟩ := averageY_ok m.ports e.pp regV hregV
  have heop' : e.operands[ops'.idxOf POperand.wild]? = some eop := by
    cases hx : e.operands[ops'.idxOf POperand.wild]? with
    | none => simp [hx, throw, throwThe, MonadExceptOf.throw] at heop
    | some x => simp only [hx, pure, Except.pure, Except.ok.injEq] at heop; rw [heop]
  -- the load latency used
  have hllv : ∃ loadLat, (hasLd i = true → loadLatency m rt = .ok loadLat) ∧ ll = (if hasLd i then loadLat else 0) := by
    cases hl : hasLd i with
    | false => simp only [hl, Bool.false_eq_true, if_false, pure, Except.pure, Except.ok.injEq] at hll; exact ⟨0, by simp, by simp [hll]⟩
    | true => simp only [hl, if_true] at hll; exact ⟨ll, fun _ => hll, by simp⟩
  obtain ⟨loadLat, hll1, hll2⟩ := hllv
  let p : Parts := { n := m.ports.length, reg := reg, ld := ld, st := st, mLd := mLd, mSt := mSt, tpReg := tpReg,
                     latReg := latReg, loadLat := loadLat, hasLd := hasLd i }
  -- the data vector is the uniform split of the load and store micro-ops with their multipliers
  have hdata : (if hasSt i then addVec ldV stV else ldV) = uniform m.ports.length p.dataUops := by
    cases hs : hasSt i with
    | true => simp only [if_true, hldV, hstV, addVec_uniform]; rfl
    | false =>
      obtain ⟨hs1, _, _⟩ := hst0 hs
      simp only [Bool.false_eq_true, if_false, hldV, Parts.dataUops, p, hs1, List.map_nil, List.append_nil]
  refine ⟨p, rt, rfl, hreg, htp, hlat, rfl, ⟨eop, heop', hrt⟩, hld0, ?_, ?_, ?_, hregB, hldB, hstB, ?_⟩
  · intro hl
    exact ⟨hll1 hl, hld1 hl⟩
  · intro hs
    obtain ⟨h1, h2, _⟩ := hst0 hs
    exact ⟨h1, h2⟩
  · intro hs
    obtain ⟨h1, h2⟩ := hst1 hs
    rw [← hres]
    exact ⟨h1, h2⟩
  · rw [hdata] at hdmax hres
    have hmax := maxList_ok _ _ hdmax
    rw [← hres]
    constructor
    · show addVec (uniform m.ports.length p.dataUops) regV = uniform p.n p.uops
      rw [hregV', addVec_uniform]
      -- data + register form = register form + data, port by port
      simp only [Parts.uops, uniform, p]
      apply List.map_congr_left
      intro q _
      simp only [List.map_append, List.sum_append]
      ring
    · show (if dmax < tpReg then tpReg else dmax) = _
      rw [hmax]
    · show latReg + ll + (if (hasSt i && !wb) = true then Gen.storeLatency else 0) = _
      have : Gen.storeLatency = 0 := by decide
      rw [this, hll2]
      simp [p]
    · rfl
    · show ((([] : List Txt).contains Gen.flagTpUnknown) || (([] : List Txt).contains Gen.flagLtUnknown)) = false
      rfl

/-- **compose_feasible**: the composed port pressure is an exactly feasible fractional assignment
    (C01, ε = 0) of the composed micro-op list, the load/store micro-ops carrying their throughput
    multipliers as `mult` — for all models whose micro-ops have non-negative cycles, non-empty port
    sets, and non-negative multipliers. -/
theorem compose_feasible (p : Parts) (o : Observed) (hc : Composed p o)
    (hreg : WFUops p.n p.reg) (hld : WFUops p.n p.ld) (hst : WFUops p.n p.st)
    (hm1 : 0 ≤ p.mLd) (hm2 : 0 ≤ p.mSt) :
    Feasible 0 p.n p.uops o.pressure := by
  rw [hc.pressure]
  apply Spec.uniform_feasible
  intro u hu
  simp only [Parts.uops, Parts.dataUops, List.mem_append, List.mem_map] at hu
  rcases hu with hu | ⟨u', hu', rfl⟩ | ⟨u', hu', rfl⟩
  · exact hreg u hu
  · obtain ⟨a, b, c, d⟩ := hld u' hu'
    exact ⟨a, by simp only [withMult]; exact mul_nonneg hm1 b, c, d⟩
  · obtain ⟨a, b, c, d⟩ := hst u' hu'
    exact ⟨a, by simp only [withMult]; exact mul_nonneg hm2 b, c, d⟩

/-! ### unknown instructions, own entries, independence of lines -/

/-- **unknown_spec**: an instruction with neither an entry of its own nor a register form (or without
    any load/store role) gets both unknown flags, zero pressure on every port, zero latency and
    throughput, and its micro-op list is left alone. -/
theorem unknown_spec (m : MModel) (i : Ins) (name : Txt) (hn : i.mnemonic = some name)
    (h1 : lookupWithFallbacks m.isa m.db name i.operands = none)
    (h2 : (hasLd i || hasSt i) = false ∨
          lookupWithFallbacks m.isa m.db name (substituteMem i.operands) = none) :
    assignTpLt m i = .ok (unknown m) ∧
    UnknownSpec m.ports.length (observed (unknown m)) (unknown m).flags Gen.flagTpUnknown Gen.flagLtUnknown ∧
    (unknown m).uops = none := by
  refine ⟨?_, ⟨by simp [unknown], by simp [observed, unknown, zerosN, zeros], by simp [observed, unknown]⟩, rfl⟩
  unfold assignTpLt
  simp only [hn, h1]
  rcases h2 with h2 | h2
  · simp [h2]
  · cases hls : (hasLd i || hasSt i) <;> simp [h2]

/-- an instruction that has an entry of its own never takes the composition path -/
theorem own_entry_first (m : MModel) (i : Ins) (name : Txt) (e : Entry) (hn : i.mnemonic = some name)
    (h : lookupWithFallbacks m.isa m.db name i.operands = some e) :
    assignTpLt m i = handleFound m e i := by
  simp [assignTpLt, hn, h]

/-- the composition path is taken exactly when there is no own entry, a load/store role, and a
    register form -/
theorem composed_when (m : MModel) (i : Ins) (name : Txt) (e : Entry) (hn : i.mnemonic = some name)
    (h1 : lookupWithFallbacks m.isa m.db name i.operands = none) (h2 : (hasLd i || hasSt i) = true)
    (h3 : lookupWithFallbacks m.isa m.db name (substituteMem i.operands) = some e) :
    assignTpLt m i = compose m e i (substituteMem i.operands) := by
  simp [assignTpLt, hn, h1, h2, h3]

/-- a composed instruction is not flagged unknown -/
theorem composed_not_unknown (m : MModel) (e : Entry) (i : Ins) (ops' : List POperand) (r : Result)
    (h : compose m e i ops' = .ok r) : (observed r).unknownFlag = false := by
  obtain ⟨p, _, _, _, _, _, _, _, _, _, _, _, _, _, _, hc⟩ := compose_spec m e i ops' r h
  exact hc.known

/-- **per_instruction**: the kernel is analysed line by line with nothing shared — the result of a
    line is a function of the model and that line alone, so an unknown or composed instruction cannot
    change the numbers of any other line, and analysing an instruction again gives the same numbers. -/
theorem per_instruction (m : MModel) (pre post : List Ins) (i : Ins) :
    (assignKernel m (pre ++ i :: post))[pre.length]? = some (assignTpLt m i) ∧
    (∀ j : Ins, (assignKernel m (pre ++ j :: post)).take pre.length = (assignKernel m (pre ++ i :: post)).take pre.length) ∧
    (∀ j : Ins, (assignKernel m (pre ++ j :: post)).drop (pre.length + 1) =
                (assignKernel m (pre ++ i :: post)).drop (pre.length + 1)) := by
  refine ⟨by simp [assignKernel], ?_, ?_⟩
  · intro j; simp [assignKernel, List.take_append]
  · intro j; simp [assignKernel, List.drop_append]

/-! ### which table row is used -/

/-- **row_choice_spec** (load): among the rows whose addressing shape matches, the first whose `dst`
    matches the register type; if none does, the first matching row; if no row matches, the default -/
theorem row_choice_load (m : MModel) (rt : Option Txt) (mem : PMem) :
    let rows := m.loadRows.filter (rowMatches m.isa mem)
    (rows = [] → chooseLoad m rt mem = m.loadDefault) ∧
    (∀ r, rows.find? (rowTyped m.isa rt) = some r → chooseLoad m rt mem = r.pp) ∧
    (∀ r rs, rows = r :: rs → rows.find? (rowTyped m.isa rt) = none → chooseLoad m rt mem = r.pp) := by
  intro rows
  refine ⟨?_, ?_, ?_⟩
  · intro h
    simp only [rows] at h
    simp [chooseLoad, h]
  · intro r hr
    simp only [rows] at hr
    simp [chooseLoad, hr]
  · intro r rs hrows hnone
    simp only [rows] at hrows hnone
    simp only [chooseLoad, hnone]
    rw [hrows]

/-- the row used for a load always has a matching addressing shape (or is the default) -/
theorem row_choice_load_shape (m : MModel) (rt : Option Txt) (mem : PMem) :
    chooseLoad m rt mem = m.loadDefault ∨
    ∃ r ∈ m.loadRows, rowMatches m.isa mem r = true ∧ chooseLoad m rt mem = r.pp := by
  unfold chooseLoad
  cases hf : (m.loadRows.filter (rowMatches m.isa mem)).find? (rowTyped m.isa rt) with
  | some r =>
    have hm := List.mem_of_find?_eq_some hf
    rw [List.mem_filter] at hm
    exact Or.inr ⟨r, hm.1, hm.2, by simp only [hf]⟩
  | none =>
    cases hr : m.loadRows.filter (rowMatches m.isa mem) with
    | nil => exact Or.inl (by simp only [hr, List.find?_nil])
    | cons r rs =>
      have hm : r ∈ m.loadRows.filter (rowMatches m.isa mem) := by rw [hr]; simp
      rw [List.mem_filter] at hm
      rw [hr] at hf
      exact Or.inr ⟨r, hm.1, hm.2, by simp only [hf]⟩

/-- **row_choice_spec** (store): the first row whose shape matches and whose `src` matches the register
    type, else the default -/
theorem row_choice_store (m : MModel) (rt : Option Txt) (mem : PMem) :
    chooseStore m rt mem =
      match m.storeRows.find? (fun r => rowMatches m.isa mem r && rowTyped m.isa rt r) with
      | some r => r.pp
      | none => m.storeDefault := by
  unfold chooseStore
  rw [List.filter_filter]
  induction m.storeRows with
  | nil => rfl
  | cons r rs ih =>
    by_cases h : (rowTyped m.isa rt r && rowMatches m.isa mem r) = true
    · have h' : (rowMatches m.isa mem r && rowTyped m.isa rt r) = true := by rw [Bool.and_comm]; exact h
      simp [List.filter_cons, List.find?_cons, h, h']
    · have h' : (rowMatches m.isa mem r && rowTyped m.isa rt r) = false := by
        rw [Bool.and_comm]; simpa using h
      have h'' : (rowTyped m.isa rt r && rowMatches m.isa mem r) = false := by simpa using h
      simp only [List.filter_cons, h'', List.find?_cons, h', Bool.false_eq_true, if_false]
      exact ih

/-! ### non-vacuity -/

def p0 : Txt := [48]
def p1 : Txt := [49]
def p2 : Txt := [50]
def ZADD : Txt := [90, 65, 68, 68]
def rX : POperand := .reg { name := [120, 109, 109, 49] }
def mRax : PMem := { base := some { name := [114, 97, 120] }, offset := .none, index := none, scale := 1, pre := false, post := false }
def xmmE : EOperand := .reg (some [120, 109, 109]) none none

/-- two ports for arithmetic, one load port; `zadd xmm, xmm` costs one cycle on port 0 or 1;
    a load costs one cycle on port 2; load latency of xmm is 4, multiplier 2 -/
def m0 : MModel :=
  { isa := .x86, ports := [p0, p1, p2],
    db := [{ name := ZADD, operands := [xmmE, xmmE], tp := .num (1/2), lat := .num 3,
             pp := .list [.list [.num 1, .str [48, 49]]] }],
    loadRows := [], loadDefault := .list [.list [.num 1, .list [.str p2]]],
    storeRows := [], storeDefault := .list [],
    loadLatency := [(.str [120, 109, 109], .num 4)],
    loadMult := some [(.str [120, 109, 109], .num 2)], storeMult := none }

def i0 : Ins := { mnemonic := some [122, 97, 100, 100], operands := [.mem mRax, rX], source := [.mem mRax], destination := [rX], srcDst := [] }

def showR (x : Except Err Result) : Option (List Rat × List Txt) :=
  match x with
  | .ok r => some ([r.tp, r.lat, r.latWoLoad] ++ r.pressure, r.flags)
  | .error _ => none

/-- composed: throughput = busiest load port (2·1 on port 2) > register form's ½; latency 3 + 4 -/
example : showR (assignTpLt m0 i0) = some ([2, 7, 3, 1/2, 1/2, 2], []) := by decide +kernel

/-- unknown mnemonic: both flags, zeros -/
example : showR (assignTpLt m0 { i0 with mnemonic := some [113] }) =
    some ([0, 0, 0, 0, 0, 0], [Gen.flagTpUnknown, Gen.flagLtUnknown]) := by decide +kernel

example : Composed { n := 3, reg := [⟨1, [0, 1], 1⟩], ld := [⟨1, [2], 1⟩], st := [], mLd := 2, tpReg := 1/2, latReg := 3,
                     loadLat := 4, hasLd := true }
    { tp := 2, lat := 7, latWoLoad := 3, pressure := [1/2, 1/2, 2], unknownFlag := false } := by
  constructor <;> decide +kernel

end OsacaVerif.Props.C08
