import OsacaVerif.Driver.Proto
import OsacaVerif.Model.ParseA64
import OsacaVerif.Spec.RenderA64
import OsacaVerif.Model.A64Domain
/-
  Driver ops of C10 (AArch64 parser).
    a64parse <line>            canonical token form of `parseLine` (same as harness/a64canon.py)
    a64file <content> <start>  `parseFile`: `n` then per line `<lineNo> <text> <class>`
    a64render <ast> <gaps>     the specification's renderer `Spec.A64.render` (wire format: harness/a64gen.py:ast_wire)
    a64expect <ast> <gaps>     canonical tokens of `Spec.A64.expectLine`
    a64domain <ast> <gaps>     1 if AST and layout are inside the domain of `Props.C10.a64_roundtrip`
                               (`Domain.inDomain`), else 0
-/
namespace OsacaVerif.Driver.C10
open OsacaVerif OsacaVerif.Proto OsacaVerif.Text OsacaVerif.ParseA64

def none' : String := "~"
def o (t : Option Txt) : String := match t with | some x => enc x | none => none'

def identToks (i : Ident) : List String := [enc i.name, o i.reloc, o i.offset]

def regToks (r : Reg) : List String :=
  ["R", enc r.pre, enc r.name, o r.shape, o r.lanes, o r.index, o r.pred]

def operandToks : Operand → List String
  | .reg r => regToks r
  | .imm (.int v) => ["Ii", enc (showInt v)]
  | .imm (.flt dbl m e) =>
    ["If", encS (if dbl then "double" else "float"), enc m,
      (match e with | some x => enc x.1 | none => none'),
      (match e with | some x => enc x.2 | none => none')]
  | .ident i => "Id" :: identToks i
  | .cond c => ["Cc", enc c]
  | .prf t g p => ["P", enc t, enc g, enc p]
  | .mem m =>
    ["M"] ++
    (match m.offset with
     | none => [none']
     | some (.imm v) => ["i", enc (showInt v)]
     | some (.ident i) => "d" :: identToks i
     | some .other => ["o"]) ++
    [enc m.basePre, enc m.baseName] ++
    (match m.index with
     | none => [none']
     | some x => ["x", enc x.pre, enc x.name, o x.shiftOp, o x.shift]) ++
    [enc (showNat m.scale), boolS m.pre] ++
    (match m.post with
     | none => [none']
     | some (.imm v) => ["i", enc (showInt v)]
     | some .other => ["o"])

def lineToks : Line → List String
  | .comment c => ["C", enc c]
  | .label n c => ["L", enc n, o c]
  | .directive n ps c => ["D", enc n, toString ps.length] ++ ps.map enc ++ [o c]
  | .instr mn ops c => ["I", enc mn, o c, toString ops.length] ++ (ops.map operandToks).flatten

def outS : Out → String
  | .err => "ERR"
  | .exc => "EXC"
  | .ok l => " ".intercalate (lineToks l)

def classS : Out → String
  | .err => "ERR"
  | .exc => "EXC"
  | .ok (.comment _) => "C"
  | .ok (.label _ _) => "L"
  | .ok (.directive _ _ _) => "D"
  | .ok (.instr _ _ _) => "I"


/-! ### decoding the AST wire format (prefix notation, one field per token) -/
section Wire
open OsacaVerif.Spec.A64

abbrev D (α : Type) := List Txt → Option (α × List Txt)

def dTok : D Txt
  | t :: r => some (t, r)
  | [] => none
def dNat : D Nat := fun ts =>
  match ts with
  | t :: r => match parseNat? t with | some n => some (n, r) | none => none
  | [] => none
def dBool : D Bool := fun ts =>
  match ts with
  | [49] :: r => some (true, r)
  | [48] :: r => some (false, r)
  | _ => none
def dCh : D Nat := fun ts =>
  match ts with
  | [c] :: r => some (c, r)
  | _ => none
def dOpt {α : Type} (p : D α) : D (Option α) := fun ts =>
  match ts with
  | [126] :: r => some (none, r)
  | _ => match p ts with | some (x, r) => some (some x, r) | none => none
def dRep {α : Type} (p : D α) : Nat → D (List α)
  | 0, ts => some ([], ts)
  | n + 1, ts =>
    match p ts with
    | some (x, r) => match dRep p n r with | some (xs, r1) => some (x :: xs, r1) | none => none
    | none => none
def tag (t : Txt) : String := toStr t

def dElem : D ElemA := fun ts => do
  let (t, r) ← dTok ts
  match tag t with
  | "es" => do let (p, r) ← dCh r; let (n, r) ← dNat r; some (.scalar p n, r)
  | "ev" => do
    let (p, r) ← dCh r; let (n, r) ← dNat r; let (l, r) ← dOpt dTok r; let (s, r) ← dOpt dCh r
    some (.vec p n l s, r)
  | _ => none

def dReg : D RegA := fun ts => do
  let (t, r) ← dTok ts
  match tag t with
  | "sc" => do let (p, r) ← dCh r; let (n, r) ← dNat r; some (.scalar p n, r)
  | "al" => do let (a, r) ← dTok r; some (.alias a, r)
  | "ve" => do
    let (p, r) ← dCh r; let (n, r) ← dNat r; let (l, r) ← dOpt dTok r; let (s, r) ← dOpt dCh r
    let (i, r) ← dOpt dNat r
    some (.vec p n l s i, r)
  | "pr" => do
    let (p, r) ← dCh r; let (n, r) ← dNat r; let (k, r) ← dTok r
    match tag k with
    | "~" => some (.pred p n .none, r)
    | "P" => do let (c, r) ← dCh r; some (.pred p n (.pred c), r)
    | "S" => do let (l, r) ← dOpt dTok r; let (c, r) ← dCh r; some (.pred p n (.shape l c), r)
    | _ => none
  | _ => none

def dInt : D IntA := fun ts => do
  let (h, r) ← dBool ts; let (n, r) ← dBool r; let (x, r) ← dBool r; let (u, r) ← dBool r; let (a, r) ← dNat r
  some (⟨h, n, x, u, a⟩, r)

def dIdent : D IdentA := fun ts => do
  let (h, r) ← dBool ts; let (rl, r) ← dOpt dTok r; let (n, r) ← dTok r; let (o, r) ← dOpt dTok r
  some (⟨h, rl, n, o⟩, r)

def dMem : D MemA := fun ts => do
  let (b, r) ← dReg ts
  let (k, r) ← dTok r
  let (mid, r) ← (match tag k with
    | "N" => some (MemMidA.none, r)
    | "O" => do
      let (k2, r) ← dTok r
      match tag k2 with
      | "im" => do let (i, r) ← dInt r; some (MemMidA.off (.int i), r)
      | "id" => do let (i, r) ← dIdent r; some (MemMidA.off (.ident i), r)
      | _ => none
    | "X" => do
      let (x, r) ← dReg r
      let (op, r) ← dOpt dTok r
      match op with
      | none => some (MemMidA.idx x none, r)
      | some o => do
        let (am, r) ← dOpt (fun ts => do let (h, r) ← dBool ts; let (a, r) ← dNat r; some ((h, a), r)) r
        some (MemMidA.idx x (some ⟨o, am⟩), r)
    | _ => none)
  let (pre, r) ← dBool r
  let (post, r) ← dOpt dInt r
  some (⟨b, mid, pre, post⟩, r)

def dOp : D OpA := fun ts => do
  let (t, r) ← dTok ts
  match tag t with
  | "ls" => do
    let (i, r) ← dOpt dNat r; let (k, r) ← dNat r; let (es, r) ← dRep dElem k r
    some (.list es i, r)
  | "rg" => do let (i, r) ← dOpt dNat r; let (e, r) ← dElem r; let (b, r) ← dNat r; some (.range e b i, r)
  | "im" => do let (i, r) ← dInt r; some (.int i, r)
  | "fl" => do
    let (h, r) ← dBool r; let (n, r) ← dBool r; let (ip, r) ← dTok r; let (fp, r) ← dTok r
    let (e, r) ← dOpt (fun ts => do
      let (c, r) ← dCh ts; let (sg, r) ← dCh r; let (d, r) ← dTok r; some ((c, sg, d), r)) r
    let (f, r) ← dOpt dCh r
    some (.flt h n ip fp e f, r)
  | "sh" => do
    let (h, r) ← dBool r; let (x, r) ← dBool r; let (v, r) ← dNat r; let (op, r) ← dTok r
    let (ah, r) ← dBool r; let (a, r) ← dNat r
    some (.shimm h x v op ah a, r)
  | "cc" => do let (c, r) ← dTok r; some (.cond c, r)
  | "id" => do let (i, r) ← dIdent r; some (.ident i, r)
  | "pf" => do let (a, r) ← dTok r; let (b, r) ← dTok r; let (c, r) ← dTok r; some (.prf a b c, r)
  | "mm" => do let (m, r) ← dMem r; some (.mem m, r)
  | _ => do let (x, r) ← dReg ts; some (.reg x, r)

def dInstr : D (InstrA × List Txt) := fun ts => do
  let (mn, r) ← dTok ts
  let (k, r) ← dNat r
  let (ops, r) ← dRep dOp k r
  let (c, r) ← dOpt (fun ts => do let (n, r) ← dNat ts; dRep dTok n r) r
  let (ng, r) ← dNat r
  let (gs, r) ← dRep dTok ng r
  some ((⟨mn, ops, c⟩, gs), r)

end Wire

def handle (r : Req) : Option String :=
  match r.op, r.args with
  | "a64parse", [l] => some (outS (parseLine (field l)))
  | "a64file", [c, st] =>
    let fl := parseFile (field c) ((parseNat? (field st)).getD 0)
    some (" ".intercalate (toString fl.length ::
      (fl.map fun x => toString x.lineNo ++ " " ++ enc x.text ++ " " ++ classS x.out)))
  | "a64render", args =>
    match dInstr (args.map field) with
    | some ((a, gs), []) => some (enc (Spec.A64.render a gs))
    | _ => some "bad-ast"
  | "a64domain", args =>
    match dInstr (args.map field) with
    | some ((a, gs), []) => some (boolS (Domain.inDomain a gs))
    | _ => some "bad-ast"
  | "a64expect", args =>
    match dInstr (args.map field) with
    | some ((a, _), []) => some (" ".intercalate (lineToks (Spec.A64.expectLine a)))
    | _ => some "bad-ast"
  | _, _ => none

end OsacaVerif.Driver.C10
