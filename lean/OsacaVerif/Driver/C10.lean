import OsacaVerif.Driver.Proto
import OsacaVerif.Model.ParseA64
/-
  Driver ops of C10 (AArch64 parser).
    a64parse <line>            canonical token form of `parseLine` (same as harness/a64canon.py)
    a64file <content> <start>  `parseFile`: `n` then per line `<lineNo> <text> <class>`
-/
namespace OsacaVerif.Driver.C10
open OsacaVerif OsacaVerif.Proto OsacaVerif.Text OsacaVerif.ParseA64

def none' : String := "~"
def o (t : Option Txt) : String := match t with | some x => enc x | none => none'

def identToks (i : Ident) : List String := [enc i.name, o i.reloc, o i.offset]

def regToks (r : Reg) : List String :=
  ["R", enc r.pre, enc r.name, o r.shape, o r.lanes, o r.index, o r.pred]

def operandToks : Operand → List String
  | .reg r => regToks r
  | .imm (.int v) => ["Ii", enc (showInt v)]
  | .imm (.flt dbl m e) =>
    ["If", encS (if dbl then "double" else "float"), enc m,
      (match e with | some x => enc x.1 | none => none'),
      (match e with | some x => enc x.2 | none => none')]
  | .ident i => "Id" :: identToks i
  | .cond c => ["Cc", enc c]
  | .prf t g p => ["P", enc t, enc g, enc p]
  | .mem m =>
    ["M"] ++
    (match m.offset with
     | none => [none']
     | some (.imm v) => ["i", enc (showInt v)]
     | some (.ident i) => "d" :: identToks i
     | some .other => ["o"]) ++
    [enc m.basePre, enc m.baseName] ++
    (match m.index with
     | none => [none']
     | some x => ["x", enc x.pre, enc x.name, o x.shiftOp, o x.shift]) ++
    [enc (showNat m.scale), boolS m.pre] ++
    (match m.post with
     | none => [none']
     | some (.imm v) => ["i", enc (showInt v)]
     | some .other => ["o"])

def lineToks : Line → List String
  | .comment c => ["C", enc c]
  | .label n c => ["L", enc n, o c]
  | .directive n ps c => ["D", enc n, toString ps.length] ++ ps.map enc ++ [o c]
  | .instr mn ops c => ["I", enc mn, o c, toString ops.length] ++ (ops.map operandToks).flatten

def outS : Out → String
  | .err => "ERR"
  | .exc => "EXC"
  | .ok l => " ".intercalate (lineToks l)

def classS : Out → String
  | .err => "ERR"
  | .exc => "EXC"
  | .ok (.comment _) => "C"
  | .ok (.label _ _) => "L"
  | .ok (.directive _ _ _) => "D"
  | .ok (.instr _ _ _) => "I"

def handle (r : Req) : Option String :=
  match r.op, r.args with
  | "a64parse", [l] => some (outS (parseLine (field l)))
  | "a64file", [c, st] =>
    let fl := parseFile (field c) ((parseNat? (field st)).getD 0)
    some (" ".intercalate (toString fl.length ::
      (fl.map fun x => toString x.lineNo ++ " " ++ enc x.text ++ " " ++ classS x.out)))
  | _, _ => none

end OsacaVerif.Driver.C10
