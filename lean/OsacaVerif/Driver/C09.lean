import OsacaVerif.Driver.Proto
import OsacaVerif.Model.ParseX86
/-
  Driver ops of C09.
    x86line <line>            -> canonical rendering of `parseLine`
    x86file <start> <content> -> `<n>` records `lineNo <text> <rendering>` separated by ` || `
  Canonical rendering (fields separated by one blank, texts `=`-encoded, `~` = None):
    E                                  ValueError
    A                                  AttributeError
    K <mnemonic> <label> <dirname> <comment> <nparams> <param>… <nops> <op>…
  operand:  R;<name>   I;<int>   L;<name>   M;<off>;<base>;<index>;<scale>;<seg>
  off:      ~  |  I<int>  |  S=<text>  |  L=<name>  |  J
-/
namespace OsacaVerif.Driver.C09
open OsacaVerif OsacaVerif.Proto OsacaVerif.Text OsacaVerif.X86

def optT : Option Txt → String
  | none => "~"
  | some t => enc t

def showOff : Option Off → String
  | none => "~"
  | some (.imm v) => "I" ++ toString v
  | some (.str t) => "S" ++ enc t
  | some (.ident n) => "L" ++ enc n
  | some .junk => "J"

def showOp : Operand → String
  | .reg n => "R;" ++ enc n
  | .imm v => "I;" ++ toString v
  | .ident n => "L;" ++ enc n
  | .mem o b i s seg => "M;" ++ showOff o ++ ";" ++ optT b ++ ";" ++ optT i ++ ";" ++ toString s ++ ";" ++ boolS seg

def showRes : Res → String
  | .err .value => "E"
  | .err .attr => "A"
  | .ok f =>
    let (dn, ps) : String × List Txt := match f.directive with
      | none => ("~", [])
      | some (n, ps) => (enc n, ps)
    " ".intercalate (["K", optT f.mnemonic, optT f.label, dn, optT f.comment, toString ps.length]
      ++ ps.map enc ++ [toString f.operands.length] ++ f.operands.map showOp)

def handle (r : Req) : Option String :=
  match r.op, r.args with
  | "x86line", [l] => some (showRes (ParseX86.parseLine (field l)))
  | "x86file", [s, c] =>
    let start := (parseNat? (field s)).getD 0
    let ls := ParseX86.parseFile start (field c)
    some (" || ".intercalate (toString ls.length ::
      ls.map fun p => toString p.lineNo ++ " " ++ enc p.text ++ " " ++ showRes p.res))
  | _, _ => none

end OsacaVerif.Driver.C09
