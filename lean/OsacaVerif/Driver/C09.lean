import OsacaVerif.Driver.Proto
import OsacaVerif.Model.ParseX86
import OsacaVerif.Spec.X86Render
/-
  Driver ops of C09.
    x86line <line>            -> canonical rendering of `parseLine`
    x86file <start> <content> -> `<n>` records `lineNo <text> <rendering>` separated by ` || `
    x86spec <fields…>         -> `<valid> <rendered text> <rendering of the expected form>`: the
                                 *specification's* renderer (`Spec.X86R.renderLine`, `Line.valid`,
                                 `Line.expected`) on a line given as AST + layout (field order: see `decodeLine`)
  Canonical rendering (fields separated by one blank, texts `=`-encoded, `~` = None):
    E                                  ValueError
    A                                  AttributeError
    K <mnemonic> <label> <dirname> <comment> <nparams> <param>… <nops> <op>…
  operand:  R;<name>   I;<int>   L;<name>   M;<off>;<base>;<index>;<scale>;<seg>
  off:      ~  |  I<int>  |  S=<text>  |  L=<name>  |  J
-/
namespace OsacaVerif.Driver.C09
open OsacaVerif OsacaVerif.Proto OsacaVerif.Text OsacaVerif.X86

def optT : Option Txt → String
  | none => "~"
  | some t => enc t

def showOff : Option Off → String
  | none => "~"
  | some (.imm v) => "I" ++ toString v
  | some (.str t) => "S" ++ enc t
  | some (.ident n) => "L" ++ enc n
  | some .junk => "J"

def showOp : Operand → String
  | .reg n => "R;" ++ enc n
  | .imm v => "I;" ++ toString v
  | .ident n => "L;" ++ enc n
  | .mem o b i s seg => "M;" ++ showOff o ++ ";" ++ optT b ++ ";" ++ optT i ++ ";" ++ toString s ++ ";" ++ boolS seg

def showRes : Res → String
  | .err .value => "E"
  | .err .attr => "A"
  | .ok f =>
    let (dn, ps) : String × List Txt := match f.directive with
      | none => ("~", [])
      | some (n, ps) => (enc n, ps)
    " ".intercalate (["K", optT f.mnemonic, optT f.label, dn, optT f.comment, toString ps.length]
      ++ ps.map enc ++ [toString f.operands.length] ++ f.operands.map showOp)


/-! decoding of a `Spec.X86R.Line` from protocol fields (for `x86spec`) -/
open OsacaVerif.Spec.X86R in
def decodeOps : Nat → List Txt → Option (List (OpLayout × Operand) × List Txt)
  | 0, fs => some ([], fs)
  | n + 1, pre :: post :: hex :: upper :: zeros :: bare :: showScale :: w1 :: w2 :: w3 :: w4 :: w5 :: w6 :: w7 ::
      kind :: rest =>
    let L : OpLayout :=
      { pre := pre, post := post,
        num := { hex := hex == [49], upper := upper == [49], zeros := (parseNat? zeros).getD 0 },
        bare := bare == [49], showScale := showScale == [49],
        w1 := w1, w2 := w2, w3 := w3, w4 := w4, w5 := w5, w6 := w6, w7 := w7 }
    let opr : Option (Operand × List Txt) :=
      match kind, rest with
      | [82], name :: r => some (.reg name, r)                                   -- R
      | [73], v :: r => (parseInt? v).map fun i => (.imm i, r)                   -- I
      | [76], name :: r => some (.ident name, r)                                 -- L
      | [77], ok :: ov :: bf :: b :: xf :: x :: sc :: r =>                        -- M
        let off : Option (Option Off) :=
          if ok == [48] then some none
          else if ok == [49] then (parseInt? ov).map fun i => some (.imm i)
          else some (some (.ident ov))
        off.map fun o => (.mem o (if bf == [49] then some b else none) (if xf == [49] then some x else none)
          ((parseNat? sc).getD 0) false, r)
      | _, _ => none
    match opr with
    | none => none
    | some (o, r) => (decodeOps n r).map fun (os, r') => ((L, o) :: os, r')
  | _, _ => none

def decodeWords : Nat → List Txt → Option (List (Txt × Txt) × List Txt)
  | 0, fs => some ([], fs)
  | n + 1, g :: w :: r => (decodeWords n r).map fun (ws, r') => ((g, w) :: ws, r')
  | _, _ => none

open OsacaVerif.Spec.X86R in
/-- fields: indent mn trail comment(0 none | 1 `#` | 2 `//`) nwords (gap word)* last nops (operand)* -/
def decodeLine : List Txt → Option Line
  | indent :: mn :: trail :: cf :: nw :: rest =>
    match decodeWords ((parseNat? nw).getD 0) rest with
    | some (ws, last :: nops :: r) =>
      (decodeOps ((parseNat? nops).getD 0) r).map fun (ops, _) =>
        { indent := indent, mn := mn, ops := ops, trail := trail,
          comment := if cf == [48] then none else some { slashes := cf == [50], words := ws, last := last } }
    | _ => none
  | _ => none

def handle (r : Req) : Option String :=
  match r.op, r.args with
  | "x86line", [l] => some (showRes (ParseX86.parseLine (field l)))
  | "x86file", [s, c] =>
    let start := (parseNat? (field s)).getD 0
    let ls := ParseX86.parseFile start (field c)
    some (" || ".intercalate (toString ls.length ::
      ls.map fun p => toString p.lineNo ++ " " ++ enc p.text ++ " " ++ showRes p.res))
  | "x86spec", fs =>
    match decodeLine (fs.map field) with
    | none => some "bad-line"
    | some l =>
      some (boolS l.valid ++ " " ++ enc (Spec.X86R.renderLine l) ++ " " ++ showRes (.ok l.expected))
  | _, _ => none

end OsacaVerif.Driver.C09
