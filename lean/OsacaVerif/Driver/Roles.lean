import OsacaVerif.Driver.C07
import OsacaVerif.Driver.DGraph
import OsacaVerif.Model.IsaLoad
import OsacaVerif.Gen.IsaDb_x86
import OsacaVerif.Gen.IsaDb_aarch64
/-
  Line-protocol ops of the operand-role / register-change model (`Model/Isa.lean`), used by
  harness/rolescheck.py.

  roles <isa> <forms:Y> <kernel:Y>
      forms  = raw `instruction_forms` of the ISA database the implementation loaded (ruamel, safe loader)
      kernel = L[ L[ mnemonic | N , L[ operand … ] ] … ],
      operand = L[ canon (as harness/c07synth.canon_operand), key, value, offset, postvalue ]
        value / postvalue: R<int>; | N | S… (anything else)     offset: N | R<int>; | "n" | "?" | "x"
        postvalue "a": `post_indexed` is a dict WITHOUT "value" (post-index by a register / a symbol)
      reply: one token per instruction:  src;dst;srcdst;ld;st;changes;changes_postindexed
  rolesdbdump <isa> <forms:Y>   roles / hidden operands / idiom flag / operation class of every loaded entry
  rolesdbcmp  <isa> <forms:Y>   is the generated `Gen.isaDb…` the same database as `loadDb forms`?
  rolesops                      the translated operation strings with the index of the first equal program
  dgfull <isa> <flagdeps> <stlf> <pidx> <forms:Y> <kernel:Y>
      the dependency graph from the PARSED operands: roles and register changes by `Model/Isa.lean`, graph by
      `Model/DG.lean`;  kernel = L[ L[line, latency, latency_wo_load | N, is_load_flag, mnemonic | N, L[operand …]] … ]
      reply: edge list as the `dg` op, or `raise` (a register-change query raises), `unsupported`, `hidden-mem`
-/
namespace OsacaVerif.Driver.Roles
open OsacaVerif OsacaVerif.Proto OsacaVerif.Text OsacaVerif.Operand OsacaVerif.YCodec OsacaVerif.Isa
open OsacaVerif.IsaOp

def sep (s : String) (l : List String) : String := s.intercalate l

def optS : Option Txt → String
  | some t => toStr t
  | none => "~"

def b01 (b : Bool) : String := if b then "1" else "0"

/-! ### decoding -/

def valOfY : Y → Val
  | .num q => if q.den == 1 then .int q.num else .other
  | .null => .none
  | .str [97] => .absent          -- "a": a `post_indexed` dictionary without the key "value"
  | _ => .other

def offOfY : Y → MOff
  | .null => .absent
  | .num q => if q.den == 1 then .imm (.int q.num) else .imm .other
  | .str [110] => .imm .none      -- "n"
  | .str [63] => .imm .other      -- "?"
  | _ => .obj

def opndOfY : Y → Option Opnd
  | .list [.str canon, .str key, v, off, pv] =>
    (C07.decodeOperand canon).map fun p =>
      { p := p, key := key, val := valOfY v, off := offOfY off, postVal := valOfY pv,
        offSym := (match off with | .list [.str [115], .str t] => t | _ => []) }    -- ["s", key]: an identifier
  | _ => none

def insOfY : Y → Option (Option Txt × List Opnd)
  | .list [mn, .list ops] =>
    match mapOpt opndOfY ops with
    | some l =>
      (match mn with
       | .str t => some (some t, l)
       | .null => some (none, l)
       | _ => none)
    | none => none
  | _ => none

/-! ### rendering (same text as harness/rolescheck.py writes for the implementation's objects) -/

def regS (pfx : Option Txt) (name : Txt) (pre post : Bool) : String :=
  "r," ++ toStr (pfx.getD []) ++ "," ++ toStr name ++ "," ++ b01 pre ++ "," ++ b01 post

def subReg (pfx : Option Txt) (name : Txt) : String := toStr (pfx.getD []) ++ "." ++ toStr name

def offS : MOff → String
  | .absent => "~"
  | .imm (.int v) => toString v
  | _ => "id"

def semOpS : SemOp → String
  | .op _ o =>
    match o.p with
    | .reg r => regS r.pfx r.name false false
    | .mem m =>
      "m," ++ (match m.base with | some b => subReg b.pfx b.name | none => "~") ++ "," ++
      (match m.index with | some b => subReg b.pfx b.name | none => "~") ++ "," ++ toString m.scale ++ "," ++
      offS o.off ++ "," ++ b01 m.pre ++ "," ++ b01 m.post ++ "," ++ toStr o.key
    | _ => "o"
  | .hid (.reg p n) => regS p n false false
  | .hid (.flag n) => "f," ++ toStr n
  | .hid (.mem b i sc off) =>
    "m," ++ (match b with | some n => subReg none n | none => "~") ++ "," ++
    (match i with | some x => subReg x.1 x.2 | none => "~") ++ "," ++ toString sc ++ "," ++
    (if off then "id" else "~") ++ ",0,0,H"
  | .hid .other => "o"
  | .wb _ b pre post _ => regS b.pfx b.name pre post

def listS (l : List SemOp) : String := sep "|" (l.map semOpS)

def errS : Err → String
  | .nameError => "NameError"
  | .keyError => "KeyError"
  | .typeError => "TypeError"
  | .valueError => "ValueError"
  | .attributeError => "AttributeError"
  | .unsupported => "unsupported"

def changeS (e : Txt × Option OpState) : String :=
  toStr e.1 ++ "=" ++
  (match e.2 with
   | none => "~"
   | some d => optS d.name ++ ":" ++ (match d.value with | some v => toString v | none => "~"))

def changesS : Except Err (List (Txt × Option OpState)) → String
  | .ok l => sep "|" (l.map changeS)
  | .error .unsupported => "unsupported"
  | .error e => "raise:" ++ errS e

def answer (isa : Isa) (db : List IsaEntry) (q : Option Txt × List Opnd) : String :=
  let r := assignSrcDst isa db q.1 q.2
  sep ";" [listS r.sem.src, listS r.sem.dst, listS r.sem.srcDst, b01 r.hasLd, b01 r.hasSt,
           changesS (regChanges isa db q.1 q.2 r.sem false), changesS (regChanges isa db q.1 q.2 r.sem true)]

/-! ### database dumps -/

def roleS (r : Role) : String := b01 r.src ++ b01 r.dst

def hopS : HOp × Role → String
  | (.reg p n, r) => "r:" ++ optS p ++ ":" ++ toStr n ++ ":" ++ roleS r
  | (.flag n, r) => "f:" ++ toStr n ++ ":" ++ roleS r
  | (.mem b i sc off, r) =>
    "m:" ++ optS b ++ ":" ++ (match i with | some x => optS x.1 ++ "." ++ toStr x.2 | none => "~") ++ ":" ++
    toString sc ++ ":" ++ b01 off ++ ":" ++ roleS r
  | (.other, r) => "o:" ++ roleS r

/-- index of the first translated program equal to `p` -/
def opClass (p : Prog) : String :=
  let i := Gen.operations.findIdx (fun x => x.2 == p)
  if i < Gen.operations.length then toString i else "?"

def entryS (e : IsaEntry) : String :=
  toStr e.e.name ++ "/" ++ sep "," (e.roles.map roleS) ++ "/" ++ sep "," (e.hidden.map hopS) ++ "/" ++ b01 e.brk ++ "/" ++
  (match e.operation with | some p => opClass p | none => "-")

def eopS : EOperand → String
  | .reg n p s => "reg(" ++ optS n ++ "," ++ optS p ++ "," ++ optS s ++ ")"
  | .mem b o i s pre post =>
    "mem(" ++ sep "," [C07.encodeY b, C07.encodeY o, C07.encodeY i, C07.encodeY s, C07.encodeY pre, C07.encodeY post] ++ ")"
  | .imm t => "imm(" ++ C07.encodeY t ++ ")"
  | .ident => "ident"
  | .cond c => "cond(" ++ toStr c ++ ")"
  | .flag => "flag"
  | .prfop => "prfop"
  | .other => "other"

def fullS (e : IsaEntry) : String := entryS e ++ "/" ++ sep "," (e.e.operands.map eopS)

def genDb : Isa → List IsaEntry
  | .x86 => Gen.isaDbX86
  | .a64 => Gen.isaDbA64

def firstDiff : Nat → List String → List String → Option Nat
  | _, [], [] => none
  | i, a :: as, b :: bs => if a == b then firstDiff (i + 1) as bs else some i
  | i, _, _ => some i

/-! ### the composed path: parsed operands → roles → graph -/

def hasHiddenMem (s : Sem) : Bool :=
  (s.src ++ s.dst ++ s.srcDst).any fun x => match x with
    | .hid (.mem _ _ _ _) => true
    | _ => false

inductive Full where
  | ok (i : DG.Ins)
  | raise | unsupported | hiddenMem | bad

def fullIns (isa : Isa) (db : List IsaEntry) : Y → Full
  | .list [line, lat, latwo, isLd, mn, .list ops] =>
    match insOfY (.list [mn, .list ops]) with
    | none => .bad
    | some q =>
      let r := assignSrcDst isa db q.1 q.2
      if hasHiddenMem r.sem then .hiddenMem else
      match regChanges isa db q.1 q.2 r.sem false, regChanges isa db q.1 q.2 r.sem true with
      | .ok ch, .ok chp =>
        .ok { line := DGraph.yNat line, lat := DGraph.yRat lat,
              latWoLoad := (match latwo with | .num x => some x | _ => none),
              hasLd := r.hasLd, isLd := DGraph.yBool isLd,
              src := r.sem.src.map toDG, dst := r.sem.dst.map toDG, srcDst := r.sem.srcDst.map toDG,
              changes := ch.map (fun e => (e.1, toChange e.2)),
              changesPost := chp.map (fun e => (e.1, toChange e.2)) }
      | .error .unsupported, _ => .unsupported
      | _, .error .unsupported => .unsupported
      | _, _ => .raise
  | _ => .bad

def fullKernel (isa : Isa) (db : List IsaEntry) (k : List Y) : Except String (List DG.Ins) :=
  k.foldr (fun y acc =>
    match acc with
    | .error e => .error e
    | .ok l =>
      match fullIns isa db y with
      | .ok i => .ok (i :: l)
      | .raise => .error "raise"
      | .unsupported => .error "unsupported"
      | .hiddenMem => .error "hidden-mem"
      | .bad => .error "bad-query") (.ok [])

def dgIsa : Isa → DG.Isa
  | .x86 => .x86
  | .a64 => .a64

def handle (r : Req) : Option String :=
  match r.op, r.args with
  | "roles", [isa, forms, kernel] =>
    some (match C07.decodeIsa (field isa), decodeY forms, decodeY kernel with
      | some i, some y, some (.list k) =>
        (match loadDb Gen.operations (C07.formsOf y) with
         | some db =>
           sep " " (k.map fun q => match insOfY q with
             | some q' => answer i db q'
             | none => "bad-query")
         | none => "load-error")
      | _, _, _ => "bad-request")
  | "rolesdbdump", [isa, forms] =>
    some (match C07.decodeIsa (field isa), decodeY forms with
      | some _, some y =>
        (match loadDb Gen.operations (C07.formsOf y) with
         | some db => sep " " (db.map fun e => encS (entryS e))
         | none => "load-error")
      | _, _ => "bad-request")
  | "rolesdbcmp", [isa, forms] =>
    some (match C07.decodeIsa (field isa), decodeY forms with
      | some i, some y =>
        (match loadDb Gen.operations (C07.formsOf y) with
         | some db =>
           (match firstDiff 0 ((genDb i).map fullS) (db.map fullS) with
            | none => "same " ++ toString db.length
            | some k => "differ " ++ toString k)
         | none => "load-error")
      | _, _ => "bad-request")
  | "dgfull", [isa, fd, stlf, pidx, forms, kernel] =>
    some (match C07.decodeIsa (field isa), decodeY forms, decodeY kernel with
      | some i, some y, some (.list k) =>
        (match loadDb Gen.operations (C07.formsOf y) with
         | some db =>
           (match fullKernel i db k with
            | .ok ins =>
              DGraph.edgesS (DG.create (dgIsa i) (fieldS fd == "1")
                { stlf := DGraph.ratOf stlf, pIdx := DGraph.ratOf pidx } ins)
            | .error e => e)
         | none => "load-error")
      | _, _, _ => "bad-request")
  | "rolesops", [] =>
    some (sep " " (Gen.operations.map fun x => enc x.1 ++ ":" ++ opClass x.2))
  | _, _ => none

end OsacaVerif.Driver.Roles
