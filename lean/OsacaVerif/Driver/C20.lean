import OsacaVerif.Driver.Proto
import OsacaVerif.Model.Import
import OsacaVerif.Spec.ImportSpec
/-
  Line-protocol ops of C20 (benchmark import).

  c20val  tp|lt <m>                           -> none | <rat>          model of _validate_measurement
  c20spec tp|lt <m> none|<rat>                -> 1 | 0                 Spec oracle on an observed result
  c20op   x86|a64 <code>                      -> err | D …             model of _create_db_operand
  c20doc  x86|a64 <code>                      -> undoc | D …           documented convention (Spec)
  c20parse x86|a64 ibench|asmbench <line>…    -> err index|value | ok {E …}   db_entries (with keys)
  c20import x86|a64 ibench|asmbench <existing> <line>…  -> err … | ok {E …}  forms emitted after the model's own
     <existing> = NAME:arity,NAME:arity,…
  D <n> {<key> <val>}      val = S<field> | N | I<nat> | B0 | B1
  E <key> <mnemonic> <tp> <lt> <nops> {D …}
-/
namespace OsacaVerif.Driver.C20
open OsacaVerif OsacaVerif.Proto OsacaVerif.Text OsacaVerif.Import

def isaOf (f : List Char) : Option Isa :=
  match fieldS f with
  | "x86" => some .x86
  | "a64" => some .a64
  | _ => none

def showV : V → String
  | .s t => "S" ++ enc t
  | .none => "N"
  | .n k => "I" ++ toString k
  | .b v => if v then "B1" else "B0"

def showDict (d : Dict) : String :=
  "D " ++ toString d.length ++ String.join (d.map fun kv => " " ++ enc kv.1 ++ " " ++ showV kv.2)

def showOptRat : Option Rat → String
  | none => "none"
  | some q => showRat q

def showEntry (k : Txt) (e : Entry) : String :=
  "E " ++ enc k ++ " " ++ enc e.mnemonic ++ " " ++ showOptRat e.tp ++ " " ++ showOptRat e.lt ++ " " ++
    toString e.operands.length ++ String.join (e.operands.map fun d => " " ++ showDict d)

def showErr : Err → String
  | .index => "err index"
  | .value => "err value"

def splitComma (t : Txt) : List Txt := ImportText.splitOn 44 t

def parseExisting (t : Txt) : List (Txt × Nat) :=
  if t.isEmpty then [] else
  (splitComma t).filterMap fun item =>
    match ImportText.splitOn 58 item with
    | [n, a] => (parseNat? a).map fun k => (n, k)
    | _ => none

def parseOptRat (t : Txt) : Option (Option Rat) :=
  if t == ofString "none" then some none else (parseRat? t).map some

def handle (r : Req) : Option String :=
  match r.op, r.args with
  | "c20val", [mode, m] =>
    match parseRat? (field m) with
    | none => some "bad-number"
    | some q =>
      match fieldS mode with
      | "tp" => some (showOptRat (validateTp q))
      | "lt" => some (showOptRat (validateLt q))
      | _ => some "bad-mode"
  | "c20spec", [mode, m, res] =>
    match parseRat? (field m), parseOptRat (field res) with
    | some q, some rr =>
      match fieldS mode with
      | "tp" => some (boolS (Spec.Import.tpOk q rr))
      | "lt" => some (boolS (Spec.Import.ltOk q rr))
      | _ => some "bad-mode"
    | _, _ => some "bad-number"
  | "c20op", [isa, code] =>
    match isaOf isa with
    | none => some "bad-isa"
    | some i =>
      match createDbOperand i (field code) with
      | none => some "err"
      | some d => some (showDict d)
  | "c20doc", [isa, code] =>
    match isaOf isa with
    | none => some "bad-isa"
    | some .x86 => some (match Spec.Import.docX86 (field code) with | none => "undoc" | some d => showDict d)
    | some .a64 => some (match Spec.Import.docA64 (field code) with | none => "undoc" | some d => showDict d)
  | "c20parse", isa :: kind :: lines =>
    match isaOf isa with
    | none => some "bad-isa"
    | some i =>
      let ls := lines.map field
      let res := if fieldS kind == "asmbench" then asmbench i ls else ibench i ls
      match res with
      | .err e => some (showErr e)
      | .ok acc => some ("ok" ++ String.join (acc.map fun ke => " " ++ showEntry ke.1 ke.2))
  | "c20import", isa :: kind :: existing :: lines =>
    match isaOf isa with
    | none => some "bad-isa"
    | some i =>
      match importBench i (fieldS kind == "asmbench") (parseExisting (field existing)) (lines.map field) with
      | .err e => some (showErr e)
      | .ok es => some ("ok" ++ String.join (es.map fun e => " " ++ showEntry [] e))
  | _, _ => none

end OsacaVerif.Driver.C20
