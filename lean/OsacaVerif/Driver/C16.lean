import OsacaVerif.Driver.Proto
import OsacaVerif.Model.Workers
import OsacaVerif.Model.LcdPost
import OsacaVerif.Spec.LcdSet
/-
  Driver ops of C16 (and the LCD ops C19 shares).  Plain tokens (no blanks inside):
    nat list        `1,2,3`            (empty token `-` = empty list)
    edges           `s,d,lat;s,d,lat`  (lat = `n` or `n/d`)
    paths           `1,2,1001;2,1001,1002`
    batches         one group of paths per kernel root, groups separated by `/`
    result          `l,lat;l,lat:latsum|…`
-/
namespace OsacaVerif.Driver.C16
open OsacaVerif OsacaVerif.Proto OsacaVerif.Text OsacaVerif.LcdPost

def tok (f : List Char) : String := String.ofList f

def parts (s : String) (sep : String) : List String :=
  if s == "-" || s == "" then [] else (s.splitOn sep).filter (· != "")

def nats (s : String) : List Nat := (parts s ",").filterMap String.toNat?

def ratOf (s : String) : Rat := (parseRat? (ofString s)).getD 0

def parseEdges (s : String) : List ((Nat × Nat) × Rat) :=
  (parts s ";").filterMap fun e =>
    match e.splitOn "," with
    | [a, b, l] => match a.toNat?, b.toNat? with
      | some a, some b => some ((a, b), ratOf l)
      | _, _ => none
    | _ => none

def latOf (es : List ((Nat × Nat) × Rat)) (s d : Nat) : Rat := (es.lookup (s, d)).getD 0

def parsePaths (s : String) : List Path := (parts s ";").map nats

def parseBatches (s : String) : List (List Path) :=
  if s == "-" then [] else (s.splitOn "/").map parsePaths

def showNats (l : List Nat) (sep : String := ",") : String :=
  if l.isEmpty then "-" else sep.intercalate (l.map toString)

def showDeps (k : Key) : String :=
  if k.isEmpty then "-" else ";".intercalate (k.map fun p => toString p.1 ++ "," ++ showRat p.2)

def showDict (d : List (List Nat × Entry)) : String :=
  if d.isEmpty then "-" else
  "|".intercalate (d.map fun kv => showNats kv.1 "-" ++ ":" ++ showRat kv.2.1 ++ ":" ++ showDeps kv.2.2)

def parseDeps (s : String) : Key :=
  (parts s ";").filterMap fun e =>
    match e.splitOn "," with
    | [a, l] => a.toNat?.map fun a => (a, ratOf l)
    | _ => none

/-- `deps:latsum|…` -/
def parseResult (s : String) : List (Key × Rat) :=
  (parts s "|").filterMap fun e =>
    match e.splitOn ":" with
    | [d, l] => some (parseDeps d, ratOf l)
    | _ => none

def hyps (es : List Entry) : String := "S" ++ boolS (sumByKeyB es) ++ " U" ++ boolS (linesUniqueB es)

def handle (r : Req) : Option String :=
  match r.op, r.args.map tok with
  | "partition", [klen, n] =>
    match klen.toNat?, n.toNat? with
    | some klen, some n =>
      let p := Workers.partition klen n
      some (toString p.1 ++ " " ++ showNats p.2.1 ++ " " ++ showNats p.2.2 ++ " " ++ boolS (Gen.useParallel klen))
    | _, _ => some "bad-args"
  | "slices", [kernel, n] =>
    match n.toNat? with
    | some n => some ("|".intercalate ((Workers.slices (nats kernel) n).map (showNats ·)))
    | none => some "bad-args"
  | "covers", [kernel, sections] =>
    some (boolS (Spec.Lcd.coversB (nats kernel) ((sections.splitOn "|").map nats)))
  | "lcdpost", [offset, edges, paths] =>
    -- sequential / given arrival order: post-processing of the path list as given
    let lat := latOf (parseEdges edges)
    let off := offset.toNat?.getD 0
    let ps := parsePaths paths
    let es := ps.map (norm sumExact lat off)
    some (hyps es ++ " " ++ showDict (post sumExact lat off ps))
  | "lcdpar", [offset, edges, kernel, n, sched, batches] =>
    -- the multi-process search: partition, queues, arrival order `merge sched`, post-processing
    let lat := latOf (parseEdges edges)
    let off := offset.toNat?.getD 0
    let roots := nats kernel
    let bs := parseBatches batches
    let table := roots.zip bs
    let batch := fun (r : Nat) => (table.lookup r).getD []
    let qs := Workers.queues batch roots (n.toNat?.getD 1)
    let arr := Workers.merge (nats sched) qs
    some (showDict (post sumExact lat off arr.flatten))
  | "lcdspec", [offset, edges, paths, result] =>
    let lat := latOf (parseEdges edges)
    some (boolS (Spec.Lcd.agreesB lat (offset.toNat?.getD 1) (parsePaths paths) (parseResult result)))
  | "lcdcycles", [offset, edges, result] =>
    -- number of reported items that are NOT genuine cycles with correct latency, and the first one
    let es := parseEdges edges
    let edge := fun (s d : Nat) => es.lookup (s, d)
    let bad := (parseResult result).filter fun r => !Spec.Lcd.isCycleB edge (offset.toNat?.getD 1) r.1 r.2
    some (toString bad.length ++ " " ++ (match bad.head? with | some b => showDeps b.1 | none => "-"))
  | "lcdsub", [part, full] => some (boolS (Spec.Lcd.subResultB (parseResult part) (parseResult full)))
  | _, _ => none

end OsacaVerif.Driver.C16
