import OsacaVerif.Driver.Proto
import OsacaVerif.Model.History
import OsacaVerif.Model.HistoryGen
import OsacaVerif.Spec.HistoryIndep
/-
  Line-protocol ops of C18.

  Text encodings (inside one protocol field):
    list of numbers      `1,2,3`                    (empty list: empty text)
    list of lists        `1,2;3;;4`                 (`;` separates; an empty text is the empty outer list,
                                                     a single empty inner list is written `-`)
    Db                   `forms|loads|stores|loadDefault|storeDefault|hidden`
    kernel line          `f<k>` `l<k>.e<i>` `l<k>.d` `s<k>.e<j>` `s<k>.d` `m<k>.e<i>.e<j>` (or `.d`) `u` `o`,
                         optionally followed by `h<n>` (hidden operands of ISA entry n);  lines joined by `;`
    cfg                  `gen` or seven `0/1` in the order of `History.Cfg`
    row (reply)          `<known 0/1><r|o>:<uops>:<r|o>:<hidden>`, rows joined by `;`
-/
namespace OsacaVerif.Driver.C18
open OsacaVerif OsacaVerif.Proto OsacaVerif.Text OsacaVerif.History

def splitOn (sep : Nat) (t : Txt) : List Txt :=
  let rec go (cur : Txt) (acc : List Txt) : Txt → List Txt
    | [] => (cur.reverse :: acc).reverse
    | c :: cs => if c == sep then go [] (cur.reverse :: acc) cs else go (c :: cur) acc cs
  go [] [] t

def nums (t : Txt) : List Nat :=
  if t.isEmpty then [] else (splitOn 44 t).map (fun x => (parseNat? x).getD 0)

def lists (t : Txt) : List (List Nat) :=
  if t.isEmpty then [] else (splitOn 59 t).map (fun x => if x == [45] then [] else nums x)

def showNums (l : List Nat) : String := ",".intercalate (l.map toString)
def showLists (l : List (List Nat)) : String :=
  ";".intercalate (l.map (fun x => if x.isEmpty then "-" else showNums x))

def parseDb (t : Txt) : Db :=
  match splitOn 124 t with
  | [f, l, s, ld, sd, h] => ⟨lists f, lists l, lists s, nums ld, nums sd, lists h⟩
  | _ => default

def showDb (d : Db) : String :=
  "|".intercalate [showLists d.forms, showLists d.loads, showLists d.stores, showNums d.loadDefault,
    showNums d.storeDefault, showLists d.hidden]

def parseMem (t : Txt) : Mem :=
  match t with
  | 101 :: r => .entry ((parseNat? r).getD 0)   -- e<i>
  | _ => .dflt

def natOf (t : Txt) : Nat := (parseNat? t).getD 0

def parseIns (t : Txt) : Ins :=
  match t with
  | 102 :: r => .found (natOf r)                                  -- f
  | 108 :: r => match splitOn 46 r with                           -- l
    | [k, m] => .load (natOf k) (parseMem m)
    | _ => .other
  | 115 :: r => match splitOn 46 r with                           -- s
    | [k, m] => .store (natOf k) (parseMem m)
    | _ => .other
  | 109 :: r => match splitOn 46 r with                           -- m
    | [k, a, b] => .rmw (natOf k) (parseMem a) (parseMem b)
    | _ => .other
  | [117] => .unknown                                             -- u
  | _ => .other

def parseLine (t : Txt) : Line :=
  match splitOn 104 t with                                        -- h
  | [i, h] => ⟨parseIns i, some (natOf h)⟩
  | i :: _ => ⟨parseIns i, none⟩
  | [] => ⟨.other, none⟩

def parseKernel (t : Txt) : Kernel := if t.isEmpty then [] else (splitOn 59 t).map parseLine

def bit (t : Txt) (i : Nat) : Bool := t.getD i 48 == 49

def parseCfg (t : Txt) : Cfg :=
  if t == ofString "gen" then genCfg
  else ⟨bit t 0, bit t 1, bit t 2, bit t 3, bit t 4, bit t 5, bit t 6⟩

def showCfg (c : Cfg) : String :=
  String.join ([c.rmwInPlace, c.rmwLoadFirst, c.loadByRef, c.loadDefaultCopied, c.foundByRef, c.hiddenByRef,
    c.cacheShadowed].map boolS)

def showRow (db : Db) (r : Row) : String :=
  boolS r.known ++ (if r.uops.isRef then "r" else "o") ++ ":" ++ showNums (r.uops.get db) ++ ":" ++
  (if r.hid.isRef then "r" else "o") ++ ":" ++ showNums (r.hid.get db)

def showRows (db : Db) (rows : List Row) : String := ";".intercalate (rows.map (showRow db))

/-- requests of the process-level op: `path|kernel` joined by `/` -/
def parseRequests (t : Txt) : List Request :=
  if t.isEmpty then [] else (splitOn 47 t).map fun x =>
    match splitOn 124 x with
    | [p, k] => ⟨natOf p, parseKernel k⟩
    | _ => ⟨0, []⟩

/-- process run that also shows rows with their aliasing and the data object left in the cache -/
def procTrace (cfg : Cfg) (disk : Nat → Db) : Proc → List Request → List String
  | _, [] => []
  | p, r :: rs =>
    let data := loadModel cfg disk p r.path
    let s := semantics cfg data r.kernel
    let p' := (inspect cfg disk p r).1
    (showRows s.1 s.2 ++ "#" ++ showDb ((p'.lookup r.path).getD default)) :: procTrace cfg disk p' rs

def handle (r : Req) : Option String :=
  match r.op, r.args with
  | "c18cfg", [] => some (showCfg genCfg ++ " safe=" ++ boolS genCfg.safe)
  | "c18analyse", [c, d, k] =>
    let cfg := parseCfg (field c); let db := parseDb (field d)
    let s := semantics cfg db (parseKernel (field k))
    some (encS (showDb s.1) ++ " " ++ encS (showRows s.1 s.2))
  | "c18history", c :: d :: ks =>
    -- one shared model object: db, kernels... -> per call `rows#db`
    let cfg := parseCfg (field c)
    let rec go (db : Db) : List (List Char) → List String
      | [] => []
      | k :: rest =>
        let s := semantics cfg db (parseKernel (field k))
        (showRows s.1 s.2 ++ "#" ++ showDb s.1) :: go s.1 rest
    some (" ".intercalate ((go (parseDb (field d)) ks).map encS))
  | "c18proc", c :: rq :: disks =>
    let cfg := parseCfg (field c)
    let dbs := disks.map (fun d => parseDb (field d))
    let disk := fun i => dbs.getD i default
    some (" ".intercalate ((procTrace cfg disk Proc.fresh (parseRequests (field rq))).map encS))
  | "c18firstdiff", [a, b] =>
    let la := splitOn 44 (field a); let lb := splitOn 44 (field b)
    some (match Spec.HistoryIndep.firstDiff la lb with | none => "none" | some i => toString i)
  | "c18polluted", pr :: after =>
    -- pristine `key:digest,key:digest`; one field per call with the same shape
    let kv := fun (t : Txt) => (if t.isEmpty then [] else splitOn 44 t).map fun x =>
      match splitOn 58 x with
      | [k, v] => (k, v)
      | _ => (x, [])
    some (match Spec.HistoryIndep.firstPolluted (kv (field pr)) (after.map (fun a => kv (field a))) with
      | none => "none" | some i => toString i)
  | _, _ => none

end OsacaVerif.Driver.C18
