import OsacaVerif.Driver.Proto
import OsacaVerif.Driver.YCodec
import OsacaVerif.Model.Match
import OsacaVerif.Model.Compose
import OsacaVerif.Spec.KindAgree
import OsacaVerif.Spec.Composed
import OsacaVerif.Spec.Live
/-
  Line-protocol ops of C07 (lookup) and C08 (composition).

  Operands cross the protocol as the canonical text `harness/c07synth.py: canon_operand` writes for the
  objects the REAL parser produced:
    R:name,prefix,shape,lanes | M:base;offset;index;scale;pre;post | I:type,hasvalue,hasident |
    L | C:ccode | P | W | O          (`~` = None; base/index = `~` or name,prefix,shape,lanes;
                                      offset = ~ | i0 | i1 | l | ?)
  An operand list is `|`-separated; a query is `<mnemonic>;<operand list>`.
-/
namespace OsacaVerif.Driver.C07
open OsacaVerif OsacaVerif.Proto OsacaVerif.Text OsacaVerif.Operand OsacaVerif.YCodec

def splitOn (c : Nat) (t : Txt) : List Txt :=
  let rec go (cur : Txt) (acc : List Txt) : Txt → List Txt
    | [] => (cur.reverse :: acc).reverse
    | x :: xs => if x == c then go [] (cur.reverse :: acc) xs else go (x :: cur) acc xs
  go [] [] t

def optT (t : Txt) : Option Txt := if t == [126] then none else some t

def decodeReg (t : Txt) : Option PReg :=
  match splitOn 44 t with
  | [n, p, s, l] => some { name := n, pfx := optT p, shape := optT s, lanes := optT l }
  | _ => none

def decodeOptReg (t : Txt) : Option (Option PReg) :=
  if t == [126] then some none else (decodeReg t).map some

def decodeOff (t : Txt) : Option POff :=
  if t == [126] then some .none
  else if t == ofString "i0" then some (.imm false)
  else if t == ofString "i1" then some (.imm true)
  else if t == ofString "l" then some .ident
  else if t == ofString "?" then some .other
  else none

def decodeOperand (t : Txt) : Option POperand :=
  match t with
  | [87] => some .wild
  | [76] => some .ident
  | [80] => some .prfop
  | [79] => some .other
  | 82 :: 58 :: rest => (decodeReg rest).map .reg
  | 67 :: 58 :: rest => some (.cond rest)
  | 73 :: 58 :: rest =>
    (match splitOn 44 rest with
     | [ty, hv, hi] => some (.imm (optT ty) (hv == [49]) (hi == [49]))
     | _ => none)
  | 77 :: 58 :: rest =>
    (match splitOn 59 rest with
     | [b, o, i, s, pre, post] =>
       match decodeOptReg b, decodeOff o, decodeOptReg i, parseInt? s with
       | some b', some o', some i', some s' =>
         some (.mem { base := b', offset := o', index := i', scale := s', pre := pre == [49], post := post == [49] })
       | _, _, _, _ => none
     | _ => none)
  | _ => none

def decodeOperands (t : Txt) : Option (List POperand) :=
  if t.isEmpty then some [] else mapOpt decodeOperand (splitOn 124 t)

/-- `<mnemonic>;<operands>` -/
def decodeQuery (t : Txt) : Option (Txt × List POperand) :=
  match splitOn 59 t with
  | name :: rest =>
    -- the operand text itself contains `;` (memory operands): re-join
    let ops := match rest with
      | [] => []
      | r :: rs => rs.foldl (fun acc x => acc ++ 59 :: x) r
    (decodeOperands ops).map (fun o => (name, o))
  | [] => none

def decodeIsa (t : Txt) : Option Isa :=
  if lower t == ofString "x86" then some .x86
  else if lower t == ofString "aarch64" then some .a64 else none

def showIdx : Option Nat → String
  | some i => toString i
  | none => "-"

/-- reply for one query: model index without / with fall-backs, oracle index (no fall-back), and
    whether every operand is inside the parser domain -/
def answerQuery (isa : Isa) (db : List Entry) (q : Txt) : String :=
  match decodeQuery q with
  | none => "bad-query"
  | some (name, ops) =>
    showIdx (Match.lookupIdx isa db name ops) ++ "," ++
    showIdx (Match.lookupIdxWithFallbacks isa db name ops) ++ "," ++
    showIdx (Spec.specLookupIdx isa db name ops) ++ "," ++
    boolS (ops.all (Spec.parserOperandIsa isa))

def formsOf : Y → List Y
  | .list l => l
  | _ => []

/-! ### C08 -/

/-- the inverse of `decodeY` (same text as `harness/pressure.py: yenc`) -/
partial def encodeY : Y → String
  | .null => "N"
  | .bool true => "T"
  | .bool false => "F"
  | .num q => "R" ++ showRat q ++ ";"
  | .str t => "S" ++ ".".intercalate (t.map toString) ++ ";"
  | .list l => "L" ++ String.join (l.map encodeY) ++ "E"
  | .map kv => "M" ++ String.join (kv.map fun e => encodeY e.1 ++ encodeY e.2) ++ "E"

def rowOf (regKey : Txt) : Y → Option Compose.Row
  | .map kv =>
    match getKey kv k_base, getKey kv k_offset, getKey kv k_index, getKey kv k_scale,
          getKey kv k_port_pressure with
    | some b, some o, some i, some s, some pp =>
      some { base := b, offset := o, index := i, scale := s, pp := pp,
             reg := match getKey kv regKey with
                    | some (.str t) => some t
                    | _ => none }
    | _, _, _, _, _ => none
  | _ => none

def mapOf : Option Y → Option (List (Y × Y))
  | some (.map kv) => some kv
  | _ => none

def mmodelOf (isa : Isa) : Y → Option Compose.MModel
  | .map kv =>
    match getKey kv (ofString "ports"), getKey kv (ofString "instruction_forms") with
    | some ports, some (.list forms) =>
      match loadEntries forms,
            mapOpt (rowOf (ofString "dst")) (formsOf ((getKey kv (ofString "load_throughput")).getD (.list []))),
            mapOpt (rowOf (ofString "src")) (formsOf ((getKey kv (ofString "store_throughput")).getD (.list []))) with
      | some db, some lrows, some srows =>
        some { isa := isa, ports := txtList ports, db := db, loadRows := lrows, storeRows := srows,
               loadDefault := (getKey kv (ofString "load_throughput_default")).getD (.list []),
               storeDefault := (getKey kv (ofString "store_throughput_default")).getD (.list []),
               loadLatency := (mapOf (getKey kv (ofString "load_latency"))).getD [],
               loadMult := mapOf (getKey kv (ofString "load_throughput_multiplier")),
               storeMult := mapOf (getKey kv (ofString "store_throughput_multiplier")) }
      | _, _, _ => none
    | _, _ => none
  | _ => none

/-- `mnemonic#operands#source#destination#src_dst` -/
def decodeIns (t : Txt) : Option Compose.Ins :=
  match splitOn 35 t with
  | [mn, ops, src, dst, sd] =>
    match decodeOperands ops, decodeOperands src, decodeOperands dst, decodeOperands sd with
    | some o, some s, some d, some x =>
      some { mnemonic := optT mn, operands := o, source := s, destination := d, srcDst := x }
    | _, _, _, _ => none
  | _ => none

def errName : Ports.Err → String
  | .keyError => "KeyError"
  | .typeError => "TypeError"
  | .valueError => "ValueError"

def showResult : Except Ports.Err Compose.Result → String
  | .error e => "err:" ++ errName e
  | .ok r =>
    "ok:" ++ showRat r.tp ++ ":" ++ showRat r.lat ++ ":" ++ showRat r.latWoLoad ++ ":" ++
    ",".intercalate (r.pressure.map showRat) ++ ":" ++
    (match r.uops with
     | some u => encodeY (.list u)
     | none => "~") ++ ":" ++
    ",".intercalate (r.flags.map toStr) ++ ":" ++ boolS r.removedSt

def answerAll (isa : Isa) (model : Y) (qs : List Txt) : String :=
  match mmodelOf isa model with
  | none => "load-error"
  | some m =>
    " ".intercalate (qs.map fun q =>
      match decodeIns q with
      | some i => showResult (Compose.assignTpLt m i)
      | none => "bad-query")

def ratList (t : Txt) : Option (List Rat) :=
  if t.isEmpty then some [] else mapOpt parseRat? (splitOn 44 t)

/-- `Spec.Composed` + `Spec.Feasible` evaluated on observed values -/
def specCheck (eps : Rat) (ports : List Txt) (reg ld st : Y) (mLd mSt tpReg latReg loadLat : Rat)
    (hasLd : Bool) (o : Spec.Observed) : String :=
  match Ports.resolveList ports reg, Ports.resolveList ports ld, Ports.resolveList ports st with
  | .ok r, .ok l, .ok s =>
    let p : Spec.Parts := { n := ports.length, reg := r, ld := l, st := s, mLd := mLd, mSt := mSt,
                            tpReg := tpReg, latReg := latReg, loadLat := loadLat, hasLd := hasLd }
    match Spec.checkComposed eps p o with
    | some why => why
    | none =>
      match Spec.checkFeasible eps p.n p.uops o.pressure with
      | some why => "infeasible-" ++ why
      | none => "ok"
  | _, _, _ => "unresolvable"

def handle (r : Req) : Option String :=
  match r.op, r.args with
  | "c07lookup", isa :: forms :: qs =>
    some (match decodeIsa (field isa), decodeY forms with
      | some i, some y =>
        (match loadEntries (formsOf y) with
         | some db =>
           toString db.length ++ " " ++ " ".intercalate (qs.map (fun q => answerQuery i db (field q)))
         | none => "load-error")
      | _, _ => "bad-request")
  | "c07check", [isa, eop, op] =>
    -- one entry operand (raw YAML dict) against one operand: model, oracle, schema, parser domain
    some (match decodeIsa (field isa), decodeY eop, decodeOperand (field op) with
      | some i, some y, some o =>
        (match operandToClass y with
         | some e => boolS (Match.checkOperand i e o) ++ " " ++ boolS (Spec.kindAgreeB i e o) ++ " " ++
                     boolS (Spec.schemaOperand e) ++ " " ++ boolS (Spec.parserOperandIsa i o)
         | none => "load-error")
      | _, _, _ => "bad-request")
  | "c07live", [isa, eop] =>
    -- is the entry operand instantiable (Spec.liveOperand), and does its instance match
    some (match decodeIsa (field isa), decodeY eop with
      | some i, some y =>
        (match operandToClass y with
         | some e => boolS (Spec.liveOperand i e) ++ " " ++ boolS (Spec.schemaOperand e)
         | none => "load-error")
      | _, _ => "bad-request")
  | "c08assign", isa :: model :: qs =>
    some (match decodeIsa (field isa), decodeY model with
      | some i, some y => answerAll i y (qs.map field)
      | _, _ => "bad-request")
  | "c08spec", [eps, ports, reg, ld, st, mLd, mSt, tpReg, latReg, loadLat, hasLd, tp, lat, latWo, pr, unk] =>
    some (match parseRat? (field eps), decodeY ports, decodeY reg, decodeY ld, decodeY st with
      | some e, some p, some r, some l, some s =>
        (match parseRat? (field mLd), parseRat? (field mSt), parseRat? (field tpReg), parseRat? (field latReg),
               parseRat? (field loadLat), parseRat? (field tp), parseRat? (field lat), parseRat? (field latWo),
               ratList (field pr) with
         | some a, some b, some c, some d, some f, some g, some h, some i, some v =>
           specCheck e (txtList p) r l s a b c d f (field hasLd == [49])
             { tp := g, lat := h, latWoLoad := i, pressure := v, unknownFlag := field unk == [49] }
         | _, _, _, _, _, _, _, _, _ => "bad-number")
      | _, _, _, _, _ => "bad-request")
  | _, _ => none

end OsacaVerif.Driver.C07
