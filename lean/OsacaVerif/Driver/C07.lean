import OsacaVerif.Driver.Proto
import OsacaVerif.Driver.YCodec
import OsacaVerif.Model.Match
-- import OsacaVerif.Model.Compose
import OsacaVerif.Spec.KindAgree
-- import OsacaVerif.Spec.Composed
/-
  Line-protocol ops of C07 (lookup) and C08 (composition).

  Operands cross the protocol as the canonical text `harness/c07synth.py: canon_operand` writes for the
  objects the REAL parser produced:
    R:name,prefix,shape,lanes | M:base;offset;index;scale;pre;post | I:type,hasvalue,hasident |
    L | C:ccode | P | W | O          (`~` = None; base/index = `~` or name,prefix,shape,lanes;
                                      offset = ~ | i0 | i1 | l | ?)
  An operand list is `|`-separated; a query is `<mnemonic>;<operand list>`.
-/
namespace OsacaVerif.Driver.C07
open OsacaVerif OsacaVerif.Proto OsacaVerif.Text OsacaVerif.Operand OsacaVerif.YCodec

def splitOn (c : Nat) (t : Txt) : List Txt :=
  let rec go (cur : Txt) (acc : List Txt) : Txt → List Txt
    | [] => (cur.reverse :: acc).reverse
    | x :: xs => if x == c then go [] (cur.reverse :: acc) xs else go (x :: cur) acc xs
  go [] [] t

def optT (t : Txt) : Option Txt := if t == [126] then none else some t

def decodeReg (t : Txt) : Option PReg :=
  match splitOn 44 t with
  | [n, p, s, l] => some { name := n, pfx := optT p, shape := optT s, lanes := optT l }
  | _ => none

def decodeOptReg (t : Txt) : Option (Option PReg) :=
  if t == [126] then some none else (decodeReg t).map some

def decodeOff (t : Txt) : Option POff :=
  if t == [126] then some .none
  else if t == ofString "i0" then some (.imm false)
  else if t == ofString "i1" then some (.imm true)
  else if t == ofString "l" then some .ident
  else if t == ofString "?" then some .other
  else none

def decodeOperand (t : Txt) : Option POperand :=
  match t with
  | [87] => some .wild
  | [76] => some .ident
  | [80] => some .prfop
  | [79] => some .other
  | 82 :: 58 :: rest => (decodeReg rest).map .reg
  | 67 :: 58 :: rest => some (.cond rest)
  | 73 :: 58 :: rest =>
    (match splitOn 44 rest with
     | [ty, hv, hi] => some (.imm (optT ty) (hv == [49]) (hi == [49]))
     | _ => none)
  | 77 :: 58 :: rest =>
    (match splitOn 59 rest with
     | [b, o, i, s, pre, post] =>
       match decodeOptReg b, decodeOff o, decodeOptReg i, parseInt? s with
       | some b', some o', some i', some s' =>
         some (.mem { base := b', offset := o', index := i', scale := s', pre := pre == [49], post := post == [49] })
       | _, _, _, _ => none
     | _ => none)
  | _ => none

def decodeOperands (t : Txt) : Option (List POperand) :=
  if t.isEmpty then some [] else mapOpt decodeOperand (splitOn 124 t)

/-- `<mnemonic>;<operands>` -/
def decodeQuery (t : Txt) : Option (Txt × List POperand) :=
  match splitOn 59 t with
  | name :: rest =>
    -- the operand text itself contains `;` (memory operands): re-join
    let ops := match rest with
      | [] => []
      | r :: rs => rs.foldl (fun acc x => acc ++ 59 :: x) r
    (decodeOperands ops).map (fun o => (name, o))
  | [] => none

def decodeIsa (t : Txt) : Option Isa :=
  if lower t == ofString "x86" then some .x86
  else if lower t == ofString "aarch64" then some .a64 else none

def showIdx : Option Nat → String
  | some i => toString i
  | none => "-"

/-- reply for one query: model index without / with fall-backs, oracle index (no fall-back), and
    whether every operand is inside the parser domain -/
def answerQuery (isa : Isa) (db : List Entry) (q : Txt) : String :=
  match decodeQuery q with
  | none => "bad-query"
  | some (name, ops) =>
    showIdx (Match.lookupIdx isa db name ops) ++ "," ++
    showIdx (Match.lookupIdxWithFallbacks isa db name ops) ++ "," ++
    showIdx (Spec.specLookupIdx isa db name ops) ++ "," ++
    boolS (ops.all Spec.parserOperand)

def formsOf : Y → List Y
  | .list l => l
  | _ => []

def handle (r : Req) : Option String :=
  match r.op, r.args with
  | "c07lookup", isa :: forms :: qs =>
    some (match decodeIsa (field isa), decodeY forms with
      | some i, some y =>
        (match loadEntries (formsOf y) with
         | some db =>
           toString db.length ++ " " ++ " ".intercalate (qs.map (fun q => answerQuery i db (field q)))
         | none => "load-error")
      | _, _ => "bad-request")
  | "c07check", [isa, eop, op] =>
    -- one entry operand (raw YAML dict) against one operand: model, oracle, schema, parser domain
    some (match decodeIsa (field isa), decodeY eop, decodeOperand (field op) with
      | some i, some y, some o =>
        (match operandToClass y with
         | some e => boolS (Match.checkOperand i e o) ++ " " ++ boolS (Spec.kindAgreeB i e o) ++ " " ++
                     boolS (Spec.schemaOperand e) ++ " " ++ boolS (Spec.parserOperand o)
         | none => "load-error")
      | _, _, _ => "bad-request")
  | _, _ => none

end OsacaVerif.Driver.C07
