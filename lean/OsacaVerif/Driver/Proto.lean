import OsacaVerif.Model.Text
/-
  Line protocol shared by all driver modules.
  A request is one line:  `<op> <field> <field> ...`, fields separated by single blanks.
  A field is `=` followed by its text with ` `, `%`, tab, CR and LF percent-escaped (`%20`, `%25`, …),
  so an empty field is just `=`.  Replies use the same escaping where needed.
  Numbers are decimal integers or exact rationals `n/d`.
-/
namespace OsacaVerif.Proto
open OsacaVerif.Text

def hexVal (c : Char) : Nat :=
  if '0' ≤ c ∧ c ≤ '9' then c.toNat - 48
  else if 'a' ≤ c ∧ c ≤ 'f' then c.toNat - 87
  else if 'A' ≤ c ∧ c ≤ 'F' then c.toNat - 55 else 0

def unescape : List Char → List Char
  | '%' :: a :: b :: rest => Char.ofNat (hexVal a * 16 + hexVal b) :: unescape rest
  | c :: rest => c :: unescape rest
  | [] => []

def hexDigit (n : Nat) : Char := if n < 10 then Char.ofNat (48 + n) else Char.ofNat (55 + n)

def escape : List Char → List Char
  | [] => []
  | c :: rest =>
    if c == ' ' || c == '%' || c == '\n' || c == '\r' || c == '\t' then
      '%' :: hexDigit (c.toNat / 16) :: hexDigit (c.toNat % 16) :: escape rest
    else c :: escape rest

def splitBlank (l : List Char) : List (List Char) :=
  let rec go (cur : List Char) (acc : List (List Char)) : List Char → List (List Char)
    | [] => (cur.reverse :: acc).reverse
    | c :: cs => if c == ' ' then go [] (cur.reverse :: acc) cs else go (c :: cur) acc cs
  go [] [] l

/-- decode a field (`=...`) to text -/
def field (f : List Char) : Txt :=
  match f with
  | '=' :: r => (unescape r).map Char.toNat
  | r => (unescape r).map Char.toNat

def fieldS (f : List Char) : String := String.ofList ((field f).map Char.ofNat)

def enc (t : Txt) : String := String.ofList ('=' :: escape (t.map Char.ofNat))
def encS (s : String) : String := String.ofList ('=' :: escape s.toList)

def parseNat? (t : Txt) : Option Nat :=
  if t.isEmpty then none else
  t.foldl (fun acc c => match acc with
    | none => none
    | some n => if isDigitC c then some (n * 10 + (c - 48)) else none) (some 0)

def parseInt? (t : Txt) : Option Int :=
  match t with
  | 45 :: r => (parseNat? r).map (fun n => - (n : Int))
  | r => (parseNat? r).map (fun n => (n : Int))

/-- `n`, `-n`, `n/d` -/
def parseRat? (t : Txt) : Option Rat :=
  let (num, rest) := t.span (· != 47)
  match rest with
  | [] => (parseInt? num).map (fun (i : Int) => (i : Rat))
  | _ :: den =>
    match parseInt? num, parseNat? den with
    | some i, some d => if d == 0 then none else some ((i : Rat) / (d : Rat))
    | _, _ => none

def showRat (q : Rat) : String :=
  if q.den == 1 then toString q.num else toString q.num ++ "/" ++ toString q.den

def boolS (b : Bool) : String := if b then "1" else "0"

/-- request after splitting: op and raw fields -/
structure Req where
  op : String
  args : List (List Char)

def parseReq (line : String) : Req :=
  let l := line.toList.filter (fun c => c != '\n' && c != '\r')
  match splitBlank l with
  | [] => ⟨"", []⟩
  | op :: args => ⟨String.ofList op, args⟩

end OsacaVerif.Proto
