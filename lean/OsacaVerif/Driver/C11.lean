import OsacaVerif.Driver.Proto
import OsacaVerif.Model.Marker
import OsacaVerif.Spec.KernelSelect
/-
  Driver ops of C11.  A parsed line travels as one field
      <num> ^A <mnem> ^A <comment> ^A <dir> ^A <ops>
  where an optional text is `N` (None) or `S<text>`, a directive is `N` or `S<name>^C<param>^C…` (a parameter is `s<text>` or `t` for a non-string),
  the operand list is `^C`-separated items `I<int>` (immediate with integer value), `J` (other
  immediate), `R<full register name>`, `O` (anything else); an empty operand list is the empty text.
-/
namespace OsacaVerif.Driver.C11
open OsacaVerif OsacaVerif.Proto OsacaVerif.Text OsacaVerif.PyInt OsacaVerif.Marker

def splitC (sep : Nat) (t : Txt) : List Txt := splitOn sep t

def optTxt (t : Txt) : Option Txt :=
  match t with
  | 83 :: r => some r
  | _ => none

def decDir (t : Txt) : Option Dir :=
  match t with
  | 83 :: r =>
    match splitC 3 r with
    | name :: ps => some ⟨name, ps.map (fun p => match p with | 115 :: t => some t | _ => none)⟩
    | [] => some ⟨[], []⟩
  | _ => none

def decOp (t : Txt) : Opd :=
  match t with
  | 73 :: r => .imm (parseInt? r)
  | 74 :: _ => .imm none
  | 82 :: r => .reg r
  | _ => .other

def decOps (t : Txt) : List Opd := if t.isEmpty then [] else (splitC 3 t).map decOp

def decLine (f : List Char) : Line :=
  match splitC 1 (field f) with
  | [n, m, c, d, o] => ⟨(parseNat? n).getD 0, optTxt m, optTxt c, decDir d, decOps o⟩
  | _ => ⟨0, none, none, none, []⟩

def showNums (ls : List Nat) : String := ",".intercalate (ls.map toString)
def showInts (ls : List Int) : String := ",".intercalate (ls.map toString)
def showOpt (o : Option Nat) : String := match o with | some n => toString n | none => "-"

def parseNumList (t : Txt) : List Nat :=
  if t.isEmpty then [] else (splitC 44 t).map (fun x => (parseNat? x).getD 0)

def handle (r : Req) : Option String :=
  match r.op, r.args with
  | "c11.reduce", isa :: ls =>
    let lines := ls.map decLine
    match reduceToSection lines (field isa) with
    | .badIsa => some "bad-isa"
    | .raised => some "raise"
    | .ok k =>
      let idx := match (if (if Gen.isaLowered then lower (field isa) else field isa) = Gen.x86IsaName
                        then findMarkedSection x86Cfg lines else findMarkedSection a64Cfg lines) with
        | some (s, e) => showOpt s ++ " " ++ showOpt e
        | none => "? ?"
      some ("ok " ++ idx ++ " " ++ showNums (k.map (·.num)))
  | "c11.linerange", [s] =>
    match getLineRange (field s) with
    | some l => some ("ok " ++ showInts l)
    | none => some "err"
  | "c11.select", [s, nums] =>
    match getLineRange (field s) with
    | some l =>
      let lines := (parseNumList (field nums)).map (fun n => (⟨n, none, none, none, []⟩ : Line))
      some ("ok " ++ showNums ((selectLines l lines).map (·.num)))
    | none => some "err"
  | "c11.int0", [s] =>
    match pyInt0 (field s) with | some v => some (toString v) | none => some "err"
  | "c11.int10", [s] =>
    match pyInt10 (field s) with | some v => some (toString v) | none => some "err"
  | "c11.numlines", [s] => some (showNums ((parseFileNums (field s)).map (·.1)))
  -- specification side (independent of the model of the algorithm and of Gen)
  | "c11.spec.between", [nums, p, s, b] =>
    -- expected selection for a file laid out as prologue(p) start-marker(s) body(b) …
    some (showNums (Spec.KernelSelect.between (parseNumList (field nums))
      ((parseNat? (field p)).getD 0) ((parseNat? (field s)).getD 0) ((parseNat? (field b)).getD 0)))
  | "c11.spec.denote", [items] =>
    -- items: `a` or `a-b`, comma separated, already as numbers (no parsing of user syntax here)
    let its := if (field items).isEmpty then [] else (splitC 44 (field items)).map (fun t =>
      match splitC 45 t with
      | [a] => Spec.KernelSelect.Item.single ((parseNat? a).getD 0)
      | [a, b] => Spec.KernelSelect.Item.range ((parseNat? a).getD 0) ((parseNat? b).getD 0) false
      | _ => Spec.KernelSelect.Item.single 0)
    some (showNums (Spec.KernelSelect.denoteAll its))
  | "c11.spec.marker", [isa] =>
    -- the marker convention the specification assumes (mov mnemonics, register, values, bytes)
    let m := if field isa = ofString "x86" then Spec.KernelSelect.x86Marker else Spec.KernelSelect.a64Marker
    some (" ".intercalate [",".intercalate (m.movs.map toStr), toStr m.reg, showInts [m.startVal, m.endVal],
      showInts m.nop, toStr Spec.KernelSelect.commentBegin, toStr Spec.KernelSelect.commentEnd])
  | _, _ => none

end OsacaVerif.Driver.C11
