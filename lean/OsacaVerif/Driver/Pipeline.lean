import OsacaVerif.Driver.DGraph
import OsacaVerif.Driver.C11
import OsacaVerif.Model.Pipeline
/-
  Driver op of the composed pipeline (C11 at the level of the numeric analysis).

    pipe.run <isa x86|a64> <flagdeps 0|1> <stlf> <pidx> <floor> <nports> <mode M|L> <mode argument>
             <sem> <line> <line> …

  `<line>`  one parsed line of the FILE (before selection), in the encoding of `Driver/C11.lean`;
  `<sem>`   one Y list with one row per line, in file order:
            [line, lat, latwo, hasLd, isLd, src, dst, srcdst, changes, changesPost, tp, [pressure…]]
            (the first ten as `Driver/DGraph.lean`; the line number of the row is ignored, the number
            of `<line>` counts).  Rows of lines without mnemonic are ignored by the model.
  mode `M`: `reduce_to_section(parsed, <isa spelling>)`; mode `L`: `--lines <spec>`.

  Reply: `badisa` | `raise` | `badlines` | `empty` | `bad-arg` | `ok` followed by blank-separated
  `key=value` sections (see `showAnalysis`).
-/
namespace OsacaVerif.Driver.Pipeline
open OsacaVerif OsacaVerif.Proto OsacaVerif.Text OsacaVerif.YCodec OsacaVerif.Pipeline
open OsacaVerif.Driver.DGraph (yList yRat yIns isaOf ratOf nodeS)

def semOfY (y : Y) : Sem :=
  match y with
  | .list [line, lat, latwo, hasLd, isLd, src, dst, sd, ch, chp, tp, press] =>
    let i := yIns (.list [line, lat, latwo, hasLd, isLd, src, dst, sd, ch, chp])
    { src := i.src, dst := i.dst, srcDst := i.srcDst, lat := i.lat, latWoLoad := i.latWoLoad, hasLd := i.hasLd,
      isLd := i.isLd, changes := i.changes, changesPost := i.changesPost, tp := yRat tp,
      pressure := (yList press).map yRat }
  | _ => {}

def zipLines : List Marker.Line → List Y → List PLine
  | l :: ls, y :: ys => { sel := l, sem := semOfY y } :: zipLines ls ys
  | l :: ls, [] => { sel := l } :: zipLines ls []
  | [], _ => []

def ratsS (l : List Rat) : String := ",".intercalate (l.map showRat)
def pairsS (l : List (Nat × Rat)) : String := ",".intercalate (l.map fun p => toString p.1 ++ ":" ++ showRat p.2)
def optRatS : Option Rat → String
  | some q => showRat q
  | none => "N"

def showAnalysis (a : Analysis) : String :=
  " ".intercalate [
    "ok",
    "rows=" ++ "|".intercalate (a.rows.map fun r =>
      ":".intercalate [toString r.line, boolS r.instr, showRat r.lat, optRatS r.latWoLoad, showRat r.tp, ratsS r.pressure]),
    "edges=" ++ ",".intercalate (a.edges.map fun e => nodeS e.src ++ ">" ++ nodeS e.dst ++ ":" ++ showRat e.w),
    "cptotal=" ++ showRat a.cpTotal,
    "cpmarks=" ++ pairsS a.cpMarks,
    "lcd=" ++ "|".intercalate (a.lcdDict.map fun d =>
      "-".intercalate (d.1.map toString) ++ "~" ++ showRat d.2.1 ++ "~" ++ pairsS d.2.2),
    "lcdfig=" ++ showRat a.lcdFigure,
    "lcdmarks=" ++ pairsS a.lcdMarks,
    "colsums=" ++ ratsS a.colSums ]

def handle (r : Req) : Option String :=
  match r.op, r.args with
  | "pipe.run", isa :: fd :: stlf :: pidx :: floor :: nports :: mode :: marg :: sem :: ls =>
    match decodeY sem with
    | none => some "bad-arg"
    | some y =>
      let file := zipLines (ls.map Driver.C11.decLine) (yList y)
      let cfg : Pipeline.Cfg :=
        { isa := isaOf isa, flagDeps := fieldS fd == "1", par := { stlf := ratOf stlf, pIdx := ratOf pidx },
          floor := (parseNat? (field floor)).getD 1000, nports := (parseNat? (field nports)).getD 0 }
      let m : Mode := if fieldS mode == "L" then .lines (field marg) else .markers (field marg)
      match run cfg m file with
      | .ok a => some (showAnalysis a)
      | .badIsa => some "badisa"
      | .raised => some "raise"
      | .badLines => some "badlines"
      | .emptyKernel => some "empty"
  | _, _ => none

end OsacaVerif.Driver.Pipeline
