import OsacaVerif.Driver.YCodec
import OsacaVerif.Model.LCD
import OsacaVerif.Model.CpMark
import OsacaVerif.Spec.Deps
/- driver ops of C03, C04, C05, C06, C14: kernels arrive as one Y value (see harness/dgenc.py) -/
namespace OsacaVerif.Driver.DGraph
open OsacaVerif OsacaVerif.Proto OsacaVerif.Text OsacaVerif.YCodec OsacaVerif.DG

def yNat : Y → Nat
  | .num q => q.num.toNat
  | _ => 0
def yInt : Y → Int
  | .num q => q.num / q.den
  | _ => 0
def yRat : Y → Rat
  | .num q => q
  | _ => 0
def yBool : Y → Bool
  | .bool b => b
  | _ => false
def yTxt : Y → Txt
  | .str t => t
  | _ => []

def yReg : Y → Option Reg
  | .list [pre, name] => some { pre := yTxt pre, name := yTxt name }
  | _ => none

def yOp : Y → Op
  | .list [.str [114], pre, name, pi, po] =>        -- "r"
    .reg { pre := yTxt pre, name := yTxt name, preIdx := yBool pi, postIdx := yBool po }
  | .list [.str [102], name] => .flag (yTxt name)   -- "f"
  | .list [.str [109], base, index, scale, offset, pre, post, key] =>   -- "m"
    .mem { base := yReg base, index := yReg index, scale := yInt scale,
           offset := (match offset with | .num q => some (q.num / q.den) | _ => none),
           sym := (match offset with | .list [.str [115, 121, 109], t] => some (yTxt t) | _ => none),   -- ["sym", key]
           pre := yBool pre, post := yBool post, eqKey := yTxt key }
  | _ => .other

def yChange : Y → (Txt × Option Change)
  | .list [reg, .list [name, v]] => (yTxt reg, some { name := yTxt name, value := yInt v })
  | .list [reg, _] => (yTxt reg, none)
  | _ => ([], none)

def yList : Y → List Y
  | .list l => l
  | _ => []

def yIns : Y → Ins
  | .list [line, lat, latwo, hasLd, isLd, src, dst, sd, ch, chp] =>
    { line := yNat line, lat := yRat lat,
      latWoLoad := (match latwo with | .num q => some q | _ => none),
      hasLd := yBool hasLd, isLd := yBool isLd,
      src := (yList src).map yOp, dst := (yList dst).map yOp, srcDst := (yList sd).map yOp,
      changes := (yList ch).map yChange, changesPost := (yList chp).map yChange }
  | _ => default

def kernelOf (f : List Char) : Option (List Ins) :=
  (decodeY f).map fun y => (yList y).map yIns

def isaOf (f : List Char) : Isa := if fieldS f == "x86" then .x86 else .a64

def nodeS (n : Node) : String := toString n.line ++ (if n.load then "L" else "")

def edgesS (es : List Edge) : String :=
  " ".intercalate (es.map fun e => nodeS e.src ++ ">" ++ nodeS e.dst ++ "=" ++ showRat e.w)

def wedgesOf (y : Y) : List Spec.WEdge :=
  (yList y).filterMap fun e => match e with
    | .list [s, d, w] => some { src := yNat s, dst := yNat d, w := yRat w }
    | _ => none

def ratOf (f : List Char) : Rat := (parseRat? (field f)).getD 0

def handle (r : Req) : Option String :=
  match r.op, r.args with
  | "dg", [isa, fd, stlf, pidx, k] =>
    match kernelOf k with
    | some k => some (edgesS (create (isaOf isa) (fieldS fd == "1") { stlf := ratOf stlf, pIdx := ratOf pidx } k))
    | none => some "bad-arg"
  | "raw", [isa, fd, k] =>
    match kernelOf k with
    | some k => some (" ".intercalate ((Spec.rawEdges (isaOf isa) (fieldS fd == "1") k).map
        fun (a, b) => toString a ++ ">" ++ toString b))
    | none => some "bad-arg"
  | "lcd", [isa, fd, stlf, pidx, floor, k] =>
    match kernelOf k with
    | some k =>
      let es := LCD.lcd (isaOf isa) (fieldS fd == "1") { stlf := ratOf stlf, pIdx := ratOf pidx }
        ((parseNat? (field floor)).getD 1000) k
      some (" ".intercalate (es.map fun e =>
        "-".intercalate (e.lines.map toString) ++ "=" ++ showRat e.latency))
    | none => some "bad-arg"
  | "cp", [isa, fd, stlf, pidx, k] =>
    match kernelOf k with
    | some k =>
      let es := create (isaOf isa) (fieldS fd == "1") { stlf := ratOf stlf, pIdx := ratOf pidx } k
      some ("|".intercalate ((LCD.cpCandidates k es).map fun c =>
        ",".intercalate (c.map fun (l, v) => toString l ++ ":" ++ showRat v)))
    | none => some "bad-arg"
  | "cptotal", [isa, fd, stlf, pidx, k] =>
    match kernelOf k with
    | some k =>
      let es := create (isaOf isa) (fieldS fd == "1") { stlf := ratOf stlf, pIdx := ratOf pidx } k
      some (showRat (LCD.cpTotal k es))
    | none => some "bad-arg"
  | "cpmarks", [isa, fd, stlf, pidx, k] =>
    -- the marked lines of the repaired `get_critical_path` with their `latency_cp`: `line:value,…`
    match kernelOf k with
    | some k =>
      let es := create (isaOf isa) (fieldS fd == "1") { stlf := ratOf stlf, pIdx := ratOf pidx } k
      some (",".intercalate ((LCD.cpMarks k es).map fun (l, v) => toString l ++ ":" ++ showRat v))
    | none => some "bad-arg"
  | "speclongest", [infos, edges] =>
    -- infos: L[L[line, lat, loadStage]...]   edges: L[L[src, dst, w]...]  (instruction nodes only)
    match decodeY infos, decodeY edges with
    | some i, some e =>
      let infos := (yList i).filterMap fun x => match x with
        | .list [l, lat, ls] => some ({ line := yNat l, lat := yRat lat, loadStage := yRat ls } : Spec.LatInfo)
        | _ => none
      some (showRat (Spec.longestChain infos (wedgesOf e)))
    | _, _ => some "bad-arg"
  | "speccycles", [lines, intra, cross] =>
    match decodeY lines, decodeY intra, decodeY cross with
    | some l, some i, some c =>
      let cs := Spec.cycles ((yList l).map yNat) (wedgesOf i) (wedgesOf c)
      some (" ".intercalate (cs.map fun c =>
        "-".intercalate (c.lines.map toString) ++ "=" ++ showRat c.latency))
    | _, _, _ => some "bad-arg"
  | _, _ => none

end OsacaVerif.Driver.DGraph
