import OsacaVerif.Driver.C07
import OsacaVerif.Driver.Roles
import OsacaVerif.Driver.Pipeline
import OsacaVerif.Model.EndToEnd
import OsacaVerif.Gen.IsaDb_x86
import OsacaVerif.Gen.IsaDb_aarch64
/-
  Driver op of the end-to-end model (`Model/EndToEnd.lean`): from file text to the report.

    e2e.x86 | e2e.a64
            <model:Y> <stlf> <pidx> <mode M|L> <mode argument> <flagdeps 0|1> <ignore-unknown 0|1>
            <version> <file name> <arch> <time stamp> <file text>
    e2e.opt <isa x86|aarch64> <the same twelve arguments> <P1> <P2> <tol>
            optimal scheduling (no `--fixed`): `P1` / `P2` = `<line>:<v>,<v>…|…`, the implementation's per-line
            `port_pressure` after the first / the second call of `assign_optimal_throughput` (exact rationals).
            The reply is that of `e2e.x86` evaluated by `analyseWith … P2`, plus
            ` adm1=<ok | line:clause:lt1|…>  adm2=…` (`inadmissible` of `P1` / `P2`: `Spec.checkFeasible` per instruction
            line of the kernel with slack `INC/2 · #micro-ops + tol`; `lt1` = a micro-op of the line carries a load/store
            throughput multiplier < 1), ` nuops=<line>:<#micro-ops>|…` and
            ` exactsums=` (the column sums before rounding).

  `<model>` is the raw YAML of the machine model (the keys `Driver/C07.lean: mmodelOf` reads: ports,
  instruction_forms, load/store tables, defaults, multipliers, load_latency); the ISA database is the
  generated `Gen.isaDbX86` / `Gen.isaDbA64` (tied to `isa/x86.yml` / `isa/aarch64.yml` by C03's `rolesdbcmp`).

  Reply: `parse-error <line>` | `sem-error <line> <exception class>` | `badisa` | `raise` | `badlines` | `empty` |
  `load-error` | the sections of `pipe.run` followed by
      ` flags=<line>:<flag>,<flag>…|…  used=<line>:<mask>|…  report=<text>`.

  `pyRepr` is this side's implementation of Python's `repr(float)` (round to the nearest double, then the
  shortest decimal that reads back as that double), the `repr` INPUT of the report model.  It is not part
  of the model: it is tied by the byte-for-byte comparison of the report.
-/
namespace OsacaVerif.Driver.EndToEnd
open OsacaVerif OsacaVerif.Proto OsacaVerif.Text OsacaVerif.YCodec OsacaVerif.EndToEnd

/-! ### `repr(float)` -/

def pow10 (k : Int) : Rat := if k ≥ 0 then ((10 ^ k.toNat : Nat) : Rat) else 1 / ((10 ^ (-k).toNat : Nat) : Rat)
def pow2 (k : Int) : Rat := if k ≥ 0 then ((2 ^ k.toNat : Nat) : Rat) else 1 / ((2 ^ (-k).toNat : Nat) : Rat)

/-- round to the nearest integer, ties to even (`x ≥ 0`) -/
def roundEven (x : Rat) : Nat :=
  let f := x.floor
  let r := x - f
  (if r < 1/2 then f else if r > 1/2 then f + 1 else (if f % 2 == 0 then f else f + 1)).toNat

/-- `k` with `10^k ≤ v < 10^(k+1)` (`v > 0`) -/
def log10Floor (v : Rat) : Int :=
  let k : Int := ((Nat.toDigits 10 v.num.natAbs).length : Int) - ((Nat.toDigits 10 v.den).length : Int)
  let k := if v < pow10 k then k - 1 else k
  let k := if v < pow10 k then k - 1 else k
  if pow10 (k + 1) ≤ v then k + 1 else k

/-- `e` with `2^52 ≤ v / 2^e < 2^53` (`v > 0`) -/
def binExp (v : Rat) : Int :=
  let k : Int := (Nat.log2 v.num.natAbs : Int) - (Nat.log2 v.den : Int)
  let k := if v < pow2 k then k - 1 else k
  let k := if v < pow2 k then k - 1 else k
  let k := if pow2 (k + 1) ≤ v then k + 1 else k
  k - 52

/-- nearest double (mantissa, exponent) of a positive rational (normal range) -/
def toDouble (v : Rat) : Nat × Int :=
  let e := binExp v
  let m := roundEven (v / pow2 e)
  if m == 2 ^ 53 then (2 ^ 52, e + 1) else (m, e)

def stripZeros (ds : List Nat) : List Nat := (ds.reverse.dropWhile (· == 48)).reverse

/-- the shortest digit string (and decimal exponent of its first digit) that reads back as `m·2^e` -/
def shortest (m : Nat) (e : Int) : List Nat × Int :=
  let v : Rat := (m : Rat) * pow2 e
  let hi := pow2 e / 2
  let lo := if m == 2 ^ 52 then pow2 (e - 1) / 2 else pow2 e / 2
  let even := m % 2 == 0
  let k := log10Floor v
  let rec go (fuel d : Nat) : List Nat × Int :=
    match fuel with
    | 0 => (Nat.toDigits 10 (roundEven (v / pow10 (k - 16))) |>.map Char.toNat, k)
    | fuel + 1 =>
      let sc := pow10 (k - (d : Int) + 1)
      let D := roundEven (v / sc)
      let dv : Rat := (D : Rat) * sc
      let ok := if even then (v - lo ≤ dv && dv ≤ v + hi) else (v - lo < dv && dv < v + hi)
      if ok then
        -- rounding up to 10^d moves the first digit one place up
        if D == 10 ^ d then ([49], k + 1) else ((Nat.toDigits 10 D).map Char.toNat, k)
      else go fuel (d + 1)
  go 17 1

/-- Python `repr(float(q))`, positional range only (`?` otherwise) -/
def pyRepr (q : Rat) : Txt :=
  if q == 0 then [48, 46, 48] else
  let neg := q < 0
  let (m, e) := toDouble (if neg then -q else q)
  let (ds0, k) := shortest m e
  let ds := match stripZeros ds0 with | [] => [48] | l => l
  let body : Txt :=
    if k < -4 || k ≥ 16 then [63]
    else if k ≥ 0 then
      let n := k.toNat + 1
      let ip := (ds ++ List.replicate (n - ds.length) 48).take n
      let fp := ds.drop n
      ip ++ [46] ++ (if fp.isEmpty then [48] else fp)
    else [48, 46] ++ List.replicate ((-k).toNat - 1) 48 ++ ds
  if neg then 45 :: body else body

/-! ### the op -/

def showExtra (r : Result) : String :=
  " flags=" ++ "|".intercalate (r.report.rows.map fun x =>
      toString x.line ++ ":" ++ ",".intercalate (x.flags.map toStr)) ++
  " used=" ++ "|".intercalate (r.report.rows.map fun x =>
      toString x.line ++ ":" ++ String.join (x.used.map boolS)) ++
  " report=" ++ enc r.text

/-- `<line>:<v>,<v>…|<line>:…` (exact rationals) → the pressure vectors per line number -/
def pressureEntry (e : Txt) : Option (Nat × List Rat) :=
  match Driver.C07.splitOn 58 e with
  | [n, v] => do
    let n ← parseNat? n
    let v ← (if v.isEmpty then some [] else (Driver.C07.splitOn 44 v).mapM parseRat?)
    pure (n, v)
  | _ => none

def pressuresOf (t : List Char) : Option Pressures :=
  let s := field t
  if s.isEmpty then some (fun _ => none) else
  match (Driver.C07.splitOn 124 s).mapM pressureEntry with
  | some ps => some fun n => (ps.find? (fun x => x.1 == n)).map (·.2)
  | none => none

/-- `ok`, or `<line>:<clause>:<1 if a micro-op of the line carries a multiplier < 1, else 0>|…` -/
def admS (isa : Operand.Isa) (m : Model) (k : List Pipeline.PLine) (bad : List (Nat × String)) : String :=
  if bad.isEmpty then "ok" else
  "|".intercalate (bad.map fun (n, c) =>
    let lt1 := (k.filter fun l => l.num == n).any fun l => (uopsOfText isa m l.text).any fun u => u.mult < 1
    toString n ++ ":" ++ c ++ ":" ++ boolS lt1)

/-- optimal scheduling: `P1` = the pressures after the first balancing pass (judged for admissibility), `P2` = after
    the second (what the CLI prints: the analysis and the report are `analyseWith … P2`; its admissibility is reported
    too, the known second-pass finding of C01 lives there) -/
structure OptArgs where
  p1 : Pressures
  p2 : Pressures
  tol : Rat

def showOpt (isa : Operand.Isa) (m : Model) (a : OptArgs) (res : Result) : String :=
  " adm1=" ++ admS isa m res.kernel (inadmissible isa m a.tol res.kernel a.p1) ++
  " adm2=" ++ admS isa m res.kernel (inadmissible isa m a.tol res.kernel a.p2) ++
  " nuops=" ++ "|".intercalate ((res.kernel.filter (·.isInstr)).map fun l =>
      toString l.num ++ ":" ++ toString (uopsOfText isa m l.text).length) ++
  " exactsums=" ++ Driver.Pipeline.ratsS
      (Ports.colSumsExact Gen.tpSumSkipValue (res.kernel.map (Pipeline.toPorts m.mm.ports.length)))

def run (isa : Operand.Isa) (db : List Isa.IsaEntry) (model stlf pidx mode marg fd iu version fname arch stamp text : List Char)
    (opt : Option OptArgs := none) : String :=
  match decodeY model with
  | none => "bad-request"
  | some y =>
    match Driver.C07.mmodelOf isa y with
    | none => "load-error"
    | some mm =>
      let m : Model := { mm := mm, par := { stlf := DGraph.ratOf stlf, pIdx := DGraph.ratOf pidx }, isaDb := db }
      let o : Opts :=
        { mode := if fieldS mode == "L" then .lines (field marg) else .markers (field marg)
          flagDeps := fieldS fd == "1", ignoreUnknown := fieldS iu == "1"
          version := field version, file := field fname, arch := field arch, stamp := field stamp
          repr := pyRepr }
      let out := match opt with
        | none => analyse isa m o (field text)
        | some a => analyseWith isa m o (field text) a.p2
      match out with
      | .ok res =>
        Driver.Pipeline.showAnalysis res.analysis ++
          (match opt with | none => "" | some a => showOpt isa m a res) ++ showExtra res
      | .parseError n _ => "parse-error " ++ toString n
      | .semError n (.tplt e) => "sem-error " ++ toString n ++ " " ++ Driver.C07.errName e
      | .semError n (.changes e) => "sem-error " ++ toString n ++ " " ++ Driver.Roles.errS e
      | .badIsa => "badisa"
      | .raised => "raise"
      | .badLines => "badlines"
      | .emptyKernel => "empty"

def handle (r : Req) : Option String :=
  match r.op, r.args with
  | "e2e.x86", [model, stlf, pidx, mode, marg, fd, iu, version, fname, arch, stamp, text] =>
    some (run .x86 Gen.isaDbX86 model stlf pidx mode marg fd iu version fname arch stamp text)
  | "e2e.a64", [model, stlf, pidx, mode, marg, fd, iu, version, fname, arch, stamp, text] =>
    some (run .a64 Gen.isaDbA64 model stlf pidx mode marg fd iu version fname arch stamp text)
  | "e2e.opt", [isa, model, stlf, pidx, mode, marg, fd, iu, version, fname, arch, stamp, text, p1, p2, tol] =>
    some (match pressuresOf p1, pressuresOf p2, parseRat? (field tol) with
      | some a, some b, some t =>
        if fieldS isa == "x86" then
          run .x86 Gen.isaDbX86 model stlf pidx mode marg fd iu version fname arch stamp text (some ⟨a, b, t⟩)
        else
          run .a64 Gen.isaDbA64 model stlf pidx mode marg fd iu version fname arch stamp text (some ⟨a, b, t⟩)
      | _, _, _ => "bad-request")
  | "e2e.repr", [q] =>
    some (match parseRat? (field q) with
      | some x => enc (pyRepr x)
      | none => "bad-request")
  | _, _ => none

end OsacaVerif.Driver.EndToEnd
