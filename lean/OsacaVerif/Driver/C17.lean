import OsacaVerif.Driver.Proto
import OsacaVerif.Model.Cache
import OsacaVerif.Model.CacheName
import OsacaVerif.Spec.CacheSpec
import OsacaVerif.Gen.CacheConsts
/-
  Driver ops of C17.

    c17cfg                              -> `<version> <tolerantRead> <atomicWrite> <lazyBypasses> <rtProbeOverwritten> <nDataDirs> <hexLen>`
    c17run  <cfg> <files> <ops>         -> observations of the *model* (`Cache.run`), one token per outcome
    c17spec <files> <ops>               -> observations of the cache-less *specification* (`CacheSpec.run`)
    c17name <stem> <hex>                -> `<companion name> <home name>`

  cfg   : `shipped`  or  `<version>.<tolerant 0/1>.<atomic 0/1>`
  files : `;`-separated `<dir>.<stem>.<content>`        (everything writable at the start)
  ops   : `,`-separated, fields `.`-separated
            L.<stem>.<lazy>            E.<dir>.<stem>.<content|->     K.<stem>.<point>
            C.<loc>.<stem>.<hash>      D.<loc>.<stem>.<hash>          F.<loc>.<stem>.<hash>.<ver>.<data>
            S.<dir>.<stem>.<content>   W.<dir>.<0/1>                  H.<0/1>          N
            R.<stem>.<n>.<i:j:k…>      (loc: 99 = home cache, otherwise the companion directory)
  world : contents, hashes and data are numbers; parse = id, parseLazy c = c + 1000000, hash = id;
          stems < 100 are looked up in directories [0, 1], the others (ISA files) in [2, 3].
  outcome tokens: `ok:<data>:<c|k|h|l|r>` (cold / companion / home / lazy / race) or `err:<…>`.
-/
namespace OsacaVerif.Driver.C17
open OsacaVerif OsacaVerif.Proto OsacaVerif.Text OsacaVerif.Cache

def world : World :=
  ⟨id, fun c => c + 1000000, id, fun stem => if stem < 100 then [0, 1] else [2, 3]⟩

def splitOn (sep : Nat) (t : Txt) : List Txt :=
  let rec go (cur : Txt) (acc : List Txt) : Txt → List Txt
    | [] => (cur.reverse :: acc).reverse
    | c :: cs => if c == sep then go [] (cur.reverse :: acc) cs else go (c :: cur) acc cs
  go [] [] t

def nat! (t : Txt) : Nat := (parseNat? t).getD 0

def parseCfg (t : Txt) : Cfg :=
  match splitOn 46 t with
  | [v, r, a] => ⟨nat! v, nat! r != 0, nat! a != 0⟩
  | _ => ⟨Gen.cacheInternalVersion, Gen.cacheTolerantRead, Gen.cacheAtomicWrite⟩

def parseFiles (t : Txt) : Dir → Stem → Option Content :=
  let entries := (splitOn 59 t).filterMap fun e =>
    match splitOn 46 e with
    | [d, s, c] => some (nat! d, nat! s, nat! c)
    | _ => none
  fun d s => (entries.find? fun e => e.1 == d && e.2.1 == s).map (·.2.2)

def parseLoc (t : Txt) : Loc := if nat! t == 99 then .home else .companion (nat! t)

def parseOp (t : Txt) : Option Op :=
  match splitOn 46 t with
  | [[76], s, l] => some (.load (nat! s) (nat! l != 0))
  | [[69], d, s, c] => some (.edit (nat! d) (nat! s) (if c == [45] then none else some (nat! c)))
  | [[75], s, p] => some (.crashWrite (nat! s) (nat! p))
  | [[67], l, s, h] => some (.corrupt ⟨parseLoc l, nat! s, nat! h⟩)
  | [[68], l, s, h] => some (.drop ⟨parseLoc l, nat! s, nat! h⟩)
  | [[70], l, s, h, v, x] => some (.foreign ⟨parseLoc l, nat! s, nat! h⟩ (nat! v) (nat! x))
  | [[83], d, s, c] => some (.shipped (nat! d) (nat! s) (nat! c))
  | [[87], d, b] => some (.setWritable (nat! d) (nat! b != 0))
  | [[72], b] => some (.setHomeWritable (nat! b != 0))
  | [[78]] => some .newProcess
  | [[82], s, n, sched] => some (.concurrent (nat! s) (nat! n) ((splitOn 58 sched).filterMap parseNat?))
  | _ => none

def parseOps (t : Txt) : List Op := (splitOn 44 t).filterMap parseOp

def showOutcome (tag : String) : Outcome → String
  | .error => "err:" ++ tag
  | .ok d => "ok:" ++ toString d ++ ":" ++ tag

def srcTag : Src → String
  | .cold => "c" | .companion => "k" | .home => "h"

/-- `Cache.run`, also reporting where a full load was served from -/
def runObs (cfg : Cfg) : St → List Op → List String
  | _, [] => []
  | s, op :: ops =>
    let here : List String :=
      match op with
      | .load stem false => let r := loadFull cfg world s stem; [showOutcome (srcTag r.2.2) r.2.1]
      | .load _ true => (step cfg world s op).2.map (showOutcome "l")
      | _ => (step cfg world s op).2.map (showOutcome "r")
    here ++ runObs cfg (step cfg world s op).1 ops

def handle (r : Req) : Option String :=
  match r.op, r.args with
  | "c17cfg", [] =>
    some (" ".intercalate [toString Gen.cacheInternalVersion, boolS Gen.cacheTolerantRead,
      boolS Gen.cacheAtomicWrite, boolS Gen.cacheLazyBypasses, boolS Gen.cacheRtProbeOverwritten,
      toString Gen.cacheDataDirs.length, toString Gen.cacheHashHexLen])
  | "c17run", [cfg, files, ops] =>
    let s0 := init (parseFiles (field files)) (fun _ => true) true
    some (" ".intercalate (runObs (parseCfg (field cfg)) s0 (parseOps (field ops))))
  | "c17spec", [files, ops] =>
    some (" ".intercalate ((Spec.CacheSpec.run world (parseFiles (field files)) (parseOps (field ops))).map
      (showOutcome "s")))
  | "c17name", [stem, hex] =>
    some (enc (CacheName.companionName (field stem) (field hex)) ++ " " ++
          enc (CacheName.homeName (field stem) (field hex)))
  | _, _ => none

end OsacaVerif.Driver.C17
