import OsacaVerif.Driver.YCodec
import OsacaVerif.Model.Ports
import OsacaVerif.Model.Balance
import OsacaVerif.Model.Sanity
import OsacaVerif.Spec.Feasible
import OsacaVerif.Spec.WellFormed
import OsacaVerif.Gen.Consts
/- driver ops of C01 / C02 / C15 -/
namespace OsacaVerif.Driver.C01
open OsacaVerif OsacaVerif.Proto OsacaVerif.Text OsacaVerif.Ports OsacaVerif.YCodec

def splitC (c : Char) (l : List Char) : List (List Char) :=
  let rec go (cur : List Char) (acc : List (List Char)) : List Char → List (List Char)
    | [] => (cur.reverse :: acc).reverse
    | x :: xs => if x == c then go [] (cur.reverse :: acc) xs else go (x :: cur) acc xs
  go [] [] l

def ratOf (l : List Char) : Option Rat := parseRat? (l.map Char.toNat)

def ratList (l : List Char) : Option (List Rat) :=
  if l.isEmpty then some [] else (splitC ',' l).mapM ratOf

def natList (l : List Char) : Option (List Nat) :=
  if l.isEmpty then some [] else (splitC ',' l).mapM (fun x => parseNat? (x.map Char.toNat))

/-- `cycles:mult:p1,p2|cycles:mult:...` -/
def uopsOf (l : List Char) : Option (List Uop) :=
  if l.isEmpty then some [] else
  (splitC '|' l).mapM fun u =>
    match splitC ':' u with
    | [c, m, ps] => do
      let c ← ratOf c; let m ← ratOf m; let ps ← natList ps
      pure { cycles := c, mult := m, ports := ps }
    | _ => none

def showVec (v : List Rat) : String := ",".intercalate (v.map showRat)

def errS : Err → String
  | .keyError => "key-error"
  | .typeError => "type-error"
  | .valueError => "value-error"

def stripEq (f : List Char) : List Char := (field f).map Char.ofNat

def handle (r : Req) : Option String :=
  match r.op, r.args with
  | "avgY", [ports, pp] =>
    match decodeY ports, decodeY pp with
    | some ps, some y =>
      match averageY (txtList ps) y with
      | .ok v => some ("ok " ++ showVec v)
      | .error e => some ("err " ++ errS e)
    | _, _ => some "bad-arg"
  | "wfpp", [ports, pp] =>
    match decodeY ports, decodeY pp with
    | some ps, some y => some (if Spec.wfPPY (txtList ps) y then "1" else "0 " ++ encS (Spec.explainPP (txtList ps) y))
    | _, _ => some "bad-arg"
  | "wfnum", [v] =>
    match decodeY v with
    | some y => some (boolS (Spec.wfNumY y))
    | none => some "bad-arg"
  | "feasible", [eps, n, uops, v] =>
    match ratOf (stripEq eps), parseNat? (field n), uopsOf (stripEq uops), ratList (stripEq v) with
    | some e, some n, some us, some v =>
      some (match Spec.checkFeasible e n us v with | none => "ok" | some c => c)
    | _, _, _, _ => some "bad-arg"
  | "uniform", [n, uops] =>
    match parseNat? (field n), uopsOf (stripEq uops) with
    | some n, some us => some (showVec (uniform n us))
    | _, _ => some "bad-arg"
  | "lowerbound", [uops] =>
    match uopsOf (stripEq uops) with
    | some us => some (showRat (Spec.lowerBound us))
    | none => some "bad-arg"
  | "colsums", [lines] =>
    -- `tp:v1,v2|tp:v1,v2...` with the skip value and digits regenerated from the source
    let ls := if (stripEq lines).isEmpty then some [] else
      (splitC '|' (stripEq lines)).mapM fun l =>
        match splitC ':' l with
        | [tp, v] => do let tp ← ratOf tp; let v ← ratList v; pure ({ tp := tp, pressure := v } : Line)
        | _ => none
    match ls with
    | some ls => some (showVec (colSums Gen.tpSumSkipValue Gen.tpSumDigits ls) ++ " " ++
        showVec (colSumsExact Gen.tpSumSkipValue ls))
    | none => some "bad-arg"
  | "round", [x, d] =>
    match ratOf (stripEq x), parseNat? (field d) with
    | some x, some d => some (showRat (roundHalfEven x d))
    | _, _ => some "bad-arg"
  | "consts", [] =>
    some (showRat Gen.balanceInc ++ " " ++ toString Gen.balanceCapDigits ++ " " ++ toString Gen.tpSumDigits
      ++ " " ++ showRat Gen.tpSumSkipValue)
  | "balance", [n, uops, moves, lo] =>
    -- replay guarded moves `j:a:b:delta|...` from the uniform decomposition; reply the pressure
    -- vector, or the index of the first move whose guard fails
    match parseNat? (field n), uopsOf (stripEq uops), ratOf (stripEq lo) with
    | some n, some us, some lo =>
      let ms := if (stripEq moves).isEmpty then some [] else
        (splitC '|' (stripEq moves)).mapM fun m =>
          match splitC ':' m with
          | [j, a, b, d] => do
            let j ← parseNat? (j.map Char.toNat); let a ← parseNat? (a.map Char.toNat)
            let b ← parseNat? (b.map Char.toNat); let d ← ratOf d
            pure ({ j := j, a := a, b := b, δ := d } : Balance.Move)
          | _ => none
      match ms with
      | some ms =>
        let rec go (x : Balance.Decomp) (i : Nat) : List Balance.Move → String
          | [] => "ok " ++ showVec (Balance.pressure n x)
          | m :: rest => match Balance.step lo us x m with
            | some x' => go x' (i + 1) rest
            | none => "guard-fails " ++ toString i
        some (go (Balance.init n us) 0 ms)
      | none => some "bad-arg"
    | _, _, _ => some "bad-arg"
  | "sanity", [forms] =>
    -- forms: one char triple per form, `n` = None, `x` = present:  e.g. `xxn,xnx`
    let fs := if (stripEq forms).isEmpty then [] else (splitC ',' (stripEq forms)).map fun t =>
      let y (c : Char) : Y := if c == 'n' then .null else .num 1
      match t with
      | [a, b, c] => ({ tp := y a, lat := y b, pp := y c } : Sanity.FormNums)
      | _ => { tp := .null, lat := .null, pp := .null }
    let c := Sanity.sanityCounts fs
    some (toString c.noTp ++ " " ++ toString c.noLat ++ " " ++ toString c.noPP)
  | _, _ => none

end OsacaVerif.Driver.C01
