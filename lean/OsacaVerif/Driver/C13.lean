import OsacaVerif.Driver.Proto
import OsacaVerif.Model.Report
import OsacaVerif.Model.ReportView
import OsacaVerif.Spec.ReportView
/-
  Line-protocol ops of C13.

  An analysis is sent as a flat list of fields:
    ignore nports port*  nrows (line hasMnem nflags flag* text usedmask press*nports)*
    ncp (line repr)*  ndeps (key lat latRepr root nmem (line repr)*)*  ntp tp*  cpSum
-/
namespace OsacaVerif.Driver.C13
open OsacaVerif OsacaVerif.Proto OsacaVerif.Text OsacaVerif.Fmt OsacaVerif.Report
open OsacaVerif.Spec.Report

abbrev Dec := StateT (List (List Char)) Option

def pop : Dec (List Char) := fun s => match s with
  | [] => none
  | a :: r => some (a, r)
def popTxt : Dec Txt := do return field (← pop)
def popNat : Dec Nat := do
  match parseNat? (field (← pop)) with
  | some n => return n
  | none => failure
def popBool : Dec Bool := do return (← popNat) != 0
def popRat : Dec Rat := do
  match parseRat? (field (← pop)) with
  | some q => return q
  | none => failure
def popN {α} (f : Dec α) : Nat → Dec (List α)
  | 0 => return []
  | n + 1 => do let a ← f; let r ← popN f n; return a :: r
def popList {α} (f : Dec α) : Dec (List α) := do popN f (← popNat)

def popRow (nports : Nat) : Dec Row := do
  let line ← popNat
  let hm ← popBool
  let flags ← popList popTxt
  let text ← popTxt
  let mask ← popTxt
  let press ← popN popRat nports
  return { line, press, used := mask.map (· == 49), hasMnemonic := hm, flags, text }

def popPair : Dec (Nat × Txt) := do let n ← popNat; let t ← popTxt; return (n, t)

def popDep : Dec Dep := do
  let key ← popTxt
  let lat ← popRat
  let latRepr ← popTxt
  let root ← popTxt
  let members ← popList popPair
  return { key, lat, latRepr, root, members }

def popAnalysis : Dec Analysis := do
  let ignoreUnknown ← popBool
  let ports ← popList popTxt
  let rows ← popList (popRow ports.length)
  let cp ← popList popPair
  let deps ← popList popDep
  let tpSum ← popList popRat
  let cpSum ← popTxt
  return { ports, rows, cp, deps, ignoreUnknown, tpSum, cpSum }

def run {α} (d : Dec α) (args : List (List Char)) : Option α :=
  match d args with
  | some (a, []) => some a
  | _ => none

def encShown (s : Shown) : String :=
  (if s.neg then "-" else "+") ++ toString s.mant ++ "e" ++ toString s.decs
def encCell : Option Shown → String
  | none => "_"
  | some s => encShown s

def encView (v : TableView) : String :=
  let cols := v.cols.map fun c => enc c.name ++ " " ++ toString c.plen ++ " " ++ toString c.sep
  let rows := v.rows.map fun r =>
    toString r.line ++ " " ++ toString r.cells.length ++ " " ++
      " ".intercalate (r.cells.map encCell ++ [enc r.cp, enc r.lcd, enc r.flags, enc r.text])
  let tail := match v.tail with
    | .missing n => "missing " ++ toString n
    | .summary sums cp lcd =>
      "summary " ++ toString sums.length ++ " " ++ " ".intercalate (sums.map encShown ++ [enc cp, enc lcd])
  "ok " ++ toString v.cols.length ++ " " ++ " ".intercalate (cols ++ [toString v.rows.length] ++ rows ++ [tail])

def encLcd (l : List LcdView) : String :=
  "ok " ++ " ".intercalate (toString l.length :: l.map fun e =>
    toString e.line ++ " " ++ encShown e.lat ++ " " ++
      " ".intercalate (toString e.members.length :: e.members.map toString))

def handle (r : Req) : Option String :=
  match r.op with
  | "c13report" =>
    some <| match run (do
        let version ← popTxt; let file ← popTxt; let arch ← popTxt; let stamp ← popTxt
        let aw ← popBool; let lw ← popBool; let lcdw ← popBool
        let a ← popAnalysis
        return enc (fullAnalysis version file arch stamp aw lw lcdw a)) r.args with
      | some s => s
      | none => "bad-args"
  | "c13view" =>
    some <| match run popAnalysis r.args with
      | some a => encView (view a)
      | none => "bad-args"
  | "c13lcdview" =>
    some <| match run popAnalysis r.args with
      | some a => encLcd ((sortDeps a.deps).map lcdView)
      | none => "bad-args"
  | "c13dict" =>
    some <| match run (do
        let aw ← popBool; let lw ← popBool; let lcdw ← popBool
        let a ← popAnalysis
        let ws := dictWarningList aw lw lcdw a.rows
        let lcds := a.rows.map fun row => match dictLatencyLcd a row with
          | some t => enc t
          | none => "_"
        let sums := (sumsOf a).map showRat
        return " ".intercalate ([toString ws.length] ++ ws.map enc ++ [toString lcds.length] ++ lcds ++
          [toString sums.length] ++ sums ++ [enc a.cpSum, enc (lcdSumRepr a)])) r.args with
      | some s => s
      | none => "bad-args"
  | "c13parse" =>
    match r.args with
    | [t] => some <| match parseTable (field t) with
      | some v => encView v
      | none => "noparse"
    | _ => some "bad-args"
  | "c13lcd" =>
    match r.args with
    | [t] => some <| match parseLcdList (field t) with
      | some l => encLcd l
      | none => "noparse"
    | _ => some "bad-args"
  | "c13warn" =>
    match r.args with
    | [t] => let (a, l, c) := detectWarnings (field t); some (boolS a ++ " " ++ boolS l ++ " " ++ boolS c)
    | _ => some "bad-args"
  | "c13shown" =>
    -- sign mant decs value
    some <| match run (do
        let neg ← popBool; let mant ← popNat; let decs ← popNat; let x ← popRat
        return boolS (shownOk ⟨neg, mant, decs⟩ x)) r.args with
      | some s => s
      | none => "bad-args"
  | "c13flags" =>
    some <| match run (do
        let archGiven ← popBool; let linesGiven ← popBool; let kl ← popNat; let pl ← popNat
        return boolS (archWarningFlag archGiven) ++ " " ++ boolS (lengthWarningFlag linesGiven kl pl)) r.args with
      | some s => s
      | none => "bad-args"
  | "c13defarch" =>
    match r.args with
    | [i] => some <| match defaultArch (field i) with
      | some a => enc a
      | none => "none"
    | _ => some "bad-args"
  | _ => none

end OsacaVerif.Driver.C13
