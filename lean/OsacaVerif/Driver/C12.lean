import OsacaVerif.Driver.Proto
import OsacaVerif.Model.RegDep
import OsacaVerif.Spec.RegUniverse
namespace OsacaVerif.Driver.C12
open OsacaVerif OsacaVerif.Proto OsacaVerif.Text

def handle (r : Req) : Option String :=
  match r.op, r.args with
  | "x86dep", [a, b] => some (boolS (RegDep.x86 (field a) (field b)))
  | "a64dep", [pa, na, pb, nb] => some (boolS (RegDep.a64 (field pa) (field na) (field pb) (field nb)))
  | "x86universe", [] =>
    some (" ".intercalate (Spec.x86Universe.map fun (r : Spec.Reg) => enc r.name ++ ":" ++ toString r.fam))
  | "a64prefixes", [] =>
    some (" ".intercalate (Spec.a64Prefixes.map fun p =>
      enc [p] ++ ":" ++ toString ((Spec.a64Class p).getD 99)))
  | "a64spec", [pa, na, pb, nb] =>
    -- specification: same name up to case, same architectural class (single-letter prefixes)
    match field pa, field pb with
    | [p], [q] =>
      let cp := Spec.a64Class (lowerC p); let cq := Spec.a64Class (lowerC q)
      some (boolS (lower (field na) == lower (field nb) && cp.isSome && cp == cq))
    | _, _ => some "0"
  | _, _ => none

end OsacaVerif.Driver.C12
