import OsacaVerif.Driver.Proto
import OsacaVerif.Driver.C16
import OsacaVerif.Model.Workers
/-
  Driver ops of C19: the poll loop on a virtual schedule.
    pollrun <timeout> <start> <ticks: r,r,…> <kill delays: r,r,…> <workers>
    workers:  `exit@t:id,t:id|exit@…`   (batch = its number)
  reply:  `<timedOut> <killed 0/1,…> <delivered ids per worker, workers separated by |> <leftAt>`
          or `none` when the readings run out while the loop is still polling.
-/
namespace OsacaVerif.Driver.C19
open OsacaVerif OsacaVerif.Proto OsacaVerif.Workers OsacaVerif.Driver.C16

def rats (s : String) : List Rat := (parts s ",").map ratOf

def parseWorker (s : String) : Worker Nat :=
  match s.splitOn "@" with
  | [e, bs] =>
    ⟨(parts bs ",").filterMap fun b =>
        match b.splitOn ":" with
        | [t, i] => i.toNat?.map fun i => (ratOf t, i)
        | _ => none,
      ratOf e⟩
  | _ => ⟨[], 0⟩

def handle (r : Req) : Option String :=
  match r.op, r.args.map tok with
  | "pollrun", [timeout, start, ticks, kd, workers] =>
    let ws := (parts workers "|").map parseWorker
    match run Gen.flagOnlyIfAlive (ratOf timeout) (ratOf start) (rats ticks) (rats kd) ws with
    | none => some "none"
    | some o =>
      some (boolS o.timedOut ++ " " ++
        (if o.killed.isEmpty then "-" else ",".intercalate (o.killed.map boolS)) ++ " " ++
        (if o.delivered.isEmpty then "-" else "|".intercalate (o.delivered.map (showNats ·))) ++ " " ++
        (match o.leftAt with | some t => showRat t | none => "-"))
  | "pollconsts", [] =>
    some (showRat Gen.pollInterval ++ " " ++ boolS Gen.loopCondLe ++ " " ++ toString Gen.noTimeoutValue ++ " " ++
      boolS Gen.flagOnlyIfAlive)
  | _, _ => none

end OsacaVerif.Driver.C19
