import OsacaVerif.Driver.Proto
import OsacaVerif.Model.Yaml
/-
  One-field text encoding of YAML values for the line protocol:
    N null | T | F | R<rat>; | S<cp>.<cp>...; (code points, decimal) | L<items>E | M<k><v>...E
-/
namespace OsacaVerif.YCodec
open OsacaVerif OsacaVerif.Proto OsacaVerif.Text

partial def parseY : List Char → Option (Y × List Char)
  | 'N' :: r => some (.null, r)
  | 'T' :: r => some (.bool true, r)
  | 'F' :: r => some (.bool false, r)
  | 'R' :: r =>
    let (num, rest) := r.span (· != ';')
    match parseRat? (num.map Char.toNat), rest with
    | some q, _ :: rest' => some (.num q, rest')
    | _, _ => none
  | 'S' :: r =>
    let (body, rest) := r.span (· != ';')
    match rest with
    | _ :: rest' =>
      if body.isEmpty then some (.str [], rest') else
      let parts := (splitOnChar body '.')
      let cps := parts.map (fun p => (parseNat? (p.map Char.toNat)).getD 63)
      some (.str cps, rest')
    | [] => none
  | 'L' :: r => parseItems r []
  | 'M' :: r => parsePairs r []
  | _ => none
where
  splitOnChar (l : List Char) (c : Char) : List (List Char) :=
    let rec go (cur : List Char) (acc : List (List Char)) : List Char → List (List Char)
      | [] => (cur.reverse :: acc).reverse
      | x :: xs => if x == c then go [] (cur.reverse :: acc) xs else go (x :: cur) acc xs
    go [] [] l
  parseItems (r : List Char) (acc : List Y) : Option (Y × List Char) :=
    match r with
    | 'E' :: rest => some (.list acc.reverse, rest)
    | _ => match parseY r with
      | some (y, rest) => parseItems rest (y :: acc)
      | none => none
  parsePairs (r : List Char) (acc : List (Y × Y)) : Option (Y × List Char) :=
    match r with
    | 'E' :: rest => some (.map acc.reverse, rest)
    | _ => match parseY r with
      | some (k, rest) => match parseY rest with
        | some (v, rest') => parsePairs rest' ((k, v) :: acc)
        | none => none
      | none => none

def decodeY (f : List Char) : Option Y :=
  match parseY ((field f).map Char.ofNat) with
  | some (y, []) => some y
  | _ => none

/-- list of strings (e.g. port names) out of a Y list -/
def txtList : Y → List Txt
  | .list l => l.filterMap (fun y => match y with | .str t => some t | _ => none)
  | _ => []

end OsacaVerif.YCodec
