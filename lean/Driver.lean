import OsacaVerif.Driver.Proto
import OsacaVerif.Driver.C12
import OsacaVerif.Driver.C01
import OsacaVerif.Driver.DGraph
import OsacaVerif.Driver.C18
import OsacaVerif.Driver.C17
import OsacaVerif.Driver.C20
import OsacaVerif.Driver.C11
import OsacaVerif.Driver.C13
import OsacaVerif.Driver.C16
import OsacaVerif.Driver.C19
import OsacaVerif.Driver.C09
import OsacaVerif.Driver.C10
import OsacaVerif.Driver.C07
import OsacaVerif.Driver.Roles
import OsacaVerif.Driver.Pipeline
import OsacaVerif.Driver.EndToEnd
open OsacaVerif OsacaVerif.Proto

/-- one handler per property module; the first that recognises the op answers -/
def handlers : List (Req → Option String) := [
  Driver.C12.handle,
  Driver.C01.handle,
  Driver.DGraph.handle,
  Driver.C18.handle,
  Driver.C17.handle,
  Driver.C20.handle,
  Driver.C11.handle,
  Driver.C13.handle,
  Driver.C16.handle,
  Driver.C19.handle,
  Driver.C09.handle,
  Driver.C10.handle,
  Driver.C07.handle,
  Driver.Roles.handle,
  Driver.Pipeline.handle,
  Driver.EndToEnd.handle
]

def dispatch (r : Req) : String :=
  if r.op == "ping" then "pong" else
  match handlers.findSome? (fun h => h r) with
  | some s => s
  | none => "bad-op"

partial def loop (hin : IO.FS.Stream) (hout : IO.FS.Stream) : IO Unit := do
  let line ← hin.getLine
  if line.isEmpty then return ()
  hout.putStrLn (dispatch (parseReq line))
  loop hin hout

def main : IO Unit := do
  let hin ← IO.getStdin
  let hout ← IO.getStdout
  loop hin hout
  hout.flush
