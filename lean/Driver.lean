import OsacaVerif.Driver.Proto
import OsacaVerif.Driver.C12
open OsacaVerif OsacaVerif.Proto

def dispatch (r : Req) : String :=
  match r.op with
  | "ping" => "pong"
  | _ =>
    match Driver.C12.handle r with
    | some s => s
    | none => "bad-op"

partial def loop (hin : IO.FS.Stream) (hout : IO.FS.Stream) : IO Unit := do
  let line ← hin.getLine
  if line.isEmpty then return ()
  hout.putStrLn (dispatch (parseReq line))
  loop hin hout

def main : IO Unit := do
  let hin ← IO.getStdin
  let hout ← IO.getStdout
  loop hin hout
  hout.flush
