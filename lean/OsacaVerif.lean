-- Root of the library: everything the checks build.
import OsacaVerif.Model.Text
import OsacaVerif.Model.RegDep
import OsacaVerif.Spec.RegUniverse
import OsacaVerif.Lemmas.Text
import OsacaVerif.Props.C12
import OsacaVerif.Model.ImportText
import OsacaVerif.Model.ImportTypes
import OsacaVerif.Model.Import
import OsacaVerif.Spec.ImportSpec
import OsacaVerif.Lemmas.ImportNum
import OsacaVerif.Lemmas.ImportDecode
import OsacaVerif.Lemmas.ImportFlow
import OsacaVerif.Lemmas.ImportTextL
import OsacaVerif.Props.C20
