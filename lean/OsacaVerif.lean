-- Root of the library: everything the checks build.
import OsacaVerif.Props.C01
import OsacaVerif.Props.C02
import OsacaVerif.Props.C03
import OsacaVerif.Props.C04
import OsacaVerif.Props.C05
import OsacaVerif.Props.C06
import OsacaVerif.Props.C12
import OsacaVerif.Props.C14
import OsacaVerif.Props.C15
import OsacaVerif.Driver.C01
import OsacaVerif.Driver.C12
import OsacaVerif.Driver.DGraph
