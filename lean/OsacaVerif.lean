-- Root of the library: everything the checks build.
import OsacaVerif.Model.Text
import OsacaVerif.Model.RegDep
import OsacaVerif.Spec.RegUniverse
import OsacaVerif.Lemmas.Text
import OsacaVerif.Props.C12
import OsacaVerif.Spec.X86Ast
import OsacaVerif.Model.ParseX86
import OsacaVerif.Spec.X86Render
import OsacaVerif.Lemmas.ParseX86Basic
import OsacaVerif.Lemmas.ParseX86Num
import OsacaVerif.Lemmas.ParseX86Tok
import OsacaVerif.Lemmas.ParseX86Mem
import OsacaVerif.Lemmas.ParseX86Op
import OsacaVerif.Lemmas.ParseX86Line
import OsacaVerif.Lemmas.ParseX86File
import OsacaVerif.Lemmas.ParseX86Tabs
import OsacaVerif.Props.C09
