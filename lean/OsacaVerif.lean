-- Root of the library: everything the checks build.
import OsacaVerif.Model.Text
import OsacaVerif.Model.RegDep
import OsacaVerif.Spec.RegUniverse
import OsacaVerif.Lemmas.Text
import OsacaVerif.Props.C12
import OsacaVerif.Model.PyInt
import OsacaVerif.Model.Marker
import OsacaVerif.Spec.KernelSelect
import OsacaVerif.Lemmas.PyInt
import OsacaVerif.Lemmas.Marker
import OsacaVerif.Props.C11
