-- Root of the library: everything the checks build.
import OsacaVerif.Model.Text
import OsacaVerif.Model.RegDep
import OsacaVerif.Spec.RegUniverse
import OsacaVerif.Lemmas.Text
import OsacaVerif.Props.C12
import OsacaVerif.Model.Cache
import OsacaVerif.Model.CacheName
import OsacaVerif.Spec.CacheSpec
import OsacaVerif.Lemmas.Cache
import OsacaVerif.Lemmas.CacheName
import OsacaVerif.Props.C17
