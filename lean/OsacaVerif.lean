-- Root of the library: everything the checks build.
import OsacaVerif.Model.Text
import OsacaVerif.Model.RegDep
import OsacaVerif.Spec.RegUniverse
import OsacaVerif.Lemmas.Text
import OsacaVerif.Props.C12
import OsacaVerif.Model.Fmt
import OsacaVerif.Model.Report
import OsacaVerif.Model.ReportView
import OsacaVerif.Spec.ReportView
import OsacaVerif.Lemmas.Fmt
import OsacaVerif.Lemmas.Report
import OsacaVerif.Lemmas.ReportTable
import OsacaVerif.Lemmas.ReportLcd
import OsacaVerif.Props.C13
