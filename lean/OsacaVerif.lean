-- Root of the library: everything the checks build.
import OsacaVerif.Model.Text
import OsacaVerif.Model.RegDep
import OsacaVerif.Spec.RegUniverse
import OsacaVerif.Lemmas.Text
import OsacaVerif.Props.C12
import OsacaVerif.Model.History
import OsacaVerif.Model.HistoryGen
import OsacaVerif.Spec.HistoryIndep
import OsacaVerif.Lemmas.History
import OsacaVerif.Props.C18
