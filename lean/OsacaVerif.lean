-- Root of the library: everything the checks build.
import OsacaVerif.Model.Text
import OsacaVerif.Model.RegDep
import OsacaVerif.Spec.RegUniverse
import OsacaVerif.Lemmas.Text
import OsacaVerif.Props.C12
import OsacaVerif.Gen.WorkersConsts
import OsacaVerif.Model.Workers
import OsacaVerif.Model.LcdPost
import OsacaVerif.Spec.LcdSet
import OsacaVerif.Lemmas.Workers
import OsacaVerif.Lemmas.LcdPost
import OsacaVerif.Props.C16
import OsacaVerif.Props.C19
