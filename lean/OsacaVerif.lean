-- Root of the library: everything the checks build.
import OsacaVerif.Model.Text
import OsacaVerif.Model.RegDep
import OsacaVerif.Spec.RegUniverse
import OsacaVerif.Lemmas.Text
import OsacaVerif.Props.C12
import OsacaVerif.Model.ParseA64
import OsacaVerif.Props.C10
