-- Root of the library: everything the checks build.
import OsacaVerif.Props.C01
import OsacaVerif.Props.C02
import OsacaVerif.Props.C07
import OsacaVerif.Props.C08
import OsacaVerif.Props.C12
import OsacaVerif.Props.C15
import OsacaVerif.Driver.C01
import OsacaVerif.Driver.C07
import OsacaVerif.Driver.C12
