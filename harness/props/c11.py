"""C11 - Kernel selection is exact and non-instruction lines are transparent.

proof:   Props/C11.lean -- marked_exact (+_x86/_a64/_between/_sem), no_marker_whole, start_only, end_only,
         decoy_not_marker, mov_without_bytes, lines_denotation, select_lines_exact, three_ways_select,
         numbering theorems; all literals regenerated from the source (Gen/MarkerConsts).
         Props/C11Pipeline.lean -- the composed pipeline (selection o graph o critical path o LCD o column sums):
         analysis_renumber_invariant, noise_transparent, three_ways_same at the level of the numeric analysis.
tie:     translator + correspondence of the model with reduce_to_section / find_marked_kernel_* /
         get_line_range / parse_file numbering / int() on generated inputs (real parsers produce the lines);
         harness/pipeline.py: the whole analysis of the real CLI path under --fixed vs the driver op pipe.run.
search:  oracle by construction on the real code: files laid out as prologue+start+body+end+epilogue
         (every marker style, decoys, both ISAs) must select exactly the body; --lines strings must denote
         exactly the named numbers; end-to-end metamorphic runs of osaca.osaca.run: marked file ==
         --lines == body alone == with noise lines == shifted beyond line 1000, on parsed numbers.
"""
import json
import os
import random
import re
import subprocess
import sys

from harness import core
from harness import c11_lib as L
from harness import pipeline
from harness.core import esc

TRUSTED = [
    "Lean 4.33 kernel; axioms of every theorem audited (allowed: propext, Classical.choice, Quot.sound)",
    "tools/gen/markerconsts.py: AST extraction of marker constants, index arithmetic, --lines separators, parse_file numbering",
    "harness/c11_lib.py abstraction of InstructionForm to (number, mnemonic, comment, directive, operand kinds) using the "
    "real parser's normalize_imd / get_full_reg_name; generators; canonicalisation; the diff",
    "modelled, not verified: the pyparsing grammars (the real parsers produce every line the model sees), Python int(), "
    "str.strip/split/replace on ASCII",
    "harness/pipeline.py: capture of the parsed file / kernel / KernelDG by wrapping BaseParser.parse_file and "
    "Frontend.full_analysis, encoding of the implementation's per-instruction semantic data (dgenc), comparison with 1e-9; "
    "the per-instruction data (operand roles, latency, throughput, uniform pressure) are inputs of the pipeline model "
    "(modelled and tied by C03Roles, C07, C08, C01); the optimal-throughput balancer is not part of it (--fixed)",
]
TOL = 1e-9
ISA_SPELLINGS = {"x86": ["x86", "X86"], "aarch64": ["aarch64", "AArch64", "AARCH64"]}
QUICK_ARCHS = {"x86": ["zen1", "zen4"], "aarch64": ["n1", "tx2"]}
DEFAULT_MODELS = ["spr", "v2"]   # osaca.DEFAULT_ARCHS values (the no --arch runs need them in the private data directory)
ISA_OF = {"a64fx": "aarch64", "a72": "aarch64", "m1": "aarch64", "n1": "aarch64", "tsv110": "aarch64", "tx2": "aarch64",
          "v2": "aarch64"}


def isa_of_arch(a):
    return ISA_OF.get(a, "x86")


def exc_name(e):
    if isinstance(e, (IndexError, ValueError)):
        return "raise"
    return "exc:" + type(e).__name__


def file_text(rng, lines):
    return "\n".join(lines) + ("\n" if rng.random() < 0.8 else "")


def expected_numbers(lines, seg):
    a, n = seg
    return [i + 1 for i in range(a, a + n) if not L.is_blank(lines[i])]


def nonblank(lines):
    return sum(1 for x in lines if not L.is_blank(x))


# =========================================================================== part: convention
def part_convention(ctx):
    """the harness' hand-typed marker convention equals the Lean Spec's"""
    for isa in ("x86", "aarch64"):
        got = ctx.driver.ask1("c11.spec.marker %s" % esc(isa)).split(" ")
        c = L.CONV[isa]
        want = [",".join(c["movs"]), c["reg"], "%d,%d" % c["vals"], ",".join(map(str, c["nop"])), L.COMMENT_BEGIN, L.COMMENT_END]
        if got != want:
            raise core.InfraError("harness convention differs from Spec.KernelSelect for %s: %r vs %r" % (isa, got, want))


# =========================================================================== part: int()
def part_int(ctx, n):
    texts = ["", "0", "00", "0_0", "01", "0x", "0x_1f", "0x__1", "1__0", "_1", "1_", "+5", "-5", "- 5", " 7 ", "0b102",
             "0o8", "0X1F", "1e3", "0xg", "9" * 30, "-0", "+-1", "0x-1", "\t12\n", "\x0b5\x1f", "0_7", "0b_1", "0o_7"]
    texts += [L.gen_int_text(ctx.rng) for _ in range(n)]
    reqs, impl = [], []
    for t in texts:
        for op, f in (("c11.int0", lambda s: int(s, 0)), ("c11.int10", lambda s: int(s))):
            try:
                r = str(f(t))
            except ValueError:
                r = "err"
            impl.append(r)
            reqs.append("%s %s" % (op, esc(t)))
    model = ctx.driver.ask(reqs)
    bad = 0
    for q, r, m in zip(reqs, impl, model):
        if r != m:
            bad += 1
            if bad <= 3:
                ctx.correspondence_break("python-int", {"request": q, "python": r, "model": m})
    ctx.count("int_texts", len(reqs))
    ctx.count("int_valid", sum(1 for r in impl if r != "err"))
    ctx.log("int(): %d texts (%d valid literals), disagreements %d" % (len(reqs), ctx.counts["int_valid"], bad))


# =========================================================================== part: numbering
def part_numbering(ctx, n, parsers):
    blanks = ["", " ", "\t", "  \t ", "\r", "\x0b", "\x0c", " \x1c", "\x1f"]
    reqs, cases = [], []
    for k in range(n):
        isa = "x86" if k % 2 == 0 else "aarch64"
        seg, _ = L.quiet_segment(ctx.rng, isa, ctx.rng.randrange(0, 10))
        lines = []
        for s in seg:
            while ctx.rng.random() < 0.3:
                lines.append(ctx.rng.choice(blanks))
            lines.append(s)
        while ctx.rng.random() < 0.3:
            lines.append(ctx.rng.choice(blanks))
        text = "\n".join(lines) + ctx.rng.choice(["", "\n", "\n\n"])
        try:
            forms = parsers[isa].parse_file(text)
            impl = [(f.line_number, f.line) for f in forms]
        except Exception as e:  # noqa
            impl = "exc:" + type(e).__name__
        raw = text.split("\n")
        want = [(i + 1, s) for i, s in enumerate(raw) if s.strip() != ""]
        cases.append((isa, text, impl, want))
        reqs.append("c11.numlines %s" % esc(text))
    model = ctx.driver.ask(reqs)
    nc = nv = 0
    for (isa, text, impl, want), m in zip(cases, model):
        mnums = [int(x) for x in m.split(",")] if m else []
        inums = [a for a, _ in impl] if isinstance(impl, list) else impl
        if mnums != inums:
            nc += 1
            if nc <= 3:
                ctx.correspondence_break("parse_file-numbering", {"text": text, "impl": inums, "model": mnums})
        if impl != want:
            nv += 1
            if nv <= 2:
                ctx.violation("parse_file numbers lines %s, file positions of the non-blank lines are %s"
                              % (inums, [a for a, _ in want]),
                              {"kind": "numbering", "isa": isa, "text": text, "expected": [a for a, _ in want]})
    ctx.count("numbering_files", len(cases))
    ctx.log("parse_file numbering: %d files, corr disagreements %d, spec failures %d" % (len(cases), nc, nv))


# =========================================================================== part: marker selection
def impl_reduce(mu, parsed, isa_spelling, isa):
    import contextlib
    import io

    # find_marked_section prints the line when it swallows a TypeError: keep that out of the log
    with contextlib.redirect_stdout(io.StringIO()):
        try:
            k = mu.reduce_to_section(parsed, isa_spelling)
            nums = [f.line_number for f in k]
        except Exception as e:  # noqa
            return exc_name(e), None
        try:
            fn = mu.find_marked_kernel_x86ATT if isa == "x86" else mu.find_marked_kernel_AArch64
            s, e = fn(parsed)
        except Exception as ex:  # noqa
            return exc_name(ex), None
    return nums, (s, e)


def model_reply(reply):
    """-> (nums | 'raise' | 'bad-isa', (s, e) | None)"""
    if not reply.startswith("ok"):
        return reply, None
    parts = reply.split(" ")
    s = -1 if parts[1] == "-" else int(parts[1])
    e = -1 if parts[2] == "-" else int(parts[2])
    nums = [int(x) for x in parts[3].split(",")] if len(parts) > 3 and parts[3] else []
    return nums, (s, e)


def part_select(ctx, n_layout, n_wild, parsers, mu):
    cases = []
    # ---- corpus: the repository's two IACA-marked files (expected kernels from their content)
    for isa, name, first, last in (("x86", "triad_x86_iaca.s", 146, 154), ("aarch64", "triad_arm_iaca.s", 307, 444)):
        text = open(os.path.join(core.REPO, "tests", "test_files", name)).read()
        raw = text.split("\n")
        want = [i + 1 for i in range(first - 1, last) if raw[i].strip() != ""]
        cases.append({"isa": isa, "text": text, "expect": want, "shape": "corpus:" + name, "sizes": None})
    # ---- corpus: the markers OSACA itself writes (get_marker) around a small body
    for isa in ("x86", "aarch64"):
        c = L.cmt(isa)
        body = L.POOL[isa]["ins"][:4]
        if isa == "x86":
            sm = ["movl      $111, %ebx # OSACA START MARKER", ".byte     100        # OSACA START MARKER",
                  ".byte     103        # OSACA START MARKER", ".byte     144        # OSACA START MARKER"]
            em = [x.replace("111", "222").replace("START", "END") for x in sm]
        else:
            sm = ["mov       x1, #111    // OSACA START MARKER", ".byte     213,3,32,31 // OSACA START MARKER"]
            em = [x.replace("111", "222").replace("START", "END") for x in sm]
        pro = [L.POOL[isa]["ins"][5], c + " prologue"]
        lines = pro + sm + body + em + [L.POOL[isa]["ins"][6]]
        cases.append({"isa": isa, "text": "\n".join(lines) + "\n", "expect": expected_numbers(lines, (len(pro) + len(sm), len(body))),
                      "shape": "corpus:get_marker", "sizes": (len(pro), len(sm), len(body)), "lines": lines})
    # ---- generated layouts (oracle by construction)
    for k in range(n_layout):
        isa = "x86" if k % 2 == 0 else "aarch64"
        lay = L.layout_file(ctx.rng, isa, max_units=ctx.rng.choice([3, 6, 12]))
        # a .byte line of the body directly after a byte-style start marker (exactness at the boundary)
        if lay["shape"] == "marked" and lay["styles"][0] == "bytes" and ctx.rng.random() < 0.25:
            p, s, b, e, q = lay["sizes"]
            extra = ctx.rng.choice([".byte 7", ".byte 0x90, 0x90", ".byte .L2-.L1", ".byte foo"])
            lay["lines"] = lay["lines"][:p + s] + [extra] + lay["lines"][p + s:]
            lay["sizes"] = (p, s, b + 1, e, q)
            lay["seg"] = (p + s, b + 1)
            lay["notes"]["body starts with .byte"] = 1
        lines = lay["lines"]
        cases.append({"isa": isa, "text": file_text(ctx.rng, lines), "expect": expected_numbers(lines, lay["seg"]),
                      "shape": lay["shape"], "styles": lay["styles"], "notes": lay["notes"], "lines": lines,
                      "sizes": lay["sizes"][:3] if lay["shape"] == "marked" else None})
    # ---- wild files (correspondence only)
    for k in range(n_wild):
        isa = "x86" if k % 2 == 0 else "aarch64"
        lines = L.wild_file(ctx.rng, isa)
        cases.append({"isa": isa, "text": file_text(ctx.rng, lines), "expect": None, "shape": "wild"})
    reqs, specreqs, specidx = [], [], []
    for ci, c in enumerate(cases):
        isa = c["isa"]
        p = parsers[isa]
        try:
            parsed = p.parse_file(c["text"])
        except Exception as e:  # noqa
            # every generated line parses on its own (checked when the pools were written).  If the file parses
            # once its whitespace-only lines are removed, the blank lines are the cause: a C11 failure.
            stripped = "\n".join(x for x in c["text"].split("\n") if x.strip() != "") + "\n"
            try:
                p.parse_file(stripped)
            except Exception as e2:  # noqa
                raise core.InfraError("generated line does not parse (%s): %s" % (isa, e2))
            c["skip"] = True
            reqs.append("ping")
            if ctx.counts.get("selection_blank_parse_failures", 0) < 2:
                ctx.violation("a file with whitespace-only lines cannot be parsed (%s: %s); without them it can"
                              % (type(e).__name__, str(e)[:120]),
                              {"kind": "blank-parse", "isa": isa, "text": c["text"]})
            ctx.count("selection_blank_parse_failures")
            continue
        c["spelling"] = ctx.rng.choice(ISA_SPELLINGS[isa]) if ctx.rng.random() < 0.9 else ctx.rng.choice(["mips", "x86_64", ""])
        c["impl"] = impl_reduce(mu, parsed, c["spelling"], isa)
        if c["spelling"].lower() not in ("x86", "aarch64"):
            try:
                mu.reduce_to_section(parsed, c["spelling"])
                c["impl"] = ("no-exception", None)
            except ValueError:
                c["impl"] = ("bad-isa", None)
            except Exception as e:  # noqa
                c["impl"] = ("exc:" + type(e).__name__, None)
        c["nums"] = [f.line_number for f in parsed]
        reqs.append(" ".join(["c11.reduce", esc(c["spelling"])] + [esc(L.abstract_line(f, p)) for f in parsed]))
        if c.get("sizes") and c.get("lines"):
            pr, sm, bd = c["sizes"]
            ls = c["lines"]
            specreqs.append("c11.spec.between %s %d %d %d" % (esc(",".join(map(str, c["nums"]))), nonblank(ls[:pr]),
                                                            nonblank(ls[pr:pr + sm]), nonblank(ls[pr + sm:pr + sm + bd])))
            specidx.append(ci)
    model = ctx.driver.ask(reqs)
    spec = ctx.driver.ask(specreqs)
    for ci, s in zip(specidx, spec):
        got = [int(x) for x in s.split(",")] if s else []
        if got != cases[ci]["expect"]:
            # Spec.between is fed with the line numbers the *implementation* assigned; if those are already wrong
            # (reported above as numbering failures) this self-consistency test of the harness says nothing
            if ctx.violations or ctx.broken:
                ctx.count("between_selfcheck_skipped")
                continue
            raise core.InfraError("harness expectation differs from Spec.between: %r vs %r" % (cases[ci]["expect"], got))
    nc = nv = 0
    dist = {}
    for c, m in zip(cases, model):
        if c.get("skip"):
            continue
        mnums, mse = model_reply(m)
        inums, ise = c["impl"]
        key = c["shape"] if not c["shape"].startswith("corpus") else "corpus"
        dist[key] = dist.get(key, 0) + 1
        if isinstance(inums, str):
            dist["outcome:" + inums] = dist.get("outcome:" + inums, 0) + 1
        for nk, nvv in (c.get("notes") or {}).items():
            dist["decoy:" + nk] = dist.get("decoy:" + nk, 0) + nvv
        if c.get("styles"):
            dist["styles:%s/%s" % c["styles"]] = dist.get("styles:%s/%s" % c["styles"], 0) + 1
        if mnums != inums or (ise is not None and mse is not None and tuple(mse) != tuple(ise)):
            nc += 1
            if nc <= 3:
                ctx.correspondence_break("reduce_to_section", {"isa": c["spelling"], "text": c["text"], "impl": [inums, ise],
                                                               "model": [mnums, mse]})
        if c["expect"] is not None and c["spelling"].lower() in ("x86", "aarch64") and inums != c["expect"]:
            nv += 1
            if nv <= 3:
                key = None
                ctx.violation("reduce_to_section selects lines %s, the lines between the markers are %s (%s)"
                              % (_short(inums), _short(c["expect"]), c["shape"]),
                              {"kind": "reduce", "isa": c["spelling"], "text": c["text"], "expected": c["expect"],
                               "observed": inums, "shape": c["shape"]}, key=key)
    ctx.count("selection_files", len(cases))
    ctx.count("selection_oracle_checked", sum(1 for c in cases if c["expect"] is not None))
    ctx.count("selection_corr_disagreements", nc)
    ctx.count("selection_spec_failures", nv)
    ctx.cov["distribution"]["selection"] = dist
    if cases:
        ctx.sample({"selection": {"isa": cases[4]["isa"], "text": cases[4]["text"][:400], "expected": cases[4]["expect"],
                                  "impl": cases[4]["impl"][0]}})
    ctx.log("reduce_to_section: %d files (%d with oracle), corr disagreements %d, spec failures %d"
            % (len(cases), ctx.counts["selection_oracle_checked"], nc, nv))


def _short(x):
    if isinstance(x, list) and len(x) > 12:
        return "[%s, ... %d numbers ..., %s]" % (", ".join(map(str, x[:4])), len(x) - 8, ", ".join(map(str, x[-4:])))
    return str(x)


# =========================================================================== part: --lines
def part_lines(ctx, n, O):
    cases = []
    for k in range(n):
        items = L.gen_items(ctx.rng, max_line=ctx.rng.choice([15, 60, 1200]))
        s = L.render_items(items)
        cases.append((s, items))
        if ctx.rng.random() < 0.5:
            cases.append((L.mangle_spec(ctx.rng, s), None))
    cases += [("3", [("s", 3)]), ("0-0", [("r", 0, 0, False)]), ("5:3", [("r", 5, 3, True)]), ("", None), (",", None),
              ("1-2-3", None), ("1:2:3", None), (" 4 , 5 ", None), ("+4", None), ("1_0-1_2", None), ("4-", None), ("-4", None),
              ("4--6", None), ("a", None), ("4,,5", None), ("007", None), ("2-+4", None)]
    reqs, impl, specreqs = [], [], []
    nums = list(range(0, 80))
    for s, items in cases:
        try:
            r = O.get_line_range(s)
            if not all(isinstance(x, int) for x in r):
                r = "exc:non-int"
        except ValueError:
            r = "err"
        except Exception as e:  # noqa
            r = "exc:" + type(e).__name__
        impl.append(r)
        reqs.append("c11.linerange %s" % esc(s))
        if items is not None:
            specreqs.append("c11.spec.denote %s" % esc(L.spec_items_field(items)))
    model = ctx.driver.ask(reqs)
    spec = ctx.driver.ask(specreqs)
    si = 0
    nc = nv = 0
    for (s, items), r, m in zip(cases, impl, model):
        mm = "err" if m == "err" else ([int(x) for x in m[3:].split(",")] if len(m) > 3 else [])
        if mm != r:
            nc += 1
            if nc <= 3:
                ctx.correspondence_break("get_line_range", {"spec": s, "impl": r, "model": mm})
        if items is not None:
            sp = [int(x) for x in spec[si].split(",")] if spec[si] else []
            si += 1
            want = L.denote_items(items)
            if sp != want:
                raise core.InfraError("harness denotation differs from Spec.denoteAll: %r vs %r" % (want, sp))
            if r != want:
                nv += 1
                if nv <= 3:
                    ctx.violation("get_line_range(%r) = %s, the specification names %s" % (s, _short(r), _short(want)),
                                  {"kind": "lines", "spec": s, "expected": want, "observed": r})
    ctx.count("lines_strings", len(cases))
    ctx.count("lines_wellformed", sum(1 for _, it in cases if it is not None))
    ctx.count("lines_errors", sum(1 for r in impl if r == "err"))
    ctx.sample({"lines": {"spec": cases[0][0], "impl": impl[0]}})
    ctx.log("get_line_range: %d strings (%d well-formed, %d ValueError), corr disagreements %d, spec failures %d"
            % (len(cases), ctx.counts["lines_wellformed"], ctx.counts["lines_errors"], nc, nv))


# =========================================================================== part: end to end
def find_body(lines, isa):
    """Independent, text-level location of the marked body in a shipped kernel file (start, count) or None."""
    conv = L.CONV[isa]
    s = e = None
    for i, ln in enumerate(lines):
        t = ln.strip()
        cm = re.match(r"^(#|//)\s*(.*?)\s*$", t)
        if cm and cm.group(2) == L.COMMENT_BEGIN and s is None:
            s = i + 1
        elif cm and cm.group(2) == L.COMMENT_END and s is not None and e is None:
            e = i
        m = re.match(r"^(movl?)\s+\$?#?(\w+)\s*,\s*[%#]?(\w+)", t)
        if m and m.group(1) in conv["movs"]:
            a, b = m.group(2), m.group(3)
            val, reg = (a, b) if isa == "x86" else (b, a)
            if reg == conv["reg"] and val in ("111", "222"):
                # collect the bytes that follow
                j, got = i + 1, []
                while j < len(lines) and re.match(r"^\s*\.byte\b", lines[j]) and len(got) < len(conv["nop"]):
                    got += [int(x, 0) for x in re.sub(r"(#|//).*", "", lines[j]).replace(".byte", "").replace(",", " ").split()]
                    j += 1
                if got[:len(conv["nop"])] == conv["nop"]:
                    if val == "111" and s is None:
                        s = j
                    elif val == "222" and s is not None and e is None:
                        e = i
    if s is None and e is None:
        return None
    if s is None or e is None or e < s:
        return None
    return s, e - s


def shipped_kernels(isa):
    out = []
    tf = os.path.join(core.REPO, "tests", "test_files")
    ex = os.path.join(core.REPO, "examples")
    names = []
    for f in sorted(os.listdir(tf)):
        if f.endswith(".s"):
            names.append(os.path.join(tf, f))
    for d in sorted(os.listdir(ex)):
        p = os.path.join(ex, d)
        if os.path.isdir(p):
            for f in sorted(os.listdir(p)):
                if f.endswith(".s"):
                    names.append(os.path.join(p, f))
    for p in names:
        text = open(p).read()
        guess = "aarch64" if re.search(r"\b[xwvqd][0-9]+\b|\[sp", text) and "%" not in text else "x86"
        if guess != isa:
            continue
        if "long_LCD" in p:
            # its LCD search does not finish within minutes without --lcd-timeout, and with a timeout the
            # result depends on timing (C19's subject): not usable for a deterministic comparison
            continue
        lines = text.rstrip("\n").split("\n")
        fb = find_body(lines, isa)
        body = lines if fb is None else lines[fb[0]:fb[0] + fb[1]]
        body = [b for b in body]
        if sum(1 for b in body if b.strip()) == 0:
            continue
        out.append((os.path.relpath(p, core.REPO), body))
    return out


def noise_lines(rng, isa, k):
    p = L.POOL[isa]
    out = []
    for _ in range(k):
        r = rng.random()
        if r < 0.35:
            out.append(rng.choice(p["comment"]))
        elif r < 0.55:
            out.append(".Lnoise%d:" % rng.randrange(10 ** 6))
        elif r < 0.8:
            out.append(rng.choice(p["directive"]))
        else:
            out.append(rng.choice(p["blank"]))
    return out


def split_items(rng, nums):
    """a --lines string naming exactly `nums` (increasing, maybe with gaps), cut into random items"""
    runs, cur = [], [nums[0]]
    for n in nums[1:]:
        if n == cur[-1] + 1:
            cur.append(n)
        else:
            runs.append(cur)
            cur = [n]
    runs.append(cur)
    items = []
    for run in runs:
        i = 0
        while i < len(run):
            k = rng.randrange(1, len(run) - i + 1) if rng.random() < 0.5 else len(run) - i
            seg = run[i:i + k]
            if len(seg) == 1 and rng.random() < 0.7:
                items.append(str(seg[0]))
            else:
                items.append("%d%s%d" % (seg[0], rng.choice("-:"), seg[-1]))
            i += k
    # non-canonical spellings of the same set: the named lines are a set, so an item order other than ascending and
    # numbers named twice (overlapping ranges, a repeated single number) select the same lines, each once, in file order
    if rng.random() < 0.4:
        for _ in range(rng.randrange(1, 3)):
            run = rng.choice(runs)
            a = rng.randrange(len(run))
            b = rng.randrange(a, len(run))
            items.insert(rng.randrange(len(items) + 1), str(run[a]) if a == b else "%d%s%d" % (run[a], rng.choice("-:"), run[b]))
    if rng.random() < 0.4:
        rng.shuffle(items)
    return ",".join(items)


def build_variants(rng, isa, body, shift=False):
    """-> list of (name, file lines, --lines or None, indices of the body lines in the file)"""
    out = []

    def marked(b, long_pro=False):
        pro, _ = L.quiet_segment(rng, isa, rng.randrange(0, 6))
        if long_pro:
            pro = [L.cmt(isa) + " filler %d" % i for i in range(1003 + rng.randrange(40))] + pro
        epi, _ = L.quiet_segment(rng, isa, rng.randrange(0, 6))
        sm, _ = L.marker(rng, isa, 0)
        em, _ = L.marker(rng, isa, 1)
        lines = pro + sm + b + em + epi
        idx = list(range(len(pro) + len(sm), len(pro) + len(sm) + len(b)))
        return lines, idx

    f1, i1 = marked(body)
    out.append(("marked", f1, None, i1))
    nums = [i + 1 for i in i1 if f1[i].strip() != ""]
    out.append(("lines", f1, split_items(rng, nums), i1))
    out.append(("body-only", list(body), None, list(range(len(body)))))
    # noise: insert non-instruction lines at random positions inside the body
    nb, pos = [], []
    for ln in body:
        if rng.random() < 0.35:
            nb += noise_lines(rng, isa, rng.randrange(1, 4))
        pos.append(len(nb))
        nb.append(ln)
    if rng.random() < 0.5:
        nb += noise_lines(rng, isa, 1)
    f2, i2 = marked(nb)
    out.append(("noise", f2, None, i2))
    nums2 = [i + 1 for i in i2 if f2[i].strip() != ""]
    out.append(("noise-lines", f2, split_items(rng, nums2), i2))
    if shift:
        f3, i3 = marked(body, long_pro=True)
        out.append(("beyond-1000", f3, None, i3))
    return out


def feq(a, b):
    if a is None or b is None:
        return a is b
    return abs(a - b) <= TOL * max(1.0, abs(a), abs(b))


def instr_view(view, body_nums):
    """canonical, line-number-free view of the instruction lines of a run"""
    rows = view["rows"]
    instr = [r for r in rows if r["instr"]]
    ordinal = {r["num"]: k for k, r in enumerate(instr)}
    per = [(r["text"], r["pressure"], r["tp"], r["lat"], r["lat_wo_load"], r["lat_cp"], r["lat_lcd"], r["flags"], r["uops"])
           for r in instr]
    cp = sorted((ordinal.get(n, "non-instr:%s" % n) for n in view["cp_lines"]), key=lambda t: (isinstance(t, str), t))
    # the dict key of a loop-carried dependency is the "-"-joined list of its line numbers: only the members count
    lcd = sorted(((v["latency"], [(ordinal.get(d[0], "non-instr:%s" % d[0]), d[1]) for d in v["deps"]])
                  for v in view["lcd"].values()), key=lambda t: (t[0], repr(t[1])))
    tab = {n: cells for n, cells in view["table"]}
    table = [tab.get(r["num"]) for r in instr]
    return {"per": per, "cp": cp, "lcd": lcd, "tp_sum": view["tp_sum"], "cp_sum": view["cp_sum"], "lcd_sum": view["lcd_sum"],
            "table": table, "summary_row": view["summary_row"], "kernel_nums": [r["num"] for r in rows]}


def diff_views(a, b):
    """first difference between two instr_views, or None"""
    if len(a["per"]) != len(b["per"]):
        return "number of instructions %d vs %d" % (len(a["per"]), len(b["per"]))
    names = ["text", "port pressure", "throughput", "latency", "latency w/o load", "CP latency", "LCD latency", "flags", "uops"]
    for k, (x, y) in enumerate(zip(a["per"], b["per"])):
        for nm, u, v in zip(names, x, y):
            if nm == "port pressure":
                ok = len(u) == len(v) and all(feq(p, q) for p, q in zip(u, v))
            elif nm in ("text", "flags"):
                ok = u == v
            elif nm == "uops":
                ok = len(u) == len(v) and all(feq(p[0], q[0]) and p[1] == q[1] for p, q in zip(u, v))
            else:
                ok = feq(u, v)
            if not ok:
                return "instruction #%d (%s): %s %s vs %s" % (k, x[0], nm, u, v)
    for nm in ("tp_sum",):
        if len(a[nm]) != len(b[nm]) or not all(feq(p, q) for p, q in zip(a[nm], b[nm])):
            return "port pressure sums %s vs %s" % (a[nm], b[nm])
    for nm, label in (("cp_sum", "critical path"), ("lcd_sum", "LCD")):
        if not feq(a[nm], b[nm]):
            return "%s %s vs %s" % (label, a[nm], b[nm])
    if a["cp"] != b["cp"]:
        return "critical path instructions %s vs %s" % (a["cp"], b["cp"])
    if len(a["lcd"]) != len(b["lcd"]):
        return "number of loop-carried dependencies %d vs %d" % (len(a["lcd"]), len(b["lcd"]))
    for la, lb in zip(a["lcd"], b["lcd"]):
        if not feq(la[0], lb[0]) or [d[0] for d in la[1]] != [d[0] for d in lb[1]] or \
                not all(feq(p[1], q[1]) for p, q in zip(la[1], lb[1])):
            return "loop-carried dependency %s vs %s" % (la, lb)
    if a["table"] != b["table"]:
        for k, (x, y) in enumerate(zip(a["table"], b["table"])):
            if x != y:
                return "report row of instruction #%d: %r vs %r" % (k, x, y)
    if a["summary_row"] != b["summary_row"]:
        return "report summary row %s vs %s" % (a["summary_row"], b["summary_row"])
    return None


NOARCH_BODIES = {
    # integer-only x86 with tokens that look like AArch64 registers to the ISA heuristic (hex displacements, w1/x2 in names):
    # the heuristic guesses AArch64, parsing fails, and `inspect` retries with the x86 parser and the x86 default model
    "x86": [["addq $1, %rax", "movq 0x10(%rdi), %rbx", "addq %rbx, %rcx", "movq %rcx, 0x18(%rdi)", "cmpq %rax, %rsi", "jne .L1"],
            ["movq 0x20(%rsi,%rax,8), %rdx", "imulq %rdx, %rcx", "incq %rax", "cmpq %rax, %rbx", "jb .Lx2"],
            ["vaddpd %ymm0, %ymm1, %ymm2", "addq $8, %rax", "cmpq %rax, %rcx", "jne .L3"]],
    "aarch64": [["ldr d0, [x1, #8]", "fadd d0, d0, d1", "str d0, [x1, #8]", "add x1, x1, #8", "cmp x1, x2", "b.ne .L4"],
                ["add x3, x3, #1", "mul x4, x3, x4", "subs x5, x5, #1", "b.ne .L5"]],
}


def part_noarch(ctx):
    """Marked files analysed WITHOUT --arch (ISA detected from the text, default model of the ISA, incl. the retry with the other
    ISA after a wrong guess): the analysed lines must be exactly the lines between the markers."""
    work = os.path.join(ctx.env.work, "noarch")
    os.makedirs(work, exist_ok=True)
    tasks, meta = [], {}
    tid = 0
    for isa, bodies in NOARCH_BODIES.items():
        for body in bodies:
            for rep in range(3):
                rng = random.Random(ctx.rng.randrange(1 << 62))
                for vname, lines, spec, idx in build_variants(rng, isa, body):
                    if vname not in ("marked", "noise"):
                        continue
                    path = os.path.join(work, "n%d.s" % tid)
                    with open(path, "w") as f:
                        f.write("\n".join(lines) + "\n")
                    tasks.append({"id": tid, "path": path, "lines": None})
                    meta[tid] = {"isa": isa, "variant": vname, "lines": lines,
                                 "body_nums": [i + 1 for i in idx if lines[i].strip() != ""]}
                    tid += 1
    jp, rp = os.path.join(work, "job.json"), os.path.join(work, "res.json")
    json.dump({"arch": None, "tasks": tasks}, open(jp, "w"))
    p = subprocess.run([sys.executable, "-W", "ignore", os.path.join(core.VERIF, "harness", "c11_e2e.py"), jp, rp],
                       env=ctx.env.subenv(), stdout=subprocess.PIPE, stderr=subprocess.STDOUT, text=True, timeout=1500)
    if p.returncode != 0 or not os.path.exists(rp):
        raise core.InfraError("no-arch e2e worker failed: %s" % p.stdout[-600:])
    nfail = 0
    for r in json.load(open(rp)):
        m = meta[r["id"]]
        ctx.count("noarch_runs")
        if "error" in r:
            nfail += 1
            if nfail <= 2:
                ctx.violation("marked %s file analysed without --arch fails with %s" % (m["isa"], r["error"]),
                              {"kind": "noarch", "isa": m["isa"], "file": m["lines"], "error": r["error"]})
            continue
        got = [row["num"] for row in r["view"]["rows"]]
        if got != m["body_nums"]:
            nfail += 1
            if nfail <= 2:
                ctx.violation("marked %s file analysed without --arch: analysed lines %s, the lines between the markers are %s"
                              % (m["isa"], _short(got), _short(m["body_nums"])),
                              {"kind": "noarch", "isa": m["isa"], "file": m["lines"], "analysed": got, "expected": m["body_nums"]})
    ctx.log("no --arch: %d marked files (ISA detection incl. the wrong-guess retry), failures %d" % (len(tasks), nfail))


def part_e2e(ctx, archs, per_isa, shift_every):
    work = os.path.join(ctx.env.work, "e2e")
    os.makedirs(work, exist_ok=True)
    kernels = {isa: shipped_kernels(isa) for isa in ("x86", "aarch64")}
    jobs = []
    meta = {}
    tid = 0
    for arch in archs:
        isa = isa_of_arch(arch)
        ks = kernels[isa]
        if per_isa is not None and len(ks) > per_isa and arch not in getattr(ctx, "hidden_archs", ()):
            fixed = [k for k in ks if "kernel_" in k[0]][:3]
            rest = [k for k in ks if k not in fixed and "triad_arm_iaca" not in k[0] and "unmarked" not in k[0]]
            ks = fixed + ctx.rng.sample(rest, max(0, per_isa - len(fixed)))
        tasks = []
        for ki, (name, body) in enumerate(ks):
            rng = random.Random(ctx.rng.randrange(1 << 62))
            variants = build_variants(rng, isa, body, shift=(ki % shift_every == 0))
            for vname, lines, spec, idx in variants:
                path = os.path.join(work, "t%d.s" % tid)
                with open(path, "w") as f:
                    f.write("\n".join(lines) + "\n")
                tasks.append({"id": tid, "path": path, "lines": spec})
                meta[tid] = {"arch": arch, "isa": isa, "kernel": name, "variant": vname, "lines": lines, "spec": spec,
                             "body_nums": [i + 1 for i in idx if lines[i].strip() != ""]}
                tid += 1
        jobs.append((arch, tasks))
    procs = []
    worker = os.path.join(core.VERIF, "harness", "c11_e2e.py")
    for arch, tasks in jobs:
        jp, rp = os.path.join(work, "job-%s.json" % arch), os.path.join(work, "res-%s.json" % arch)
        json.dump({"arch": arch, "tasks": tasks}, open(jp, "w"))
        procs.append((arch, rp, subprocess.Popen([sys.executable, "-W", "ignore", worker, jp, rp], env=ctx.env.subenv(),
                                                 stdout=subprocess.PIPE, stderr=subprocess.STDOUT, text=True)))
    results = {}
    for arch, rp, p in procs:
        out, _ = p.communicate(timeout=3000)
        if p.returncode != 0 or not os.path.exists(rp):
            raise core.InfraError("e2e worker for %s failed: %s" % (arch, out[-600:]))
        for r in json.load(open(rp)):
            results[r["id"]] = r
    # group by (arch, kernel)
    groups = {}
    for t, m in meta.items():
        groups.setdefault((m["arch"], m["kernel"]), []).append(t)
    nruns = nviol = ngroups = nerr = 0
    for (arch, kname), tids in sorted(groups.items()):
        ngroups += 1
        base = None
        for t in tids:
            m, r = meta[t], results[t]
            nruns += 1
            rep = {"kind": "e2e", "arch": arch, "kernel": kname, "variant": m["variant"], "file": "\n".join(m["lines"]) + "\n",
                   "lines_arg": m["spec"]}
            if "error" in r:
                nerr += 1
                alone = [results[x] for x in tids if meta[x]["variant"] == "body-only"]
                if alone and "error" in alone[0]:
                    # the body itself cannot be analysed on this model (crash on an unknown form etc.): not C11's business
                    ctx.count("e2e_unanalysable_kernels")
                    ctx.cov["distribution"].setdefault("e2e_unanalysable", []).append("%s on %s: %s" % (kname, arch, r["error"][:120]))
                    break
                nviol += 1
                if nviol <= 3:
                    bo = [x for x in tids if meta[x]["variant"] == "body-only"]
                    if bo:
                        rep["base_file"] = "\n".join(meta[bo[0]]["lines"]) + "\n"
                    ctx.violation("%s on %s: variant '%s' fails with %s although the body alone is analysed"
                                  % (kname, arch, m["variant"], r["error"]), rep)
                continue
            v = r["view"]
            # (1) the analysed kernel is exactly the body
            knums = [x["num"] for x in v["rows"]]
            if knums != m["body_nums"]:
                nviol += 1
                if nviol <= 3:
                    rep.update(expected=m["body_nums"], observed=knums)
                    ctx.violation("%s on %s, variant '%s': analysed lines %s, body lines %s"
                                  % (kname, arch, m["variant"], _short(knums), _short(m["body_nums"])), rep)
                continue
            # (2) non-instruction lines carry nothing
            for x in v["rows"]:
                if not x["instr"] and (any(abs(pv) > TOL for pv in x["pressure"]) or (x["tp"] or 0) != 0 or (x["lat"] or 0) != 0
                                       or (x["lat_cp"] or 0) != 0 or (x["lat_lcd"] or 0) != 0 or x["n_operands"] != 0):
                    nviol += 1
                    if nviol <= 3:
                        rep.update(line=x)
                        ctx.violation("%s on %s, variant '%s': non-instruction line %d (%s) carries pressure/latency"
                                      % (kname, arch, m["variant"], x["num"], x["text"]), rep)
                    break
            iv = instr_view(v, m["body_nums"])
            if base is None:
                base = {"iv": iv, "file": rep["file"], "variant": m["variant"]}
                continue
            d = diff_views(base["iv"], iv)
            if d is not None:
                nviol += 1
                if nviol <= 3:
                    rep.update(base_file=base["file"], base_variant=base["variant"], difference=d)
                    ctx.violation("%s on %s: '%s' differs from '%s': %s" % (kname, arch, m["variant"], base["variant"], d), rep)
    ctx.count("e2e_runs", nruns)
    ctx.count("e2e_kernel_arch_pairs", ngroups)
    ctx.count("e2e_failures", nviol)
    ctx.cov["distribution"]["e2e"] = {"archs": list(archs), "kernels_per_isa": {k: len(v) for k, v in kernels.items()},
                                      "variants": ["marked", "lines", "body-only", "noise", "noise-lines", "beyond-1000"],
                                      "errors": nerr}
    ctx.log("end-to-end: %d runs over %d kernel x model pairs on %s, metamorphic failures %d"
            % (nruns, ngroups, ",".join(archs), nviol))


# =========================================================================== driver of the check
def run(ctx):
    ctx.assumptions = TRUSTED
    ctx.prove(["MarkerConsts", "Consts", "RegTables"], ["OsacaVerif.Props.C11", "OsacaVerif.Props.C11Pipeline"])
    ctx.thorough_recheck(["OsacaVerif.Props.C11", "OsacaVerif.Props.C11Pipeline"])
    thorough = ctx.tier == "thorough"
    if thorough:
        archs = [a for a in core.shipped_archs()]
    else:
        archs = QUICK_ARCHS["x86"] + QUICK_ARCHS["aarch64"]
        # a model that switches hidden loads on pairs loads with stores by line-number distance (`set_hidden_loads`), the one
        # place where lines without instructions can matter: such models are always part of the end-to-end runs
        import re as _re

        ctx.hidden_archs = set()
        for a in core.shipped_archs():
            try:
                head = open(os.path.join(core.REPO, "osaca", "data", a + ".yml"), encoding="utf-8").read(20000)
            except OSError:
                continue
            if _re.search(r"(?m)^hidden_loads:\s*(true|True|yes|on)\b", head):
                # ... and they run every shipped kernel, not a sample
                ctx.hidden_archs.add(a)
                if a not in archs:
                    archs.append(a)
    for a in DEFAULT_MODELS:
        if a not in archs and a in core.shipped_archs():
            archs = archs + [a]
    ctx.env = core.Env("C11", archs=archs)
    ctx.env.activate()
    import osaca.osaca as O
    import osaca.semantics.marker_utils as mu
    from osaca.parser import ParserAArch64, ParserX86ATT

    parsers = {"x86": ParserX86ATT(), "aarch64": ParserAArch64()}
    boost = 3 if ctx.broken else 1
    part_convention(ctx)
    part_int(ctx, (4000 if thorough else 800) * boost)
    part_numbering(ctx, (600 if thorough else 120) * boost, parsers)
    part_select(ctx, (4000 if thorough else 800) * boost, (2000 if thorough else 400) * boost, parsers, mu)
    part_lines(ctx, (3000 if thorough else 400) * boost, O)
    pipeline.run_pipeline_correspondence(ctx, (100 if thorough else 12) * boost, archs)
    part_e2e(ctx, archs, None if thorough else 8, 4 if thorough else 3)
    part_noarch(ctx)
    ctx.cov["evaluations"] = sum(ctx.counts.get(k, 0) for k in ("selection_files", "lines_strings", "numbering_files", "e2e_runs",
                                                               "int_texts", "pipeline_runs"))
    ctx.cov["distinct_nontrivial"] = ctx.counts.get("selection_oracle_checked", 0) + ctx.counts.get("lines_wellformed", 0) + \
        ctx.counts.get("e2e_runs", 0) + ctx.counts.get("pipeline_compared", 0)
    ctx.cov["traces_validated_against_impl"] = ctx.counts.get("selection_files", 0) + ctx.counts.get("lines_strings", 0) + \
        ctx.counts.get("pipeline_compared", 0)
    ctx.cov["rule"] = ("generated files prologue+start+body+end+epilogue (all marker styles, decoys, both ISAs) through the real "
                       "parsers; --lines strings; shipped kernels x models in five to six variants; non-trivial = inputs with an "
                       "oracle (layout known by construction / well-formed spec / metamorphic pair)")
    return ctx.finish(trusted=TRUSTED)


def replay(ctx, path):
    rep = json.load(open(path))["replay"]
    kind = rep.get("kind")
    if kind not in ("reduce", "lines", "numbering", "e2e", "blank-parse", "pipeline"):
        print("replay names a broken theorem/correspondence, not an input:", json.dumps(rep)[:800])
        ctx.cleanup()
        return 1
    archs = [rep["arch"]] if kind in ("e2e", "pipeline") else []
    ctx.env = core.Env("C11", archs=archs, copy_models=bool(archs))
    ctx.env.activate()
    import osaca.osaca as O
    import osaca.semantics.marker_utils as mu
    from osaca.parser import ParserAArch64, ParserX86ATT

    rc = 1
    if kind == "pipeline":
        import warnings

        warnings.filterwarnings("ignore")
        rc = pipeline.replay_pipeline(ctx, rep)
    elif kind == "reduce":
        isa = "x86" if rep["isa"].lower() == "x86" else "aarch64"
        p = ParserX86ATT() if isa == "x86" else ParserAArch64()
        got, _ = impl_reduce(mu, p.parse_file(rep["text"]), rep["isa"], isa)
        print("reduce_to_section ->", got, " expected", rep["expected"])
        rc = 0 if got == rep["expected"] else 1
    elif kind == "lines":
        try:
            got = O.get_line_range(rep["spec"])
        except Exception as e:  # noqa
            got = "exc:" + type(e).__name__
        print("get_line_range(%r) -> %s expected %s" % (rep["spec"], got, rep["expected"]))
        rc = 0 if got == rep["expected"] else 1
    elif kind == "blank-parse":
        p = ParserX86ATT() if rep["isa"] == "x86" else ParserAArch64()
        try:
            p.parse_file(rep["text"])
            print("parse_file succeeds")
            rc = 0
        except Exception as e:  # noqa
            print("parse_file raises %s: %s" % (type(e).__name__, e))
            rc = 1
    elif kind == "numbering":
        p = ParserX86ATT() if rep["isa"] == "x86" else ParserAArch64()
        got = [f.line_number for f in p.parse_file(rep["text"])]
        print("parse_file numbers ->", got, " expected", rep["expected"])
        rc = 0 if got == rep["expected"] else 1
    else:
        work = os.path.join(ctx.env.work, "e2e")
        os.makedirs(work, exist_ok=True)
        tasks = []
        files = [("variant", rep["file"], rep.get("lines_arg"))]
        if rep.get("base_file"):
            files.append(("base", rep["base_file"], None))
        for i, (nm, text, spec) in enumerate(files):
            pth = os.path.join(work, "r%d.s" % i)
            open(pth, "w").write(text)
            tasks.append({"id": i, "path": pth, "lines": spec})
        jp, rp = os.path.join(work, "job.json"), os.path.join(work, "res.json")
        json.dump({"arch": rep["arch"], "tasks": tasks}, open(jp, "w"))
        subprocess.run([sys.executable, "-W", "ignore", os.path.join(core.VERIF, "harness", "c11_e2e.py"), jp, rp],
                       env=ctx.env.subenv(), check=False)
        res = json.load(open(rp))
        for r in res:
            print(files[r["id"]][0], "->", r.get("error") or "kernel lines %s CP %s LCD %s" % (
                _short([x["num"] for x in r["view"]["rows"]]), r["view"]["cp_sum"], r["view"]["lcd_sum"]))
        if len(res) == 2 and all("view" in r for r in res):
            d = diff_views(instr_view(res[1]["view"], None), instr_view(res[0]["view"], None))
            print("difference:", d)
            rc = 0 if d is None and not rep.get("expected") else 1
            if rep.get("expected"):
                rc = 0 if [x["num"] for x in res[0]["view"]["rows"]] == rep["expected"] else 1
        elif rep.get("expected") and "view" in res[0]:
            rc = 0 if [x["num"] for x in res[0]["view"]["rows"]] == rep["expected"] else 1
    ctx.cleanup()
    return rc
