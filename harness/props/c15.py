"""C15 - Every shipped model entry is well-formed and can be costed.

proof:   Props/C15.lean over Gen/Db_<arch>.lean (regenerated from the YAML files): per-model
         kernel-decided well-formedness table, lifted by `wf_costable` / `shipped_costable` to
         "costing never raises and yields an exactly feasible split"; `counts_spec`.
tie:     translator (raw YAML -> Gen) + correspondence: (a) raw YAML vs MachineModel's loaded view,
         entry by entry; (b) every distinct micro-op list through the real average_port_pressure vs
         the Lean model `averageY`; (c) --db-check counters vs `sanityCounts` vs a raw count.
search:  the executable well-formedness predicate (driver `wfpp`/`wfnum`) on every raw entry and the
         real costing call; each failing entry is reported with file/mnemonic/operands.
"""
import io
import json
import multiprocessing
import re

from harness import core, pressure
from harness.core import esc

TRUSTED = [
    "Lean 4.33 kernel; axioms audited (subset of propext, Classical.choice, Quot.sound)",
    "tools/gen/db.py (ruamel safe loader -> Lean literals; decimal scalars as exact rationals)",
    "correspondence harness harness/props/c15.py + harness/pressure.py",
    "modelled, not verified: ruamel.yaml, Python float arithmetic (compared with 1e-9 tolerance)",
]


def worker(arch):
    """Runs in a forked child: loads the model cold through the real loader and costs every value."""
    import warnings

    warnings.filterwarnings("ignore")
    from osaca.semantics import MachineModel
    from osaca.db_interface import sanity_check

    out = {"arch": arch}
    raw = pressure.load_raw(arch)
    try:
        mm = MachineModel(arch=arch)
    except Exception as e:  # noqa
        out["load_error"] = "%s: %s" % (type(e).__name__, e)
        return out
    ports = [str(p) for p in raw["ports"]]
    out["ports"] = ports
    out["impl_ports"] = [str(p) for p in mm.get_ports()]
    vals = []
    seen = {}
    for loc, pp in pressure.costed_values(raw):
        c = pressure.canon(pp)
        if c in seen:
            seen[c]["count"] += 1
            continue
        rec = {"loc": loc, "pp": pp, "count": 1, "impl": pressure.impl_average(mm, pp)}
        if isinstance(pp, dict):
            rec["alts"] = [(k, v, pressure.impl_average(mm, v)) for k, v in pp.items()]
        seen[c] = rec
        vals.append(rec)
    out["values"] = vals
    # numbers
    nums = []
    for i, e in enumerate(raw.get("instruction_forms") or []):
        for k in ("throughput", "latency"):
            nums.append((i, k, e.get(k)))
    out["nums"] = nums
    # loader agreement: raw (alias-expanded) vs loaded view, as multisets of (NAME, n_operands, tp, lat, pp)
    def key(name, nops, tp, lat, pp):
        def num(x):
            return repr(float(x)) if isinstance(x, (int, float)) and not isinstance(x, bool) else repr(x)

        return (str(name).upper(), nops, num(tp), num(lat), repr(pressure.canon(pp)) if pp is not None else "None")

    rawset = {}
    for e in raw.get("instruction_forms") or []:
        names = e["name"] if isinstance(e["name"], list) else [e["name"]]
        for n in names:
            k = key(n, len(e.get("operands") or []), e.get("throughput"), e.get("latency"), e.get("port_pressure"))
            rawset[k] = rawset.get(k, 0) + 1
    loadset = {}
    def fget(f, k):
        return f.get(k) if hasattr(f, "get") else getattr(f, k, None)

    for f in mm["instruction_forms"]:
        k = key(fget(f, "name") if hasattr(f, "get") else f.mnemonic, len(fget(f, "operands") or []),
                fget(f, "throughput"), fget(f, "latency"), fget(f, "port_pressure"))
        loadset[k] = loadset.get(k, 0) + 1
    # the lookup index (what analyses actually use) must hold the same data
    idxset = {}
    for name, lst in mm["instruction_forms_dict"].items():
        for f in lst:
            k = key(f.mnemonic, len(f.operands or []), f.throughput, f.latency, f.port_pressure)
            idxset[k] = idxset.get(k, 0) + 1
    diff2 = [(k, rawset.get(k, 0), idxset.get(k, 0)) for k in set(rawset) | set(idxset) if rawset.get(k, 0) != idxset.get(k, 0)]
    diff = [(k, rawset.get(k, 0), loadset.get(k, 0)) for k in set(rawset) | set(loadset) if rawset.get(k, 0) != loadset.get(k, 0)]
    out["loader_diff"] = (diff + diff2)[:5]
    out["n_loaded"] = len(mm["instruction_forms"])
    # --db-check counters
    flags = []
    for f in mm["instruction_forms"]:
        flags.append(("n" if fget(f, "throughput") is None else "x") + ("n" if fget(f, "latency") is None else "x")
                     + ("n" if fget(f, "port_pressure") is None else "x"))
    out["impl_flags"] = flags
    rawcount = [0, 0, 0]
    for e in raw.get("instruction_forms") or []:
        mult = len(e["name"]) if isinstance(e["name"], list) else 1
        for j, k in enumerate(("throughput", "latency", "port_pressure")):
            if e.get(k) is None:
                rawcount[j] += mult
    out["raw_counts"] = rawcount
    try:
        buf = io.StringIO()
        sanity_check(arch, verbose=False, internet_check=False, output_file=buf)
        txt = buf.getvalue()
        m = [re.search(r"\((\d+)/(\d+)\) of instruction forms have no %s" % w, txt) for w in ("throughput value", "latency value", "port pressure assignment")]
        out["cli_counts"] = [int(x.group(1)) for x in m] if all(m) else None
        out["cli_total"] = int(m[0].group(2)) if m[0] else None
    except Exception as e:  # noqa
        out["cli_error"] = "%s: %s" % (type(e).__name__, e)
    out["cli_path"] = cli_path_sweep(arch, raw, mm)
    return out


CLI_PER_MODEL = [40]      # representatives per model (quick); thorough: every payload class


def cli_path_sweep(arch, raw, mm):
    """The property's CLI path: one instruction synthesised from an entry's own pattern, analysed by the real
    `osaca.inspect` (optimal and --fixed, text report and --yaml-out).  One representative per payload class
    (throughput / latency absent, zero or positive; micro-op list empty, plain or with alternatives; operand classes),
    rare classes first."""
    import argparse
    import warnings

    from harness import c07synth as S
    import osaca.osaca as oo

    warnings.filterwarnings("ignore")
    isa = mm.get_ISA().lower()
    isa = "x86" if isa == "x86" else "aarch64"

    def cls(v):
        return "none" if v is None else ("zero" if v == 0 else "pos")

    classes = {}
    for ri, name, e in S.expand_forms(raw.get("instruction_forms") or []):
        ops = e.get("operands") or []
        pp = e.get("port_pressure")
        key = (cls(e.get("throughput")), cls(e.get("latency")),
               "none" if pp is None else ("alts" if isinstance(pp, dict) else ("empty" if len(pp) == 0 else "list")),
               tuple(str(o.get("class")) for o in ops if isinstance(o, dict)))
        classes.setdefault(key, []).append((name, ops))
    # rare payload classes (absent / zero values) first
    order = sorted(classes, key=lambda k: (k[0] == "pos" and k[1] == "pos" and k[2] == "list", len(classes[k]), repr(k)))
    res = {"classes": len(classes), "runs": 0, "failures": [], "unwritten": 0}
    done = 0
    for key in order:
        if done >= CLI_PER_MODEL[0]:
            break
        line = None
        for name, ops in classes[key][:6]:
            if isa == "x86" and len(ops) > 4:
                continue
            line, _why = S.synth_line(isa, name, ops, S.Pick())
            if line is not None:
                break
        if line is None:
            res["unwritten"] += 1
            continue
        done += 1
        for fixed in (False, True):
            f = io.StringIO(line + "\n")
            f.name = "entry.s"
            yout = io.StringIO()
            args = argparse.Namespace(file=f, arch=arch, fixed=fixed, verbose=0, ignore_unknown=False, lines=None,
                                      lcd_timeout=-1, consider_flag_deps=False, dotpath=None, yaml_out=yout)
            res["runs"] += 1
            try:
                oo.inspect(args, output_file=io.StringIO())
                # the document carries OSACA's operand objects under python tags: read the numbers textually
                bad = []
                for m in re.finditer(r"^\s*-?\s*(Throughput|Latency|LatencyWithoutLoad|LatencyCP|LatencyLCD):\s*(\S+)\s*$", yout.getvalue(), re.M):
                    try:
                        if m.group(2) not in ("null", "~") and float(m.group(2)) < 0:
                            bad.append((m.group(1), m.group(2)))
                    except ValueError:
                        bad.append((m.group(1), m.group(2)))
                if not yout.getvalue().strip():
                    bad.append(("yaml-out", "empty"))
                if bad:
                    res["failures"].append({"line": line, "fixed": fixed, "class": repr(key), "error": "negative or non-numeric %s" % bad[:3]})
            except BaseException as e:  # noqa  (inspect may call sys.exit)
                res["failures"].append({"line": line, "fixed": fixed, "class": repr(key), "error": "%s: %s" % (type(e).__name__, str(e)[:200])})
    # every addressing shape through the load/store tables and their defaults (instructions whose register form the model knows)
    X86_MEMS = ["(%rax)", "8(%rax)", "-8(%rbp)", "(%rax,%rbx)", "(%rax,%rbx,8)", "16(%rax,%rbx,4)", "8(,%rbx,8)", "sym(%rip)",
                "sym(,%rax,8)", "sym+16(,%rax,8)", "sym(%rax)", "0x20(%r8,%r9,2)"]
    A64_MEMS = ["[x1]", "[x1, #8]", "[x1, x2]", "[x1, x2, lsl #3]", "[x1, #16]!", "[x1], #16", "[x1, :lo12:sym]", "[sp, #8]",
                "[x1, w2, sxtw #2]", "[x1, #-8]"]
    if isa == "x86":
        lines = ["vaddpd %s, %%ymm0, %%ymm1" % m for m in X86_MEMS] + ["movq %%rax, %s" % m for m in X86_MEMS] + \
                ["leaq %s, %%rbx" % m for m in X86_MEMS] + ["addq %s, %%rcx" % m for m in X86_MEMS[6:]] + \
                ["addq $1, %s" % m for m in X86_MEMS[:4]]
    else:
        lines = ["ldr x3, %s" % m for m in A64_MEMS] + ["ldr q1, %s" % m for m in A64_MEMS] + \
                ["str d0, %s" % m for m in A64_MEMS] + ["ldp x4, x5, %s" % m for m in A64_MEMS[:4]]

    def run_lines(ls, fixed):
        f = io.StringIO("\n".join(ls) + "\n")
        f.name = "shapes.s"
        args = argparse.Namespace(file=f, arch=arch, fixed=fixed, verbose=0, ignore_unknown=True, lines=None,
                                  lcd_timeout=-1, consider_flag_deps=False, dotpath=None, yaml_out=io.StringIO())
        oo.inspect(args, output_file=io.StringIO())

    for fixed in (False,):
        # small files: the dependency search stays single-process and short
        for c0 in range(0, len(lines), 9):
            chunk = lines[c0:c0 + 9]
            res["runs"] += 1
            try:
                run_lines(chunk, fixed)
            except BaseException:  # noqa: find the line(s)
                for ln in chunk:
                    try:
                        run_lines([ln], fixed)
                    except BaseException as e:  # noqa
                        res["failures"].append({"line": ln, "fixed": fixed, "class": "addressing-shape",
                                                "error": "%s: %s" % (type(e).__name__, str(e)[:200])})
            if len(res["failures"]) > 6:
                break
    res["shape_lines"] = len(lines)
    return res


def run(ctx):
    ctx.assumptions = TRUSTED
    ctx.prove(lambda n: n.startswith("Db"), ["OsacaVerif.Props.C15"])
    ctx.thorough_recheck(["OsacaVerif.Props.C15"])
    archs = core.shipped_archs()
    ctx.env = core.Env("C15")
    ctx.env.activate()
    # the ISA databases are shared by all workers: load them once here so that the workers find a complete
    # cache file (parallel cold starts racing on one cache file is what C17 is about, not this check)
    from osaca.semantics import MachineModel

    for isa_db in ("isa/x86", "isa/aarch64"):
        MachineModel(arch=isa_db)
    CLI_PER_MODEL[0] = 40 if ctx.tier == "quick" else 10 ** 6
    with multiprocessing.get_context("fork").Pool(min(16, len(archs))) as pool:
        results = pool.map(worker, archs)
    n_values = n_bad = n_corr = n_alts = 0
    dist = {}
    for res in results:
        arch = res["arch"]
        if "load_error" in res:
            ctx.violation("%s.yml cannot be loaded: %s" % (arch, res["load_error"]), {"arch": arch, "error": res["load_error"]},
                          key="load:" + arch)
            continue
        if res["ports"] != res["impl_ports"]:
            ctx.correspondence_break("ports", {"arch": arch, "raw": res["ports"], "loaded": res["impl_ports"]})
        if res["loader_diff"]:
            ctx.correspondence_break("loader-vs-raw", {"arch": arch, "diff": res["loader_diff"]})
        portsY = pressure.yenc(res["ports"])
        reqs = []
        for rec in res["values"]:
            y = pressure.yenc(rec["pp"])
            reqs.append("wfpp %s %s" % (esc(portsY), esc(y)))
            reqs.append("avgY %s %s" % (esc(portsY), esc(y)))
            for k, v, _ in rec.get("alts", []):
                reqs.append("avgY %s %s" % (esc(portsY), esc(pressure.yenc(v))))
        nums = sorted({repr(v): v for _, _, v in res["nums"]}.items())
        for _, v in nums:
            reqs.append("wfnum %s" % esc(pressure.yenc(v)))
        forms = ",".join(res["impl_flags"])
        reqs.append("sanity %s" % esc(forms))
        replies = ctx.driver.ask(reqs)
        it = iter(replies)
        for rec in res["values"]:
            n_values += 1
            wf = next(it)
            avg = next(it)
            where = dict(rec["loc"], arch=arch)
            nuops = len(rec["pp"]) if isinstance(rec["pp"], list) else -1
            dist["uops=%d" % nuops] = dist.get("uops=%d" % nuops, 0) + 1
            d = pressure.compare_avg(avg, rec["impl"])
            if d:
                n_corr += 1
                ctx.correspondence_break("average_port_pressure", {"where": where, "pp": rec["pp"], "diff": d})
            for k, v, impl in rec.get("alts", []):
                n_alts += 1
                d = pressure.compare_avg(next(it), impl)
                if d:
                    n_corr += 1
                    ctx.correspondence_break("average_port_pressure(alternative)", {"where": where, "alt": k, "pp": v, "diff": d})
                if impl[0] != "ok":
                    ctx.violation("%s: alternative %s of %s cannot be costed (%s)" % (arch, k, where, impl[1]),
                                  {"where": where, "alternative": k, "pp": v, "impl": impl},
                                  key="entry:%s:%s:%s" % (arch, where.get("mnemonic", where["kind"]), where.get("operands", "")))
            if not wf.startswith("1") or rec["impl"][0] != "ok":
                n_bad += 1
                reason = core.unesc(wf[2:]) if wf.startswith("0 ") else "costing raised %s" % rec["impl"][1]
                ctx.violation("%s.yml %s: malformed micro-op list %r (%s); costing: %s" % (arch, where, rec["pp"], reason, rec["impl"]),
                              {"where": where, "pp": rec["pp"], "reason": reason, "impl": rec["impl"], "occurrences": rec["count"]},
                              key="entry:%s:%s:%s" % (arch, where.get("mnemonic", where["kind"]), where.get("operands", "")))
        badnums = []
        for (_, v) in nums:
            if next(it) != "1":
                badnums.append(v)
        for v in badnums:
            who = [(i, k) for i, k, x in res["nums"] if repr(x) == repr(v)][:3]
            ctx.violation("%s.yml: throughput/latency value %r is not absent or a non-negative number (forms %s)" % (arch, v, who),
                          {"arch": arch, "value": repr(v), "forms": who}, key="num:%s:%r" % (arch, v))
        model_counts = [int(x) for x in next(it).split(" ")]
        if res.get("cli_counts") is None:
            ctx.correspondence_break("--db-check", {"arch": arch, "error": res.get("cli_error", "summary lines not found")})
        else:
            if model_counts != res["cli_counts"]:
                ctx.correspondence_break("sanityCounts-vs---db-check", {"arch": arch, "model": model_counts, "cli": res["cli_counts"]})
            if res["cli_counts"] != res["raw_counts"] or res["cli_total"] != res["n_loaded"]:
                ctx.violation("%s: --db-check reports %s missing (tp, lat, pp) of %s forms, the model file has %s of %s"
                              % (arch, res["cli_counts"], res["cli_total"], res["raw_counts"], res["n_loaded"]),
                              {"arch": arch, "cli": res["cli_counts"], "raw": res["raw_counts"]}, key="counts:" + arch)
        ctx.count("forms_loaded", res["n_loaded"])
        cp = res.get("cli_path") or {}
        ctx.count("cli_path_runs", cp.get("runs", 0))
        ctx.count("cli_path_classes", cp.get("classes", 0))
        for fl in cp.get("failures", [])[:3]:
            ctx.violation("%s: analysing `%s` (%s, text report + --yaml-out), an instruction that matches a shipped form, fails: %s"
                          % (arch, fl["line"], "--fixed" if fl["fixed"] else "optimal", fl["error"]),
                          {"kind": "cli-path", "arch": arch, "line": fl["line"], "fixed": fl["fixed"], "class": fl["class"], "error": fl["error"]},
                          key="cli:%s:%s" % (arch, fl["line"]))
    ctx.count("distinct_uop_lists", n_values)
    ctx.count("alternatives", n_alts)
    ctx.count("malformed", n_bad)
    ctx.count("corr_disagreements", n_corr)
    ctx.cov["distribution"] = dist
    ctx.cov["exhaustive"] = True
    ctx.cov["evaluations"] = n_values + n_alts
    ctx.cov["distinct_nontrivial"] = n_values
    ctx.cov["traces_validated_against_impl"] = n_values + n_alts
    ctx.cov["rule"] = ("every distinct micro-op list (instruction forms, load/store rows, defaults, each alternative) of every "
                       "non-empty shipped model, costed by the real average_port_pressure and by the Lean model; distinct by value per model")
    for res in results[:2]:
        if res.get("values"):
            ctx.sample({"arch": res["arch"], "where": res["values"][0]["loc"], "pp": res["values"][0]["pp"], "impl": res["values"][0]["impl"]})
    ctx.log("%d models, %d forms, %d distinct micro-op lists (+%d alternatives): malformed %d, corr disagreements %d"
            % (len(results), ctx.counts.get("forms_loaded", 0), n_values, n_alts, n_bad, n_corr))
    return ctx.finish(trusted=TRUSTED)


def replay(ctx, path):
    rep = json.load(open(path))["replay"]
    ctx.env = core.Env("C15")
    ctx.env.activate()
    from osaca.semantics import MachineModel

    if rep.get("kind") == "cli-path":
        import argparse
        import osaca.osaca as oo

        f = io.StringIO(rep["line"] + "\n")
        f.name = "entry.s"
        yout = io.StringIO()
        args = argparse.Namespace(file=f, arch=rep["arch"], fixed=rep["fixed"], verbose=0, ignore_unknown=False, lines=None,
                                  lcd_timeout=-1, consider_flag_deps=False, dotpath=None, yaml_out=yout)
        try:
            oo.inspect(args, output_file=io.StringIO())
            print("`%s` on %s (%s): analysed, %d bytes of --yaml-out" % (rep["line"], rep["arch"], "--fixed" if rep["fixed"] else "optimal", len(yout.getvalue())))
            rc = 0
        except BaseException as e:  # noqa
            print("`%s` on %s (%s): %s: %s" % (rep["line"], rep["arch"], "--fixed" if rep["fixed"] else "optimal", type(e).__name__, e))
            rc = 1
        ctx.cleanup()
        return rc
    if "where" not in rep:
        print("replay names a broken theorem/correspondence or a count:", json.dumps(rep)[:800])
        ctx.cleanup()
        return 1
    mm = MachineModel(arch=rep["where"]["arch"])
    r = pressure.impl_average(mm, rep["pp"])
    print("average_port_pressure(%r) on %s -> %s" % (rep["pp"], rep["where"]["arch"], r))
    ctx.cleanup()
    return 0 if r[0] == "ok" else 1
