"""C03 - Register dependency graph is exactly the read-after-write relation.

proof:   Props/C03.lean (scan_iff_raw: the forward scan emits exactly the RAW positions, any kernel length;
         no_edge_past_kill; findDepending_forward; edge_weight_spec; flags_ignored_without_option).
tie:     Gen/RegTables (register alias tables, C12) + correspondence: create_DG of the real code vs DG.create
         on the implementation's own semantic operands, edge by edge with weights.
search:  Spec.rawEdges (driver, declarative RAW from the roles) vs the implementation's edges.
"""
import json

from harness import core, dgcheck


def run(ctx):
    dgcheck.setup(ctx, "C03", ["RegTables"], ["OsacaVerif.Props.C03"])
    n = (300 if ctx.tier == "quick" else 5000) * (3 if ctx.broken else 1)
    distinct = set()
    for im, src in dgcheck.kernels_stream(ctx, n, 12 if ctx.tier == "quick" else 40, kinds=["plain", "plain", "mem"]):
        dgcheck.compare_dg(ctx, im)
        dgcheck.oracle_raw(ctx, im)
        ctx.count("kernels")
        if im.edges():
            distinct.add(repr((im.isa, im.lines, im.fd)))
        if ctx.counts["kernels"] == 1:
            ctx.sample({"kernel": im.lines, "isa": im.isa, "arch": im.arch, "edges": sorted("%s>%s" % k for k in im.edges())})
        if len(ctx.violations) > 10:
            break
    ctx.cov["evaluations"] = ctx.counts.get("kernels", 0)
    ctx.cov["distinct_nontrivial"] = len(distinct)
    ctx.cov["traces_validated_against_impl"] = ctx.counts.get("dg_compared", 0)
    ctx.cov["rule"] = "distinct (isa, kernel text, flag option) with at least one dependency edge; shipped kernels + generated ones"
    ctx.log("%d kernels, %d RAW edges checked" % (ctx.counts.get("kernels", 0), ctx.counts.get("raw_edges", 0)))
    return ctx.finish(trusted=dgcheck.TRUSTED)


def replay(ctx, path):
    return replay_common(ctx, path, "C03")


def replay_common(ctx, path, pid):
    rep = json.load(open(path))["replay"]
    if "kernel" not in rep:
        print("replay names a broken theorem/correspondence:", json.dumps(rep)[:800])
        return 1
    ctx.env = core.Env(pid)
    ctx.env.activate()
    im = dgcheck.Impl(rep["isa"], rep["arch"], rep["kernel"], rep.get("flag_deps", False))
    print("edges:", sorted(im.edges().items()))
    print("critical path:", im.cp())
    print("LCD:", sorted(im.lcd_set()))
    ctx.cleanup()
    return 1
