"""C03 - Register dependency graph is exactly the read-after-write relation.

proof:   Props/C03.lean (scan_iff_raw: the forward scan emits exactly the RAW positions, any kernel length;
         no_edge_past_kill; findDepending_forward; edge_weight_spec; flags_ignored_without_option).
tie:     Gen/RegTables (register alias tables, C12) + correspondence: create_DG of the real code vs DG.create
         on the implementation's own semantic operands, edge by edge with weights.
search:  Spec.rawEdges (driver, declarative RAW from the roles) vs the implementation's edges.
"""
import json

from harness import core, dgcheck


def run(ctx):
    dgcheck.setup(ctx, "C03", ["RegTables"], ["OsacaVerif.Props.C03"])
    # synthetic ISA semantic entries (random per-operand roles, hidden flag operands, zero idioms) are appended to
    # the private copy of isa/x86.yml before the implementation loads it
    import os
    from harness import synthisa

    syn_forms = synthisa.gen_db(ctx.rng, 14)
    synthisa.install(ctx.env.data, syn_forms)
    syn_model = os.path.join(ctx.env.work, "synisa.yml")
    with open(syn_model, "w") as f:
        f.write(synthisa.arch_yaml(syn_forms))
    n = (300 if ctx.tier == "quick" else 2500) * (3 if ctx.broken else 1)
    distinct = set()
    for im, src in dgcheck.kernels_stream(ctx, n, 12 if ctx.tier == "quick" else 40, kinds=["plain", "plain", "mem"]):
        dgcheck.compare_dg(ctx, im)
        dgcheck.oracle_raw(ctx, im)
        ctx.count("kernels")
        if im.edges():
            distinct.add(repr((im.isa, im.lines, im.fd)))
        if ctx.counts["kernels"] == 1:
            ctx.sample({"kernel": im.lines, "isa": im.isa, "arch": im.arch, "edges": sorted("%s>%s" % k for k in im.edges())})
        if len(ctx.violations) > 10:
            break
    # ---- roles oracle: curated real instructions with architecturally known roles (harness/roles.py);
    # the reference RAW relation uses nothing of OSACA; every other kernel is analysed with flag dependencies
    # (each status flag is an architectural register of its own)
    from harness import roles, corpus
    from osaca.semantics import MachineModel

    nr = (300 if ctx.tier == "quick" else 2000) * (3 if ctx.broken else 1)
    mms = {}
    # models: the tier's models plus (quick tier) two further models per ISA drawn per run -- latencies differ between models,
    # and an edge that carries the wrong one of two latencies shows only where they differ
    role_archs = {}
    for isa_ in ("x86", "aarch64"):
        base = list(corpus.archs_of(isa_, ctx.tier == "quick"))
        others = [a for a in corpus.archs_of(isa_, False) if a not in base]
        extra = ctx.rng.sample(others, min(2, len(others)))
        if isa_ == "aarch64" and others:
            # ... one of them where the two latencies a write-back edge can be confused between differ most
            def gap(a):
                try:
                    if a not in mms:
                        mms[a] = MachineModel(arch=a)
                    im0 = dgcheck.Impl("aarch64", a, ["add x1, x2, #8"], False, mms[a])
                    return abs(float(mms[a].get("p_index_latency") or 0) - float(im0.kernel[0].latency or 0))
                except Exception:  # noqa
                    return -1.0
            best = max(others, key=gap)
            if best not in extra:
                extra[0] = best
        role_archs[isa_] = base + extra
    for t in range(nr):
        isa = "x86" if t % 2 == 0 else "aarch64"
        arch = ctx.rng.choice(role_archs[isa])
        fd = (t // 2) % 2 == 1
        lines, rl = roles.gen(ctx.rng, isa, ctx.rng.randint(2, 8), npool=ctx.rng.choice([2, 3, 4]), flags=fd)
        if arch not in mms:
            mms[arch] = MachineModel(arch=arch)
        try:
            im = dgcheck.Impl(isa, arch, lines, fd, mms[arch])
        except Exception as e:  # noqa
            ctx.violation("analysis of a vocabulary kernel raised %s: %s" % (type(e).__name__, e),
                          {"isa": isa, "arch": arch, "kernel": lines, "exception": type(e).__name__})
            continue
        ctx.count("role_kernels")
        dgcheck.compare_dg(ctx, im)
        ref = roles.reference_raw(rl, fd)
        if fd:
            ctx.count("role_kernels_flag_deps")
        k = im.kernel

        def st(i):
            so = k[i].semantic_operands
            return any(type(o).__name__ == "MemoryOperand" for o in so["destination"] + so["src_dst"])

        def ld(i):
            so = k[i].semantic_operands
            return any(type(o).__name__ == "MemoryOperand" for o in so["source"] + so["src_dst"])

        impl = {(int(s) - 1, int(d) - 1) for (s, d) in im.edges() if not s.endswith("L")}
        impl = {(i, j) for (i, j) in impl if (i, j) in ref or not (st(i) and ld(j))}
        ctx.count("role_edges", len(ref))
        if ref:
            distinct.add(repr((isa, lines)))
        # edge weights, judged from the instruction TEXT: an edge through a register that the producer changes only by address
        # write-back carries the model's index-write-back latency, every other edge the producer's latency without load stage
        if impl == ref and isa == "aarch64":
            regs = roles.reference_raw_regs(rl, fd)
            pidx = mms[arch].get("p_index_latency")
            ew = im.edges()
            for (i, j), rs in sorted(regs.items()):
                wb = roles.writeback_regs(lines[i], rl[i])
                kinds = {("wb" if r in wb else "plain") for r in rs}
                if len(kinds) != 1 or pidx is None:
                    continue
                lat = k[i].latency_wo_load if k[i].latency_wo_load is not None else k[i].latency
                want = float(pidx) if kinds == {"wb"} else float(lat or 0)
                got = ew.get((str(i + 1), str(j + 1)))
                ctx.count("role_edge_weights")
                if got is not None and abs(float(got) - want) > 1e-9:
                    ctx.violation("edge %d -> %d (`%s` -> `%s`) carries latency %s; the producer's latency is %s and the edge is %s"
                                  % (i + 1, j + 1, lines[i], lines[j], got, lat,
                                     "a write-back edge (index-write-back latency %s)" % pidx if kinds == {"wb"} else "not a write-back edge"),
                                  dict(im.info(), edge=[i + 1, j + 1], weight=got, expected=want))
                    break
        if impl != ref:
            miss, extra = sorted(ref - impl), sorted(impl - ref)
            if miss:
                what = "instruction %d (`%s`) reads a register that instruction %d (`%s`) writes, but there is no dependency edge" % (
                    miss[0][1] + 1, lines[miss[0][1]], miss[0][0] + 1, lines[miss[0][0]])
            else:
                what = "dependency edge %d -> %d (`%s` -> `%s`) although no register written by the first is read by the second (or it is overwritten in between)" % (
                    extra[0][0] + 1, extra[0][1] + 1, lines[extra[0][0]], lines[extra[0][1]])
            ctx.violation(what, dict(im.info(), missing=miss, extra=extra))
        if len(ctx.violations) > 10:
            break
    # ---- synthetic ISA database: reference RAW from the generated roles (registers and, if requested, each flag)
    from osaca.semantics import MachineModel as MM

    smm = MM(path_to_yaml=syn_model)
    ns = (300 if ctx.tier == "quick" else 2000) * (3 if ctx.broken else 1)
    for t in range(ns):
        lines, rl = synthisa.gen_kernel(ctx.rng, syn_forms, ctx.rng.randint(2, 8), npool=ctx.rng.choice([2, 3, 4]))
        fd = t % 2 == 1
        try:
            im = dgcheck.Impl("x86", "synisa", lines, fd, smm)
        except Exception as e:  # noqa
            ctx.violation("analysis of a synthetic-ISA kernel raised %s: %s" % (type(e).__name__, e),
                          {"isa": "x86", "kernel": lines, "isa_forms": syn_forms, "exception": type(e).__name__})
            continue
        ctx.count("synisa_kernels")
        dgcheck.compare_dg(ctx, im)
        ref = synthisa.reference_raw(rl, fd)
        impl = {(int(s) - 1, int(d) - 1) for (s, d) in im.edges() if not s.endswith("L")}
        ctx.count("synisa_edges", len(ref))
        if ref:
            distinct.add(repr(("synisa", lines, fd)))
        if impl != ref:
            miss, extra = sorted(ref - impl), sorted(impl - ref)
            e = (miss or extra)[0]
            what = ("synthetic ISA roles: %s dependency %d -> %d (`%s` -> `%s`), flag dependencies %s"
                    % ("missing" if miss else "spurious", e[0] + 1, e[1] + 1, lines[e[0]], lines[e[1]], "on" if fd else "off"))
            used = [f for f in syn_forms if any(l.startswith(f["name"] + " ") for l in lines)]
            ctx.violation(what, {"isa": "x86", "arch": "synisa", "kernel": lines, "flag_deps": fd, "isa_forms": used,
                                 "missing": miss, "extra": extra})
        if len(ctx.violations) > 10:
            break
    # ---- operand roles and register changes inside the model (Props/C03Roles.lean, harness/rolescheck.py)
    from harness import rolescheck
    rolescheck.run(ctx, syn_forms)
    ctx.cov["evaluations"] = ctx.counts.get("kernels", 0) + ctx.counts.get("role_kernels", 0) + ctx.counts.get("synisa_kernels", 0)
    ctx.cov["distinct_nontrivial"] = len(distinct)
    ctx.cov["traces_validated_against_impl"] = ctx.counts.get("dg_compared", 0)
    ctx.cov["rule"] = "distinct (isa, kernel text, flag option) with at least one dependency edge; shipped kernels + generated ones"
    ctx.log("%d kernels, %d RAW edges checked; %d vocabulary kernels, %d reference edges" % (
        ctx.counts.get("kernels", 0), ctx.counts.get("raw_edges", 0), ctx.counts.get("role_kernels", 0), ctx.counts.get("role_edges", 0)) + "; %d synthetic-ISA kernels, %d reference edges" % (
        ctx.counts.get("synisa_kernels", 0), ctx.counts.get("synisa_edges", 0)))
    return ctx.finish(trusted=dgcheck.TRUSTED)


def replay(ctx, path):
    return replay_common(ctx, path, "C03")


def replay_common(ctx, path, pid):
    rep = json.load(open(path))["replay"]
    if "kernel" not in rep:
        print("replay names a broken theorem/correspondence:", json.dumps(rep)[:800])
        return 1
    ctx.env = core.Env(pid)
    ctx.env.activate()
    shared = None
    if rep.get("earlier_on_same_semantics"):
        from osaca.semantics import ArchSemantics, MachineModel

        mm = MachineModel(arch=rep["arch"])
        shared = ArchSemantics(mm)
        for lines, fd in rep["earlier_on_same_semantics"]:
            dgcheck.Impl(rep["isa"], rep["arch"], lines, fd, mm, sem=shared)
        print("(after %d earlier kernels on the same ArchSemantics object)" % len(rep["earlier_on_same_semantics"]))
        im = dgcheck.Impl(rep["isa"], rep["arch"], rep["kernel"], rep.get("flag_deps", False), mm, sem=shared,
                          gaps=rep.get("gaps"))
    elif "reanalysed_after_flag_deps" in rep:
        im = dgcheck.Impl(rep["isa"], rep["arch"], rep["kernel"], rep["reanalysed_after_flag_deps"], gaps=rep.get("gaps"))
        im = im.reanalysed(rep.get("flag_deps", False), sub=rep.get("reanalysed_sub_range"))
        print("(second analysis of the same instruction-form objects)")
    else:
        try:
            im = dgcheck.Impl(rep["isa"], rep["arch"], rep["kernel"], rep.get("flag_deps", False), gaps=rep.get("gaps"))
        except Exception as e:  # noqa  (the recorded failure is the exception itself)
            if not rep.get("exception"):
                raise
            import traceback

            tb = traceback.extract_tb(e.__traceback__)[-1]
            print("the analysis raises %s: %s  (%s:%d, in %s)" % (type(e).__name__, e, tb.filename, tb.lineno, tb.name))
            ctx.cleanup()
            return 1
    print("edges:", sorted(im.edges().items()))
    print("critical path:", im.cp())
    print("LCD:", sorted(im.lcd_set()))
    ctx.cleanup()
    return 1
