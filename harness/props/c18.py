"""C18 - Analyses are independent of what was analysed before in the same process.

proof:      Props/C18.lean: `analyse_preserves_db`, `history_independent`, `inspect_history_independent`, ... for
            ALL databases, kernels and histories, for every safe configuration; `gen_cfg_safe` ties them to the
            configuration regenerated from the source (Gen/HistoryCfg: `+=` vs `a = a + b`, copies vs references,
            whether the runtime cache is shadowed by the reload).
tie:        (T) translator plug-in historycfg.  (K) every history is run in ONE fresh worker process
            (harness/c18_worker.py) which drives `osaca.osaca.run` exactly like `main()`; around
            `ArchSemantics.add_semantics` it records, by object identity, which model lists every kernel line
            got and re-reads the tables afterwards; the same calls are replayed through the Lean model
            (`c18proc` / `c18history`) and rows, aliasing and tables are compared.  After every call the
            structural digest of MachineModel._runtime_cache contents, class/module globals, default-argument
            objects and parser singletons is compared with a pristine process (implementation-side
            observation of `analyse_preserves_db` / `cache_clean_after_any_history`).
search:     the property itself on the real code: every report of every history must equal the report of
            a fresh process for the same request (timestamp masked); `inspect` histories, histories that
            keep one MachineModel/ArchSemantics per architecture (library use), one history on cold caches.
            A failing history is shrunk by delta debugging (each candidate in a new process).
"""
import concurrent.futures as cf
import hashlib
import itertools
import json
import os
import subprocess
import time

from harness import c18lib as L
from harness import core
from harness.core import esc, unesc

TRUSTED = [
    "Lean 4.33 kernel; axioms of every theorem audited (allowed: propext, Classical.choice, Quot.sound)",
    "tools/gen/historycfg.py: AST shape recognition of the seven reference/copy/in-place sites",
    "harness/c18lib.py: structural digest (contents of dict/list/object graphs; pyparsing objects by grammar text), "
    "identity-based classification of kernel lines, request generators",
    "harness/c18_worker.py: one history per Python process; fresh-process baseline = a history of length one",
    "modelled, not verified: Python list aliasing (`+=` in place, `+` new list), pickle/YAML loading yields a new equal "
    "object, Frontend/KernelDG/balancer are functions of the rows (covered by the fresh-process comparison only)",
]

QUICK_ARCHS = ["zen1", "zen2", "zen4", "spr", "tx2", "n1", "a72", "a64fx", "v2"]
COLD_ARCHS = ["zen1", "tx2", "n1"]
WORKERS = 8


# --------------------------------------------------------------------------- worker plumbing
class Lab:
    """A private HOME with kernels on disk and a way to run histories in fresh processes."""

    def __init__(self, ctx, env, archs):
        self.ctx = ctx
        self.env = env
        self.archs = archs
        self.kdir = os.path.join(env.work, "k")
        os.makedirs(self.kdir, exist_ok=True)
        self.jobs = itertools.count(1)
        self.kernels = {}

    def add_kernel(self, name, text):
        self.kernels[name] = text
        with open(os.path.join(self.kdir, name), "w", encoding="utf-8") as f:
            f.write(text)

    def work(self, job, hashseed=None, timeout=900):
        job = dict(job)
        job.update(home=self.env.home, repo=core.REPO, verif=core.VERIF, kdir=self.kdir)
        p = os.path.join(self.env.work, "job-%d-%d.json" % (os.getpid(), next(self.jobs)))
        with open(p, "w") as f:
            json.dump(job, f)
        e = self.env.subenv()
        e["PYTHONPATH"] = core.REPO
        e["PYTHONHASHSEED"] = str(hashseed if hashseed is not None else 0)
        try:
            r = subprocess.run(["/venv/bin/python", "-W", "ignore", os.path.join(core.VERIF, "harness", "c18_worker.py"), p],
                               stdout=subprocess.PIPE, stderr=subprocess.PIPE, text=True, env=e, timeout=timeout)
        except subprocess.TimeoutExpired:
            raise core.InfraError("C18 worker timed out on %s" % job.get("mode"))
        finally:
            try:
                os.remove(p)
            except OSError:
                pass
        if r.returncode != 0:
            raise core.InfraError("C18 worker failed (rc %s): %s" % (r.returncode, r.stderr[-1500:]))
        try:
            return json.loads(r.stdout)
        except ValueError:
            raise core.InfraError("C18 worker produced no JSON: %s | %s" % (r.stdout[-300:], r.stderr[-600:]))

    def history(self, reqs, mode="inspect", capture=True, digest="touched", load_first=True, hashseed=None):
        return self.work({"mode": mode, "requests": reqs, "capture": capture, "digest": digest,
                          "load_first": load_first}, hashseed=hashseed)

    def fresh(self, req, mode="inspect", hashseed=None):
        r = self.work({"mode": mode, "requests": [req], "capture": False, "digest": "none"}, hashseed=hashseed)
        return r["calls"][0]

    def pristine(self):
        return self.work({"mode": "pristine", "archs": self.archs,
                          "warm_x86": L.X86_LINES + L.X86_OTHER, "warm_a64": L.A64_LINES + L.A64_OTHER})["digests"]


def rhash(call):
    return hashlib.sha256(((call.get("exc") or "") + "\0" + (call.get("out") or "")).encode()).hexdigest()[:20]


def first_text_diff(a, b):
    la, lb = a.split("\n"), b.split("\n")
    for i in range(max(len(la), len(lb))):
        x = la[i] if i < len(la) else "<missing>"
        y = lb[i] if i < len(lb) else "<missing>"
        if x != y:
            return {"line": i + 1, "fresh": x[:200], "in_history": y[:200]}
    return None


# --------------------------------------------------------------------------- oracle on one history
def polluted_keys(pristine, digests, previous):
    """keys whose digest differs from the pristine process (absolute keys) or from the previous
    observation in the same process (relative keys)"""
    bad = []
    for k, v in digests.items():
        if k.startswith(L.RELATIVE_PREFIXES):
            if k in previous and previous[k] != v:
                bad.append(k)
        elif k in pristine and pristine[k] != v:
            bad.append(k)
    return sorted(bad)


def judge(lab, pristine, fresh_of, reqs, res, mode):
    """Returns (report_failures, digest_failures): lists of (index, detail)."""
    rep_f, dig_f = [], []
    prev = dict(res.get("baseline", {}))
    b0 = polluted_keys(pristine, prev, {})
    if b0:
        dig_f.append((-1, b0))
    for i, (rq, c) in enumerate(zip(reqs, res["calls"])):
        fr = fresh_of(rq, mode)
        if fr is not None and rhash(fr) != rhash(c):
            rep_f.append((i, first_text_diff((fr.get("exc") or "") + "\n" + fr["out"], (c.get("exc") or "") + "\n" + c["out"])))
        d = c.get("digests", {})
        bad = polluted_keys(pristine, d, prev)
        if bad:
            dig_f.append((i, bad))
        prev.update(d)
    if "final" in res:
        bad = polluted_keys(pristine, res["final"], prev)
        if bad and not dig_f:
            dig_f.append((len(reqs) - 1, bad))
    return rep_f, dig_f


def spec_oracle(ctx, pristine, fresh_of, reqs, res, mode):
    """The same two comparisons evaluated by the Lean Spec (firstDiff / firstPolluted) on the observed
    hashes; returns (first differing report index or None, first polluted call index or None)."""
    fr = [fresh_of(rq, mode) for rq in reqs]
    if any(f is None for f in fr):
        return None, None
    a = ",".join(rhash(f) for f in fr)
    b = ",".join(rhash(c) for c in res["calls"])
    pr = ",".join("%s:%s" % (k.replace(",", "_").replace(":", "_"), v) for k, v in sorted(pristine.items())
                  if not k.startswith(L.RELATIVE_PREFIXES))
    after = []
    for c in res["calls"]:
        after.append(esc(",".join("%s:%s" % (k.replace(",", "_").replace(":", "_"), v)
                                  for k, v in sorted(c.get("digests", {}).items())
                                  if not k.startswith(L.RELATIVE_PREFIXES))))
    out = ctx.driver.ask(["c18firstdiff %s %s" % (esc(a), esc(b)), "c18polluted %s %s" % (esc(pr), " ".join(after))])
    conv = lambda s: None if s == "none" else int(s)  # noqa
    return conv(out[0]), conv(out[1])


# --------------------------------------------------------------------------- correspondence with the Lean model
class Interner:
    def __init__(self):
        self.m = {}

    def __call__(self, k):
        if k not in self.m:
            self.m[k] = len(self.m) + 1
        return self.m[k]


def enc_nums(xs):
    return ",".join(str(x) for x in xs)


def enc_lists(ls):
    return ";".join(enc_nums(x) if x else "-" for x in ls)


def dec_nums(s):
    return [int(x) for x in s.split(",")] if s else []


def dec_lists(s):
    return [([] if x == "-" else dec_nums(x)) for x in s.split(";")] if s else []


def dec_db(s):
    f, l, st, ld, sd, h = s.split("|")
    return {"forms": dec_lists(f), "loads": dec_lists(l), "stores": dec_lists(st), "ldef": dec_nums(ld),
            "sdef": dec_nums(sd), "hidden": dec_lists(h)}


def dec_rows(s):
    rows = []
    for r in (s.split(";") if s else []):
        a, u, hr, h = r.split(":")
        rows.append({"known": a[0] == "1", "ref": a[1] == "r", "uops": dec_nums(u), "hid_ref": hr == "r", "hid": dec_nums(h)})
    return rows


def correspond(ctx, cfgbits, res, mode, label):
    """Replays the modelled calls of one real history through the Lean model and compares rows,
    aliasing and tables.  Returns number of calls compared."""
    recs = []  # (call index, record)
    for i, c in enumerate(res["calls"]):
        for a in c.get("abs", []):
            if a.get("unmodelled") is None:
                recs.append((i, a))
            elif a["unmodelled"].startswith("ARRANGEMENT"):
                ctx.count("corr_disagreements")
                if ctx.counts["corr_disagreements"] <= 3:
                    ctx.correspondence_break("history-model-vs-code", {"history": label, "call": i, "path": a["path"],
                                                                       "problems": [a["unmodelled"]]})
            else:
                ctx.count("corr_unmodelled_calls")
                ctx.cov["distribution"].setdefault("unmodelled", {})
                why = a["unmodelled"].split(" at line")[0][:60]
                ctx.cov["distribution"]["unmodelled"][why] = ctx.cov["distribution"]["unmodelled"].get(why, 0) + 1
    if not recs:
        return 0
    I = Interner()
    paths = []
    for _, a in recs:
        if a["path"] not in paths:
            paths.append(a["path"])
    hidden_by_ref = cfgbits[5] == "1"
    disks = []
    for p in paths:
        mine = [a for _, a in recs if a["path"] == p]
        first, last = mine[0], mine[-1]
        disks.append({
            "forms": [[I(u) for u in f] for f in last["forms_before"]],
            "loads": [[I(u) for u in l] for l in first["tables_before"]["loads"]],
            "stores": [[I(u) for u in l] for l in first["tables_before"]["stores"]],
            "ldef": [I(u) for u in first["tables_before"]["ldef"]],
            "sdef": [I(u) for u in first["tables_before"]["sdef"]],
            "hidden": [[I("h" + u) for u in h] for h in last["hidden_after"]],
        })

    def enc_db(d):
        return "|".join([enc_lists(d["forms"]), enc_lists(d["loads"]), enc_lists(d["stores"]), enc_nums(d["ldef"]),
                         enc_nums(d["sdef"]), enc_lists(d["hidden"])])

    replies = []
    if mode == "shared":
        # one model object per architecture for the whole process: `runHistory`
        for pi, p in enumerate(paths):
            mine = [(i, a) for i, a in recs if a["path"] == p]
            line = "c18history %s %s %s" % (esc(cfgbits), esc(enc_db(disks[pi])), " ".join(esc(";".join(a["lines"])) for _, a in mine))
            out = ctx.driver.ask1(line).split(" ")
            for (i, a), o in zip(mine, out):
                replies.append((i, a, pi, unesc(o)))
        replies.sort(key=lambda x: x[0])
    else:
        rq = "/".join("%d|%s" % (paths.index(a["path"]), ";".join(a["lines"])) for _, a in recs)
        line = "c18proc %s %s %s" % (esc(cfgbits), esc(rq), " ".join(esc(enc_db(d)) for d in disks))
        out = ctx.driver.ask1(line).split(" ")
        if len(out) != len(recs):
            ctx.correspondence_break("c18proc-shape", {"label": label, "replies": len(out), "calls": len(recs)})
            return 0
        for (i, a), o in zip(recs, out):
            replies.append((i, a, paths.index(a["path"]), unesc(o)))
    n = 0
    for i, a, pi, rep in replies:
        rows_s, db_s = rep.split("#")
        mrows, mdb = dec_rows(rows_s), dec_db(db_s)
        n += 1
        real_rows = a["rows"]
        problems = []
        if len(mrows) != len(real_rows):
            problems.append("row count %d vs %d" % (len(mrows), len(real_rows)))
        for j, (m, r) in enumerate(zip(mrows, real_rows)):
            end = a["end_uops"][j]
            if end is not None and [I(u) for u in end] != [I(u) for u in r["uops"]]:
                problems.append("line %s: port_uops changed between add_semantics and the report" % r["line"])
            ru = [I(u) for u in (end if end is not None else r["uops"])]
            if m["uops"] != ru:
                problems.append("line %s (%s): uops model %s real %s" % (r["line"], a["lines"][j], m["uops"], ru))
            if m["ref"] != r["ref"]:
                problems.append("line %s (%s): aliasing model %s real %s" % (r["line"], a["lines"][j], m["ref"], r["ref"]))
            if m["known"] != r["known"]:
                problems.append("line %s (%s): known model %s real %s" % (r["line"], a["lines"][j], m["known"], r["known"]))
            if hidden_by_ref and (m["hid"] != [I("h" + u) for u in r["hid"]] or m["hid_ref"] != r["hid_ref"]):
                problems.append("line %s (%s): hidden operands model %s/%s real %s/%s"
                                % (r["line"], a["lines"][j], m["hid"], m["hid_ref"], r["hid"], r["hid_ref"]))
        real_db = {
            "loads": [[I(u) for u in l] for l in a["tables_after"]["loads"]],
            "stores": [[I(u) for u in l] for l in a["tables_after"]["stores"]],
            "ldef": [I(u) for u in a["tables_after"]["ldef"]],
            "sdef": [I(u) for u in a["tables_after"]["sdef"]],
        }
        for k in ("loads", "stores", "ldef", "sdef"):
            if mdb[k] != real_db[k]:
                problems.append("table %s after the call: model %s real %s" % (k, str(mdb[k])[:120], str(real_db[k])[:120]))
        fa = [[I(u) for u in f] for f in a["forms_after"]]
        if mdb["forms"][:len(fa)] != fa:
            problems.append("form lists after the call differ")
        if problems:
            ctx.count("corr_disagreements")
            if ctx.counts["corr_disagreements"] <= 3:
                ctx.correspondence_break("history-model-vs-code", {"history": label, "call": i, "path": a["path"],
                                                                   "kernel": a["lines"], "problems": problems[:6]})
        for tok in a["lines"]:
            kind = tok[0]
            ctx.cov["distribution"].setdefault("line_kinds", {})
            ctx.cov["distribution"]["line_kinds"][kind] = ctx.cov["distribution"]["line_kinds"].get(kind, 0) + 1
    return n


# --------------------------------------------------------------------------- shrinking
def ddmin(items, fails, budget):
    """Classic delta debugging on a list; `fails(sub)` runs the candidate in a new process."""
    n = 2
    cur = list(items)
    while len(cur) >= 2 and budget[0] > 0:
        chunk = max(1, len(cur) // n)
        subsets = [cur[i:i + chunk] for i in range(0, len(cur), chunk)]
        reduced = False
        for s in subsets:
            comp = [x for x in cur if not any(x is y for y in s)]
            if budget[0] <= 0:
                break
            budget[0] -= 1
            if fails(comp):
                cur, n, reduced = comp, max(n - 1, 2), True
                break
        if not reduced:
            if n >= len(cur):
                break
            n = min(len(cur), n * 2)
    if len(cur) == 1 and budget[0] > 0:
        budget[0] -= 1
        if fails([]):
            cur = []
    return cur


def shrink_report_failure(lab, fresh_of, reqs, idx, mode):
    """Minimal prefix (as a sub-list of reqs[:idx]) after which reqs[idx] still answers differently
    from a fresh process."""
    target = reqs[idx]
    want = rhash(fresh_of(target, mode))
    if rhash(lab.fresh(target, mode, hashseed=4242)) != want:
        return "unstable"  # a fresh process does not even agree with itself on this request

    def fails(prefix):
        res = lab.history(prefix + [target], mode=mode, capture=False, digest="none")
        return rhash(res["calls"][-1]) != want

    prefix = [dict(r) for r in reqs[:idx]]
    budget = [24]
    if not fails(prefix):
        return None  # not reproducible in a new process
    prefix = ddmin(prefix, fails, budget)
    return prefix + [target]


def shrink_digest_failure(lab, pristine, reqs, idx, keys, mode):
    """Try the polluting call alone; else keep the prefix."""
    def fails(hist):
        res = lab.history(hist, mode=mode, capture=False, digest="all")
        prev = dict(res.get("baseline", {}))
        for c in res["calls"]:
            if set(polluted_keys(pristine, c.get("digests", {}), prev)) & set(keys):
                return True
            prev.update(c.get("digests", {}))
        return False

    if idx < 0:
        return [] if fails([]) else None
    if fails([reqs[idx]]):
        return [reqs[idx]]
    prefix = [dict(r) for r in reqs[:idx]]
    if not fails(prefix + [reqs[idx]]):
        return None
    budget = [16]
    prefix = ddmin(prefix, lambda p: fails(p + [reqs[idx]]), budget)
    return prefix + [reqs[idx]]


# --------------------------------------------------------------------------- the check
def load_census():
    """in-place operations of the anchored functions, from the translator plug-in's AST walk"""
    import importlib.util

    import translate  # noqa  (tools/ is on sys.path through harness.core)

    translate.REPO = core.REPO
    spec = importlib.util.spec_from_file_location("c18_historycfg", os.path.join(core.VERIF, "tools", "gen", "historycfg.py"))
    mod = importlib.util.module_from_spec(spec)
    spec.loader.exec_module(mod)
    return mod.census()


def setup(ctx, archs, name="C18"):
    env = core.Env(name, archs=archs)
    lab = Lab(ctx, env, archs)
    return env, lab


def make_kernels(ctx, lab, n_gen, thorough):
    kernels = []
    for name, isa, text in L.corpus(core.REPO, thorough):
        lab.add_kernel(name, text)
        kernels.append((name, isa, text.count("\n") + 1))
    for i in range(n_gen):
        isa = "x86" if ctx.rng.random() < 0.55 else "aarch64"
        text = L.gen_kernel(ctx.rng, isa)
        name = "g%03d_%s.s" % (i, isa)
        lab.add_kernel(name, text)
        kernels.append((name, isa, text.count("\n") + 1))
    # the instruction the property's known defect is about, always present
    lab.add_kernel("rmw_x86.s", "addq %rax, 8(%rbx)\naddq %rcx, 16(%rbx)\nvaddpd (%rax), %ymm0, %ymm1\nfoo %rax, %rbx\n")
    kernels.append(("rmw_x86.s", "x86", 4))
    # kernels whose analysis depends on -f / --consider-flag-deps (a flag producer feeding a flag consumer on a cycle)
    lab.add_kernel("flags_x86.s", "cmpq %rcx, %rdx\ncmovne %rax, %rbx\naddq %rbx, %rax\nsbbq %rax, %rcx\n")
    kernels.append(("flags_x86.s", "x86", 4))
    lab.add_kernel("flags_a64.s", "subs x9, x9, #1\ncsel x0, x1, x2, ne\nadd x1, x0, x9\nadcs x2, x1, x0\nb.ne .L2\n")
    kernels.append(("flags_a64.s", "aarch64", 5))
    return kernels


def report_violation(ctx, lab, what, kind, mode, hist, idx, detail, key=None, extra=None):
    used = {"spr", "v2"}
    for r in hist:
        if "--arch" in r["argv"]:
            used.add(r["argv"][r["argv"].index("--arch") + 1].lower())
    rep = {"kind": kind, "mode": mode, "archs": [a for a in lab.archs if a in used], "history": hist, "failing_index": idx, "detail": detail,
           "kernels": {r["kernel"]: lab.kernels[r["kernel"]] for r in hist}}
    if extra:
        rep.update(extra)
    ctx.violation(what, rep, key=key)


def run(ctx):
    ctx.assumptions = TRUSTED
    thorough = ctx.tier == "thorough"
    ctx.prove(["HistoryCfg"], ["OsacaVerif.Props.C18"])
    ctx.thorough_recheck(["OsacaVerif.Props.C18"])
    cfgline = ctx.driver.ask1("c18cfg")
    cfgbits = cfgline.split(" ")[0]
    ctx.log("configuration read from the source (Gen.HistoryCfg): %s" % cfgline)
    ctx.cov["source_cfg"] = dict(zip(["rmwInPlace", "rmwLoadFirst", "loadByRef", "loadDefaultCopied", "foundByRef",
                                      "hiddenByRef", "cacheShadowed"], cfgbits))
    load_first = cfgbits[1] == "1"
    # census of in-place operations in the anchored functions: a change only raises the search volume
    escalate = bool(ctx.broken)
    try:
        census = load_census()
        with open(os.path.join(core.VERIF, "harness", "c18_census.json")) as f:
            expected = json.load(f)
        if census is not None and census != expected:
            diff = sorted(set(census) ^ set(expected))
            ctx.log("in-place operations of the anchored functions changed (%d sites differ): searching at full volume; %s"
                    % (len(diff), diff[:4]))
            ctx.cov["census_changed"] = diff[:20]
            escalate = True
    except Exception as e:  # noqa
        ctx.log("census unavailable (%s): searching at full volume" % e)
        escalate = True

    all_archs = [a for a in core.shipped_archs() if a in L.ARCH_ISA]
    archs = all_archs if thorough else [a for a in QUICK_ARCHS if a in all_archs]
    ctx.env, lab = setup(ctx, archs)
    n_hist = (80 if thorough else 10) * (2 if escalate and not thorough else 1)
    n_calls = 12
    n_shared = (16 if thorough else 3) * (2 if escalate and not thorough else 1)
    pool_size = 260 if thorough else (80 if escalate else 50)
    kernels = make_kernels(ctx, lab, 60 if thorough else 16, thorough)

    t0 = time.time()
    pristine = lab.pristine()
    ctx.log("pristine process: %d state keys, %d models loaded cold (%.1fs)" % (len(pristine), len(archs), time.time() - t0))

    # ---- request pool and fresh-process baselines
    pool, seen, siblings = [], set(), {}
    pool.append({"kernel": "rmw_x86.s", "argv": ["--arch", "zen2"]})
    seen.add(L.req_id(pool[0]))
    for kname, kisa in (("flags_x86.s", "x86"), ("flags_a64.s", "aarch64")):
        same = [a for a in archs if L.ARCH_ISA[a] == kisa]
        if same:
            arch = ctx.rng.choice(same)
            a, b = {"kernel": kname, "argv": ["--arch", arch]}, {"kernel": kname, "argv": ["--arch", arch, "-f"]}
            for q in (a, b):
                pool.append(q)
                seen.add(L.req_id(q))
            siblings.setdefault(L.req_id(a), []).append(b)
            siblings.setdefault(L.req_id(b), []).append(a)
    tries = 0
    while len(pool) < pool_size and tries < pool_size * 20:
        tries += 1
        rq = L.gen_request(ctx.rng, kernels, archs)
        if L.req_id(rq) not in seen:
            seen.add(L.req_id(rq))
            pool.append(rq)
            # option siblings: the same kernel (and architecture) with exactly one option toggled -- what a cache keyed by
            # too little of the request confuses
            if ctx.rng.random() < 0.5:
                opt = ctx.rng.choice(["-f", "-f", "--fixed", "--ignore-unknown"])
                argv = [a for a in rq["argv"] if a != opt] if opt in rq["argv"] else rq["argv"] + [opt]
                sib = {"kernel": rq["kernel"], "argv": argv}
                if L.req_id(sib) not in seen:
                    seen.add(L.req_id(sib))
                    pool.append(sib)
                siblings.setdefault(L.req_id(rq), []).append(sib)
                siblings.setdefault(L.req_id(sib), []).append(rq)
    fresh = {}

    def fresh_of(rq, mode):
        return fresh.get((mode, L.req_id(rq)))

    def compute_fresh(rqs, mode):
        todo = [rq for rq in rqs if (mode, L.req_id(rq)) not in fresh]
        with cf.ThreadPoolExecutor(WORKERS) as ex:
            for rq, r in zip(todo, ex.map(lambda q: lab.fresh(q, mode), todo)):
                fresh[(mode, L.req_id(rq))] = r

    t0 = time.time()
    compute_fresh(pool, "inspect")
    # a fresh process must agree with itself (different hash seeds), else the request says nothing about histories
    probe = pool[: (40 if thorough else 10)]
    with cf.ThreadPoolExecutor(WORKERS) as ex:
        again = list(ex.map(lambda q: lab.fresh(q, "inspect", hashseed=12345), probe))
    unstable = set()
    for rq, r in zip(probe, again):
        if rhash(r) != rhash(fresh[("inspect", L.req_id(rq))]):
            unstable.add(L.req_id(rq))
    slow = {L.req_id(rq) for rq in pool if fresh[("inspect", L.req_id(rq))]["t"] > 20.0}
    pool = [rq for rq in pool if L.req_id(rq) not in unstable and L.req_id(rq) not in slow]
    # how many option siblings really differ in their fresh reports (an option that changes nothing shows nothing)
    for rid, sibs in siblings.items():
        for sb in sibs:
            a, b = fresh.get(("inspect", rid)), fresh.get(("inspect", L.req_id(sb)))
            if a and b and rid < L.req_id(sb):
                ctx.count("option_sibling_pairs")
                if rhash(a) != rhash(b):
                    ctx.count("option_sibling_pairs_with_different_reports")
    ctx.count("fresh_process_runs", len(fresh) + len(again))
    ctx.count("requests_unstable_in_fresh_process", len(unstable))
    ctx.count("requests_too_slow", len(slow))
    nexc = sum(1 for v in fresh.values() if v.get("exc"))
    ctx.cov["distribution"]["fresh_requests"] = {"total": len(fresh), "raising": nexc}
    ctx.log("request pool %d (fresh baselines %.1fs; %d raise, %d unstable, %d slow dropped)"
            % (len(pool), time.time() - t0, nexc, len(unstable), len(slow)))

    # ---- histories
    def make_history(k):
        sub = ctx.rng.sample(pool, min(len(pool), ctx.rng.randint(4, 8)))
        h = [dict(ctx.rng.choice(sub)) for _ in range(k)]
        if ctx.rng.random() < 0.7:
            # make sure something is repeated with other work in between
            x = ctx.rng.choice(h)
            h[0] = dict(x)
            h[-1] = dict(x)
        # a request directly followed (and preceded) by its option sibling
        live = {L.req_id(rq) for rq in pool}
        withsib = [rq for rq in sub if any(L.req_id(sb) in live for sb in siblings.get(L.req_id(rq), []))]
        if withsib and k >= 5:
            x = ctx.rng.choice(withsib)
            sb = ctx.rng.choice([q for q in siblings[L.req_id(x)] if L.req_id(q) in live])
            i = ctx.rng.randrange(1, k - 3)
            h[i], h[i + 1], h[i + 2] = dict(x), dict(sb), dict(x)
            ctx.count("histories_with_option_siblings")
        return h

    histories = [("inspect", make_history(n_calls)) for _ in range(n_hist)]
    # short histories that alternate a request with its option sibling, for the pairs whose fresh reports differ
    live = {L.req_id(rq): rq for rq in pool}
    eff = []
    for rid, sibs in sorted(siblings.items()):
        for sb in sibs:
            sid = L.req_id(sb)
            if rid < sid and rid in live and sid in live and rhash(fresh[("inspect", rid)]) != rhash(fresh[("inspect", sid)]):
                eff.append((live[rid], sb))
    ctx.rng.shuffle(eff)
    # pairs that differ in -f first: flag dependencies are the option a graph cache is most likely to forget
    eff.sort(key=lambda pr: 0 if (("-f" in pr[0]["argv"]) != ("-f" in pr[1]["argv"])) else 1)
    ctx.cov["distribution"]["effective_sibling_options"] = [sorted(set(a["argv"]) ^ set(b["argv"])) for a, b in eff][:20]
    for x, sb in eff[: (40 if thorough else 8)]:
        a, b = (x, sb) if ctx.rng.random() < 0.5 else (sb, x)
        histories.append(("inspect", [dict(a), dict(b), dict(a), dict(b)]))
        ctx.count("alternating_sibling_histories")
    # the load+store instruction twice in every run (first history), with something in between
    histories[0] = ("inspect", [dict(pool[0])] + histories[0][1][1:-1] + [dict(pool[0])])
    shared = [("shared", make_history(10)) for _ in range(n_shared)]
    shared[0] = ("shared", [dict(pool[0])] + shared[0][1][1:-1] + [dict(pool[0])])
    t0 = time.time()
    need = []
    for _, h in shared:
        need += h
    compute_fresh(need, "shared")
    ctx.count("fresh_process_runs", len([k for k in fresh if k[0] == "shared"]))
    with cf.ThreadPoolExecutor(WORKERS) as ex:
        results = list(ex.map(lambda mh: lab.history(mh[1], mode=mh[0], load_first=load_first), histories + shared))
    ctx.log("%d inspect histories x %d calls, %d shared-object histories x 10 calls run in fresh processes (%.1fs)"
            % (n_hist, n_calls, n_shared, time.time() - t0))

    # one history on cold caches (no pickle yet: the first load parses YAML and writes the pickle)
    cold = None
    cold_archs = [a for a in COLD_ARCHS if a in archs]
    if cold_archs:
        cenv, clab = setup(ctx, cold_archs, name="C18cold")
        try:
            for name, text in lab.kernels.items():
                clab.add_kernel(name, text)
            cpool = [rq for rq in pool if ("--arch" in rq["argv"]
                     and rq["argv"][rq["argv"].index("--arch") + 1].lower() in cold_archs)]
            if len(cpool) >= 2:
                ch = [dict(ctx.rng.choice(cpool)) for _ in range(8)]
                ch[-1] = dict(ch[0])
                cres = clab.history(ch, load_first=load_first)
                cold = (ch, cres)
        finally:
            cenv.cleanup()

    # ---- oracle + correspondence
    n_calls_total = n_viol = n_corr = 0
    reported = set()
    all_runs = [(m, h, r, "h%d" % i) for i, ((m, h), r) in enumerate(zip(histories + shared, results))]
    if cold is not None:
        all_runs.append(("inspect", cold[0], cold[1], "cold"))
    rep_counts = {"equal": 0, "different": 0}
    for mode, h, res, label in all_runs:
        n_calls_total += len(h)
        if label == "cold":
            # the cold lab has its own HOME: paths in the header are equal (same file names), data equal
            pass
        rep_f, dig_f = judge(lab, pristine, fresh_of, h, res, mode)
        s_rep, s_dig = spec_oracle(ctx, pristine, fresh_of, h, res, mode)
        py_rep = rep_f[0][0] if rep_f else None
        abs_dig = [i for i, keys in dig_f if i >= 0 and i < len(res["calls"]) and any(
            not k.startswith(L.RELATIVE_PREFIXES) and k in res["calls"][i].get("digests", {}) for k in keys)]
        py_dig = abs_dig[0] if abs_dig else None
        if s_rep != py_rep or s_dig != py_dig:
            ctx.correspondence_break("spec-oracle-vs-harness", {"history": label, "spec": [s_rep, s_dig], "harness": [py_rep, py_dig]})
        rep_counts["different"] += len(rep_f)
        rep_counts["equal"] += len(h) - len(rep_f)
        n_corr += correspond(ctx, cfgbits, res, mode, label)
        for idx, detail in rep_f[:1]:
            sig = ("report", L.req_id(h[idx]), mode)
            if sig in reported or len([x for x in reported if x[0] == "report"]) >= 3:
                continue
            reported.add(sig)
            small = shrink_report_failure(lab, fresh_of, h, idx, mode) if label != "cold" else None
            if small == "unstable" or (small is None and label != "cold"):
                ctx.count("report_differences_not_reproducible")
                ctx.log("report difference in %s call %d not reproducible in a new process (%s): not a history effect"
                        % (label, idx, small))
                continue
            hist = small if small is not None else h[: idx + 1]
            n_viol += 1
            what = ("report of `osaca %s %s` after %d earlier call(s) in the same process differs from the report of a "
                    "fresh process (%s mode)" % (" ".join(h[idx]["argv"]), h[idx]["kernel"], len(hist) - 1, mode))
            ctx.log("FAILING HISTORY: " + what + " :: " + json.dumps(detail))
            report_violation(ctx, lab, what, "report", mode, hist, len(hist) - 1, detail,
                             extra={"shrunk": small is not None, "original_length": idx + 1})
        for idx, keys in dig_f[:1]:
            cache_keys = [k for k in keys if k.startswith("cache:")]
            sig = ("digest", tuple(keys), mode)
            if sig in reported or len([x for x in reported if x[0] == "digest"]) >= 3:
                continue
            reported.add(sig)
            ctx.correspondence_break("state-digest", {"history": label, "call": idx, "keys": keys[:8],
                                                      "request": h[idx] if idx >= 0 else None})
            if label == "cold":
                continue
            small = shrink_digest_failure(lab, pristine, h, idx, keys, mode)
            hist = small if small is not None else h[: idx + 1]
            extra = {"keys": keys[:12], "shrunk": small is not None}
            # does the pollution reach a report?  the same request again on the same model object
            if idx >= 0:
                try:
                    compute_fresh([h[idx]], "shared")
                    rr = lab.history([h[idx], h[idx]], mode="shared", capture=False, digest="none")
                    fr = fresh_of(h[idx], "shared")
                    if rhash(rr["calls"][1]) != rhash(fr):
                        extra["report_level"] = {
                            "mode": "shared", "history": [h[idx], h[idx]],
                            "diff": first_text_diff((fr.get("exc") or "") + "\n" + fr["out"],
                                                    (rr["calls"][1].get("exc") or "") + "\n" + rr["calls"][1]["out"])}
                except core.InfraError:
                    pass
            if cache_keys or "report_level" in extra:
                n_viol += 1
                what = ("after `osaca %s %s` the process-global state %s differs from a pristine process%s"
                        % (" ".join(h[idx]["argv"]) if idx >= 0 else "", h[idx]["kernel"] if idx >= 0 else "(import)",
                           keys[:3], "; a repeated analysis on the same model object then prints a different report"
                           if "report_level" in extra else ""))
                ctx.log("FAILING HISTORY: " + what)
                report_violation(ctx, lab, what, "digest", mode, hist, len(hist) - 1, {"keys": keys[:12]}, extra=extra)
    ctx.count("history_calls", n_calls_total)
    ctx.count("histories", len(all_runs))
    ctx.count("calls_replayed_through_model", n_corr)
    ctx.count("reports_equal_to_fresh", rep_counts["equal"])
    ctx.count("reports_different_from_fresh", rep_counts["different"])
    ctx.count("violations_found", n_viol)
    repeats = 0
    for mode, h, res, label in all_runs:
        ids = [L.req_id(r) for r in h]
        repeats += len(ids) - len(set(ids))
    ctx.count("repeated_requests", repeats)
    ctx.cov["evaluations"] = n_calls_total
    ctx.cov["distinct_nontrivial"] = len({(m, L.req_id(r)) for m, h, _, _ in all_runs for r in h})
    ctx.cov["traces_validated_against_impl"] = n_corr
    ctx.cov["rule"] = ("every call of every history: report == fresh-process report (timestamp masked) and digest of "
                       "process-global state == pristine; non-trivial = distinct (mode, request) pairs")
    ctx.cov["distribution"]["modes"] = {"inspect": n_hist, "shared": n_shared, "cold": 1 if cold else 0}
    ctx.cov["distribution"]["archs"] = archs
    ctx.sample({"history": [(r["kernel"], " ".join(r["argv"])) for r in histories[0][1][:4]], "mode": "inspect"})
    ctx.log("histories %d, calls %d (repeated %d), replayed through the model %d, report differences %d, violations %d"
            % (len(all_runs), n_calls_total, repeats, n_corr, rep_counts["different"], n_viol))
    return ctx.finish(trusted=TRUSTED)


def replay(ctx, path):
    rep = json.load(open(path))["replay"]
    if "history" not in rep:
        print("replay names a broken theorem/correspondence, not an input:", json.dumps(rep)[:800])
        ctx.cleanup()
        return 1
    archs = [a for a in rep.get("archs", QUICK_ARCHS) if a in core.shipped_archs()]
    ctx.env, lab = setup(ctx, archs, name="C18replay")
    for name, text in rep["kernels"].items():
        lab.add_kernel(name, text)
    hist, mode = rep["history"], rep.get("mode", "inspect")
    rc = 0
    try:
        pristine = lab.pristine()
        res = lab.history(hist, mode=mode, capture=False, digest="all")
        if rep["kind"] == "report":
            fr = lab.fresh(hist[-1], mode)
            last = res["calls"][-1]
            same = rhash(fr) == rhash(last)
            print("history of %d call(s), %s mode; last report %s the fresh-process report"
                  % (len(hist), mode, "EQUALS" if same else "DIFFERS from"))
            if not same:
                print(json.dumps(first_text_diff((fr.get("exc") or "") + "\n" + fr["out"],
                                                 (last.get("exc") or "") + "\n" + last["out"])))
                rc = 1
        else:
            prev = dict(res.get("baseline", {}))
            for i, c in enumerate(res["calls"]):
                bad = polluted_keys(pristine, c.get("digests", {}), prev)
                prev.update(c.get("digests", {}))
                if bad:
                    print("after call %d the state keys %s differ from a pristine process" % (i, bad[:6]))
                    rc = 1
            if rc == 0:
                print("process-global state equals the pristine process after every call")
            rl = rep.get("report_level")
            if rl:
                r2 = lab.history(rl["history"], mode=rl["mode"], capture=False, digest="none")
                fr = lab.fresh(rl["history"][-1], rl["mode"])
                if rhash(r2["calls"][-1]) != rhash(fr):
                    print("and the repeated analysis on the same model object prints a different report")
                    rc = 1
    finally:
        ctx.cleanup()
    return rc
