"""C17 - Model caches are transparent, also after interrupted or racing writes.

proof:      Props/C17.lean: cache state machine refines the cache-less machine for ALL histories
            (`history_transparent`, `load_transparent`, `cache_state_irrelevant`, `torn_ignored`), ALL
            interleavings of N racing loaders (`race_safe`), `atomic_no_torn`; instantiated for the
            configuration the translator reads off the source (`shipped_*`, `source_shape`).
tie:        translator Gen/CacheConsts (INTERNAL_VERSION, how cache files are read / written, lazy
            bypass, runtime-cache probe, DATA_DIRS order, cache file name expressions, shipped stems)
            + correspondence: the real OSACA is driven in subprocesses (private HOME, private copy of the
            package) through operation histories from the model's alphabet; after every load the outcome
            class and the report of a fixed kernel corpus are compared with the model's verdict
            (parse of content #k  <->  report of a cache-less reference run on content #k).
search:     the same histories against the cache-less *specification* (CacheSpec.run in the driver)
            and the cache-less reference reports: a load that fails or reports differently is a
            violation with the history as replay file.
"""
import concurrent.futures
import hashlib
import json
import os
import random
import re
import select
import shutil
import subprocess
import sys
import time

from harness import core
from harness.core import esc, unesc

TRUSTED = [
    "Lean 4.33 kernel; axioms of every theorem audited (allowed: propext, Classical.choice, Quot.sound)",
    "tools/gen/cacheconsts.py: AST extraction of INTERNAL_VERSION, try/except around pickle.load, "
    "temp-name + os.replace around pickle.dump, `not lazy` guards, runtime-cache probe shape, DATA_DIRS, "
    "cache file name expressions, hash algorithm",
    "hypothesis HashInj of the theorems: SHA-256 separates the model-file contents in play",
    "modelled, not verified (only the correspondence speaks about them): pickle (a strict prefix of a "
    "pickle does not load; a complete one loads to the dumped data), os.replace is atomic, os.access, "
    "pathlib.with_suffix, the YAML loader as `parse`, real process scheduling",
    "assumption: a model file is not modified while a load of it is in progress (the code reads it "
    "three times: hash, parse, hash)",
    "correspondence harness harness/props/c17.py + harness/c17_worker.py (instrumentation: pickle.dump "
    "prefix + os._exit for a kill, chunked pickle.dump for races, chattr +i for read-only directories)",
]

PY = "/venv/bin/python"
WORKER = os.path.join(core.VERIF, "harness", "c17_worker.py")
# arch, isa, kernel files (tests/test_files of the repository)
ARCHS = [
    ("zen1", "x86", ["kernel_x86.s", "kernel_x86_memdep.s"]),
    ("tx2", "aarch64", ["kernel_aarch64.s", "kernel_aarch64_memdep.s"]),
    ("a72", "aarch64", ["kernel_aarch64.s", "kernel_aarch64_memdep.s"]),
]
ARCH_IX = {a[0]: i for i, a in enumerate(ARCHS)}
ISA_STEM = {"x86": 100, "aarch64": 101}
ISA_CONTENT = {"x86": 900, "aarch64": 901}
NVAR = 5  # content variants per model file: 0 shipped, 1 instruction latencies +1 (file head unchanged),
          # 2 header and instruction latencies +2, 3 cosmetic comment at the end, 4 one instruction form appended at the
          # very end (only the last few hundred bytes differ from 0; the kernels use its mnemonic, unknown otherwise)
TAIL_MNEMONIC = "zzveriftail"
HOME_LOC = 99
LAZY_OFF = 1000000
PERTURB = set("EKCDFSWHR")
MAX_CONTROL = 40


# --------------------------------------------------------------------------- read-only directories
class ReadOnly:
    """`chattr +i` where the file system supports it (a real read-only directory even for root),
    otherwise simulated inside the workers (os.access patched)."""

    mode = None

    @classmethod
    def probe(cls, where):
        if cls.mode is not None:
            return cls.mode
        d = os.path.join(where, "roprobe")
        os.makedirs(d, exist_ok=True)
        ok = False
        try:
            if subprocess.run(["chattr", "+i", d], stdout=subprocess.DEVNULL, stderr=subprocess.DEVNULL).returncode == 0:
                ok = not os.access(d, os.W_OK)
                subprocess.run(["chattr", "-i", d], stdout=subprocess.DEVNULL, stderr=subprocess.DEVNULL)
        except OSError:
            ok = False
        shutil.rmtree(d, ignore_errors=True)
        cls.mode = "chattr" if ok else "simulated"
        return cls.mode

    @staticmethod
    def set(dirpath, on):
        if ReadOnly.mode != "chattr" or not os.path.isdir(dirpath):
            return
        files = [os.path.join(dirpath, f) for f in os.listdir(dirpath)]
        files = [f for f in files if os.path.isfile(f) and not os.path.islink(f)]
        subprocess.run(["chattr", "+i" if on else "-i", dirpath] + files, stdout=subprocess.DEVNULL,
                       stderr=subprocess.DEVNULL)

    @staticmethod
    def release_tree(root):
        if ReadOnly.mode == "chattr" and os.path.isdir(root):
            subprocess.run(["chattr", "-R", "-i", root], stdout=subprocess.DEVNULL, stderr=subprocess.DEVNULL)


def sweep_stale(ctx):
    """Remove scratch trees of dead C17 runs (they may hold immutable directories)."""
    if not os.path.isdir(core.WORK_ROOT):
        return
    for name in os.listdir(core.WORK_ROOT):
        m = re.fullmatch(r"C17-(\d+)", name)
        if m and int(m.group(1)) != os.getpid() and not os.path.exists("/proc/%s" % m.group(1)):
            p = os.path.join(core.WORK_ROOT, name)
            subprocess.run(["chattr", "-R", "-i", p], stdout=subprocess.DEVNULL, stderr=subprocess.DEVNULL)
            shutil.rmtree(p, ignore_errors=True)


# --------------------------------------------------------------------------- worker processes
class Worker:
    def __init__(self, world, tag="w"):
        env = dict(os.environ)
        env["HOME"] = world.home
        env["PYTHONPATH"] = world.pkg
        env.pop("OSACA_VERIF", None)
        self.world = world
        self.log = open(os.path.join(world.root, "stderr-%s.log" % tag), "ab")
        self.p = subprocess.Popen([PY, "-W", "ignore", WORKER], stdin=subprocess.PIPE, stdout=subprocess.PIPE,
                                  stderr=self.log, env=env, cwd=world.root)

    def send(self, cmd):
        if ReadOnly.mode == "simulated":
            cmd = dict(cmd, ro_dirs=self.world.ro_paths())
        try:
            self.p.stdin.write((json.dumps(cmd) + "\n").encode())
            self.p.stdin.flush()
        except (BrokenPipeError, OSError):
            pass

    def recv(self, timeout=180):
        r, _, _ = select.select([self.p.stdout], [], [], timeout)
        if not r:
            self.kill()
            raise core.InfraError("C17 worker timed out")
        line = self.p.stdout.readline()
        if not line:
            rc = self.p.wait()
            return {"ok": False, "exc": "died", "rc": rc}
        return json.loads(line)

    def ask(self, cmd, timeout=180):
        self.send(cmd)
        return self.recv(timeout)

    def kill(self):
        try:
            self.p.kill()
            self.p.wait()
        except OSError:
            pass
        for f in (self.p.stdin, self.p.stdout, self.log):
            try:
                f.close()
            except OSError:
                pass


# --------------------------------------------------------------------------- model-file variants
def variant(text, k):
    if k == 0:
        return text
    if k == 3:
        return text + "\n# cosmetic edit (C17 check)\n"
    if k == 4:
        m = re.search(r"(?m)^ports:\s*\[\s*'?\"?([^,'\"\]]+)", text)
        port = m.group(1).strip() if m else "0"
        reg = "name: gpr" if re.search(r"(?m)^isa:\s*x86", text) else "prefix: x"
        return (text.rstrip("\n") + "\n- name: %s\n  operands:\n  - class: register\n    %s\n  - class: register\n    %s\n"
                "  throughput: 1.0\n  latency: 7.0\n  port_pressure: [[1, ['%s']]]\n" % (TAIL_MNEMONIC, reg, reg, port))

    def bump(m):
        return m.group(1) + repr(float(m.group(2)) + k)

    if k == 1:
        # only the second half of the file changes (a key over the file's head would not notice)
        mid = len(text) // 2
        return text[:mid] + re.sub(r"(?m)^(\s+latency: )(\d+(?:\.\d+)?)", bump, text[mid:])
    out = re.sub(r"(?m)^(\s+latency: )(\d+(?:\.\d+)?)", bump, text)

    def header(m):
        return m.group(1) + "{" + re.sub(r"(\d+(?:\.\d+)?)", lambda n: repr(float(n.group(1)) + k), m.group(2)) + "}"

    return re.sub(r"(?m)^(load_latency: )\{(.*)\}", header, out)


class Shared:
    """What all histories of a run share: variants, hashes, reference reports and pickles, names."""

    def __init__(self, ctx, root):
        self.root = root
        self.text = {}      # content id -> bytes
        self.sha = {}       # content id -> hex digest
        self.report = {}    # arch content id -> reference report (cache-less run)
        self.lazy = {}      # arch content id -> reference lazy digest
        self.refpickle = {}  # content id -> path of the data a cache file for it must hold
        self.names = {}     # (stem number, content id) -> (companion name, home name)
        self.cold_time = {}
        self.version = None
        data = os.path.join(core.REPO, "osaca", "data")
        for ai, (arch, isa, _) in enumerate(ARCHS):
            base = open(os.path.join(data, arch + ".yml"), encoding="utf-8").read()
            for k in range(NVAR):
                self.text[ai * 10 + k] = variant(base, k).encode("utf-8")
        for isa, cid in ISA_CONTENT.items():
            self.text[cid] = open(os.path.join(data, "isa", isa + ".yml"), "rb").read()
        for cid, b in self.text.items():
            self.sha[cid] = hashlib.sha256(b).hexdigest()

    def stem_name(self, stem):
        for a, i in ARCH_IX.items():
            if i == stem:
                return a
        for n, s in ISA_STEM.items():
            if s == stem:
                return n
        raise KeyError(stem)


def copy_package(dst_pkg, archs):
    """Private copy of the `osaca` package with only the wanted model files and no cache files."""
    src = os.path.join(core.REPO, "osaca")
    keep = {a + ".yml" for a in archs}

    def ignore(d, names):
        out = [n for n in names if n.endswith(".pickle") or n.endswith(".tmp") or n == "__pycache__"]
        if os.path.abspath(d) == os.path.join(src, "data"):
            out += [n for n in names if n.endswith(".yml") and n not in keep]
        return out

    shutil.copytree(src, os.path.join(dst_pkg, "osaca"), ignore=ignore)


class World:
    """One private installation: HOME (user data dir 0, ISA dir 2, home cache) and a package copy
    (data dir 1, ISA dir 3)."""

    def __init__(self, shared, root, arch):
        self.shared = shared
        self.root = root
        self.arch, self.isa, kernels = ARCHS[ARCH_IX[arch]]
        self.home = os.path.join(root, "home")
        self.pkg = os.path.join(root, "pkg")
        self.dirs = {
            0: os.path.join(self.home, ".osaca", "data"),
            1: os.path.join(self.pkg, "osaca", "data"),
            2: os.path.join(self.home, ".osaca", "data", "isa"),
            3: os.path.join(self.pkg, "osaca", "data", "isa"),
        }
        self.cache = os.path.join(self.home, ".osaca", "cache")
        os.makedirs(self.dirs[2])
        os.makedirs(self.cache)
        copy_package(self.pkg, [arch])
        kd = os.path.join(root, "kernels")
        os.makedirs(kd)
        self.kernels = []
        for k in kernels:
            shutil.copy(os.path.join(core.REPO, "tests", "test_files", k), os.path.join(kd, k))
            self.kernels.append(os.path.join(kd, k))
        # a kernel that uses the mnemonic only content variant 4 defines (its last instruction form)
        tail = os.path.join(kd, "tail.s")
        with open(tail, "w") as f:
            if self.isa == "x86":
                f.write("addq %rax, %rbx\n" + TAIL_MNEMONIC + " %rbx, %rcx\naddq %rcx, %rax\n")
            else:
                f.write("add x1, x2, x3\n" + TAIL_MNEMONIC + " x4, x1\nadd x2, x4, x4\n")
        self.kernels.append(tail)
        self.ro = set()  # dir ids and HOME_LOC
        self.stem = ARCH_IX[arch]
        self.isa_stem = ISA_STEM[self.isa]

    # read-only bookkeeping
    def dirpath(self, d):
        return self.cache if d == HOME_LOC else self.dirs[d]

    def ro_paths(self):
        return [self.dirpath(d) for d in sorted(self.ro)]

    def set_ro(self, d, on):
        if on:
            self.ro.add(d)
        else:
            self.ro.discard(d)
        ReadOnly.set(self.dirpath(d), on)

    class _Lift:
        def __init__(self, world, d):
            self.w, self.d = world, d

        def __enter__(self):
            if self.d in self.w.ro:
                ReadOnly.set(self.w.dirpath(self.d), False)

        def __exit__(self, *a):
            if self.d in self.w.ro:
                ReadOnly.set(self.w.dirpath(self.d), True)

    def lifted(self, d):
        return World._Lift(self, d)

    # cache file paths (names come from the Lean model of the name expressions, i.e. from Gen)
    def cache_path(self, loc, stem, cid):
        comp, home = self.shared.names[(stem, cid)]
        if loc == HOME_LOC:
            return os.path.join(self.cache, home)
        return os.path.join(self.dirs[loc], comp)

    def release(self):
        ReadOnly.release_tree(self.root)


# --------------------------------------------------------------------------- histories
def model_tokens(world, hop):
    """The model operations a harness operation stands for."""
    s, i = world.stem, world.isa_stem
    t = hop["t"]
    if t == "A":
        return ["L.%d.0" % s, "L.%d.0" % i, "L.%d.1" % s]
    if t == "Z":
        return ["L.%d.1" % s]
    if t == "M":
        return ["L.%d.0" % s]      # a full load of the model; the changes made to that instance are nobody else's business
    if t == "E":
        return ["E.%d.%d.%s" % (hop["d"], s, "-" if hop["c"] is None else hop["c"])]
    if t == "K":
        return ["K.%d.%d" % (s, hop["point"])]
    if t in "CD":
        return ["%s.%d.%d.%d" % (t, hop["loc"], hop["stem"], hop["c"])]
    if t == "F":
        return ["F.%d.%d.%d.%d.%d" % (hop["loc"], hop["stem"], hop["c"], hop["ver"], hop["x"])]
    if t == "S":
        return ["S.%d.%d.%d" % (hop["d"], hop["stem"], hop["c"])]
    if t == "W":
        return ["W.%d.%d" % (hop["d"], 1 if hop["b"] else 0)]
    if t == "H":
        return ["H.%d" % (1 if hop["b"] else 0)]
    if t == "N":
        return ["N"]
    if t == "R":
        sch = ":".join(str(x) for x in hop["sched"])
        return ["R.%d.%d.%s" % (s, hop["n"], sch), "R.%d.%d.%s" % (i, hop["n"], sch[::-1])]
    raise ValueError(t)


def n_outcomes(hop):
    return {"A": 3, "Z": 1, "M": 1}.get(hop["t"], 2 * hop.get("n", 0) if hop["t"] == "R" else 0)


def initial_files(world):
    return "1.%d.%d;3.%d.%d" % (world.stem, world.stem * 10, world.isa_stem, ISA_CONTENT[world.isa])


def fixed_histories():
    """The history shapes the property names, one by one (run on every model)."""
    A, N = {"t": "A"}, {"t": "N"}
    hs = []
    # cold, in-process again, warm companion (new process), lazy
    hs.append(("cold-warm-companion", [A, A, N, A, {"t": "Z"}, N, {"t": "Z"}, A]))
    # warm home cache, data directories read-only
    hs.append(("warm-home-readonly", [{"t": "W", "d": 1, "b": False}, {"t": "W", "d": 3, "b": False}, A, N, A,
                                      {"t": "W", "d": 1, "b": True}, N, A, N, A]))
    # neither writable
    hs.append(("nothing-writable", [{"t": "W", "d": 1, "b": False}, {"t": "W", "d": 3, "b": False},
                                    {"t": "H", "b": False}, A, N, A, {"t": "H", "b": True}, N, A, N, A]))
    # pre-existing package pickle (install-time), current and outdated
    hs.append(("shipped-pickle", [{"t": "S", "d": 1, "stem": "arch", "c": 0}, {"t": "S", "d": 3, "stem": "isa", "c": "isa"},
                                  {"t": "W", "d": 1, "b": False}, {"t": "W", "d": 3, "b": False}, A, N,
                                  {"t": "E", "d": 1, "c": 1}, A, N, A]))
    # edit after caching, in the same process and across processes, edit back, cosmetic edit
    hs.append(("edit-after-caching", [A, {"t": "E", "d": 1, "c": 1}, A, N, A, {"t": "E", "d": 1, "c": 0}, A, N,
                                      {"t": "E", "d": 1, "c": 3}, A, {"t": "E", "d": 1, "c": 2}, N, A, {"t": "Z"}]))
    # another file with the same name: the user's copy shadows the package's, then goes away again
    hs.append(("same-name-other-file", [{"t": "W", "d": 1, "b": False}, A, N, {"t": "E", "d": 0, "c": 2}, A, N, A,
                                        {"t": "E", "d": 0, "c": None}, A, N, A]))
    # cache of another format version under the right name
    hs.append(("foreign-version", [A, N, {"t": "F", "loc": 1, "stem": "arch", "c": 0, "ver": "+1", "x": 2}, A, N,
                                   {"t": "D", "loc": 1, "stem": "arch", "c": 0},
                                   {"t": "F", "loc": HOME_LOC, "stem": "arch", "c": 0, "ver": "0", "x": 1}, A, N, A]))
    # writer killed at every offset class, companion target and home target
    for target in ("companion", "home"):
        pre = [] if target == "companion" else [{"t": "W", "d": 1, "b": False}]
        for point in range(6):
            hs.append(("crash-%s-%d" % (target, point), pre + [{"t": "K", "point": point}, A, N, A]))
    # final cache files cut at every offset class
    for cls in range(6):
        hs.append(("cut-companion-%d" % cls, [A, N, {"t": "C", "loc": 1, "stem": "arch", "c": 0, "cls": cls}, A, N, A]))
        hs.append(("cut-home-%d" % cls, [{"t": "W", "d": 1, "b": False}, A, N,
                                         {"t": "C", "loc": HOME_LOC, "stem": "arch", "c": 0, "cls": cls}, A, N, A]))
        hs.append(("cut-isa-%d" % cls, [A, N, {"t": "C", "loc": 3, "stem": "isa", "c": "isa", "cls": cls}, A, N, A]))
    # an edit confined to the last bytes of the model file (a cache key over a prefix or over whole blocks would not notice)
    hs.append(("tail-edit", [A, N, {"t": "E", "d": 1, "c": 4}, A, N, A, {"t": "E", "d": 1, "c": 0}, A, N, A]))
    hs.append(("tail-edit-home", [{"t": "W", "d": 1, "b": False}, A, N, {"t": "W", "d": 1, "b": True}, {"t": "E", "d": 1, "c": 4},
                                  {"t": "W", "d": 1, "b": False}, A, N, A]))
    # in-process cache: an instance changed through the public API must not be what later loads are served
    M = {"t": "M"}
    hs.append(("mutated-instance", [A, M, A, M, {"t": "Z"}, A, N, A]))
    hs.append(("mutated-instance-cold", [M, A, N, A]))
    # N processes cold-starting simultaneously
    for n in (2, 3, 4):
        hs.append(("race-%d" % n, [{"t": "R", "n": n}, A, N, A]))
    hs.append(("race-home", [{"t": "W", "d": 1, "b": False}, {"t": "W", "d": 3, "b": False}, {"t": "R", "n": 3}, N, A]))
    return hs


def random_history(rng, length):
    """A random word over the alphabet; loads are frequent so that every perturbation is observed."""
    hops = []
    cur = {1: 0}  # dir -> variant of the arch file (dir 0 absent)
    ro = set()
    for _ in range(length):
        r = rng.random()
        if r < 0.28:
            hops.append({"t": "A"})
        elif r < 0.31:
            hops.append({"t": "M"})
        elif r < 0.36:
            hops.append({"t": "Z"})
        elif r < 0.46:
            hops.append({"t": "N"})
        elif r < 0.58:
            d = rng.choice([0, 1, 1])
            choices = [k for k in range(NVAR) if cur.get(d) != k]
            if d == 0 and 0 in cur:
                choices.append(None)
            c = rng.choice(choices)
            if c is None:
                cur.pop(0, None)
            else:
                cur[d] = c
            hops.append({"t": "E", "d": d, "c": c})
        elif r < 0.66:
            hops.append({"t": "K", "point": rng.randrange(6)})
        elif r < 0.78:
            which = rng.choice(["arch", "arch", "isa"])
            loc = rng.choice([0, 1, 1, HOME_LOC] if which == "arch" else [3, 3, HOME_LOC])
            c = "isa" if which == "isa" else (cur.get(0 if 0 in cur else 1) if rng.random() < 0.75 else rng.randrange(NVAR))
            hops.append({"t": "C", "loc": loc, "stem": which, "c": c, "cls": rng.randrange(6)})
        elif r < 0.81:
            which = rng.choice(["arch", "isa"])
            loc = rng.choice([0, 1, HOME_LOC] if which == "arch" else [3, HOME_LOC])
            c = "isa" if which == "isa" else rng.randrange(NVAR)
            hops.append({"t": "D", "loc": loc, "stem": which, "c": c})
        elif r < 0.86:
            loc = rng.choice([0, 1, HOME_LOC])
            c = cur.get(0 if 0 in cur else 1) if rng.random() < 0.8 else rng.randrange(NVAR)
            x = rng.choice([k for k in range(3) if k != c] or [1])
            hops.append({"t": "F", "loc": loc, "stem": "arch", "c": c, "ver": rng.choice(["+1", "0", "+7"]), "x": x})
        elif r < 0.89:
            hops.append({"t": "S", "d": rng.choice([0, 1]), "stem": "arch", "c": rng.randrange(NVAR)})
        elif r < 0.95:
            d = rng.choice([0, 1, 1, 3])
            b = d in ro
            (ro.discard if b else ro.add)(d)
            hops.append({"t": "W", "d": d, "b": b})
        elif r < 0.97:
            b = HOME_LOC in ro
            (ro.discard if b else ro.add)(HOME_LOC)
            hops.append({"t": "H", "b": b})
        else:
            hops.append({"t": "R", "n": rng.choice([2, 2, 3])})
    hops.append({"t": "N"})
    hops.append({"t": "A"})
    return hops


def concretise(shared, world, hops, rng):
    """Resolve symbolic stems / contents / versions / schedules into numbers (deterministic in rng)."""
    out = []
    for h in hops:
        h = dict(h)
        if "stem" in h:
            isa = h["stem"] == "isa"
            h["stem"] = world.isa_stem if isa else world.stem
            h["c"] = ISA_CONTENT[world.isa] if (isa or h.get("c") == "isa") else world.stem * 10 + h["c"]
        elif h["t"] == "E" and h["c"] is not None:
            h["c"] = world.stem * 10 + h["c"]
        if h["t"] == "F":
            v = h["ver"]
            h["ver"] = shared.version + int(v[1:]) if v.startswith("+") else int(v)
            if h["ver"] == shared.version:
                h["ver"] += 1
            h["x"] = world.stem * 10 + h["x"]
        if h["t"] == "R":
            n = h["n"]
            h["sched"] = [rng.randrange(n) for _ in range(rng.randrange(0, 4 * n))]
            t = shared.cold_time.get(world.arch, 0.8)
            # stagger the starts around the duration of a cold parse, so that one process probes the
            # cache while another one is writing it
            h["delays"] = [0.0] + [round(rng.choice([0.0, 0.0, t * 0.85, t, t * 1.15]) + rng.random() * 0.05, 3)
                                   for _ in range(n - 1)]
            h["chunks"], h["pause"] = 6, 0.05
        out.append(h)
    return out


# --------------------------------------------------------------------------- executing a history on the real code
def frame_end(data):
    """end offset of the first pickle frame (protocol >= 4: PROTO, FRAME <8-byte length>); pickle raises EOFError
    (not UnpicklingError) for a file cut exactly there -- which is where a killed writer leaves it, because
    pickle.dump issues one write() per frame"""
    if len(data) > 11 and data[0] == 0x80 and data[2] == 0x95:
        n = int.from_bytes(data[3:11], "little")
        return min(len(data) - 1, 11 + n)
    return len(data) // 3


def cut_bytes(data, cls):
    if cls == 0:
        return b""
    if cls == 1:
        return data[:3]
    if cls == 2:
        return data[:len(data) // 2]
    if cls == 4:
        return data[:2]                  # protocol header only
    if cls == 5:
        return data[:frame_end(data)]    # exactly at a frame boundary
    return data[:-1]


def execute(shared, world, hops):
    """Run the history against the real code.  Returns one observation per loading operation."""
    obs = []
    state = {"w": None, "nproc": 0}

    def worker():
        if state["w"] is None:
            state["nproc"] += 1
            state["w"] = Worker(world, "p%d" % state["nproc"])
        return state["w"]

    def end_process():
        if state["w"] is not None:
            state["w"].ask({"op": "exit"}, 30)
            state["w"].kill()
            state["w"] = None

    try:
        for h in hops:
            t = h["t"]
            if t == "A":
                r = worker().ask({"op": "analyse", "arch": world.arch, "kernels": world.kernels})
                obs.append(r)
            elif t == "Z":
                obs.append(worker().ask({"op": "lazy", "arch": world.arch}))
            elif t == "M":
                obs.append(worker().ask({"op": "mutate", "arch": world.arch, "kernels": world.kernels}))
            elif t == "N":
                end_process()
            elif t == "E":
                p = os.path.join(world.dirs[h["d"]], world.arch + ".yml")
                with world.lifted(h["d"]):
                    if h["c"] is None:
                        if os.path.exists(p):
                            os.remove(p)
                    else:
                        tmp = p + ".edit"
                        with open(tmp, "wb") as f:
                            f.write(shared.text[h["c"]])
                        os.replace(tmp, p)
                    if h["d"] in world.ro:
                        pass
            elif t == "K":
                w = Worker(world, "crash")
                r = w.ask({"op": "crashload", "arch": world.arch, "point": h["point"]})
                w.kill()
                h["_real"] = {k: r.get(k) for k in ("crashed", "cut", "len", "exc")}
                if r.get("file"):
                    h["_real"]["file"] = os.path.basename(str(r["file"]))
            elif t in "CD":
                p = world.cache_path(h["loc"], h["stem"], h["c"])
                with world.lifted(h["loc"]):
                    if t == "D":
                        if os.path.exists(p):
                            os.remove(p)
                    else:
                        src = None
                        if os.path.exists(p) and os.path.getsize(p) > 8:
                            src = open(p, "rb").read()
                        if src is None:
                            src = open(shared.refpickle[h["c"]], "rb").read()
                        os.makedirs(os.path.dirname(p), exist_ok=True)
                        with open(p, "wb") as f:
                            f.write(cut_bytes(src, h["cls"]))
            elif t == "F":
                p = world.cache_path(h["loc"], h["stem"], h["c"])
                with world.lifted(h["loc"]):
                    w = Worker(world, "foreign")
                    r = w.ask({"op": "foreign", "src": shared.refpickle[h["x"]], "dst": p, "ver": h["ver"]})
                    w.kill()
                    if not r.get("ok"):
                        raise core.InfraError("cannot plant foreign cache: %s" % r)
            elif t == "S":
                p = world.cache_path(h["d"], h["stem"], h["c"])
                with world.lifted(h["d"]):
                    shutil.copy(shared.refpickle[h["c"]], p)
            elif t == "W":
                world.set_ro(h["d"], not h["b"])
            elif t == "H":
                world.set_ro(HOME_LOC, not h["b"])
            elif t == "R":
                ws = [Worker(world, "race%d" % j) for j in range(h["n"])]
                for w in ws:
                    w.ask({"op": "slow", "chunks": h["chunks"], "pause": h["pause"]})
                for w, d in zip(ws, h["delays"]):
                    w.send({"op": "analyse", "arch": world.arch, "kernels": world.kernels, "delay": d})
                rs = [w.recv() for w in ws]
                for w in ws:
                    w.kill()
                obs.append({"race": rs})
    finally:
        if state["w"] is not None:
            state["w"].kill()
    return obs


def classify(shared, world, hop, real, toks):
    """Compare one observation with the verdict tokens (model or spec).  Returns None if they agree,
    else a short description."""
    def parse(tok):
        f = tok.split(":")
        return (f[0] == "ok", int(f[1]) if f[0] == "ok" else None, f[-1])

    def one(real, arch_tok, isa_tok, lazy_tok):
        oks = [parse(x) for x in (arch_tok, isa_tok) + ((lazy_tok,) if lazy_tok else ())]
        want_ok = all(o[0] for o in oks)
        if not want_ok:
            return None if not real.get("ok") else "expected a failure, run succeeded"
        if not real.get("ok"):
            return "load failed with %s (%s)" % (real.get("exc"), (real.get("msg") or "")[:80])
        cid = oks[0][1]
        if real.get("report") != shared.report[cid]:
            got = [k for k, v in shared.report.items() if v == real.get("report")]
            return "report differs from the cache-less run on content #%d (it equals the report for content %s)" % (
                cid, got if got else "of no variant")
        return None

    t = hop["t"]
    if t == "A":
        return one(real, toks[0], toks[1], toks[2])
    if t == "Z":
        ok, cid, _ = parse(toks[0])
        if not ok:
            return None if not real.get("ok") else "expected a failure, lazy load succeeded"
        if not real.get("ok"):
            return "lazy load failed with %s" % real.get("exc")
        if real.get("report") != shared.lazy[cid - LAZY_OFF]:
            return "lazy load differs from the cache-less lazy load of content #%d" % (cid - LAZY_OFF)
        return None
    if t == "R":
        n = hop["n"]
        for j, r in enumerate(real["race"]):
            d = one(r, toks[j], toks[n + j], None)
            if d:
                return "racing process %d of %d: %s" % (j, n, d)
        return None
    return None


def control_run(shared, arch, hops, hi, tag):
    """The oracle of the property itself: replay the history up to (not including) operation `hi` in a
    fresh world, then do the same load in a process whose cache code is disabled."""
    root = os.path.join(shared.root, "ctl-%s" % tag)
    shutil.rmtree(root, ignore_errors=True)
    os.makedirs(root)
    w = World(shared, root, arch)
    try:
        execute(shared, w, [dict(h) for h in hops[:hi]])
        wk = Worker(w, "control")
        try:
            wk.ask({"op": "nocache"})
            if hops[hi]["t"] == "Z":
                return wk.ask({"op": "lazy", "arch": arch})
            return wk.ask({"op": "analyse", "arch": arch, "kernels": w.kernels})
        finally:
            wk.kill()
    finally:
        w.release()
        shutil.rmtree(root, ignore_errors=True)


def same_obs(a, b):
    if a.get("ok") and b.get("ok"):
        return a.get("report") == b.get("report")
    return (not a.get("ok")) and (not b.get("ok")) and a.get("exc") == b.get("exc")


# --------------------------------------------------------------------------- reference runs
def build_reference(ctx, shared):
    """Cache-less reference report, lazy digest and reference pickle for every content variant."""
    ref = os.path.join(shared.root, "ref")
    os.makedirs(ref)
    jobs = []
    for ai, (arch, isa, kernels) in enumerate(ARCHS):
        for k in range(NVAR):
            jobs.append((arch, ai * 10 + k))

    def one(job):
        arch, cid = job
        root = os.path.join(ref, "%s_%d" % (arch, cid))
        os.makedirs(root)
        w = World(shared, root, arch)
        p = os.path.join(w.dirs[1], arch + ".yml")
        with open(p, "wb") as f:
            f.write(shared.text[cid])
        wk = Worker(w, "ref")
        try:
            r0 = wk.ask({"op": "nocache"})
            r1 = wk.ask({"op": "analyse", "arch": arch, "kernels": w.kernels})
            r2 = wk.ask({"op": "lazy", "arch": arch})
            dst = os.path.join(ref, "%d.pickle" % cid)
            r3 = wk.ask({"op": "refpickle", "path": p, "dst": dst})
            out = {"cid": cid, "arch": arch, "r": [r0, r1, r2, r3], "pickle": dst}
            if cid % 10 == 0:
                isa = w.isa
                dsti = os.path.join(ref, "%d.pickle" % ISA_CONTENT[isa])
                out["isa"] = (ISA_CONTENT[isa], dsti,
                              wk.ask({"op": "refpickle", "path": os.path.join(w.dirs[3], isa + ".yml"), "dst": dsti + "." + arch}))
                if out["isa"][2].get("ok"):
                    os.replace(dsti + "." + arch, dsti)
            return out
        finally:
            wk.kill()

    with concurrent.futures.ThreadPoolExecutor(max_workers=8) as ex:
        results = list(ex.map(one, jobs))
    for res in results:
        bad = [r for r in res["r"] if not r.get("ok")]
        if bad:
            raise core.InfraError("reference run failed for %s content %d: %s" % (res["arch"], res["cid"], bad[0]))
        cid = res["cid"]
        shared.report[cid] = res["r"][1]["report"]
        shared.lazy[cid] = res["r"][2]["report"]
        shared.refpickle[cid] = res["pickle"]
        shared.version = res["r"][3]["class_version"]
        if cid % 10 == 0:
            shared.cold_time[res["arch"]] = res["r"][1]["t"]
        if "isa" in res:
            icid, p, r = res["isa"]
            if not r.get("ok"):
                raise core.InfraError("reference ISA pickle failed: %s" % r)
            shared.refpickle[icid] = p
    for ai, (arch, _, _) in enumerate(ARCHS):
        reps = [shared.report[ai * 10 + k] for k in range(3)]
        if len(set(reps)) != 3:
            raise core.InfraError("content variants of %s do not change the report" % arch)
        if shared.report[ai * 10 + 3] != shared.report[ai * 10]:
            raise core.InfraError("cosmetic variant of %s changes the report" % arch)


def fetch_names(ctx, shared):
    reqs, keys = [], []
    for ai, (arch, isa, _) in enumerate(ARCHS):
        for k in range(NVAR):
            keys.append((ai, ai * 10 + k, arch))
    for isa, stem in ISA_STEM.items():
        keys.append((stem, ISA_CONTENT[isa], isa))
    for stem, cid, name in keys:
        reqs.append("c17name %s %s" % (esc(name), esc(shared.sha[cid])))
    for (stem, cid, name), rep in zip(keys, ctx.driver.ask(reqs)):
        a, b = rep.split(" ")
        shared.names[(stem, cid)] = (unesc(a), unesc(b))


def check_names(ctx, shared):
    """Correspondence of the cache-file-name model: load model files with assorted stems (dotted ones
    included) from a scratch directory and look which companion file appears."""
    root = os.path.join(shared.root, "names")
    os.makedirs(root)
    w = World(shared, os.path.join(root, "world"), "zen1")
    stems = ["zen1", "my.model", "a.b.c", "x_y", "trailing."]
    d = os.path.join(root, "files")
    os.makedirs(d)
    jobs = []
    for s in stems:
        p = os.path.join(d, s + ".yml")
        with open(p, "wb") as f:
            f.write(shared.text[0])
        jobs.append((s, p))

    def one(job):
        s, p = job
        wk = Worker(w, "names")
        try:
            return wk.ask({"op": "loadpath", "path": p})
        finally:
            wk.kill()

    before = set(os.listdir(d))
    with concurrent.futures.ThreadPoolExecutor(max_workers=5) as ex:
        res = list(ex.map(one, jobs))
    new = sorted(set(os.listdir(d)) - before)
    want = ctx.driver.ask(["c17name %s %s" % (esc(s), esc(shared.sha[0])) for s in stems])
    expected = sorted({unesc(x.split(" ")[0]) for x in want})
    n_bad = 0
    if any(not r.get("ok") for r in res):
        ctx.correspondence_break("cache-file-name", {"load": [r for r in res if not r.get("ok")][:1]})
        n_bad += 1
    elif new != expected:
        ctx.correspondence_break("cache-file-name", {"stems": stems, "files_written": new, "model": expected})
        n_bad += 1
    ctx.count("name_checks", len(stems))
    ctx.cov["cache_names_observed"] = new
    w.release()
    return n_bad


# --------------------------------------------------------------------------- the check
def run_histories(ctx, shared, plan, workers):
    """plan: list of (label, arch, hops).  Returns list of (label, arch, hops, obs | exception)."""
    def one(item):
        idx, (label, arch, hops) = item
        root = os.path.join(shared.root, "h%03d" % idx)
        os.makedirs(root)
        w = World(shared, root, arch)
        try:
            return (label, arch, hops, execute(shared, w, hops), initial_files(w), w.stem, w.isa_stem)
        finally:
            w.release()
            shutil.rmtree(root, ignore_errors=True)

    with concurrent.futures.ThreadPoolExecutor(max_workers=workers) as ex:
        return list(ex.map(one, list(enumerate(plan))))


def make_plan(ctx, shared, n_random, length, fixed_archs):
    plan = []
    for arch in fixed_archs:
        for label, hops in fixed_histories():
            w = _Sym(arch)
            plan.append((label, arch, concretise(shared, w, hops, ctx.rng)))
    for i in range(n_random):
        arch = ARCHS[i % len(ARCHS)][0]
        hops = random_history(ctx.rng, ctx.rng.randrange(length - 4, length + 5))
        plan.append(("random-%d" % i, arch, concretise(shared, _Sym(arch), hops, ctx.rng)))
    return plan


class _Sym:
    """the numbers of a world without creating it"""

    def __init__(self, arch):
        self.arch, self.isa, _ = ARCHS[ARCH_IX[arch]]
        self.stem = ARCH_IX[arch]
        self.isa_stem = ISA_STEM[self.isa]


def strip_hops(hops):
    return [{k: v for k, v in h.items() if not k.startswith("_")} for h in hops]


def judge(ctx, shared, results):
    """Ask the driver for the model's and the specification's verdicts and compare."""
    reqs = []
    for label, arch, hops, obs, files, stem, isa_stem in results:
        w = _Sym(arch)
        toks = ",".join(t for h in hops for t in model_tokens(w, h))
        reqs.append("c17run =shipped %s %s" % (esc(files), esc(toks)))
        reqs.append("c17spec %s %s" % (esc(files), esc(toks)))
    replies = ctx.driver.ask(reqs)
    n_corr = n_spec = n_other = 0
    pending = []
    for i, (label, arch, hops, obs, files, stem, isa_stem) in enumerate(results):
        w = _Sym(arch)
        mtoks = replies[2 * i].split(" ") if replies[2 * i] else []
        stoks = replies[2 * i + 1].split(" ") if replies[2 * i + 1] else []
        need = sum(n_outcomes(h) for h in hops)
        if len(mtoks) != need or len(stoks) != need:
            raise core.InfraError("driver returned %d/%d outcomes for %d (%s)" % (len(mtoks), len(stoks), need, label))
        pos = 0
        oi = 0
        perturbed = False
        last_pert = "-"
        for hi, h in enumerate(hops):
            if h["t"] in PERTURB:
                perturbed = True
                last_pert = h["t"]
            k = n_outcomes(h)
            if not k:
                ctx.count("op_" + h["t"])
                continue
            real = obs[oi]
            oi += 1
            mt, st = mtoks[pos:pos + k], stoks[pos:pos + k]
            pos += k
            ctx.count("op_" + h["t"])
            ctx.count("loads_observed", 1 if h["t"] != "R" else h["n"])
            if perturbed:
                ctx.count("loads_after_perturbation", 1 if h["t"] != "R" else h["n"])
            src = mt[0].split(":")[-1]
            ctx.cov["distribution"].setdefault("served_from", {}).setdefault(src, 0)
            ctx.cov["distribution"]["served_from"][src] += 1
            ctx.cov["distribution"].setdefault("load_after", {}).setdefault(last_pert, 0)
            ctx.cov["distribution"]["load_after"][last_pert] += 1
            for r in (real.get("race") or [real]):
                if not r.get("ok"):
                    ctx.cov["distribution"].setdefault("exceptions", {}).setdefault(r.get("exc"), 0)
                    ctx.cov["distribution"]["exceptions"][r.get("exc")] += 1
            replay = {"label": label, "arch": arch, "hops": strip_hops(hops), "failing_op_index": hi,
                      "files": files, "observed": _brief(real), "model": mt, "spec": st}
            dm = classify(shared, w, h, real, mt)
            if dm:
                n_corr += 1
                if n_corr <= 3:
                    ctx.correspondence_break("history:" + label, dict(replay, difference=dm))
            ds = classify(shared, w, h, real, st)
            if ds:
                pending.append((arch, label, hops, hi, h, real, ds, replay))
                break  # later observations of this history are consequences
        last_pert = "-"
    # the property's own oracle for every difference from the specification: the same load, same files,
    # in a process whose cache code is disabled (history prefix replayed in a fresh world)
    judged = pending[:MAX_CONTROL]

    def ctl(item):
        k, (arch, label, hops, hi, h, real, ds, replay) = item
        return control_run(shared, arch, hops, hi, "%d" % k)

    if judged:
        with concurrent.futures.ThreadPoolExecutor(max_workers=10) as ex:
            controls = list(ex.map(ctl, list(enumerate(judged))))
    else:
        controls = []
    for (arch, label, hops, hi, h, real, ds, replay), c in zip(judged, controls):
        replay["control_no_cache"] = _brief(c)
        if any(not same_obs(r, c) for r in (real.get("race") or [real])):
            n_spec += 1
            key = "cache-load-fails" if "failed" in ds else "cache-report-differs"
            if n_spec <= 3:
                ctx.violation("%s, history %s, operation %d (%s): %s; the same load with the cache code disabled %s"
                              % (arch, label, hi, h["t"], ds,
                                 "succeeds" if c.get("ok") else "fails with %s" % c.get("exc")),
                              dict(replay, difference=ds), key=key)
        else:
            n_other += 1
            if n_other <= 3:
                ctx.correspondence_break("not-a-cache-effect:" + label, dict(
                    replay, difference=ds, note="the cache-less control run in the same world agrees with the "
                    "observed run: name resolution or the loader differ from the model, the caches are transparent"))
    if len(pending) > MAX_CONTROL:
        ctx.correspondence_break("unjudged-differences", "%d further differences from the specification were not "
                                 "re-run against the cache-less control" % (len(pending) - MAX_CONTROL))
    ctx.count("corr_disagreements", n_corr)
    ctx.count("spec_failures", n_spec)
    ctx.count("differences_not_caused_by_caches", n_other)
    ctx.count("control_runs", len(judged))
    return n_corr, n_spec


def _brief(real):
    if "race" in real:
        return [_brief(r) for r in real["race"]]
    out = {k: real.get(k) for k in ("ok", "exc", "msg") if real.get(k) is not None}
    if real.get("report"):
        out["report_sha"] = hashlib.sha256(real["report"].encode()).hexdigest()[:16]
    if real.get("tb"):
        out["tb"] = real["tb"][-500:]
    return out


def run(ctx):
    ctx.assumptions = TRUSTED
    ctx.prove(["CacheConsts"], ["OsacaVerif.Props.C17"])
    ctx.thorough_recheck(["OsacaVerif.Props.C17"])
    sweep_stale(ctx)
    ctx.env = core.Env("C17", archs=[], copy_models=False)
    _Cleanup.install(ctx)
    ReadOnly.probe(ctx.env.work)
    ctx.cov["readonly_directories"] = ReadOnly.mode
    shared = Shared(ctx, ctx.env.work)
    cfg = ctx.driver.ask1("c17cfg").split(" ")
    ctx.cov["source_config"] = dict(zip(["internal_version", "tolerant_read", "atomic_write", "lazy_bypasses",
                                         "rt_probe_overwritten", "data_dirs", "hash_hex_len"], cfg))
    fetch_names(ctx, shared)
    t = time.time()
    build_reference(ctx, shared)
    ctx.log("reference: %d cache-less runs (%.1fs), INTERNAL_VERSION %s, cold load %s"
            % (len(shared.report), time.time() - t, shared.version,
               {a: round(v, 2) for a, v in shared.cold_time.items()}))
    if str(shared.version) != cfg[0]:
        ctx.correspondence_break("INTERNAL_VERSION", {"gen": cfg[0], "runtime": shared.version})
    check_names(ctx, shared)

    thorough = ctx.tier == "thorough"
    more = bool(ctx.broken)
    n_random = (500 if thorough else 30) * (3 if more else 2) // 2
    rot = [ARCHS[(ctx.seed + j) % len(ARCHS)][0] for j in range(len(ARCHS))]
    fixed_archs = rot if thorough else rot[:2] if more else rot[:1]
    # the other models get the core of the fixed set through the random histories; the quick tier
    # rotates the model of the fixed set with the seed
    plan = make_plan(ctx, shared, n_random, 14, fixed_archs)
    t = time.time()
    results = run_histories(ctx, shared, plan, workers=10)
    ctx.log("executed %d histories (%d fixed shapes x %d model(s), %d random) on the real code (%.1fs)"
            % (len(plan), len(fixed_histories()), len(fixed_archs), n_random, time.time() - t))
    n_corr, n_spec = judge(ctx, shared, results)
    ctx.log("loads observed %d (after a perturbation: %d), correspondence disagreements %d, spec failures %d"
            % (ctx.counts.get("loads_observed", 0), ctx.counts.get("loads_after_perturbation", 0), n_corr, n_spec))
    for label, arch, hops, obs, files, stem, isa_stem in results[:3]:
        w = _Sym(arch)
        ctx.sample({"history": label, "arch": arch, "ops": ",".join(t for h in hops for t in model_tokens(w, h))})
    ctx.cov["evaluations"] = ctx.counts.get("loads_observed", 0)
    ctx.cov["distinct_nontrivial"] = ctx.counts.get("loads_after_perturbation", 0)
    ctx.cov["histories"] = len(plan)
    ctx.cov["traces_validated_against_impl"] = len(plan)
    ctx.cov["rule"] = ("operation histories over {analyse (full+ISA+lazy load), lazy load, new process, edit / "
                       "shadow / remove model file, writer killed at 6 offset classes (0, 3 bytes, middle, last byte missing, 2-byte header, frame boundary), final cache file cut at 6 "
                       "offset classes, cache file removed, cache of another format version, install-time cache, "
                       "read-only data / cache directories, N simultaneous cold starts}; the fixed shapes named "
                       "by the property on %s, random words on zen1/tx2/a72; evaluations = loads whose outcome "
                       "and report were compared; non-trivial = loads after at least one perturbing operation"
                       % ",".join(fixed_archs))
    ctx.cov["models"] = [a[0] for a in ARCHS]
    return ctx.finish(trusted=TRUSTED)


class _Cleanup:
    """Env.cleanup cannot remove immutable directories: lift the flags first."""

    @staticmethod
    def install(ctx):
        env = ctx.env
        orig = env.cleanup

        def cleanup():
            ReadOnly.release_tree(env.work)
            orig()

        env.cleanup = cleanup


def replay(ctx, path):
    rep = json.load(open(path))["replay"]
    if "hops" not in rep:
        print("replay names a broken theorem/correspondence, not an input:", json.dumps(rep)[:800])
        ctx.cleanup()
        return 1
    ctx.prove(["CacheConsts"], ["OsacaVerif.Props.C17"])
    ctx.env = core.Env("C17", archs=[], copy_models=False)
    _Cleanup.install(ctx)
    ReadOnly.probe(ctx.env.work)
    shared = Shared(ctx, ctx.env.work)
    fetch_names(ctx, shared)
    build_reference(ctx, shared)
    results = run_histories(ctx, shared, [(rep["label"], rep["arch"], rep["hops"])], workers=1)
    n_corr, n_spec = judge(ctx, shared, results)
    print("history %s on %s: %d load(s) differ from the cache-less specification, %d from the model"
          % (rep["label"], rep["arch"], n_spec, n_corr))
    for v in ctx.violations:
        print("  " + v["what"])
    ctx.cleanup()
    return 1 if n_spec else 0
