"""C12 - Register dependence equals architectural register overlap.

proof:      Props/C12.lean (table theorem over the structured universe + case-insensitivity,
            for tables regenerated from the two parser sources).
tie:        translator (Gen/RegTables) + exhaustive correspondence: every ordered pair of the
            universe, lower/upper/mixed case, through the real parsers' is_reg_dependend_of.
search:     the same exhaustive sweep against the Lean Spec (family equality) -- it is the
            complete domain of the property, so a failing pair, if any, is found.
"""
import json
import os

from harness import core
from harness.core import esc

TRUSTED = [
    "Lean 4.33 kernel; axioms of every theorem audited (allowed: propext, Classical.choice, Quot.sound)",
    "tools/translate.py: AST extraction of gpr_groups, vector names, regex shape, prefix classes",
    "correspondence harness harness/props/c12.py (exhaustive over the universe, through pyparsing for the operand objects)",
    "modelled, not verified: Python str.upper/lower/rstrip, re.match, substring `in` (ASCII behaviour)",
]


def x86_universe(ctx):
    reply = ctx.driver.ask1("x86universe")
    regs = []
    for tok in reply.split(" "):
        name, fam = tok.rsplit(":", 1)
        regs.append((core.unesc(name), int(fam)))
    return regs


def case_variants(name, rng=None):
    out = [name, name.upper()]
    if len(name) > 1:
        out.append(name[0].upper() + name[1:])  # mixed case
    return out


def run(ctx):
    ctx.assumptions = TRUSTED
    ctx.prove(["RegTables"], ["OsacaVerif.Props.C12"])
    ctx.thorough_recheck(["OsacaVerif.Props.C12"])
    ctx.env = core.Env("C12", copy_models=False)
    ctx.env.activate()
    from osaca.parser import ParserAArch64, ParserX86ATT

    # ------------------------------------------------------------------ x86
    px = ParserX86ATT()
    regs = x86_universe(ctx)
    names = []
    for name, fam in regs:
        for v in case_variants(name):
            names.append((v, fam))
    # operand objects through the real parser
    ops = {}
    for v, fam in names:
        line = px.parse_line("vaddpd %{0}, %{0}".format(v) if not v.lower().startswith("k") else "kmovw %{0}, %{0}".format(v))
        ops[v] = line.operands[0]
        if ops[v].name != v:
            ctx.correspondence_break("x86-parse-register", "%r parsed as %r" % (v, ops[v].name))
    reqs, impl, pairs = [], [], []
    for a, fa in names:
        for b, fb in names:
            try:
                r = bool(px.is_reg_dependend_of(ops[a], ops[b]))
            except Exception as e:  # noqa
                r = "exc:" + type(e).__name__
            impl.append(r)
            pairs.append((a, b, fa == fb))
            reqs.append("x86dep %s %s" % (esc(a), esc(b)))
    model = ctx.driver.ask(reqs)
    n_corr = n_spec = 0
    for (a, b, want), r, m in zip(pairs, impl, model):
        if (m == "1") != r:
            n_corr += 1
            if n_corr <= 3:
                ctx.correspondence_break("x86-is_reg_dependend_of", {"a": a, "b": b, "impl": r, "model": m})
        if r != want:
            n_spec += 1
            if n_spec <= 3:
                ctx.violation("x86 is_reg_dependend_of(%s, %s) = %s, architectural overlap = %s" % (a, b, r, want),
                              {"isa": "x86", "a": a, "b": b, "impl": r, "expected": want})
    ctx.count("x86_pairs", len(pairs))
    ctx.count("x86_dependent_pairs", sum(1 for p in pairs if p[2]))
    ctx.count("x86_corr_disagreements", n_corr)
    ctx.count("x86_spec_failures", n_spec)
    ctx.sample({"isa": "x86", "a": "RbP", "b": "bpl", "impl": bool(px.is_reg_dependend_of(ops["Rbp"], ops["bpl"])), "expected": True})
    ctx.log("x86: %d names, %d ordered pairs, corr disagreements %d, spec failures %d" % (len(names), len(pairs), n_corr, n_spec))

    # ------------------------------------------------------------------ AArch64
    pa = ParserAArch64()
    prefixes = []
    for tok in ctx.driver.ask1("a64prefixes").split(" "):
        p, cls = tok.rsplit(":", 1)
        prefixes.append((core.unesc(p), int(cls)))
    shapes = {"v": ".4s", "z": ".s", "p": ".b"}
    aregs = []  # (text, expected prefix lower, name lower, cls)
    for p, cls in prefixes:
        for num in list(range(32)):
            for up in (False, True):
                t = "%s%d%s" % (p.upper() if up else p, num, shapes.get(p, "").upper() if up else shapes.get(p, ""))
                aregs.append((t, p, str(num), cls))
    for alias in ["sp", "SP", "wsp", "WSP", "xzr", "XZR", "wzr", "WZR"]:
        aregs.append((alias, None, alias[-2:].lower(), 0))
    aops = {}
    for t, p, nm, cls in aregs:
        line = pa.parse_line("mov {0}, {0}".format(t))
        o = line.operands[0]
        aops[t] = o
    reqs, impl, pairs = [], [], []
    for (ta, pa_, na, ca) in aregs:
        oa = aops[ta]
        for (tb, pb_, nb, cb) in aregs:
            ob = aops[tb]
            try:
                r = bool(pa.is_reg_dependend_of(oa, ob))
            except Exception as e:  # noqa
                r = "exc:" + type(e).__name__
            impl.append(r)
            want = (na == nb) and (ca == cb)
            pairs.append((ta, tb, want))
            reqs.append("a64dep %s %s %s %s" % (esc(oa.prefix or ""), esc(oa.name or ""), esc(ob.prefix or ""), esc(ob.name or "")))
    model = ctx.driver.ask(reqs)
    n_corr = n_spec = 0
    for (a, b, want), r, m in zip(pairs, impl, model):
        if (m == "1") != r:
            n_corr += 1
            if n_corr <= 3:
                ctx.correspondence_break("a64-is_reg_dependend_of", {"a": a, "b": b, "impl": r, "model": m})
        if r != want:
            n_spec += 1
            if n_spec <= 3:
                ctx.violation("AArch64 is_reg_dependend_of(%s, %s) = %s, architectural overlap = %s" % (a, b, r, want),
                              {"isa": "aarch64", "a": a, "b": b, "impl": r, "expected": want})
    ctx.count("a64_pairs", len(pairs))
    ctx.count("a64_dependent_pairs", sum(1 for p in pairs if p[2]))
    ctx.count("a64_corr_disagreements", n_corr)
    ctx.count("a64_spec_failures", n_spec)
    ctx.sample({"isa": "aarch64", "a": "P3.B", "b": "p3.b", "impl": bool(pa.is_reg_dependend_of(aops["P3.B"], aops["p3.b"])), "expected": True})
    ctx.sample({"isa": "aarch64", "a": "XZR", "b": "wzr", "impl": bool(pa.is_reg_dependend_of(aops["XZR"], aops["wzr"])), "expected": True})
    ctx.log("aarch64: %d names, %d ordered pairs, corr disagreements %d, spec failures %d" % (len(aregs), len(pairs), n_corr, n_spec))
    ctx.cov["exhaustive"] = True
    ctx.cov["traces_validated_against_impl"] = ctx.counts["x86_pairs"] + ctx.counts["a64_pairs"]
    ctx.cov["evaluations"] = ctx.counts["x86_pairs"] + ctx.counts["a64_pairs"]
    ctx.cov["distinct_nontrivial"] = ctx.counts["x86_dependent_pairs"] + ctx.counts["a64_dependent_pairs"]
    ctx.cov["rule"] = ("every ordered pair of register spellings of the structured universe (lower, UPPER and Mixed case), "
                       "operand objects produced by the real parsers; non-trivial = pairs that must be dependent")
    return ctx.finish(trusted=TRUSTED)


def replay(ctx, path):
    rep = json.load(open(path))["replay"]
    ctx.env = core.Env("C12", copy_models=False)
    ctx.env.activate()
    from osaca.parser import ParserAArch64, ParserX86ATT

    if rep.get("isa") == "x86":
        p = ParserX86ATT()
        a = p.parse_line("vaddpd %{0}, %{0}".format(rep["a"])).operands[0]
        b = p.parse_line("vaddpd %{0}, %{0}".format(rep["b"])).operands[0]
    elif rep.get("isa") == "aarch64":
        p = ParserAArch64()
        a = p.parse_line("mov {0}, {0}".format(rep["a"])).operands[0]
        b = p.parse_line("mov {0}, {0}".format(rep["b"])).operands[0]
    else:
        print("replay names a broken theorem/correspondence, not an input:", json.dumps(rep)[:600])
        ctx.cleanup()
        return 1
    r = bool(p.is_reg_dependend_of(a, b))
    print("is_reg_dependend_of(%s, %s) = %s, expected %s" % (rep["a"], rep["b"], r, rep["expected"]))
    ctx.cleanup()
    return 0 if r == rep["expected"] else 1
