"""C16 - LCD result is independent of process scheduling and worker count.

proof:   Props/C16.lean: partition_covers (+ count/ordered/last/index_unique) for the scheduling
         expressions regenerated from the source, post_perm_invariant (+ the hypothesis SumByKey as a
         decidable predicate, shown necessary), post_sound/complete/mono, parallel_eq_sequential for
         every worker count and arrival order.
tie:     translator Gen/WorkersConsts (threshold, workload/starts/ends, slice shape, poll constants);
         correspondence with REAL processes: `kernel_dg.cpu_count` patched to {1,2,3,5,16,klen+7},
         `_extend_path` called with a delaying proxy of the shared list (seeded completion orders),
         slices handed to the workers vs `Workers.slices`, result vs `lcdpar` of the model;
         stub sweep (no processes) of the source's scheduling code over many (klen, n).
search:  the property itself on the real code: multi-process result == single-process result
         (content, and the entry the report marks as longest), Spec `agreesB` (result is exactly the
         set of cycles of all simple paths), sentinel kernels (one private cycle per chosen root:
         a dropped root changes the result), reports byte-identical apart from the timestamp.
"""
import json
import os
import re
import subprocess
import sys
import time

from harness import core
from harness import lcd_support as L

TRUSTED = [
    "Lean 4.33 kernel; axioms of every theorem audited (allowed: propext, Classical.choice, Quot.sound)",
    "tools/gen/workers.py: AST extraction of INSTRUCTION_THRESHOLD, workload/starts/ends, kernel[s:e], poll constants",
    "harness/props/c16.py + harness/lcd_support.py: patches of kernel_dg.cpu_count/Process/time/_extend_path, generators, diff",
    "modelled, not verified: multiprocessing (fork, Manager proxy delivers every extend() of a finished worker), "
    "networkx.all_simple_paths (the model takes the batches as given), Python int()/float division below 2^53, "
    "float addition (hypothesis SumByKey checked on the implementation's floats every run), str/'-'.join injective",
]

ARCH_X86 = "zen2"
ARCH_A64 = "tx2"
SENT_REGS = ["%rax", "%rbx", "%rdx", "%rsi", "%rdi", "%r8", "%r9", "%r10", "%r11", "%r12", "%r13", "%r14", "%r15"]
WORKER_SET = [1, 2, 3, 5, 16, "klen+7"]


def sentinel_text(klen, positions):
    """klen lines; line p (1-based) of `positions` carries a private single-instruction cycle"""
    regs = {}
    for i, p in enumerate(sorted(set(positions))[:len(SENT_REGS)]):
        regs[p] = SENT_REGS[i]
    out = []
    for ln in range(1, klen + 1):
        if ln in regs:
            out.append("\taddq\t$1, %s" % regs[ln])
        else:
            out.append("\tmovq\t$1, %rcx")
    return "\n".join(out) + "\n", sorted(regs)


def comment_text(klen):
    return "# c\n" * klen


def workers_of(w, klen):
    return klen + 7 if w == "klen+7" else w


def mk_delays(rng, n, sections, style):
    """seeded completion orders: per worker start delay and per batch delay (seconds)"""
    start, per = {}, {}
    live = [i for i, s in enumerate(sections) if s] if sections else list(range(n))
    if style == "none" or not live:
        return None, None
    if style == "reverse":  # later workers finish first
        m = len(live)
        for r, w in enumerate(live):
            start[w] = 0.012 * (m - r) if m <= 20 else 0.003 * (m - r)
    elif style == "random":
        for w in live:
            start[w] = rng.random() * 0.05
            per[w] = [rng.random() * 0.01 for _ in range(8)]
    elif style == "one-slow":
        w = rng.choice(live)
        start[w] = 0.15
    return start, per


def model_slices(ctx, lines, n):
    rep = ctx.driver.ask1("slices %s %d" % (L.enc_nats(lines), n))
    return [[] if s == "-" else [int(x) for x in s.split(",")] for s in rep.split("|")]


def first_longest(lcd, order):
    """the entry `max(dep_dict, key=latency)` picks (first maximal in dict order): the report's LCD column"""
    best = None
    for k in order:
        if best is None or lcd[k][0] > lcd[best][0]:
            best = k
    return best


# --------------------------------------------------------------------------- phases
def sweep(ctx, lab, volume):
    """the source's own scheduling code (no processes) over many (klen, n); Spec `covers` and model"""
    rng = ctx.rng
    thr = lab.orig["thr"]
    combos = set()
    for klen in [thr - 1, thr, thr + 1, 2 * thr - 1, 97, 128]:
        for n in (1, 2, 3, 5, 16, klen - 1, klen, klen + 7):
            if n >= 1:
                combos.add((klen, n))
    while len(combos) < volume:
        klen = rng.randrange(max(1, thr - 5), 260)
        n = rng.choice([1, 2, 3, 5, 7, 16, 64, klen, klen + 7, rng.randrange(1, 2 * klen)])
        combos.add((klen, n))
    combos = sorted(combos)
    kerns = {}
    reqs, meta = [], []
    bad_cover = []
    for klen, n in combos:
        if klen not in kerns:
            kerns[klen] = lab.kernel("comment-%d" % klen, ARCH_X86, comment_text(klen))
        kern = kerns[klen]
        rec = lab.run(kern, workers=n, stub=True)
        if rec.error:
            ctx.correspondence_break("sweep-run", {"klen": klen, "n": n, "error": rec.error})
            continue
        meta.append((klen, n, kern.lines, rec.sections))
        reqs.append("partition %d %d" % (klen, n))
        reqs.append("slices %s %d" % (L.enc_nats(kern.lines), n))
        reqs.append("covers %s %s" % (L.enc_nats(kern.lines), "|".join(L.enc_nats(s) for s in rec.sections) or "-"))
    replies = ctx.driver.ask(reqs)
    n_par = 0
    for i, (klen, n, lines, sections) in enumerate(meta):
        part, sl, cov = replies[3 * i], replies[3 * i + 1], replies[3 * i + 2]
        use_par = part.split(" ")[3] == "1"
        was_par = bool(sections)
        ctx.count("sweep_runs")
        if use_par != was_par:
            ctx.count("sweep_threshold_disagreements")
            if ctx.counts["sweep_threshold_disagreements"] <= 2:
                ctx.correspondence_break("threshold", {"klen": klen, "n": n, "model_parallel": use_par, "impl_parallel": was_par})
        if not was_par:
            continue
        n_par += 1
        msl = [[] if s == "-" else [int(x) for x in s.split(",")] for s in sl.split("|")]
        if msl != sections:
            ctx.count("sweep_slice_disagreements")
            if ctx.counts["sweep_slice_disagreements"] <= 2:
                ctx.correspondence_break("slices", {"klen": klen, "n": n, "model": msl[:4], "impl": sections[:4]})
        if cov != "1":
            bad_cover.append((klen, n, sections))
    ctx.count("sweep_parallel", n_par)
    ctx.cov["distribution"]["sweep"] = {"combos": len(combos), "parallel": n_par,
                                        "klen_range": [combos[0][0], max(c[0] for c in combos)],
                                        "n>klen": sum(1 for k, n in combos if n > k)}
    ctx.log("sweep: %d (klen, n) combinations through the source's scheduling code, %d parallel, %d not covering"
            % (len(combos), n_par, len(bad_cover)))
    return bad_cover


def sentinel_runs(ctx, lab, bad_cover, volume):
    """real processes on kernels in which chosen roots carry a private cycle"""
    rng = ctx.rng
    thr = lab.orig["thr"]
    jobs = []
    for klen, n, sections in bad_cover[:6]:
        flat = [x for s in sections for x in s]
        missing = [ln for ln in range(1, klen + 1) if ln not in flat]
        if missing:
            jobs.append((klen, n, missing[:6] + missing[-6:], "not-covered"))
    while len(jobs) < volume + min(len(bad_cover), 6):
        klen = rng.choice([thr, thr + 1, thr + 7, 64, 90])
        n = workers_of(rng.choice(WORKER_SET), klen)
        ms = model_slices(ctx, list(range(1, klen + 1)), n)
        pos = {1, klen}
        for s in ms:
            if s and rng.random() < 0.6:
                pos.add(s[0])
                pos.add(s[-1])
        pos = sorted(pos)
        rng.shuffle(pos)
        jobs.append((klen, n, sorted(pos[:len(SENT_REGS)] + [klen])[:len(SENT_REGS)], "boundaries"))
    for klen, n, positions, why in jobs:
        text, positions = sentinel_text(klen, positions)
        kern = lab.kernel("sentinel-%d" % klen, ARCH_X86, text)
        seq = lab.run(kern, workers=None)
        par = lab.run(kern, workers=n, threshold=min(thr, klen), watchdog=60)
        ctx.count("sentinel_runs")
        want = set(str(p) for p in positions)
        if seq.error or set(seq.lcd or {}) != want:
            ctx.correspondence_break("sentinel-kernel", {"klen": klen, "expected": sorted(want), "seq": sorted(seq.lcd or {}), "error": seq.error})
            continue
        if par.error or not L.same_lcd(par.lcd, seq.lcd):
            lost = sorted(set(seq.lcd) - set(par.lcd or {}), key=int)
            ctx.violation(
                "multi-process LCD search (klen=%d, %d workers) differs from the single-process search: "
                "cycles of roots %s are missing (%s)" % (klen, n, lost, par.error or why),
                {"kind": "sentinel", "klen": klen, "workers": n, "positions": positions, "arch": ARCH_X86,
                 "sequential": sorted(seq.lcd), "parallel": sorted(par.lcd or {}), "error": par.error,
                 "sections": par.sections})
    ctx.log("sentinel: %d kernels with private cycles at slice boundaries / uncovered roots" % len(jobs))


def make_kernels(ctx, lab, count):
    rng = ctx.rng
    thr = lab.orig["thr"]
    tf = os.path.join(core.REPO, "tests", "test_files")
    out = []
    real = [("kernel_x86.s", ARCH_X86, "x86"), ("kernel_aarch64.s", ARCH_A64, "aarch64"),
            ("kernel_x86_memdep.s", ARCH_X86, "x86"), ("kernel_aarch64_memdep.s", ARCH_A64, "aarch64"),
            ("kernel_aarch64_deps.s", ARCH_A64, "aarch64")]
    i = 0
    while len(out) < count:
        kind = i % 3
        i += 1
        if kind == 0:
            f, arch, isa = real[(i // 3) % len(real)]
            text = L.pad_real(rng, open(os.path.join(tf, f)).read(), isa, rng.choice([thr, thr + 3, 70]))
            name = "padded:" + f
        elif kind == 1:
            n = rng.choice([thr - 2, thr, thr + 1, 58, 75, 110])
            text, arch, name = L.gen_x86(rng, n, rng.choice([0.35, 0.5, 0.8, 1.0])), ARCH_X86, "gen-x86"
        else:
            n = rng.choice([thr - 1, thr, thr + 2, 60, 80, 120])
            text, arch, name = L.gen_a64(rng, n, rng.choice([0.35, 0.5, 0.8, 1.0])), ARCH_A64, "gen-a64"
        try:
            kern = lab.kernel(name, arch, text)
        except Exception as e:  # noqa  generator produced something the parser rejects: skip
            ctx.count("kernels_rejected")
            continue
        if len(kern.kernel) < 2:
            continue
        if lab.screen(kern, cap=3000, budget=3.0) is None:
            ctx.count("kernels_too_dense")  # exponentially many paths: C19's domain
            continue
        out.append(kern)
    return out


def real_runs(ctx, lab, kernels, per_kernel):
    rng = ctx.rng
    thr = lab.orig["thr"]
    styles = ["none", "reverse", "random", "one-slow"]
    wi = ctx.seed  # rotate through the worker set so that every count is used
    dist = {"klen": [], "workers": {}, "styles": {}, "paths": [], "cycles": []}
    reqs, pending = [], []
    for kern in kernels:
        klen = len(kern.kernel)
        seq = lab.run(kern, workers=None)
        ctx.count("sequential_runs")
        if seq.error:
            ctx.correspondence_break("sequential-run", {"kernel": kern.name, "error": seq.error})
            continue
        batches = None
        for j in range(per_kernel):
            wname = WORKER_SET[wi % len(WORKER_SET)]
            wi += 1
            n = workers_of(wname, klen)
            style = styles[(wi + j) % len(styles)]
            # first pass to learn the slices is not needed: delays are keyed by worker index
            sd, pd = mk_delays(rng, n, None, style)
            par = lab.run(kern, workers=n, threshold=min(thr, klen), start_delays=sd, delays=pd, watchdog=120)
            ctx.count("parallel_runs")
            dist["workers"][str(wname)] = dist["workers"].get(str(wname), 0) + 1
            dist["styles"][style] = dist["styles"].get(style, 0) + 1
            rp = {"kind": "kernel", "kernel": kern.describe(), "workers": n, "delay_style": style,
                  "start_delays": sd, "batch_delays": pd}
            if par.error:
                ctx.violation("multi-process LCD search failed (%s) where the single-process search succeeds; %d workers, klen %d"
                              % (par.error, n, klen), dict(rp, error=par.error))
                continue
            if par.leftover:
                ctx.violation("worker processes still alive after the LCD search returned: %s" % par.leftover, dict(rp, leftover=par.leftover))
            if par.timed_out:
                ctx.violation("timed_out set with timeout=-1", rp)
            # ---- the property: parallel == sequential
            if not L.same_lcd(par.lcd, seq.lcd):
                ctx.violation(
                    "multi-process LCD result (%d workers, %s completion order) differs from the single-process result on %s (klen %d): "
                    "only-sequential %s, only-parallel %s" % (n, style, kern.name, klen,
                                                              sorted(set(seq.lcd) - set(par.lcd))[:4], sorted(set(par.lcd) - set(seq.lcd))[:4]),
                    dict(rp, sequential=sorted(seq.lcd), parallel=sorted(par.lcd)))
            elif first_longest(par.lcd, par.order) != first_longest(seq.lcd, seq.order):
                ctx.violation(
                    "the LCD marked as longest in the report depends on the completion order: %s (parallel, %d workers, %s) vs %s (sequential) on %s"
                    % (first_longest(par.lcd, par.order), n, style, first_longest(seq.lcd, seq.order), kern.name),
                    dict(rp, sequential_order=seq.order[:8], parallel_order=par.order[:8]))
            elif par.order != seq.order:
                ctx.count("order_differences")
                if ctx.counts["order_differences"] <= 2:
                    ctx.correspondence_break("dict-order", {"kernel": kern.name, "workers": n, "seq": seq.order[:6], "par": par.order[:6]})
            # ---- slices as handed to the workers vs the model
            if par.dg is None:
                ctx.correspondence_break("no-process-args", {"kernel": kern.name, "workers": n})
                continue
            if batches is None:
                batches = lab.batches(kern, par, cap=4000)
                if batches is not None:
                    allp = [p for b in batches for p in b]
                    dist["paths"].append(len(allp))
                    hyp = L.float_hypotheses(par.dg, par.offset, allp)
                    dist["cycles"].append(hyp["cycles"])
                    ctx.count("hyp_checked")
                    if not hyp["sum_by_key"]:
                        ctx.count("hyp_sum_by_key_false")
                        ctx.log("hypothesis SumByKey does not hold on the implementation's floats for %s: %s" % (kern.name, hyp["bad"]))
                    if not hyp["exact"]:
                        ctx.count("float_sums_inexact")
                else:
                    ctx.count("kernels_over_path_cap")
            cov = L.enc_nats(kern.lines)
            reqs.append("slices %s %d" % (cov, n))
            reqs.append("covers %s %s" % (cov, "|".join(L.enc_nats(s) for s in par.sections) or "-"))
            item = {"kern": kern, "par": par, "seq": seq, "n": n, "rp": rp, "nreq": 2}
            if batches is not None:
                allp = [p for b in batches for p in b]
                edges = L.enc_edges(par.dg)
                sched = [rng.randrange(n) for _ in range(min(200, 2 * klen))]
                reqs.append("lcdpar %d %s %s %d %s %s" % (par.offset, edges, cov, n, L.enc_nats(sched), L.enc_batches(batches)))
                reqs.append("lcdpost %d %s %s" % (par.offset, edges, L.enc_paths(allp)))
                reqs.append("lcdspec %d %s %s %s" % (par.offset, edges, L.enc_paths(allp), L.enc_result(par.lcd)))
                item["nreq"] = 5
            pending.append(item)
        dist["klen"].append(klen)
    replies = ctx.driver.ask(reqs)
    pos = 0
    nontrivial = 0
    for item in pending:
        kern, par, seq, n, rp = item["kern"], item["par"], item["seq"], item["n"], item["rp"]
        rs = replies[pos:pos + item["nreq"]]
        pos += item["nreq"]
        msl = [[] if s == "-" else [int(x) for x in s.split(",")] for s in rs[0].split("|")]
        if msl != par.sections:
            ctx.count("slice_disagreements")
            if ctx.counts["slice_disagreements"] <= 2:
                ctx.correspondence_break("slices", {"kernel": kern.name, "klen": len(kern.kernel), "n": n, "model": msl[:5], "impl": par.sections[:5]})
        if rs[1] != "1":
            ctx.count("not_covering")
            if ctx.counts["not_covering"] <= 2:
                ctx.correspondence_break("spec-covers", {"kernel": kern.name, "n": n, "sections": par.sections[:6]})
        if item["nreq"] == 5:
            mpar = L.parse_dict(rs[2])
            flags, _, mseq_txt = rs[3].partition(" ")
            s_flag, u_flag = flags, mseq_txt.split(" ")[0]
            mseq = L.parse_dict(mseq_txt.split(" ", 1)[1])
            if u_flag != "U1":
                ctx.count("hyp_lines_unique_false")
            if mpar != mseq:
                ctx.count("model_par_vs_seq")
                if ctx.counts["model_par_vs_seq"] <= 2:
                    ctx.correspondence_break("model-parallel-vs-sequential", {"kernel": kern.name, "n": n})
            if not L.same_result(mpar, par.lcd):
                ctx.count("model_disagreements")
                if ctx.counts["model_disagreements"] <= 2:
                    ctx.correspondence_break("lcdpar", {"kernel": kern.name, "n": n, "model": [m[0] for m in mpar][:8], "impl": par.order[:8]})
            elif [m[0] for m in mpar] != par.order:
                ctx.count("model_order_disagreements")
                if ctx.counts["model_order_disagreements"] <= 2:
                    ctx.correspondence_break("lcdpar-order", {"kernel": kern.name, "n": n, "model": [m[0] for m in mpar][:8], "impl": par.order[:8]})
            # Spec oracle on the implementation's output
            if rs[4] != "1":
                ctx.violation(
                    "multi-process LCD result on %s (%d workers) is not the set of cycles of the dependency paths (Spec agreesB)" % (kern.name, n),
                    dict(rp, parallel=L.enc_result(par.lcd)[:2000]))
            if len(par.lcd) >= 2:
                nontrivial += 1
            ctx.count("model_compared")
        ctx.sample({"kernel": kern.name, "klen": len(kern.kernel), "workers": n, "lcds": len(par.lcd),
                    "equal_to_sequential": L.same_lcd(par.lcd, seq.lcd)})
    ctx.cov["distribution"]["real_runs"] = {
        "kernels": len(kernels), "klen": sorted(dist["klen"]), "workers": dist["workers"], "delay_styles": dist["styles"],
        "paths_per_kernel": sorted(dist["paths"]), "cycles_per_kernel": sorted(dist["cycles"])}
    ctx.log("real runs: %d kernels, %d multi-process runs, %d compared with the model (%d with >= 2 LCDs)"
            % (len(kernels), ctx.counts.get("parallel_runs", 0), ctx.counts.get("model_compared", 0), nontrivial))
    return nontrivial


TS_RE = re.compile(r"^(Timestamp:\s*).*$", re.M)


def mask(text):
    return TS_RE.sub(r"\1<masked>", text) if text is not None else None


def report_runs(ctx, lab, kernels, cli_runs):
    """full report text: in-process with different worker counts / completion orders, and the CLI twice"""
    rng = ctx.rng
    thr = lab.orig["thr"]
    cands = [k for k in kernels if len(k.kernel) >= thr]
    done = 0
    for kern in cands[:2 if ctx.tier == "quick" else 8]:
        path = os.path.join(ctx.env.work, "rep-%d.s" % done)
        with open(path, "w") as f:
            f.write(kern.text)
        klen = len(kern.kernel)
        base = lab.report(path, kern.arch, extra_args=["--lcd-timeout", "-1"], workers=None)
        texts = []
        for w, style in ((3, "reverse"), (16, "random")):
            sd, pd = mk_delays(rng, w, None, style)
            r = lab.report(path, kern.arch, extra_args=["--lcd-timeout", "-1"], workers=w, start_delays=sd, delays=pd, watchdog=180)
            texts.append((w, style, r))
            ctx.count("report_runs")
        if base.error or base.text is None:
            ctx.correspondence_break("report-run", {"kernel": kern.name, "error": base.error})
            continue
        for w, style, r in texts:
            if r.error or mask(r.text) != mask(base.text):
                a, b = (mask(base.text) or "").split("\n"), (mask(r.text) or "").split("\n")
                diff = [(x, y) for x, y in zip(a, b) if x != y][:3]
                ctx.violation(
                    "report of the multi-process analysis (%d workers, %s) differs from the single-process report on %s: %s"
                    % (w, style, kern.name, r.error or diff),
                    {"kind": "report", "kernel": kern.describe(), "workers": w, "delay_style": style, "diff": diff, "error": r.error})
        done += 1
    # the command line, twice, unpatched
    for kern in cands[:cli_runs]:
        path = os.path.join(ctx.env.work, "cli.s")
        with open(path, "w") as f:
            f.write(kern.text)
        outs = []
        for _ in range(2):
            p = subprocess.run([sys.executable, "-m", "osaca", "--arch", kern.arch, "--lcd-timeout", "-1", path],
                               env=ctx.env.subenv(), cwd=ctx.env.work, stdout=subprocess.PIPE, stderr=subprocess.PIPE,
                               text=True, timeout=600)
            outs.append((p.returncode, p.stdout))
            ctx.count("cli_runs")
        if outs[0][0] != 0 or outs[1][0] != 0:
            ctx.correspondence_break("cli", {"rc": [o[0] for o in outs]})
        elif mask(outs[0][1]) != mask(outs[1][1]):
            a, b = mask(outs[0][1]).split("\n"), mask(outs[1][1]).split("\n")
            ctx.violation("two runs of the same command give different reports on %s" % kern.name,
                          {"kind": "cli", "kernel": kern.describe(), "diff": [(x, y) for x, y in zip(a, b) if x != y][:3]})
    ctx.log("reports: %d in-process report runs, %d CLI runs" % (ctx.counts.get("report_runs", 0), ctx.counts.get("cli_runs", 0)))


# --------------------------------------------------------------------------- entry points
def run(ctx):
    ctx.assumptions = TRUSTED
    ctx.prove(["WorkersConsts"], ["OsacaVerif.Props.C16"])
    ctx.thorough_recheck(["OsacaVerif.Props.C16"])
    ctx.env = core.Env("C16", archs=[ARCH_X86, ARCH_A64])
    ctx.env.activate()
    lab = L.Lab(ctx)
    big = ctx.tier == "thorough" or bool(ctx.broken)
    bad_cover = sweep(ctx, lab, 400 if big else 120)
    sentinel_runs(ctx, lab, bad_cover, 14 if big else 4)
    kernels = make_kernels(ctx, lab, 110 if ctx.tier == "thorough" else (20 if big else 12))
    nontrivial = real_runs(ctx, lab, kernels, 4 if ctx.tier == "thorough" else 3)
    report_runs(ctx, lab, kernels, 2 if ctx.tier == "thorough" else 1)
    ctx.cov["evaluations"] = (ctx.counts.get("sweep_runs", 0) + ctx.counts.get("sentinel_runs", 0)
                              + ctx.counts.get("parallel_runs", 0) + ctx.counts.get("report_runs", 0) + ctx.counts.get("cli_runs", 0))
    ctx.cov["traces_validated_against_impl"] = ctx.counts.get("model_compared", 0) + ctx.counts.get("sweep_parallel", 0)
    ctx.cov["distinct_nontrivial"] = nontrivial + ctx.counts.get("sentinel_runs", 0)
    ctx.cov["rule"] = ("real multi-process runs (cpu_count patched, seeded completion orders) on padded test kernels and generated "
                       "x86/AArch64 kernels around the threshold; non-trivial = run whose result has >= 2 LCDs, or sentinel kernel "
                       "(private cycle per chosen root); sweep = the source's scheduling code without processes")
    ctx.cov["hypotheses"] = {
        "SumByKey_on_impl_floats_false": ctx.counts.get("hyp_sum_by_key_false", 0),
        "LinesUnique_false": ctx.counts.get("hyp_lines_unique_false", 0),
        "float_sums_inexact": ctx.counts.get("float_sums_inexact", 0),
        "kernels_checked": ctx.counts.get("hyp_checked", 0)}
    return ctx.finish(trusted=TRUSTED)


def replay(ctx, path):
    rep = json.load(open(path))["replay"]
    kind = rep.get("kind")
    if kind not in ("sentinel", "kernel", "report", "cli"):
        print("replay names a broken theorem/correspondence, not an input:", json.dumps(rep)[:800])
        ctx.cleanup()
        return 1
    ctx.env = core.Env("C16", archs=[ARCH_X86, ARCH_A64])
    ctx.env.activate()
    lab = L.Lab(ctx)
    thr = lab.orig["thr"]
    if kind == "sentinel":
        text, _ = sentinel_text(rep["klen"], rep["positions"])
        kern = lab.kernel("sentinel", rep["arch"], text)
        n = rep["workers"]
        sd = pd = None
    else:
        k = rep["kernel"]
        kern = lab.kernel(k["name"], k["arch"], k["text"])
        n = rep.get("workers", 16)
        sd = {int(a): b for a, b in (rep.get("start_delays") or {}).items()} or None
        pd = {int(a): b for a, b in (rep.get("batch_delays") or {}).items()} or None
    seq = lab.run(kern, workers=None)
    par = lab.run(kern, workers=n, threshold=min(thr, len(kern.kernel)), start_delays=sd, delays=pd, watchdog=120)
    same = (not par.error) and L.same_lcd(par.lcd, seq.lcd) and first_longest(par.lcd, par.order) == first_longest(seq.lcd, seq.order)
    print("sequential: %s" % sorted(seq.lcd or {}))
    print("parallel (%d workers): %s %s" % (n, sorted(par.lcd or {}), par.error or ""))
    print("equal" if same else "DIFFERENT")
    ctx.cleanup()
    return 0 if same else 1
