"""C20 - Benchmark import snaps measurements and emits every imported form.

proof:   Props/C20.lean (tp_snap_spec, tp_window_unique, tp_reject_spec, lt_snap_spec, lt_snap_complete,
         lt_reject_spec, *_meets_oracle, decode_table_*, decode_mem_flags_*, dispatch_spec, key_spec,
         ibench_merge, asmbench_prefix, asmbench_stop_unaffected, import_emits_all_a64,
         import_emits_all_partial, d11_existing_form_swallows_import) over tables and constants
         regenerated from osaca/db_interface.py (Gen/ImportConsts).
tie:     translator + four correspondences, model (Lean driver) vs real code on the same inputs:
         K1 _validate_measurement, K2 _create_db_operand, K3 _get_ibench_output/_get_asmbench_output
         (in-process), K4 `osaca --arch A --import T FILE` (subprocess, scratch HOME with zen1/tx2),
         emitted stream parsed as plain YAML.
search:  the Spec oracle (Lean `Spec.Import.tpOk/ltOk/docX86/docA64`, evaluated by the driver) and a
         reference reading of the documented file formats (this file, `ref_*`) applied to the
         implementation's outputs: every form the file documents must be emitted once, with documented
         operands and snapped measurements; nothing else may be emitted; the model's own forms stay.
"""
import json
import os
import re
import subprocess
import sys
from concurrent.futures import ThreadPoolExecutor
from fractions import Fraction

from harness import core
from harness.core import esc, unesc

TRUSTED = [
    "Lean 4.33 kernel; axioms of every theorem audited (allowed: propext, Classical.choice, Quot.sound)",
    "tools/gen/importconsts.py: AST extraction of 1.05/0.95, range(1, 11), round(.., 5), tags, separators, "
    "block offsets and the operand if/elif tables of db_interface.py",
    "correspondence harness harness/props/c20.py: generators, the reference reading of the documented formats "
    "(ref_ibench/ref_asmbench), canonicalisation of the emitted YAML (ruamel safe loader)",
    "modelled, not verified: Python float()/round()/math.floor/ceil on doubles (model is exact on the decimal "
    "text; inputs within 1e-9 of a 5 % edge accept either outcome), str.split/strip (ASCII), ruamel dump",
    "hw_model.MachineModel loading and dump of the model's own forms (only compared against a baseline dump)",
]

ARCHS = {"x86": "zen1", "a64": "tx2"}
KNOWN_D11 = "D11-x86-same-mnemonic-arity"
EPS = Fraction(1, 10 ** 9)


# =========================================================================== small helpers
def fr(text):
    return Fraction(text)


def frs(x):
    return core.frac(x)


def tp_boundary(m):
    """within 1e-9 (relative) of an edge of a 5 % window of 1/n, n = 1..12"""
    for n in range(1, 13):
        for c in (Fraction(19, 20), Fraction(21, 20)):
            b = c / n
            if abs(m - b) <= EPS * b:
                return True
    return False


def lt_boundary(m):
    import math

    if m < 0:
        return False
    f, c = math.floor(m), math.ceil(m)
    for b in (f * Fraction(21, 20), c * Fraction(19, 20), (f + 1) * Fraction(19, 20), (f - 1) * Fraction(21, 20)):
        if b > 0 and abs(m - b) <= EPS * b:
            return True
    return False


def is_boundary(mode, m):
    return tp_boundary(m) if mode == "tp" else lt_boundary(m)


def res_to_frac(r):
    """implementation result (float or None) -> Fraction or None, through the shortest repr"""
    if r is None:
        return None
    return Fraction(repr(float(r)))


def close(a, b):
    if a is None or b is None:
        return a is None and b is None
    return abs(a - b) <= Fraction(1, 10 ** 9)


def parse_opt(tok):
    return None if tok == "none" else Fraction(tok)


# --------------------------------------------------------------------------- driver reply parsing
def parse_dict(toks, i):
    assert toks[i] == "D", toks[i:i + 3]
    n = int(toks[i + 1])
    i += 2
    d = {}
    for _ in range(n):
        k = unesc(toks[i])
        v = toks[i + 1]
        i += 2
        if v == "N":
            d[k] = None
        elif v[0] == "S":
            d[k] = unesc(v[1:])
        elif v[0] == "I":
            d[k] = int(v[1:])
        elif v[0] == "B":
            d[k] = v[1:] == "1"
        else:
            raise core.InfraError("driver: bad value token %r" % v)
    return d, i


def parse_entries(reply):
    """'ok E …' -> list of dict(key, mnemonic, tp, lt, operands);  'err index' -> 'IndexError'"""
    toks = reply.split(" ")
    if toks[0] == "err":
        return {"index": "IndexError", "value": "ValueError"}[toks[1]]
    if toks[0] != "ok":
        raise core.InfraError("driver: unexpected reply %r" % reply[:200])
    i, out = 1, []
    while i < len(toks):
        assert toks[i] == "E", toks[i:i + 4]
        key, mn, tp, lt, nops = unesc(toks[i + 1]), unesc(toks[i + 2]), parse_opt(toks[i + 3]), parse_opt(toks[i + 4]), int(toks[i + 5])
        i += 6
        ops = []
        for _ in range(nops):
            d, i = parse_dict(toks, i)
            ops.append(d)
        out.append({"key": key, "mnemonic": mn, "tp": tp, "lt": lt, "operands": ops})
    return out


def parse_op_reply(reply):
    if reply in ("err", "undoc"):
        return None
    d, _ = parse_dict(reply.split(" "), 0)
    return d


# =========================================================================== generators
X86_REG = ["r", "x", "y", "z", "i"]
A64_REG = ["w", "x", "b", "h", "s", "d", "q", "v", "vb", "vh", "vs", "vd", "i"]
FLAGS = {"x86": "bois", "a64": "boisrp"}
MNEMONICS = ["vaddpd", "VADDPD", "Vfmadd213pd", "mov", "MOV", "fadd", "FADD", "ldp", "fmov", "CVTPD2PS", "VCVTPS2PD",
             "cvtpd2ps", "FOOTP", "TPX", "LTA", "FCMLT", "vpcmpltd", "HLT", "TPLT", "xLTyTPz", "testinstr", "testinstr2",
             "a", "B", "q9", "STP", "stp"]


def gen_mem_code(rng, isa):
    fl = [c for c in FLAGS[isa] if rng.random() < 0.5]
    rng.shuffle(fl)
    if rng.random() < 0.1 and fl:
        fl.append(rng.choice(fl))  # repeated flag
    return "m" + "".join(fl)


def gen_code(rng, isa, documented_only=True):
    r = rng.random()
    if not documented_only and r < 0.1:  # undocumented but accepted by the code (substring / prefix semantics)
        if isa == "x86":
            return rng.choice(["rax", "r8", "xy", "yz", "xyz", "mq", "mbx", "", "mbois", "rr"])
        return rng.choice(["wx", "bh", "sd", "hsd", "vq", "v4", "vdd", "mq", "mbx", "", "xb"])
    if not documented_only and r < 0.104:
        return rng.choice(["k", "t", "1", "im", "V"])
    if r < 0.35:
        return gen_mem_code(rng, isa)
    return rng.choice(X86_REG if isa == "x86" else A64_REG)


def gen_form(rng, isa, existing, documented_only=True, want_collision=False):
    """(mnemonic, [codes])"""
    if want_collision and existing:
        name, ar = rng.choice(existing)
        if ar >= 1:
            mn = name if rng.random() < 0.5 else name.lower()
            return mn, [gen_code(rng, isa, True) for _ in range(ar)]
    if rng.random() < 0.6:
        mn = rng.choice(MNEMONICS)
    else:
        mn = "".join(rng.choice("abcdefgTPLXYZ0123456789.") for _ in range(rng.randint(1, 9)))
    if rng.random() < 0.5:
        mn = mn + str(rng.randint(0, 99))  # keeps most names out of the target model
    n = rng.choice([1, 1, 2, 2, 2, 3, 3, 4])
    return mn, [gen_code(rng, isa, documented_only) for _ in range(n)]


def fmt_dec(rng, q, digits=None):
    """decimal text of a non-negative Fraction, rounded to `digits` places"""
    digits = rng.choice([1, 2, 3, 3, 3, 4, 6]) if digits is None else digits
    scaled = round(q * 10 ** digits)
    s = "%d" % scaled
    neg = s.startswith("-")
    s = s.lstrip("-").rjust(digits + 1, "0")
    out = s[:-digits] + "." + s[-digits:] if digits else s
    return ("-" if neg else "") + out


DELTAS = [0, 0, Fraction(1, 100), Fraction(-1, 100), Fraction(3, 100), Fraction(-3, 100), Fraction(49, 1000),
          Fraction(-49, 1000), Fraction(499, 10000), Fraction(-499, 10000), Fraction(501, 10000), Fraction(-501, 10000),
          Fraction(51, 1000), Fraction(-51, 1000), Fraction(6, 100), Fraction(-6, 100), Fraction(2, 10), Fraction(-2, 10)]


def gen_meas(rng, mode, allow_boundary=True):
    """decimal text of a measurement"""
    for _ in range(50):
        r = rng.random()
        if mode == "tp":
            if r < 0.65:
                n = rng.randint(1, 12)
                q = Fraction(1, n) * (1 + rng.choice(DELTAS))
                t = fmt_dec(rng, q, rng.choice([3, 4, 5, 6]))
            elif r < 0.75 and allow_boundary:
                n = rng.choice([1, 2, 4, 5, 8, 10])
                q = rng.choice([Fraction(19, 20), Fraction(21, 20)]) / n
                t = fmt_dec(rng, q, 6)
            elif r < 0.95:
                t = fmt_dec(rng, Fraction(rng.randint(0, 1500), 1000), 3)
            else:
                t = fmt_dec(rng, Fraction(rng.randint(0, 40000), 1000), 3)
        else:
            if r < 0.6:
                k = rng.choice([0, 1, 1, 2, 3, 4, 5, 6, 8, 9, 10, 11, 12, 13, 19, 20, 21, 40])
                q = k * (1 + rng.choice(DELTAS))
                t = fmt_dec(rng, q, rng.choice([1, 2, 3, 4]))
            elif r < 0.72:
                k = rng.randint(0, 31)
                t = "%d.5" % k
            elif r < 0.8 and allow_boundary:
                k = rng.randint(1, 25)
                q = k * rng.choice([Fraction(19, 20), Fraction(21, 20)])
                t = fmt_dec(rng, q, 2)
            else:
                t = fmt_dec(rng, Fraction(rng.randint(0, 45000), 1000), 3)
        if allow_boundary or not is_boundary(mode, fr(t)):
            return t
    return "1.000"


def ibench_line(rng, name, kind, meas):
    sp = rng.choice([" ", "  ", "    ", "\t", " \t "])
    tail = rng.choice([" (clock cycles)    [DEBUG - result: 0.007813]", " (clock cycles)", "", " cy"])
    return "%s-%s:%s%s%s\n" % (name, kind, sp, meas, tail)


def gen_ibench_file(rng, isa, existing, documented_only=True, allow_error=False, force_collision=False):
    forms = []
    nforms = rng.randint(1, 9)
    for j in range(nforms):
        forms.append(gen_form(rng, isa, existing, documented_only,
                              want_collision=(force_collision and j == 0) or rng.random() < 0.08))
    if rng.random() < 0.3 and forms:
        mn, ops = rng.choice(forms)  # same mnemonic, same arity, other operands
        forms.append((mn if rng.random() < 0.5 else mn.swapcase(), [gen_code(rng, isa, documented_only) for _ in ops]))
    lines = []
    nb = 0
    for mn, ops in forms:
        name = mn + "-" + "_".join(ops)
        kinds = rng.choice([["TP", "LT"], ["TP", "LT"], ["LT", "TP"], ["TP"], ["LT"], ["TP", "TP", "LT"], ["LT", "TP", "LT"]])
        for k in kinds:
            ab = nb == 0 and rng.random() < 0.15
            m = gen_meas(rng, k.lower(), allow_boundary=ab)
            if is_boundary(k.lower(), fr(m)):
                nb += 1
            lines.append(ibench_line(rng, name, k, m))
    if rng.random() < 0.6:
        rng.shuffle(lines)  # any interleaving
    for _ in range(rng.choice([0, 1, 1, 2])):
        lines.insert(rng.randint(0, len(lines)) if rng.random() < 0.3 else 0, "Using frequency %.2fGHz.\n" % rng.uniform(1, 4))
    if allow_error and rng.random() < 0.12:
        bad = rng.choice(["foo-x_x-TP:\n", "foo-k_t-TP: 0.5\n", "nodash: 1.0\n", "foo-x-TP: abc (clock)\n", "\n"])
        lines.insert(rng.randint(0, len(lines)), bad)
    return lines


def gen_asmbench_file(rng, isa, existing, documented_only=True, allow_error=False, force_collision=False):
    nblocks = rng.randint(1, 8)
    lines = []
    nb = 0
    for j in range(nblocks):
        mn, ops = gen_form(rng, isa, existing, documented_only,
                           want_collision=(force_collision and j == 0) or rng.random() < 0.08)
        if j > 0 and rng.random() < 0.12:
            prev = lines[4 * rng.randrange(j)].strip()  # same name again: the later block wins
            mn, ops = prev.split("-")[0], prev.split("-")[1].split("_")
        vals = {}
        for k in ("lt", "tp"):
            ab = nb == 0 and rng.random() < 0.15
            vals[k] = gen_meas(rng, k, allow_boundary=ab)
            if is_boundary(k, fr(vals[k])):
                nb += 1
        unit = rng.choice(["cy", "cycles", "cycle"])
        lines += [rng.choice(["", " "]) + mn + "-" + "_".join(ops) + rng.choice(["", " "]) + "\n",
                  "Latency: %s %s\n" % (vals["lt"], unit), "Throughput: %s %s\n" % (vals["tp"], unit),
                  rng.choice(["\n", "\n", "  \n", "\t\n"])]
    # corruption of the block structure
    for _ in range(rng.choice([0, 0, 0, 1, 1, 2])):
        if not lines:
            break
        j = rng.randrange(len(lines))
        c = rng.random()
        if c < 0.35:
            del lines[j]
        elif c < 0.6:
            lines.insert(j, rng.choice(["\n", " \n"]))
        elif c < 0.75:
            lines.insert(j, lines[j])
        else:
            del lines[j + 1:]  # truncated file
    if rng.random() < 0.25 and lines and lines[-1].strip() == "":
        lines.pop()  # file ends right after the last Throughput line
    if allow_error and rng.random() < 0.1 and lines:
        j = 4 * rng.randrange((len(lines) + 3) // 4)
        lines[j] = rng.choice(["nodash\n", "foo-k\n"])
    return lines


# =========================================================================== reference reading of the formats
IB_RE = re.compile(r"^([^\s:]+)-(TP|LT):\s+(-?\d+(?:\.\d*)?|-?\.\d+)(?:\s.*)?$")


def ref_ibench(lines):
    """README: `[INSTRUCTION FORM]-TP:    0.500 (clock cycles) …` -> ordered dict key -> [mn, ops, tp_text, lt_text].
    Returns None when a line is outside the documented format (outside the property's domain)."""
    forms = {}
    for line in lines:
        if line.startswith("Using frequency"):
            continue
        m = IB_RE.match(line.rstrip("\n"))
        if not m:
            return None
        name, kind, val = m.groups()
        parts = name.split("-")
        if len(parts) != 2 or not parts[0] or not parts[1]:
            return None
        f = forms.setdefault(name, [parts[0], parts[1].split("_"), None, None])
        f[2 if kind == "TP" else 3] = val
    return forms


NUM_RE = re.compile(r"^-?(\d+(\.\d*)?|\.\d+)$")


def ref_asmbench(lines):
    """README: blocks of four lines (form, Latency: X .., Throughput: Y .., empty line).  Entries of the
    blocks before the first malformed block; None when a well-shaped block has undocumented content."""
    forms = {}
    for i in range(0, len(lines), 4):
        blk = lines[i:i + 4]
        if len(blk) < 4 or blk[3].strip() != "":
            break
        name = blk[0].strip()
        parts = name.split("-")
        lat, tp = blk[1].split(), blk[2].split()
        if len(parts) != 2 or not parts[0] or not parts[1] or len(lat) < 2 or len(tp) < 2 \
                or lat[0] != "Latency:" or tp[0] != "Throughput:" or not NUM_RE.match(lat[1]) or not NUM_RE.match(tp[1]):
            return None
        forms[name] = [parts[0], parts[1].split("_"), tp[1], lat[1]]
    return forms


# =========================================================================== implementation side
def canon_impl_entry(e):
    """entry of the emitted YAML (plain dict) -> comparable dict"""
    return {"mnemonic": e.get("mnemonic"), "operands": [dict(o) for o in e.get("operands", [])],
            "tp": res_to_frac(e.get("throughput")), "lt": res_to_frac(e.get("latency"))}


def run_cli(ctx, arch, kind, path):
    p = subprocess.run([sys.executable, "-W", "ignore", "-m", "osaca.osaca", "--arch", arch, "--import", kind, path],
                       cwd=ctx.env.work, env=ctx.env.subenv(), stdout=subprocess.PIPE, stderr=subprocess.PIPE,
                       text=True, timeout=600)
    if p.returncode != 0:
        m = re.findall(r"^(\w+(?:Error|Exception))\b", p.stderr, re.M)
        return {"rc": p.returncode, "exc": m[-1] if m else "other", "stderr": p.stderr[-400:]}
    import ruamel.yaml

    try:
        data = ruamel.yaml.YAML(typ="safe").load(p.stdout)
        forms = data["instruction_forms"]
    except Exception as e:  # noqa
        return {"rc": 0, "exc": "unparsable-output:" + type(e).__name__, "stderr": p.stdout[-300:]}
    own = [json.dumps(f, sort_keys=True, default=str) for f in forms if "name" in f]
    added = [canon_impl_entry(f) for f in forms if "name" not in f]
    return {"rc": 0, "own": own, "own_names": [(f["name"], len(f["operands"])) for f in forms if "name" in f],
            "added": added, "n_sections": len(data)}


def impl_parse(dbi, kind, lines, isa):
    """_get_ibench_output / _get_asmbench_output in-process -> entries or exception name"""
    import contextlib
    import io
    import warnings

    try:
        with warnings.catch_warnings():
            warnings.simplefilter("ignore")
            with contextlib.redirect_stderr(io.StringIO()):
                fn = dbi._get_ibench_output if kind == "ibench" else dbi._get_asmbench_output
                ents = fn(list(lines), "x86" if isa == "x86" else "aarch64")
    except Exception as e:  # noqa
        return type(e).__name__
    out = []
    for k, e in ents.items():
        out.append({"key": k, "mnemonic": e.mnemonic, "operands": [dict(o) for o in e.operands],
                    "tp": res_to_frac(e.throughput), "lt": res_to_frac(e.latency)})
    return out


def entries_equal(a, b, with_key):
    if isinstance(a, str) or isinstance(b, str):
        return a == b
    if len(a) != len(b):
        return False
    for x, y in zip(a, b):
        if with_key and x["key"] != y["key"]:
            return False
        if x["mnemonic"] != y["mnemonic"] or x["operands"] != y["operands"]:
            return False
        if not close(x["tp"], y["tp"]) or not close(x["lt"], y["lt"]):
            return False
    return True


def show_entries(es):
    if isinstance(es, str):
        return es
    return [[e.get("key"), e["mnemonic"], ["/".join("%s=%s" % kv for kv in sorted(o.items(), key=str)) for o in e["operands"]],
             str(e["tp"]), str(e["lt"])] for e in es]


def perturbed_variants(kind, lines):
    """the file itself and, if it has boundary-class measurements, the files with those measurements moved just
    inside / outside the 5 % edge (the implementation compares doubles there: either outcome is allowed)"""
    out = [lines]
    for sign in (1, -1):
        new, changed = [], False
        for idx, line in enumerate(lines):
            mode = None
            if kind == "ibench":
                m = IB_RE.match(line.rstrip("\n"))
                if m:
                    mode, val = m.group(2).lower(), m.group(3)
            else:
                tk = line.split()
                if len(tk) >= 2 and tk[0] in ("Latency:", "Throughput:") and NUM_RE.match(tk[1]):
                    mode, val = ("lt" if tk[0] == "Latency:" else "tp"), tk[1]
            if mode and is_boundary(mode, fr(val)):
                q = fr(val) * (1 + sign * Fraction(1, 10 ** 7))
                at = m.start(3) if kind == "ibench" else line.index(val, line.index(":"))
                line = line[:at] + fmt_dec(None, q, 12) + line[at + len(val):]
                changed = True
            new.append(line)
        if changed:
            out.append(new)
    return out


# =========================================================================== oracle on one CLI result
def d11_signature(isa, form, forms, own_names):
    """x86: another form with the same mnemonic (case-insensitive) and operand count in the target model or in
    the same import"""
    if isa != "x86":
        return False
    mn, ops = form[0], form[1]
    if (mn.upper(), len(ops)) in own_names:
        return True
    # within one import the pinned code only collides when the swallowed form is spelled in upper case: new forms are
    # filed under their raw mnemonic but looked up under mnemonic.upper()
    if mn != mn.upper():
        return False
    n = sum(1 for f in forms.values() if f[0].upper() == mn and len(f[1]) == len(ops))
    return n >= 2


def oracle_cli(ctx, isa, kind, lines, res, baseline, doc_cache, spec_batch):
    """Checks of the property on the implementation's output `res` for the file `lines`.
    Returns list of (what, key) failures; queues snapping checks into spec_batch."""
    fails = []
    ref = ref_ibench(lines) if kind == "ibench" else ref_asmbench(lines)
    if ref is None:
        ctx.count("cli_outside_documented_format")
        return fails
    # every code documented?
    exp = {}
    for name, (mn, ops, tp, lt) in ref.items():
        docs = [doc_cache.get((isa, c)) for c in ops]
        if any(d is None for d in docs):
            ctx.count("cli_forms_with_undocumented_codes")
            continue
        exp[name] = (mn, docs, tp, lt)
    if res.get("exc"):
        if not ref or len(exp) < len(ref):
            ctx.count("cli_raised_on_undocumented_code")
            return fails
        fails.append(("import raised %s on a file in the documented format (nothing emitted)" % res["exc"], None))
        return fails
    if res["own"] != baseline["own"]:
        fails.append(("the target model's own forms changed in the emitted stream", None))
    added = list(res["added"])
    used = [False] * len(added)
    own_names = set(baseline["own_names"])
    for name, (mn, docs, tp, lt) in exp.items():
        hit = None
        for j, e in enumerate(added):
            if not used[j] and e["mnemonic"] == mn and e["operands"] == docs:
                hit = j
                break
        if hit is None:
            if d11_signature(isa, ref[name], ref, own_names):
                fails.append(("imported form %s is not emitted (x86: same mnemonic and operand count already present)" % name, KNOWN_D11))
            else:
                fails.append(("imported form %s is not emitted with its documented operands" % name, None))
            continue
        used[hit] = True
        e = added[hit]
        spec_batch.append(("tp", tp, e["tp"], name))
        spec_batch.append(("lt", lt, e["lt"], name))
    for j, e in enumerate(added):
        if not used[j]:
            # an emitted form nobody imported (or emitted twice) -- unless it stems from an undocumented code
            if len(exp) == len(ref):
                fails.append(("emitted form %s %s does not correspond to an imported form"
                              % (e["mnemonic"], show_entries([dict(e, key=None)])[0][2]), None))
    return fails


# =========================================================================== the check
def baseline_for(ctx, arch):
    p = os.path.join(ctx.env.work, "empty-%s.dat" % arch)
    with open(p, "w") as f:
        f.write("Using frequency 2.00GHz.\n")
    res = run_cli(ctx, arch, "ibench", p)
    if res.get("exc") or res["added"]:
        raise core.InfraError("baseline import of an empty file failed for %s: %s" % (arch, str(res)[:300]))
    return res


def model_import(ctx, isa, kind, existing_field, lines_list):
    reqs = ["c20import %s %s %s %s" % (esc(isa), esc(kind), existing_field, " ".join(esc(l) for l in ls)) for ls in lines_list]
    return [parse_entries(r) for r in ctx.driver.ask(reqs)]


def model_parse(ctx, isa, kind, lines_list):
    reqs = ["c20parse %s %s %s" % (esc(isa), esc(kind), " ".join(esc(l) for l in ls)) for ls in lines_list]
    return [parse_entries(r) for r in ctx.driver.ask(reqs)]


def flush_spec(ctx, spec_batch, replay_of):
    """evaluate the queued snapping checks with the Lean Spec; (mode, text, result Fraction|None, tag)"""
    if not spec_batch:
        return
    reqs = []
    for mode, text, r, tag in spec_batch:
        if text is None:
            reqs.append("ping")
        else:
            reqs.append("c20spec %s %s %s" % (esc(mode), esc(frs(fr(text))), esc("none" if r is None else frs(r))))
    for (mode, text, r, tag), rep in zip(spec_batch, ctx.driver.ask(reqs)):
        ctx.count("spec_evaluations")
        if text is None:
            if r is not None:
                ctx.violation("%s: a %s value %s is recorded although the file has no such measurement (invented)" % (tag, mode, r),
                              replay_of(tag, mode, text, r))
            continue
        if rep != "1":
            what = ("%s: measurement %s (%s) recorded as %s, which the 5%% rule does not allow"
                    % (tag, text, mode, "missing" if r is None else str(float(r))))
            ctx.violation(what, replay_of(tag, mode, text, r))
    del spec_batch[:]


def run(ctx):
    ctx.assumptions = TRUSTED
    ctx.prove(["ImportConsts"], ["OsacaVerif.Props.C20"])
    ctx.thorough_recheck(["OsacaVerif.Props.C20"])
    ctx.env = core.Env("C20", archs=list(ARCHS.values()))
    ctx.env.activate()
    import osaca.db_interface as dbi

    rng = ctx.rng
    thorough = ctx.tier == "thorough"
    boost = 3 if ctx.broken else 1
    N1 = (40000 if thorough else 6000) * boost
    N3 = (4000 if thorough else 600) * boost
    N4 = (600 if thorough else 56) * boost
    dist = ctx.cov["distribution"]

    # ---------------------------------------------------------------- K1 / S1: _validate_measurement
    cases = []
    for n in range(1, 13):  # enumerated edges and centres of every window
        for c in (Fraction(19, 20), Fraction(21, 20), Fraction(1)):
            for d in (0, Fraction(1, 10 ** 6), -Fraction(1, 10 ** 6)):
                cases.append(("tp", fmt_dec(None, c / n + d, 8)))
    for k in range(0, 45):
        for c in (Fraction(19, 20), Fraction(21, 20), Fraction(1)):
            for d in (0, Fraction(1, 10 ** 6), -Fraction(1, 10 ** 6)):
                if k * c + d >= 0:
                    cases.append(("lt", fmt_dec(None, k * c + d, 8)))
        cases.append(("lt", "%d.5" % k))
    cases += [("lt", "-0.5"), ("lt", "-1"), ("tp", "-0.5"), ("tp", "0"), ("lt", "0"), ("lt", "1000000.4"), ("tp", "1000")]
    while len(cases) < N1:
        mode = rng.choice(["tp", "lt"])
        cases.append((mode, gen_meas(rng, mode)))
    impl = []
    for mode, text in cases:
        try:
            impl.append(res_to_frac(dbi._validate_measurement(float(text), mode)))
        except Exception as e:  # noqa
            impl.append("exc:" + type(e).__name__)
    reqs = []
    for mode, text in cases:
        m = fr(text)
        reqs += ["c20val %s %s" % (esc(mode), esc(frs(m))),
                 "c20val %s %s" % (esc(mode), esc(frs(m * (1 + Fraction(1, 10 ** 7))))),
                 "c20val %s %s" % (esc(mode), esc(frs(m * (1 - Fraction(1, 10 ** 7)))))]
    rep = ctx.driver.ask(reqs)
    spec_batch = []
    n_bound = n_nontrivial = n_corr = 0
    for j, ((mode, text), r) in enumerate(zip(cases, impl)):
        mods = [parse_opt(x) if x not in ("bad-number", "bad-mode") else "bad" for x in rep[3 * j:3 * j + 3]]
        bnd = is_boundary(mode, fr(text))
        n_bound += bnd
        ok = (not isinstance(r, str)) and (close(r, mods[0]) or (bnd and any(close(r, x) for x in mods[1:])))
        if not ok:
            n_corr += 1
            if n_corr <= 3:
                ctx.correspondence_break("_validate_measurement", {"mode": mode, "measurement": text, "impl": str(r),
                                                                   "model": str(mods[0]), "boundary": bnd})
        if not isinstance(r, str):
            spec_batch.append((mode, text, r, "_validate_measurement"))
            n_nontrivial += r is not None
    ctx.count("validate_cases", len(cases))
    ctx.count("validate_boundary_cases", n_bound)
    ctx.count("validate_accepted", n_nontrivial)
    ctx.count("validate_corr_disagreements", n_corr)
    flush_spec(ctx, spec_batch, lambda tag, mode, text, r: {"kind": "validate", "mode": mode, "measurement": text,
                                                             "impl": None if r is None else str(r)})
    ctx.sample({"kind": "validate", "mode": "tp", "measurement": "0.334", "impl": str(dbi._validate_measurement(0.334, "tp"))})
    ctx.sample({"kind": "validate", "mode": "lt", "measurement": "12.5", "impl": str(dbi._validate_measurement(12.5, "lt"))})
    ctx.log("K1/S1 _validate_measurement: %d cases (%d on a 5%% edge, %d accepted), %d disagreements"
            % (len(cases), n_bound, n_nontrivial, n_corr))

    # ---------------------------------------------------------------- K2 / S2: operand codes
    codes = set()
    alpha = "rxyzimbospvwhdqk4"
    for a in alpha:
        codes.add(a)
        for b in alpha:
            codes.add(a + b)
    for isa in ("x86", "a64"):
        for mask in range(1 << len(FLAGS[isa])):
            fl = [c for i, c in enumerate(FLAGS[isa]) if mask >> i & 1]
            codes.add("m" + "".join(fl))
            rng.shuffle(fl)
            codes.add("m" + "".join(fl))
    codes |= {"", "rax", "xyz", "wxbhsdq", "vdd", "V", "R", "mq", "mbx", "mm", "im", "mboisrpx", "mbbo"}
    codes = sorted(codes)
    doc_cache = {}
    n_doc = n_corr2 = n_spec2 = 0
    for isa in ("x86", "a64"):
        reps = ctx.driver.ask(["c20op %s %s" % (esc(isa), esc(c)) for c in codes] + ["c20doc %s %s" % (esc(isa), esc(c)) for c in codes])
        for j, c in enumerate(codes):
            mod, doc = parse_op_reply(reps[j]), parse_op_reply(reps[len(codes) + j])
            doc_cache[(isa, c)] = doc
            try:
                r = dbi._create_db_operand(c, "x86" if isa == "x86" else "aarch64")
                r = dict(r) if r is not None else "returned None"
            except ValueError:
                r = None
            except Exception as e:  # noqa
                r = "exc:" + type(e).__name__
            if r != mod:
                n_corr2 += 1
                if n_corr2 <= 3:
                    ctx.correspondence_break("_create_db_operand", {"isa": isa, "code": c, "impl": str(r), "model": str(mod)})
            if doc is not None:
                n_doc += 1
                if r != doc:
                    n_spec2 += 1
                    if n_spec2 <= 3:
                        ctx.violation("operand code %r (%s) decodes to %s, documented: %s" % (c, isa, r, doc),
                                      {"kind": "operand", "isa": isa, "code": c, "impl": str(r), "documented": doc})
    ctx.count("operand_codes", 2 * len(codes))
    ctx.count("operand_documented_codes", n_doc)
    ctx.count("operand_corr_disagreements", n_corr2)
    ctx.count("operand_spec_failures", n_spec2)
    ctx.log("K2/S2 _create_db_operand: %d codes x 2 ISAs (%d documented), %d disagreements, %d spec failures"
            % (len(codes), n_doc, n_corr2, n_spec2))

    # ---------------------------------------------------------------- baselines (also: the model's own forms)
    baseline = {isa: baseline_for(ctx, arch) for isa, arch in ARCHS.items()}
    existing = {isa: baseline[isa]["own_names"] for isa in ARCHS}
    existing_field = {isa: esc(",".join("%s:%d" % (n, a) for n, a in existing[isa])) for isa in ARCHS}
    for isa in ARCHS:
        if any("," in n or ":" in n for n, _ in existing[isa]):
            raise core.InfraError("form name with , or : in %s" % ARCHS[isa])
    ctx.log("baseline dumps: zen1 %d forms, tx2 %d forms" % (len(existing["x86"]), len(existing["a64"])))

    # ---------------------------------------------------------------- K3: parsers in-process
    files = []
    for j in range(N3):
        isa = "x86" if j % 2 == 0 else "a64"
        kind = "ibench" if (j // 2) % 2 == 0 else "asmbench"
        gen = gen_ibench_file if kind == "ibench" else gen_asmbench_file
        files.append((isa, kind, gen(rng, isa, existing[isa], documented_only=False, allow_error=True)))
    n_corr3 = 0
    outcomes = {}
    for isa in ("x86", "a64"):
        for kind in ("ibench", "asmbench"):
            sel = [f for f in files if f[0] == isa and f[1] == kind]
            variants = [perturbed_variants(kind, f[2]) for f in sel]
            flat = [v for vs in variants for v in vs]
            mods = model_parse(ctx, isa, kind, flat)
            pos = 0
            for f, vs in zip(sel, variants):
                ms = mods[pos:pos + len(vs)]
                pos += len(vs)
                r = impl_parse(dbi, kind, f[2], isa)
                oc = r if isinstance(r, str) else "ok"
                outcomes[kind + ":" + oc] = outcomes.get(kind + ":" + oc, 0) + 1
                if not any(entries_equal(r, m, True) for m in ms):
                    n_corr3 += 1
                    if n_corr3 <= 3:
                        ctx.correspondence_break("_get_%s_output" % kind, {"isa": isa, "file": "".join(f[2]),
                                                                           "impl": show_entries(r), "model": show_entries(ms[0])})
    ctx.count("parse_files", len(files))
    ctx.count("parse_corr_disagreements", n_corr3)
    dist["parse_outcomes"] = outcomes
    ctx.log("K3 parsers in-process: %d files %s, %d disagreements" % (len(files), outcomes, n_corr3))

    # ---------------------------------------------------------------- K4 / S3: the CLI
    cli = []
    for j in range(N4):
        isa = "x86" if j % 2 == 0 else "a64"
        kind = "ibench" if (j // 2) % 2 == 0 else "asmbench"
        gen = gen_ibench_file if kind == "ibench" else gen_asmbench_file
        lines = gen(rng, isa, existing[isa], documented_only=(j % 8 != 7), allow_error=(j % 16 == 15),
                    force_collision=(j < 4))
        path = os.path.join(ctx.env.work, "bench-%d.dat" % j)
        with open(path, "w") as f:
            f.write("".join(lines))
        cli.append((isa, kind, lines, path))
    # fixed corpus: the shapes of D9, D10, D11 and the README examples
    corpus = [
        ("a64", "asmbench", ["fadd-vd_vd_v\n", "Latency: 4.013 cy\n", "Throughput: 0.501 cy\n", "\n",
                             "ldp-d_d_mo\n", "Latency: 3.9 cy\n", "Throughput: 0.98 cy\n"]),           # D9
        ("x86", "ibench", ["CVTPD2PS-x_x-TP: 1.0 (clock cycles)\n", "CVTPD2PS-x_x-LT: 4.0 (clock cycles)\n",
                           "FOOTP-r_r-LT: 1.0 (clock cycles)\n"]),                                       # D10
        ("x86", "ibench", ["vaddpd-x_x_x-TP: 0.5 (clock cycles)\n", "vaddpd-x_x_x-LT: 3.0 (clock cycles)\n"]),   # D11
        ("x86", "ibench", ["mov-r_mboi-TP: 0.5 (c)\n", "vfmadd213pd-mbis_y_y-TP: 0.5 (c)\n", "vfmadd213pd-mbis_y_y-LT: 5.0 (c)\n"]),
        ("a64", "ibench", ["fadd-vd_vd_v-TP: 0.5 (c)\n", "ldp-d_d_mo-LT: 4.0 (c)\n", "fmov-s_i-TP: 0.26 (c)\n", "fmov-s_i-LT: 2.5 (c)\n"]),
        # two imported forms of one NEW lower-case mnemonic with equal operand counts: both must be emitted
        ("x86", "ibench", ["qqfma-x_x_x-TP: 0.5 (c)\n", "qqfma-x_x_x-LT: 4.0 (c)\n", "qqfma-y_y_y-TP: 1.0 (c)\n", "qqfma-y_y_y-LT: 4.0 (c)\n"]),
        ("x86", "asmbench", ["qqadd-x_x\n", "Latency: 3.0 cy\n", "Throughput: 0.5 cy\n", "\n",
                             "qqadd-y_y\n", "Latency: 3.0 cy\n", "Throughput: 1.0 cy\n", "\n"]),
    ]
    for j, (isa, kind, lines) in enumerate(corpus):
        path = os.path.join(ctx.env.work, "corpus-%d.dat" % j)
        with open(path, "w") as f:
            f.write("".join(lines))
        cli.append((isa, kind, lines, path))
    with ThreadPoolExecutor(max_workers=8) as ex:
        results = list(ex.map(lambda c: run_cli(ctx, ARCHS[c[0]], c[1], c[3]), cli))
    n_corr4 = n_forms = n_emitted = 0
    cli_out = {}
    spec_batch = []
    tags = {}
    for isa in ("x86", "a64"):
        for kind in ("ibench", "asmbench"):
            idx = [j for j, c in enumerate(cli) if c[0] == isa and c[1] == kind]
            variants = [perturbed_variants(kind, cli[j][2]) for j in idx]
            flat = [v for vs in variants for v in vs]
            mods = model_import(ctx, isa, kind, existing_field[isa], flat)
            pos = 0
            for j, vs in zip(idx, variants):
                ms = mods[pos:pos + len(vs)]
                pos += len(vs)
                res = results[j]
                lines = cli[j][2]
                r = res["exc"] if res.get("exc") else res["added"]
                oc = r if isinstance(r, str) else "ok"
                cli_out[kind + ":" + oc] = cli_out.get(kind + ":" + oc, 0) + 1
                if not isinstance(r, str):
                    n_emitted += len(r)
                if not any(entries_equal(r, m, False) for m in ms):
                    n_corr4 += 1
                    if n_corr4 <= 3:
                        ctx.correspondence_break("osaca --import %s (%s)" % (kind, ARCHS[isa]),
                                                 {"file": "".join(lines), "impl": show_entries(r), "model": show_entries(ms[0]),
                                                  "stderr": res.get("stderr", "")[-200:]})
                before = len(spec_batch)
                for what, key in oracle_cli(ctx, isa, kind, lines, res, baseline[isa], doc_cache, spec_batch):
                    ctx.violation(what, {"kind": "cli", "isa": isa, "arch": ARCHS[isa], "bench": kind, "file": "".join(lines),
                                         "what": what, "emitted": show_entries(r)}, key=key)
                    ctx.count("cli_known_d11" if key else "cli_spec_failures")
                for t in spec_batch[before:]:
                    tags[t[3]] = (isa, kind, lines)
                ref = ref_ibench(lines) if kind == "ibench" else ref_asmbench(lines)
                n_forms += len(ref or {})
    flush_spec(ctx, spec_batch, lambda tag, mode, text, r: {
        "kind": "cli", "isa": tags[tag][0], "arch": ARCHS[tags[tag][0]], "bench": tags[tag][1], "file": "".join(tags[tag][2]),
        "form": tag, "mode": mode, "measurement": text, "impl": None if r is None else str(r)})
    ctx.count("cli_files", len(cli))
    ctx.count("cli_forms_in_files", n_forms)
    ctx.count("cli_forms_emitted", n_emitted)
    ctx.count("cli_corr_disagreements", n_corr4)
    dist["cli_outcomes"] = cli_out
    for j in (0, 1, len(cli) - 5, len(cli) - 3):
        c, res = cli[j], results[j]
        ctx.sample({"kind": "cli", "arch": ARCHS[c[0]], "bench": c[1], "file": "".join(c[2])[:400],
                    "emitted": show_entries(res["exc"] if res.get("exc") else res["added"])})
    ctx.log("K4/S3 CLI import: %d files %s, %d documented forms, %d emitted, %d disagreements"
            % (len(cli), cli_out, n_forms, n_emitted, n_corr4))

    ctx.cov["traces_validated_against_impl"] = len(cases) + 2 * len(codes) + len(files) + len(cli)
    ctx.cov["evaluations"] = ctx.counts.get("spec_evaluations", 0) + n_doc + n_forms
    ctx.cov["distinct_nontrivial"] = n_nontrivial + n_doc + n_emitted
    ctx.cov["rule"] = ("evaluations = Spec-oracle evaluations on implementation outputs (snapping checks, documented operand "
                       "codes, documented forms of the CLI files); non-trivial = accepted measurements + documented codes "
                       "+ forms emitted by the CLI")
    dist["generators"] = {
        "measurements": "decimal text, 1-8 fractional digits: 1/n*(1+d) for n=1..12 and k*(1+d) for k=0..40 with d in "
                        "{0, +-1%, +-3%, +-4.9%, +-4.99%, +-5.01%, +-5.1%, +-6%, +-20%}, exact 5% edges (terminating ones), "
                        "x.5 ties, uniform background; all edges +-1e-6 enumerated for K1",
        "forms": "mnemonics lower/UPPER/Mixed incl. names containing TP/LT and names of the target model; 1-4 operands over "
                 "all documented codes (memory flags: random subset, random order, repeats), 12% undocumented codes in K3",
        "ibench": "1-10 forms, TP/LT lines single, repeated, either order, shuffled over the file, 'Using frequency' lines",
        "asmbench": "1-8 blocks, 0-2 structural edits (delete line, insert blank, duplicate line, truncate), optional "
                    "missing final blank line, repeated names",
    }
    return ctx.finish(trusted=TRUSTED)


# =========================================================================== replay
def replay(ctx, path):
    rep = json.load(open(path))["replay"]
    kind = rep.get("kind")
    if kind not in ("validate", "operand", "cli"):
        print("replay names a broken theorem/correspondence, not an input:", json.dumps(rep)[:800])
        ctx.cleanup()
        return 1
    ctx.env = core.Env("C20", archs=list(ARCHS.values()))
    ctx.env.activate()
    import osaca.db_interface as dbi

    with core.lean_lock():
        err = ctx.lean.build_driver()
    if err:
        raise core.InfraError("driver does not build: " + err[-600:])
    ctx.driver = core.Driver(os.path.join(core.LEAN_DIR, ".lake", "build", "bin", "driver"))
    rc = 0
    if kind == "validate":
        r = res_to_frac(dbi._validate_measurement(float(rep["measurement"]), rep["mode"]))
        ok = ctx.driver.ask1("c20spec %s %s %s" % (esc(rep["mode"]), esc(frs(fr(rep["measurement"]))), esc("none" if r is None else frs(r))))
        print("_validate_measurement(%s, %r) = %s ; allowed by the 5%% rule: %s" % (rep["measurement"], rep["mode"], r, ok == "1"))
        rc = 0 if ok == "1" else 1
    elif kind == "operand":
        try:
            r = dict(dbi._create_db_operand(rep["code"], "x86" if rep["isa"] == "x86" else "aarch64"))
        except Exception as e:  # noqa
            r = "exc:" + type(e).__name__
        doc = parse_op_reply(ctx.driver.ask1("c20doc %s %s" % (esc(rep["isa"]), esc(rep["code"]))))
        print("_create_db_operand(%r, %s) = %s ; documented: %s" % (rep["code"], rep["isa"], r, doc))
        rc = 0 if r == doc else 1
    else:
        isa, bench = rep["isa"], rep["bench"]
        lines = rep["file"].splitlines(True)
        p = os.path.join(ctx.env.work, "replay.dat")
        with open(p, "w") as f:
            f.write(rep["file"])
        base = baseline_for(ctx, ARCHS[isa])
        res = run_cli(ctx, ARCHS[isa], bench, p)
        codes = set()
        for l in lines:
            for part in re.split(r"[-_:\s]", l):
                codes.add(part)
        codes = sorted(codes)
        docs = ctx.driver.ask(["c20doc %s %s" % (esc(isa), esc(c)) for c in codes])
        doc_cache = {(isa, c): parse_op_reply(d) for c, d in zip(codes, docs)}
        batch = []
        fails = oracle_cli(ctx, isa, bench, lines, res, base, doc_cache, batch)
        print("emitted:", show_entries(res["exc"] if res.get("exc") else res["added"]))
        for what, key in fails:
            print("FAIL%s: %s" % (" (known finding %s)" % key if key else "", what))
            if not key:
                rc = 1
        if batch:
            reqs = [("c20spec %s %s %s" % (esc(m), esc(frs(fr(t))), esc("none" if r is None else frs(r)))) if t is not None else "ping"
                    for m, t, r, tag in batch]
            for (m, t, r, tag), ok in zip(batch, ctx.driver.ask(reqs)):
                bad = (t is None and r is not None) or (t is not None and ok != "1")
                if bad:
                    print("FAIL: %s %s measurement %s recorded as %s" % (tag, m, t, r))
                    rc = 1
    print("replay: %s" % ("property holds on this input now" if rc == 0 else "property fails on this input"))
    ctx.cleanup()
    return rc
