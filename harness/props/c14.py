"""C14 - Loop-carried dependencies are invariant under rotation of the loop body.

proof:   Props/C14.lean (rotation is a permutation of the body, composes, renumbering is well-formed); the
         central invariance statement is NOT proved yet (kept as TODO-FULL) -- claimed below proof level.
tie:     correspondence of get_loopcarried_dependencies() with LCD.lcd for every rotation.
search:  the metamorphic relation itself on the real code: for every rotation offset the reported cycles,
         mapped to instruction identities, and the maximum latency must equal the unrotated ones.
"""
from harness import core, dgcheck
from harness.props.c03 import replay_common


def ident_set(im, order):
    """LCD set with line numbers replaced by instruction identities (indices into the original body)"""
    by_line = {ins.line_number: order[j] for j, ins in enumerate(im.kernel)}
    return {(tuple(sorted(by_line[l] for l in ls)), lat) for ls, lat in im.lcd_set()}


def long_kernels(ctx):
    """kernels beyond the 50-line threshold of the multi-process search with a line in the MIDDLE that depends on itself across the
    iteration: one rotation puts it last (every seed has them; the shipped long kernels are a third per seed in the quick tier)"""
    from osaca.semantics import MachineModel

    for t in range(2 if ctx.tier == "quick" else 12):
        isa = "x86" if t % 2 == 0 else "aarch64"
        arch = ctx.rng.choice(dgcheck.models_for(ctx, isa))
        core_lines, _ = dgcheck.gen_kernel(ctx.rng, isa, 6, "plain")
        n_pad = ctx.rng.randrange(50, 56) - len(core_lines) - 1
        if isa == "x86":
            pad = ["vaddpd %%xmm%d, %%xmm%d, %%xmm%d" % (12 + i % 3, 12 + (i + 1) % 3, 15) for i in range(n_pad)]
            selfdep = ctx.rng.choice(["imulq %rsi, %rdx", "vmulpd %xmm9, %xmm10, %xmm10"])
        else:
            pad = ["fadd d%d, d%d, d%d" % (28, 29 + i % 2, 30) for i in range(n_pad)]
            selfdep = ctx.rng.choice(["mul x13, x13, x14", "fmul d27, d27, d26"])
        cut = ctx.rng.randrange(1, n_pad)
        lines = core_lines + pad[:cut] + [selfdep] + pad[cut:]
        try:
            yield dgcheck.Impl(isa, arch, lines, False, MachineModel(arch=arch)), {"source": "generated-long", "kind": "long"}
            ctx.count("kernels_beyond_threshold")
        except Exception as e:  # noqa
            ctx.violation("analysis of a %d-line kernel raised %s" % (len(lines), type(e).__name__),
                          {"isa": isa, "arch": arch, "kernel": lines, "flag_deps": False, "exception": type(e).__name__})


def run(ctx):
    import itertools

    dgcheck.setup(ctx, "C14", ["RegTables", "Consts"], ["OsacaVerif.Props.C14"])
    n = (60 if ctx.tier == "quick" else 1500) * (3 if ctx.broken else 1)
    distinct = set()
    for im, src in itertools.chain(dgcheck.kernels_stream(ctx, n, 8 if ctx.tier == "quick" else 14, big=True,
                                                          kinds=["plain", "mem", "memdep", "coupled", "coupled", "wbmix", "wbmix"]),
                                   long_kernels(ctx)):
        lines = im.lines
        if len(lines) < 2 or (16 < len(lines) < 50):
            continue
        ctx.count("kernels")
        base = ident_set(im, list(range(len(lines))))
        if base:
            distinct.add(repr((im.isa, lines, im.fd)))
        offs = list(range(1, len(lines)))
        if len(lines) >= 50:
            # kernels that take the multi-process search: every line once as the last line would be 50+ runs; sample,
            # always including the rotations that put a self-dependent line last
            # (a line that forms a cycle on its own is last after a rotation by its index + 1)
            must = sorted({ids[0] + 1 for ids, _ in base if len(ids) == 1 and ids[0] + 1 < len(lines)})[:2]
            offs = must + [o for o in ctx.rng.sample(offs, 4 if ctx.tier == "quick" else 12) if o not in must]
            offs = offs[: (4 if ctx.tier == "quick" else 12)]
        elif ctx.tier == "quick" and len(offs) > 6:
            offs = ctx.rng.sample(offs, 6)
        for r in offs:
            rot = lines[r:] + lines[:r]
            order = list(range(r, len(lines))) + list(range(r))
            try:
                # every third rotation on a freshly loaded machine model (as a new command-line run has it): anything a model
                # object remembers from the unrotated analysis must not be what makes the rotations agree
                mm2 = im.mm
                if (ctx.counts.get("rotations", 0) % 3 == 0 or src.get("kind") == "wbmix") and im.arch != "synisa":
                    from osaca.semantics import MachineModel

                    MachineModel._runtime_cache.clear()
                    mm2 = MachineModel(arch=im.arch)
                    ctx.count("rotations_on_fresh_model")
                im2 = dgcheck.Impl(im.isa, im.arch, rot, im.fd, mm2)
            except Exception as e:  # noqa
                ctx.violation("analysis of a rotated kernel raised %s" % type(e).__name__, dict(im.info(), rotation=r))
                continue
            ctx.count("rotations")
            dgcheck.compare_lcd(ctx, im2)
            got = ident_set(im2, order)
            if not dgcheck.lcd_close(got, base):
                ctx.violation("rotating the loop body by %d lines changes the reported loop-carried dependencies" % r,
                              dict(im.info(), rotation=r, unrotated=sorted(base), rotated=sorted(got)))
        if ctx.counts["kernels"] == 1:
            ctx.sample({"kernel": lines, "isa": im.isa, "arch": im.arch, "lcd_by_instruction": sorted(base)})
        if len(ctx.violations) > 10:
            break
    ctx.cov["evaluations"] = ctx.counts.get("rotations", 0)
    ctx.cov["distinct_nontrivial"] = len(distinct)
    ctx.cov["programs"] = ctx.counts.get("kernels", 0)
    ctx.cov["disagreements_checked"] = ctx.counts.get("rotations", 0)
    ctx.cov["traces_validated_against_impl"] = ctx.counts.get("lcd_compared", 0)
    ctx.cov["rule"] = "kernels (shipped + generated) x rotation offsets; non-trivial = kernels with at least one loop-carried cycle"
    ctx.log("%d kernels, %d rotations" % (ctx.counts.get("kernels", 0), ctx.counts.get("rotations", 0)))
    return ctx.finish(trusted=dgcheck.TRUSTED)


def replay(ctx, path):
    return replay_common(ctx, path, "C14")
