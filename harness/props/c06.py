"""C06 - Store-to-load dependencies through provably equal addresses on both ISAs.

proof:   Props/C06.lean (same_location_edge, untouched_iff_disp_eq, no_edge_when_disp_differs,
         no_edge_when_regs_differ, no_edge_when_unknown, no_edge_when_scale_differs, store_ends_search,
         update_add_add) about DG.isMemload / DG.updateState.
tie:     correspondence of create_DG on generated store/load kernels (all addressing shapes, pointer bumps,
         copies, clobbers, second store; both ISAs; shipped models), edges with weights.
search:  the generator's own symbolic bookkeeping (a third implementation): store->load edge iff same location;
         after an access post-indexed by a register (`ld1 {v5.2d}, [x1], x2`, `st1 {v3.4s}, [x4], x5`) its base is unknown:
         no store->load dependency through it is reported, none is demanded (Props/C06 no_edge_after_register_post_index).
         symbolic displacements (`foo(%rip)`, `[x2, #:lo12:foo]`): edge only for the identical symbol with equal tracked registers,
         never a crash (no_edge_symbol_vs_number, no_edge_different_symbols); a post-/pre-indexed FIRST store: edges according to the
         architectural address (post_indexed_store_edge, store_load_edge_sound runs the producer's changesPost).
         a copy into a clobbered register makes it known again (copy_from_known_makes_known; fixed witness kernels `sticky-unknown`
         run first, the generators produce the pattern).  notes/C06.md
"""
from harness import core, dgcheck
from harness.props.c03 import replay_common


# fixed witness kernels, run first.  key `sticky-unknown`: a register changed beyond reconstruction (`mul x4, x4, x7`) and then
# overwritten by a fresh copy of a tracked register (`mov x4, x2`) is known again -- the tracker used to keep it unknown for good
# (no store->load edge 1->5); Props/C06 copy_from_known_makes_known, notes/C06.md
WITNESSES = [
    ("sticky-unknown", "aarch64", ["str d1, [x2, #8]", "mov x4, x2", "mul x4, x4, x7", "mov x4, x2", "ldr d2, [x4, #8]",
                                   "fadd d3, d2, d2"]),
    ("sticky-unknown", "x86", ["movq %rax, 8(%rbx)", "movq %rbx, %rcx", "imulq %rdx, %rcx", "movq %rbx, %rcx",
                               "movq 8(%rcx), %rsi", "addq %rsi, %r12"]),
    # key `copy-outlives-original`: a copy of the address register taken after the store still names the stored location when
    # the ORIGINAL register is overwritten beyond reconstruction afterwards (pointer chasing); seeded C06-m3
    ("copy-outlives-original", "x86", ["movq %rax, 8(%rbx)", "movq %rbx, %rdx", "movq (%rbx), %rbx", "movq 8(%rdx), %rcx",
                                       "addq %rcx, %r12"]),
    ("copy-outlives-original", "x86", ["movq %rax, 8(%rbx,%rcx,8)", "movq %rcx, %rdx", "imulq %rsi, %rcx",
                                       "movq 8(%rbx,%rdx,8), %r9", "addq %r9, %r12"]),
    ("copy-outlives-original", "aarch64", ["str x1, [x2, #8]", "mov x6, x2", "ldr x2, [x2]", "ldr x3, [x6, #8]",
                                           "add x9, x3, x3"]),
    ("copy-outlives-original", "aarch64", ["str x1, [x2, x5, lsl #3]", "mov x6, x5", "mul x5, x5, x7",
                                           "ldr x3, [x2, x6, lsl #3]", "add x9, x3, x3"]),
]


def witnesses(ctx):
    """the fixed witness kernels on every model of the tier (same location, known, no second store)"""
    for key, isa, lines in WITNESSES:
        for arch in dgcheck.models_for(ctx, isa):
            ctx.count("witness_kernels")
            yield (dgcheck.Impl(isa, arch, list(lines), False),
                   {"source": "witness", "key": key, "meta": {"same_location": True, "known": True, "second_store": False}})


def run(ctx):
    import itertools

    dgcheck.setup(ctx, "C06", ["RegTables"], ["OsacaVerif.Props.C06"])
    n = (400 if ctx.tier == "quick" else 8000) * (3 if ctx.broken else 1)
    distinct = set()
    for im, src in itertools.chain(witnesses(ctx), dgcheck.kernels_stream(ctx, n, 10, kinds=["memdep"], real=False)):
        ctx.count("kernels")
        dgcheck.compare_dg(ctx, im)
        meta = src.get("meta") or {}
        k = im.kernel
        # store = first line, load = the line before the last; a second store to the same operand may sit in between
        store, load = k[0], k[-2]
        second_store = bool(meta.get("second_store"))
        edge = im.edges().get((str(store.line_number), str(load.line_number)))
        ctx.count("expected_same" if meta.get("same_location") else "expected_diff")
        if meta.get("symbolic"):
            ctx.count("symbolic_displacement")
        if meta.get("store_writeback"):
            ctx.count("store_with_writeback")
        if meta.get("register_edge_to_load"):
            # the store wrote its base register back and the load reads that very register: the two lines are connected
            # through the register whatever the addresses are -- the graph cannot show the memory dependency on its own
            ctx.count("not_judged_register_edge_store_to_load")
            continue
        if meta.get("wb_base_rewritten") and meta.get("same_location"):
            # the written-back base is overwritten before the load: the implementation ends its scan there (memStop);
            # no dependency is demanded (none may be reported for different locations, judged below)
            ctx.count("not_demanded_writeback_base_rewritten")
            continue
        if meta.get("same_location") and not second_store:
            distinct.add(repr((im.isa, im.lines)))
            if edge is None:
                ctx.violation("store and load address the same location but no store->load dependency is reported",
                              dict(im.info(), store=im.lines[0], load=im.lines[-2], edges=sorted("%s>%s" % e for e in im.edges())),
                              key=src.get("key"))
            else:
                fwd = float(im.mm.get("store_to_load_forward_latency", 0) or 0)
                base = store.latency_wo_load if store.latency_wo_load is not None else store.latency
                want = float(base or 0) + fwd
                if abs(edge - want) > 1e-9:
                    ctx.violation("store->load edge weight %r, expected store latency + forwarding latency = %r" % (edge, want),
                                  dict(im.info(), edge=edge, expected=want))
        if meta.get("load_through_unknown"):
            # the load forms its address with a register that an access post-indexed by a REGISTER (`ld1 {v5.2d}, [x1], x2`)
            # moved by an unknown amount (or with a copy of it): nothing can be said about the location -- no
            # store->load dependency is demanded, and none may be reported
            ctx.count("expected_unknown_after_register_post_index")
            if meta.get("same_location"):
                raise core.InfraError("generator bookkeeping: a location behind a register post-index is claimed to be known: %r" % (im.lines,))
            if edge is not None and not second_store:
                ctx.violation("store->load dependency reported through a base register that was post-indexed by a register "
                              "(changed by an unknown amount) after the store",
                              dict(im.info(), store=im.lines[0], load=im.lines[-2], edge=edge, register_post_index=meta.get("register_post_index")))
        elif not meta.get("same_location") and not second_store:
            # different displacement / different base / changed beyond reconstruction: no dependency through memory.
            # (a register RAW edge between the two lines cannot exist: the store writes no register the load reads,
            #  except AArch64 write-back bases, which the generator does not use on the store)
            if edge is not None:
                ctx.violation("store->load dependency reported although the locations differ or are unknown",
                              dict(im.info(), store=im.lines[0], load=im.lines[-2], edge=edge))
        if ctx.counts["kernels"] == 1:
            ctx.sample({"kernel": im.lines, "isa": im.isa, "arch": im.arch, "meta": meta, "edges": sorted("%s>%s" % e for e in im.edges())})
        if len(ctx.violations) > 10:
            break
    # ---- register changes inside the model (Isa.regChanges, Props/C03Roles.lean, harness/rolescheck.py)
    from harness import rolescheck
    rolescheck.run(ctx, None, volume=0.6)
    ctx.cov["evaluations"] = ctx.counts.get("kernels", 0)
    ctx.cov["distinct_nontrivial"] = len(distinct)
    ctx.cov["traces_validated_against_impl"] = ctx.counts.get("dg_compared", 0)
    ctx.cov["rule"] = "generated store/load kernels; non-trivial = same-location cases (an edge must exist), distinct by text"
    ctx.log("%d kernels: %d same-location, %d different (%d of them: the load's base was post-indexed by a register)"
            % (ctx.counts.get("kernels", 0), ctx.counts.get("expected_same", 0), ctx.counts.get("expected_diff", 0),
               ctx.counts.get("expected_unknown_after_register_post_index", 0)))
    return ctx.finish(trusted=dgcheck.TRUSTED)


def replay(ctx, path):
    return replay_common(ctx, path, "C06")
