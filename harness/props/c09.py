"""C09 - x86 AT&T parser recovers every line and operand exactly as written.

proof:   Props/C09.lean over Model/ParseX86.lean (hand-written recursive-descent model of the
         pyparsing grammar) and Spec/X86Render.lean (independent renderer): parse_file line
         accounting for all files, exclusive classification, round trip parse(render ast layout) = ast,
         `gen_*` theorems tying every literal of the model to Gen/X86Parser.lean (regenerated from the
         parser source and from the constructed grammar objects on every run).
tie:     translator (Gen/X86Parser) + correspondence: ParserX86ATT().parse_line / parse_file vs the
         Lean driver on rendered random ASTs with random layout, on enumerated operand forms, on
         files mixing all line classes and blank lines; a malformed stream is compared for
         information only.
search:  render -> real parser -> compare with the AST it was rendered from (needs no model);
         volume is raised when a proof, the translator or the correspondence broke.
"""
import json
import os

from harness import core
from harness import x86gen as G
from harness.core import esc

TRUSTED = [
    "Lean 4.33 kernel; axioms of every theorem audited (allowed: propext, Classical.choice, Quot.sound)",
    "tools/gen/x86parser.py: AST extraction of the parser's literals; structural dump + sha256 of the constructed "
    "pyparsing grammar (grammar_unchanged compares digests, not grammars)",
    "correspondence harness harness/props/c09.py + harness/x86gen.py (generators, canonical text of InstructionForm)",
    "modelled, not verified: the pyparsing engine (white skipping, Optional/Or/MatchFirst semantics, expandtabs), "
    "Python int(text, 0), str.split/strip/join - the theorems speak about the Lean model of them",
]

FIXED_KEY = "x86-bare-displacement-layout"

# hand-picked lines: (line, expected canonical text).  Always run first, model and oracle.
CORPUS = [
    ("mov %rax, %rbx", "K =mov ~ ~ ~ 0 2 R;=rax R;=rbx"),
    ("\tvfmadd231pd\t-0x40(%rsi,%rax,8), %zmm1, %zmm0 # LLVM-MCA-BEGIN", "K =vfmadd231pd ~ ~ =LLVM-MCA-BEGIN 0 3 M;I-64;=rsi;=rax;8;0 R;=zmm1 R;=zmm0"),
    ("movq $0xFFFFFFFFFFFFFFFF, %r11", "K =movq ~ ~ ~ 0 2 I;18446744073709551615 R;=r11"),
    ("movq $-0x8000000000000000, %r11", "K =movq ~ ~ ~ 0 2 I;-9223372036854775808 R;=r11"),
    ("lea (,%rcx,4), %rdx", "K =lea ~ ~ ~ 0 2 M;~;~;=rcx;4;0 R;=rdx"),
    ("lea 8(,%rcx), %rdx", "K =lea ~ ~ ~ 0 2 M;I8;~;=rcx;1;0 R;=rdx"),
    ("lea (%rax,%rcx), %rdx", "K =lea ~ ~ ~ 0 2 M;~;=rax;=rcx;1;0 R;=rdx"),
    ("lea (%rax,%rcx,1), %rdx", "K =lea ~ ~ ~ 0 2 M;~;=rax;=rcx;1;0 R;=rdx"),
    ("mov .LC0(%rip), %xmm31", "K =mov ~ ~ ~ 0 2 M;L=.LC0;=rip;~;1;0 R;=xmm31"),
    ("mov 8 , %rax", "K =mov ~ ~ ~ 0 2 M;I8;~;~;1;0 R;=rax"),
    ("mov 8, %rax", "K =mov ~ ~ ~ 0 2 M;I8;~;~;1;0 R;=rax"),
    ("mov %rax , -8 ", "K =mov ~ ~ ~ 0 2 R;=rax M;I-8;~;~;1;0"),
    ("mov -0x10 , %rax", "K =mov ~ ~ ~ 0 2 M;I-16;~;~;1;0 R;=rax"),
    ("jne .L10 // back", "K =jne ~ ~ =back 0 1 L;=.L10"),
    ("mov $.LC1, %edi", "K =mov ~ ~ ~ 0 2 L;=.LC1 R;=edi"),
    ("ret", "K =ret ~ ~ ~ 0 0"),
    ("vpinsrq $1, %rax, %xmm0, %xmm1", "K =vpinsrq ~ ~ ~ 0 4 I;1 R;=rax R;=xmm0 R;=xmm1"),
    ("# just  a\tcomment ", "K ~ ~ ~ =just%20a%20comment 0 0"),
    (".L10:", "K ~ =.L10 ~ ~ 0 0"),
    (".align 16, 0x90 # pad", "K ~ ~ =align =pad 2 =16 =0x90 0"),
]


def volumes(ctx):
    if ctx.tier == "thorough":
        v = dict(lines=150000, files=3000, malformed=40000)
    else:
        v = dict(lines=9000, files=250, malformed=3000)
    if ctx.broken:  # something no longer checks: search harder for a concrete failing input
        mult = 4 if ctx.tier == "quick" else 2
        v = {k: n * mult for k, n in v.items()}
    return v


def enumerated(rng):
    """Deterministic sweep of the operand forms of the property's domain, in several layouts."""
    out = []  # (ast, line)
    lay = [("", " ", ""), (" ", "\t", " "), ("\t", "  ", "\t ")]

    def emit(mn, ops_txt, ops_ast, li):
        pre, mid, post = lay[li % 3]
        sep = [",", ", ", " ,", " , ", "\t,\t"][li % 5]
        line = pre + mn + (mid if ops_txt else "") + sep.join(ops_txt) + post
        out.append(({"mn": mn, "ops": ops_ast, "comment": None}, line))

    k = 0
    for r in G.ALL_REGS:  # every register of the domain, in every operand position
        for variant in (r, r.upper()):
            for pos in range(4):
                ops_a = [["reg", "rdx"]] * pos + [["reg", variant]]
                ops_t = ["%rdx"] * pos + ["%" + variant]
                emit("mov", ops_t, ops_a, k)
                k += 1
    vals = [0, 1, 7, 8, 9, 10, 15, 16, 17, 99, 100, 255, 256, 4095, 65535, 65536, 2 ** 31 - 1, 2 ** 31, 2 ** 32 - 1,
            2 ** 32, 2 ** 63 - 1, 2 ** 63, 2 ** 64 - 1, 0xABCDEF, 0xabcdef0123456789, 0xdeadbeef, 1234567890123456789]
    for v in vals:
        for sign in (1, -1):
            for fmt in ("d", "x", "X", "0x"):
                a = v
                s = {"d": "%d" % a, "x": "0x%x" % a, "X": "0x%X" % a, "0x": "0x00%x" % a}[fmt]
                if sign < 0:
                    s = "-" + s
                val = sign * v
                emit("add", ["$" + s, "%rax"], [["imm", val], ["reg", "rax"]], k)
                emit("add", [s + "(%rbp)", "%rax"], [["mem", ["imm", val], "rbp", None, 1], ["reg", "rax"]], k + 1)
                emit("add", ["%rax", s], [["reg", "rax"], ["mem", ["imm", val], None, None, 1]], k + 2)
                emit("add", [s, "%rax"], [["mem", ["imm", val], None, None, 1], ["reg", "rax"]], k + 3)
                k += 1
    disps = [None, ["imm", 8], ["imm", -8], ["imm", 0x40], ["imm", -0x40], ["ident", ".LC0"], ["ident", "var"]]
    for d in disps:
        for base in (None, "rax", "r13"):
            for index in (None, "rcx", "zmm7"):
                for scale in (1, 2, 4, 8):
                    if index is None and scale != 1:
                        continue
                    if base is None and index is None:
                        continue
                    for shown in (True, False):
                        if scale != 1 and not shown:
                            continue
                        for inner in ("", " ", "\t"):
                            dt = ""
                            if d is not None:
                                dt = d[1] if d[0] == "ident" else (("%d" % d[1]) if abs(d[1]) < 10 else (("-" if d[1] < 0 else "") + "0x%x" % abs(d[1])))
                            t = dt + "(" + inner
                            if base:
                                t += "%" + base + inner
                            if index:
                                t += "," + inner + "%" + index + inner
                                if shown:
                                    t += "," + inner + str(scale) + inner
                            t += ")"
                            m = ["mem", d, base, index, scale]
                            emit("lea", [t, "%rdx"], [m, ["reg", "rdx"]], k)
                            emit("vmovapd", ["%ymm1", t], [["reg", "ymm1"], m], k + 1)
                            k += 1
    for lab in G.LABELS:
        emit("jmp", [lab], [["ident", lab]], k)
        emit("mov", ["$" + lab, "%rax"], [["ident", lab], ["reg", "rax"]], k + 1)
        emit("cmp", ["%rax", "$" + lab], [["reg", "rax"], ["ident", lab]], k + 2)
        k += 1
    return out


def classify_op(o):
    if o[0] != "mem":
        return o[0]
    return "mem:" + ("d" if o[1] is not None else "-") + ("b" if o[2] else "-") + ("i" if o[3] else "-") + str(o[4])


def shrink_line(px, ast, line, rng):
    """Try simpler renderings of the same AST / of single operands that still fail."""
    import random

    cands = []
    for i, o in enumerate(ast["ops"]):
        if i == 0 or not (o[0] == "ident"):
            a = {"mn": ast["mn"], "ops": [o], "comment": None}
            if G.renderable(a):
                cands.append(a)
    cands.append({"mn": ast["mn"], "ops": ast["ops"], "comment": None})
    for a in cands:
        for s in range(6):
            r = random.Random(s)
            l = G.render_line(r, a).strip() if s == 0 else G.render_line(r, a)
            exp = G.canon_expected("instruction", ast=a)
            got = G.impl_line(px, l, 1)
            if G.property_view(got) != G.property_view(exp):
                return a, l, exp, got
    return ast, line, G.canon_expected("instruction", ast=ast), G.impl_line(px, line, 1)


def bare_first(ast):
    ops = ast["ops"]
    return bool(ops) and ops[0][0] == "mem" and ops[0][2] is None and ops[0][3] is None


def impl_file(px, content, start):
    try:
        forms = px.parse_file(content, start)
    except ValueError as e:
        return ("E", str(e)[:200])
    except AttributeError as e:
        return ("A", str(e)[:200])
    except Exception as e:  # noqa
        return ("X:" + type(e).__name__, str(e)[:200])
    return [(f.line_number, f.line, G.canon_impl_form(f)) for f in forms]


def parse_model_file(reply):
    recs = reply.split(" || ")
    n = int(recs[0])
    out = []
    for r in recs[1:]:
        no, text, canon = r.split(" ", 2)
        out.append((int(no), core.unesc(text), canon))
    assert len(out) == n, (n, len(out))
    return out


def run(ctx):
    ctx.assumptions = TRUSTED
    ctx.prove(["X86Parser"], ["OsacaVerif.Props.C09"])
    ctx.thorough_recheck(["OsacaVerif.Props.C09"])
    ctx.env = core.Env("C09", copy_models=False)
    ctx.env.activate()
    import warnings

    warnings.simplefilter("ignore")
    from osaca.parser import ParserX86ATT

    px = ParserX86ATT()
    rng = ctx.rng
    dist = {"nops": {}, "operand_kinds": {}, "line_classes": {}, "impl_results_malformed": {},
            "impl_results_extended": {}}
    n_corr = n_spec = 0

    def note_corr(name, detail):
        nonlocal n_corr
        n_corr += 1
        if n_corr <= 3:
            ctx.correspondence_break(name, detail)

    def note_violation(what, replay, key=None):
        nonlocal n_spec
        n_spec += 1
        if n_spec <= 3:
            ctx.violation(what, replay, key=key)

    # ------------------------------------------------------------------ corpus + enumerated + random lines
    def run_lines(items, label):
        """items: (ast or None, line, expected canonical text).  Correspondence + oracle."""
        lines = [l for _, l, _ in items]
        impl = [G.impl_line(px, l, 7) for l in lines]
        model = ctx.driver.ask(["x86line " + esc(l) for l in lines])
        for (ast, line, exp), i, m in zip(items, impl, model):
            if i != m:
                note_corr("parse_line[%s]" % label, {"line": line, "impl": i, "model": m})
            if G.property_view(i) != G.property_view(exp):
                nonlocal n_spec
                if n_spec >= 3:
                    n_spec += 1
                    continue
                if ast is not None:
                    a2, l2, e2, g2 = shrink_line(px, ast, line, rng)
                else:
                    a2, l2, e2, g2 = None, line, exp, i
                note_violation("parse_line(%r) = %s, written: %s" % (l2, g2, e2),
                               {"kind": "line", "line": l2, "expected": e2, "observed": g2, "ast": a2,
                                "original_line": line},
                               key=FIXED_KEY if (a2 is not None and bare_first(a2)) else None)
        ctx.count("lines_" + label, len(items))
        return impl

    run_lines([(None, l, e) for l, e in CORPUS], "corpus")
    enum = enumerated(rng)
    run_lines([(a, l, G.canon_expected("instruction", ast=a)) for a, l in enum], "enumerated")
    vol = volumes(ctx)
    items = []
    seen = set()
    for _ in range(vol["lines"]):
        ast, line = G.gen_instruction_line(rng)
        exp = G.canon_expected("instruction", ast=ast)
        items.append((ast, line, exp))
        n = len(ast["ops"])
        dist["nops"][n] = dist["nops"].get(n, 0) + 1
        for o in ast["ops"]:
            kd = classify_op(o)
            dist["operand_kinds"][kd] = dist["operand_kinds"].get(kd, 0) + 1
        if n:
            seen.add(exp)
    for lo in range(0, len(items), 5000):
        if n_spec >= 3 and lo > 0:
            break  # failing inputs already in hand: no need for the full volume
        run_lines(items[lo:lo + 5000], "random")
    for a, l, e in items[:3]:
        ctx.sample({"line": l, "expected": e})
    ctx.log("lines: corpus %d, enumerated %d, random %d; correspondence disagreements %d, oracle failures %d"
            % (len(CORPUS), len(enum), len(items), n_corr, n_spec))

    # ------------------------------------------------------------------ other line classes
    others = []
    for _ in range(max(600, vol["lines"] // 6)):
        x = rng.random()
        if x < 0.34:
            d, l = G.gen_comment_line(rng)
            e = G.canon_expected("comment", words=d["words"])
        elif x < 0.67:
            d, l = G.gen_label_line(rng)
            e = G.canon_expected("label", name=d["name"], comment=d["comment"])
        else:
            d, l = G.gen_directive_line(rng)
            e = G.canon_expected("directive", name=d["name"], params=d["params"], comment=d["comment"])
        dist["line_classes"][d["kind"]] = dist["line_classes"].get(d["kind"], 0) + 1
        others.append((None, l, e))
    run_lines(others, "other_classes")

    # ------------------------------------------------------------------ spec stream: the Lean specification's renderer
    # Lines with explicit layout: the text the theorems speak about (Spec.X86R.renderLine) must be the
    # text this harness renders, must be `valid`, and the real parser must return the AST on it.
    spec_lines = [G.gen_spec_line(rng) for _ in range(max(800, vol["lines"] // 6))]
    replies = ctx.driver.ask(["x86spec " + G.encode_spec(l) for l in spec_lines])
    n_spec_tie = 0
    for l, rep in zip(spec_lines, replies):
        parts = rep.split(" ", 2)
        text = G.render_spec(l)
        exp = G.canon_expected("instruction", ast=l["ast"])
        got = G.impl_line(px, text, 7)
        if len(parts) != 3 or parts[0] != "1" or core.unesc(parts[1]) != text or parts[2] != exp:
            n_spec_tie += 1
            note_corr("spec-renderer", {"line": text, "lean": rep[:400], "expected": exp})
        if G.property_view(got) != G.property_view(exp):
            note_violation("parse_line(%r) = %s, written: %s" % (text, got, exp),
                           {"kind": "line", "line": text, "expected": exp, "observed": got, "ast": l["ast"]},
                           key=FIXED_KEY if bare_first(l["ast"]) else None)
    ctx.count("lines_spec_renderer", len(spec_lines))
    ctx.count("spec_renderer_disagreements", n_spec_tie)

    # ------------------------------------------------------------------ extended stream (model vs implementation only)
    ext = [G.gen_extended_line(rng) for _ in range(max(1500, vol["lines"] // 4))]
    impl = [G.impl_line(px, l, 7) for l in ext]
    model = ctx.driver.ask(["x86line " + esc(l) for l in ext])
    for l, i, m in zip(ext, impl, model):
        dist["impl_results_extended"][i[:1]] = dist["impl_results_extended"].get(i[:1], 0) + 1
        if i != m:
            note_corr("parse_line[extended]", {"line": l, "impl": i, "model": m})
    ctx.count("lines_extended", len(ext))

    # ------------------------------------------------------------------ files
    nf = nfl = 0
    reqs, metas = [], []
    for _ in range(vol["files"]):
        fl = G.gen_file(rng)
        start = rng.choice([0, 0, 0, 1, 7, 999, rng.randint(0, 5000)])
        content = "\n".join(t for _, t in fl)
        if rng.random() < 0.5:
            content += "\n"
            fl = fl + [(None, "")]
        if not fl:
            fl = [(None, "")]
        expected = [(i + 1 + start, t, e) for i, (e, t) in enumerate(fl) if e is not None]
        reqs.append("x86file %s %s" % (esc(str(start)), esc(content)))
        metas.append((content, start, expected))
        nfl += len(fl)
    replies = ctx.driver.ask(reqs) if reqs else []
    for (content, start, expected), rep in zip(metas, replies):
        nf += 1
        impl = impl_file(px, content, start)
        model = parse_model_file(rep)
        bad = [r for r in model if not r[2].startswith("K")]
        if isinstance(impl, tuple):
            model_view = ("E" if bad and bad[0][2] == "E" else "A" if bad else "ok", bad[0][0] if bad else None)
            if not bad or impl[0] != bad[0][2] or (impl[0] == "E" and "line %d:" % bad[0][0] not in impl[1] and "on line" in impl[1]):
                note_corr("parse_file", {"content": content, "start": start, "impl": impl, "model": model_view})
        elif bad or impl != model:
            diff = next((p for p in zip(impl, model) if p[0] != p[1]), (len(impl), len(model)))
            note_corr("parse_file", {"content": content, "start": start, "first_difference": diff})
        view = lambda rows: [(n, t, G.property_view(c)) for n, t, c in rows]
        if isinstance(impl, tuple) or view(impl) != view(expected):
            if isinstance(impl, tuple):
                obs = impl
            else:
                obs = next((p for p in zip(impl, expected) if (p[0][0], p[0][1], G.property_view(p[0][2])) !=
                            (p[1][0], p[1][1], G.property_view(p[1][2]))), ("lengths", len(impl), len(expected)))
            note_violation("parse_file: result differs from the lines as written: %s" % (obs,),
                           {"kind": "file", "content": content, "start": start,
                            "expected": [list(x) for x in expected], "observed": str(obs)[:1000]})
    ctx.count("files", nf)
    ctx.count("file_lines", nfl)
    ctx.log("files: %d (%d lines); correspondence disagreements %d, oracle failures %d" % (nf, nfl, n_corr, n_spec))

    # ------------------------------------------------------------------ malformed stream (information only)
    mal = []
    base_lines = [l for _, l, _ in items[: vol["malformed"]]] + [l for _, l, _ in others[: vol["malformed"] // 5]]
    for l in base_lines:
        m = l
        for _ in range(rng.choice([1, 1, 2, 3])):
            m = G.mutate_line(rng, m)
        if "\n" not in m:
            mal.append(m)
    impl = [G.impl_line(px, l, 7) for l in mal]
    model = ctx.driver.ask(["x86line " + esc(l) for l in mal]) if mal else []
    n_mal = 0
    for l, i, m in zip(mal, impl, model):
        dist["impl_results_malformed"][i[:1]] = dist["impl_results_malformed"].get(i[:1], 0) + 1
        if i != m:
            n_mal += 1
            if n_mal <= 3:
                ctx.log("model-maintenance note (malformed line, not an alarm): %r impl=%s model=%s" % (l, i, m))
    ctx.count("malformed_lines", len(mal))
    ctx.count("malformed_disagreements", n_mal)
    ctx.log("malformed stream: %d lines, %d model/impl disagreements (informational)" % (len(mal), n_mal))

    ctx.count("correspondence_disagreements", n_corr)
    ctx.count("oracle_failures", n_spec)
    ctx.cov["distribution"] = dist
    ctx.cov["evaluations"] = len(CORPUS) + len(enum) + len(items) + len(others) + nfl + len(spec_lines)
    ctx.cov["traces_validated_against_impl"] = ctx.cov["evaluations"] + len(mal) + len(ext)
    ctx.cov["distinct_nontrivial"] = len(seen) + len(enum)
    ctx.cov["rule"] = ("lines rendered from random instruction ASTs (0-4 operands: registers of all GPR widths and "
                       "xmm/ymm/zmm0-31, decimal/hex immediates up to 64 bit with sign, $labels and a bare label first, "
                       "memory operands in the 7 non-empty base/index/displacement combinations, scales 1/2/4/8) with random "
                       "blanks/tabs around every token and optional trailing comment; a deterministic sweep of the operand "
                       "forms; comment/label/directive lines; files mixing all of them with blank lines and CRLF; "
                       "non-trivial = distinct expected parses with at least one operand")
    return ctx.finish(trusted=TRUSTED)


def replay(ctx, path):
    rep = json.load(open(path))["replay"]
    ctx.env = core.Env("C09", copy_models=False)
    ctx.env.activate()
    import warnings

    warnings.simplefilter("ignore")
    from osaca.parser import ParserX86ATT

    px = ParserX86ATT()
    kind = rep.get("kind")
    rc = 0
    if kind == "line":
        got = G.impl_line(px, rep["line"], 1)
        print("parse_line(%r)\n  observed: %s\n  written:  %s" % (rep["line"], got, rep["expected"]))
        rc = 0 if G.property_view(got) == G.property_view(rep["expected"]) else 1
    elif kind == "file":
        got = impl_file(px, rep["content"], rep["start"])
        exp = [tuple(x) for x in rep["expected"]]
        view = lambda rows: [(n, t, G.property_view(c)) for n, t, c in rows]
        ok = not isinstance(got, tuple) and view(got) == view(exp)
        print("parse_file(%r, %d): %s" % (rep["content"], rep["start"], "as written" if ok else "differs: %s" % (got,)))
        rc = 0 if ok else 1
    else:
        print("replay names a broken theorem/correspondence, not an input:", json.dumps(rep)[:1500])
        rc = 1
    ctx.cleanup()
    return rc
