"""C02 - Optimised schedule never worse than uniform and close to the true optimum.

proof:   Props/C02.lean -- kernel_feasible (C01 per instruction => the kernel totals are a feasible
         schedule of all micro-ops), lowerBound_le_max (a feasible schedule never undercuts
         max_S confined(S)/|S| by more than its slack), transfer_max_le, within_of_bounds.
bounded-exhaustive part (the property's own clause): all 5 355 kernels of the 3-port family through the
         real add_semantics + two balancing passes; exact optimum from the Lean Spec (`lowerbound`).
search:  random kernels on synthetic models: bottleneck(optimised) <= bottleneck(uniform),
         >= lowerBound - rounding step.
"""
import itertools
import json
import multiprocessing
import os
from fractions import Fraction

from harness import core, synthmodel as S
from harness.core import esc, frac

TRUSTED = [
    "Lean 4.33 kernel; axioms audited (subset of propext, Classical.choice, Quot.sound)",
    "the exact optimum max_S confined(S)/|S| is proved to be the minimum over all fractional assignment matrices (Props/C02Duality: optimum_eq_lowerBound; Mathlib's Hall theorem)",
    "harness/props/c02.py: family enumeration, multiprocessing fan-out, comparison with 1e-9 tolerance",
    "the 0.15 clause and 'optimised <= uniform' are decided by executing the real code on the enumerated family / "
    "generated kernels, not by a theorem (Props/C02.lean states what is proved)",
]
PORTS3 = ["0", "1", "2"]


def family_forms():
    forms = []
    i = 0
    for cyc in (1, 2):
        for r in (1, 2, 3):
            for sub in itertools.combinations(PORTS3, r):
                forms.append({"name": S.mnemonic(i), "pp": [[cyc, list(sub)]], "tp": float(cyc), "lat": 1, "cyc": cyc})
                i += 1
    return forms


def family_kernels(forms):
    one = [f for f in forms if f["cyc"] == 1]
    ks = []
    for L in (1, 2, 3):
        ks += [list(t) for t in itertools.product(range(len(forms)), repeat=L)]
    idx1 = [forms.index(f) for f in one]
    ks += [list(t) for t in itertools.product(idx1, repeat=4)]
    return ks


_W = {}


def _init(model_path, forms, cli_arch="zen1"):
    _W["cli_arch"] = cli_arch
    import warnings

    warnings.filterwarnings("ignore")
    from osaca.parser import ParserX86ATT
    from osaca.semantics import ArchSemantics, MachineModel

    _W["mm"] = MachineModel(path_to_yaml=model_path)
    _W["sem"] = ArchSemantics(_W["mm"])
    _W["px"] = ParserX86ATT()
    _W["forms"] = forms
    _W["cache"] = {}
    # the CLI path: osaca.inspect with the family model installed as a user model (see run()); the kernel the
    # report is rendered from is captured instead of rendering it
    import osaca.osaca as oo

    class Capture(oo.Frontend):
        def full_analysis(self, kernel, kernel_dg, **kw):
            _W["cli"] = max(ArchSemantics.get_throughput_sum(kernel))
            return ""

    oo.Frontend = Capture
    _W["oo"] = oo


def _bottlenecks(kernel_idx):
    forms, px, sem = _W["forms"], _W["px"], _W["sem"]
    out = []
    for ks in kernel_idx:
        lines = []
        for j, fi in enumerate(ks):
            a, b = S.REGS[(2 * j) % len(S.REGS)], S.REGS[(2 * j + 1) % len(S.REGS)]
            lines.append("%s %%%s, %%%s" % (forms[fi]["name"], a, b))
        kernel = px.parse_file("\n".join(lines))
        sem.add_semantics(kernel)
        res = {"uniform": max(sem.get_throughput_sum(kernel))}
        try:
            sem.assign_optimal_throughput(kernel)
            res["once"] = max(sem.get_throughput_sum(kernel))
            sem.assign_optimal_throughput(kernel)
            res["twice"] = max(sem.get_throughput_sum(kernel))
            res["neg"] = min(min(i.port_pressure) for i in kernel)
        except Exception as e:  # noqa
            res["exc"] = type(e).__name__
        # the same kernel through osaca.inspect (what the command line does)
        try:
            import argparse
            import io

            f = io.StringIO("\n".join(lines) + "\n")
            f.name = "family.s"
            args = argparse.Namespace(file=f, arch=_W["cli_arch"], fixed=False, verbose=0, ignore_unknown=False, lines=None,
                                      lcd_timeout=-1, consider_flag_deps=False, dotpath=None, yaml_out=None)
            _W["cli"] = None
            _W["oo"].inspect(args, output_file=io.StringIO())
            res["cli"] = _W["cli"]
        except Exception as e:  # noqa
            res["cli_exc"] = type(e).__name__
        out.append(res)
    return out


def run(ctx):
    ctx.assumptions = TRUSTED
    ctx.prove(["Consts"], ["OsacaVerif.Props.C02", "OsacaVerif.Props.C02Duality"])
    ctx.thorough_recheck(["OsacaVerif.Props.C02", "OsacaVerif.Props.C02Duality"])
    ctx.env = core.Env("C02", archs=[])
    ctx.env.activate()
    import warnings

    warnings.filterwarnings("ignore")
    from osaca.parser import ParserX86ATT
    from osaca.semantics import ArchSemantics, MachineModel

    inc = Fraction(ctx.driver.ask1("consts").split(" ")[0])
    step = float(inc)
    # ------------------------------------------------------------------ exhaustive family
    forms = family_forms()
    model = {"ports": PORTS3, "forms": forms}
    mpath = S.write_model(model, ctx.env.work, "family3")
    # the same model as user model `zen1` in the private HOME, so that `osaca.inspect --arch zen1` uses it
    S.write_model(model, ctx.env.data, "zen1")
    kernels = family_kernels(forms)
    assert len(kernels) == 5355, len(kernels)
    nproc = 16
    chunks = [kernels[i::nproc * 4] for i in range(nproc * 4)]
    with multiprocessing.get_context("fork").Pool(nproc, initializer=_init, initargs=(mpath, forms)) as pool:
        parts = pool.map(_bottlenecks, chunks)
    results = {}
    for ch, part in zip(chunks, parts):
        for ks, r in zip(ch, part):
            results[tuple(ks)] = r
    reqs = []
    for ks in kernels:
        uops = []
        for fi in ks:
            uops += S.resolve_uops(model, forms[fi]["pp"])
        reqs.append("lowerbound %s" % esc(S.enc_uops(uops)))
    lbs = [Fraction(x) for x in ctx.driver.ask(reqs)]
    worst_excess = worst_under = 0.0
    worst_kernel = None
    nontriv = 0
    for ks, lb in zip(kernels, lbs):
        r = results[tuple(ks)]
        desc = [(forms[fi]["cyc"], forms[fi]["pp"][0][1]) for fi in ks]
        info = {"kind": "family", "kernel": desc, "lower_bound": float(lb)}
        if "exc" in r:
            ctx.violation("optimised scheduling raised %s on family kernel %s" % (r["exc"], desc), dict(info, exception=r["exc"]))
            continue
        b = r["twice"]
        if r.get("cli") is None:
            ctx.violation("osaca.inspect raised %s on family kernel %s" % (r.get("cli_exc"), desc), dict(info, exception=r.get("cli_exc")))
            continue
        if abs(r["cli"] - b) > 1e-9:
            # what the command line reports differs from add_semantics + two balancing passes
            ctx.correspondence_break("inspect-vs-two-passes", dict(info, cli=r["cli"], api_twice=b))
            b = r["cli"]
        if r["uniform"] - float(lb) > 1e-9:
            nontriv += 1
        excess, under = b - float(lb), float(lb) - b
        if excess > worst_excess:
            worst_excess, worst_kernel = excess, desc
        worst_under = max(worst_under, under)
        if excess > 0.15 + 1e-9:
            ctx.violation("reported bottleneck %.2f is more than 0.15 above the exact optimum %.4f for kernel %s" % (b, float(lb), desc),
                          dict(info, reported=b, state="twice"))
        if under > step + 1e-9:
            ctx.violation("reported bottleneck %.2f undercuts the exact optimum %.4f by more than the rounding step for kernel %s" % (b, float(lb), desc),
                          dict(info, reported=b, state="twice"))
        for st in ("once", "twice"):
            if r[st] > r["uniform"] + 1e-9:
                ctx.violation("optimised (%s) bottleneck %.2f exceeds the uniform bottleneck %.2f for kernel %s" % (st, r[st], r["uniform"], desc),
                              dict(info, reported=r[st], uniform=r["uniform"], state=st))
        if r["once"] - float(lb) < -(step + 1e-9):
            ctx.violation("optimised (once) bottleneck %.2f undercuts the exact optimum %.4f for kernel %s" % (r["once"], float(lb), desc),
                          dict(info, reported=r["once"], state="once"))
    ctx.count("family_kernels", len(kernels))
    ctx.cov["family"] = {"kernels": len(kernels), "exhaustive": True, "worst_excess_over_optimum": round(worst_excess, 4),
                         "worst_excess_kernel": worst_kernel, "worst_undercut": round(worst_under, 4),
                         "kernels_where_uniform_is_suboptimal": nontriv}
    ctx.sample({"family_kernel": worst_kernel, "excess": round(worst_excess, 4)})
    ctx.log("family: %d kernels, worst excess over optimum %.4f (%s), worst undercut %.4f" % (len(kernels), worst_excess, worst_kernel, worst_under))

    # ------------------------------------------------------------------ random kernels
    rng = ctx.rng
    px = ParserX86ATT()
    n = (150 if ctx.tier == "quick" else 3000) * (3 if ctx.broken else 1)
    distinct = set()
    # the recorded witness of the known finding `undercut-accumulates-per-uop` runs first, so that the finding is shown on every run
    WITNESS = ({"ports": ['0', '1', '10', '11'],
                "forms": [{"name": "zzcx", "pp": [[0.25, ['1', '11']], [1, ['11', '10']]], "tp": 0.625, "lat": 1},
                          {"name": "zzdx", "pp": [[1.5, ['10', '0', '1']]], "tp": 1.5, "lat": 1},
                          {"name": "zzex", "pp": [[21, ['10']], [0.5, ['11', '0', '10', '1']]], "tp": 10.75, "lat": 1}]},
               ['zzex %r15, %r12', 'zzcx %rax, %rdx', 'zzex %r8, %rax', 'zzdx %r9, %r13', 'zzex %rax, %r15', 'zzex %r8, %rdx',
                'zzex %r11, %r13', 'zzdx %rsi, %r12', 'zzex %r9, %rsi', 'zzex %rax, %r8', 'zzex %rcx, %r8', 'zzex %r13, %r12',
                'zzex %r13, %r10', 'zzex %rbx, %r9', 'zzdx %r11, %rsi', 'zzcx %r9, %r12'])
    for t in range(-1, n):
        if t < 0:
            m = WITNESS[0]
        else:
            m = S.random_model(rng, n_forms=rng.randint(2, 6), max_uops=rng.choice([1, 1, 2, 3]))
        path = S.write_model(m, ctx.env.work, "r%d" % (t % 50) if t >= 0 else "witness")
        MachineModel._runtime_cache.pop(path, None)
        mm = MachineModel(path_to_yaml=path)
        sem = ArchSemantics(mm)
        lines = S.random_kernel(rng, m, rng.randint(1, 8 if ctx.tier == "quick" else 20)) if t >= 0 else WITNESS[1]
        byname = {f["name"].upper(): f for f in m["forms"]}
        if all(byname[l.split()[0].upper()]["tp"] == 0.0 for l in lines):
            continue
        kernel = px.parse_file("\n".join(lines))
        sem.add_semantics(kernel)
        uni = max(sem.get_throughput_sum(kernel))
        uops = []
        for ins in kernel:
            f = byname[ins.mnemonic.upper()]
            if f["tp"] != 0.0:
                uops += S.resolve_uops(m, f["pp"])
        lb = float(Fraction(ctx.driver.ask1("lowerbound %s" % esc(S.enc_uops(uops)))))
        info = {"kind": "random", "model_yaml": S.model_yaml(m), "kernel": lines, "lower_bound": lb, "uniform": uni}
        distinct.add(repr((m["ports"], lines)))
        ctx.count("random_kernels")
        n_uops = len(uops)
        try:
            sem.assign_optimal_throughput(kernel)
            once = max(sem.get_throughput_sum(kernel))
        except Exception as e:  # noqa
            ctx.violation("optimised scheduling (first pass) raised %s" % type(e).__name__, dict(info, state="once", exception=type(e).__name__))
            continue
        if once > uni + 1e-9:
            ctx.violation("optimised (once) bottleneck %.2f exceeds uniform %.2f" % (once, uni), dict(info, state="once", reported=once))
        # slack of the theorem: 1/2 INC per micro-op (kernel_feasible) + rounding of the sum
        if once < lb - (step / 2 * n_uops + 0.005 + 1e-9):
            ctx.violation("optimised (once) bottleneck %.2f undercuts the optimum %.4f by more than the proven slack" % (once, lb),
                          dict(info, state="once", reported=once))
        elif once < lb - (step + 0.005 + 1e-9):
            # the property's own bound is ONE rounding step; what is proved (and what the balancer guarantees) is half a step per
            # micro-op of the kernel.  Between the two lies a genuine, recorded defect of the balancer (known finding)
            ctx.count("undercut_beyond_one_step_within_proven_slack")
            ctx.violation("optimised (once) bottleneck %.2f undercuts the optimum %.4f by more than the rounding step %.2f (within the "
                          "proven half step per micro-op: %d micro-ops)" % (once, lb, step, n_uops),
                          dict(info, state="once", reported=once), key="undercut-accumulates-per-uop")
        try:
            sem.assign_optimal_throughput(kernel)
            twice = max(sem.get_throughput_sum(kernel))
        except Exception as e:  # noqa
            ctx.violation("optimised scheduling (second pass) raised %s" % type(e).__name__,
                          dict(info, state="twice", exception=type(e).__name__), key="second-pass")
            continue
        if twice > uni + 1e-9:
            ctx.violation("optimised (twice) bottleneck %.2f exceeds uniform %.2f" % (twice, uni), dict(info, state="twice", reported=twice),
                          key="second-pass")
        if twice < lb - (step / 2 * n_uops + 0.005 + 1e-9):
            ctx.violation("optimised (twice) bottleneck %.2f undercuts the optimum %.4f by more than the balancing slack" % (twice, lb),
                          dict(info, state="twice", reported=twice), key="second-pass")
        if t == 0:
            ctx.sample({"kernel": lines, "ports": m["ports"], "uniform": uni, "once": once, "twice": twice, "lower_bound": lb})
    ctx.cov["programs"] = len(kernels) + ctx.counts.get("random_kernels", 0)
    ctx.cov["evaluations"] = len(kernels) + ctx.counts.get("random_kernels", 0)
    ctx.cov["distinct_nontrivial"] = nontriv + len(distinct)
    ctx.cov["rule"] = ("family: every ordered kernel of length <= 3 over the 14 single-micro-op forms on the non-empty subsets of 3 ports "
                       "(cycles 1, 2) and of length 4 over the seven 1-cycle forms (non-trivial: uniform schedule is not optimal); "
                       "random: distinct (port list, kernel) pairs on synthetic 2-8 port models with up to 3 micro-ops per form")
    return ctx.finish(trusted=TRUSTED)


def replay(ctx, path):
    rep = json.load(open(path))["replay"]
    if rep.get("kind") not in ("family", "random"):
        print("replay names a broken theorem/correspondence:", json.dumps(rep)[:800])
        return 1
    ctx.env = core.Env("C02", archs=[])
    ctx.env.activate()
    from osaca.parser import ParserX86ATT
    from osaca.semantics import ArchSemantics, MachineModel

    if rep["kind"] == "family":
        forms = family_forms()
        model = {"ports": PORTS3, "forms": forms}
        mpath = S.write_model(model, ctx.env.work, "family3")
        lines = []
        for j, (cyc, ports) in enumerate(rep["kernel"]):
            f = next(f for f in forms if f["cyc"] == cyc and f["pp"][0][1] == ports)
            lines.append("%s %%%s, %%%s" % (f["name"], S.REGS[2 * j % 14], S.REGS[(2 * j + 1) % 14]))
    else:
        mpath = os.path.join(ctx.env.work, "replay.yml")
        open(mpath, "w").write(rep["model_yaml"])
        lines = rep["kernel"]
    mm = MachineModel(path_to_yaml=mpath)
    sem = ArchSemantics(mm)
    k = ParserX86ATT().parse_file("\n".join(lines))
    sem.add_semantics(k)
    uni = max(sem.get_throughput_sum(k))
    sem.assign_optimal_throughput(k)
    once = max(sem.get_throughput_sum(k))
    sem.assign_optimal_throughput(k)
    twice = max(sem.get_throughput_sum(k))
    print("uniform %.2f once %.2f twice %.2f lower bound %.4f" % (uni, once, twice, rep["lower_bound"]))
    ctx.cleanup()
    ok = twice <= rep["lower_bound"] + 0.15 + 1e-9 and twice <= uni + 1e-9 and twice >= rep["lower_bound"] - 0.0101
    return 0 if ok else 1
