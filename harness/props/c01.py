"""C01 - Port pressure is a feasible split of each instruction's micro-ops.

proof:   Props/C01.lean -- average_eq_uniform, uniform_feasible (exact), steps_feasible (any sequence
         of guarded balancing moves, INC regenerated from the source), colSums_spec.
tie:     translator (Gen/Consts: INC, rounding digits, the throughput filter) + correspondence:
         K1 average_port_pressure / get_throughput_sum vs the Lean model on synthetic port models
         (multi-character port names, duplicate ports, alternatives) and random line sets;
         K2 trace refinement: every mutation the real balancer performs on a port_pressure vector
         (recorded by list subclasses, no change to /repo) is replayed as a guarded move of the model.
search:  Spec.checkFeasible (driver) on the implementation's vectors in the states
         {uniform, optimised once, optimised twice} for synthetic and shipped models/kernels.
"""
import json
import os
from fractions import Fraction

from harness import core, corpus, pressure, synthmodel as S
from harness.core import esc, frac

TRUSTED = [
    "Lean 4.33 kernel; axioms audited (subset of propext, Classical.choice, Quot.sound)",
    "tools/gen/consts.py (INC, rounding digits, throughput filter from the AST of arch_semantics.py)",
    "harness: generators (harness/synthmodel.py), recording list subclasses, comparison with 1e-9 tolerance",
    "modelled, not verified: Python float arithmetic and round(); the balancer's float-noise dependent "
    "control flow is covered relationally (any sequence of guarded moves)",
]
KNOWN_TWICE = "second-pass"


def vec(v):
    return ",".join(frac(float(x)) for x in v)


class RecList(list):
    """port_pressure vector that records every element assignment (index, old, new)."""

    def __init__(self, it, log, tag):
        super().__init__(it)
        self._log = log
        self._tag = tag

    def __setitem__(self, i, v):
        self._log.append(("set", self._tag, i, float(self[i]), float(v)))
        super().__setitem__(i, v)

    def __deepcopy__(self, memo):
        return list(self)

    def __reduce__(self):
        return (list, (list(self),))


class RecUops(list):
    """port_uops list whose iteration announces the micro-op index being balanced."""

    def __init__(self, it, log, tag):
        super().__init__(it)
        self._log = log
        self._tag = tag

    def __iter__(self):
        for j in range(len(self)):
            self._log.append(("uop", self._tag, j))
            yield list.__getitem__(self, j)
        self._log.append(("uop", self._tag, None))

    def __deepcopy__(self, memo):
        import copy

        return [copy.deepcopy(x, memo) for x in list.__iter__(self)]


def trace_to_moves(log, n_instr):
    """Group the recorded assignments of each (instruction, micro-op) into moves a->b of amount delta.
    Returns {instr: [(j, a, b, delta)]} or raises ValueError(description) when a group is not a move."""
    moves = {i: [] for i in range(n_instr)}
    cur = {}
    pending = {}  # instr -> {port: delta}

    def flush(i, force=False):
        d = {p: x for p, x in pending.get(i, {}).items() if abs(x) > 1e-12}
        if not d:
            pending[i] = {}
            return
        if len(d) == 2 and abs(sum(d.values())) < 1e-9:
            (p1, x1), (p2, x2) = d.items()
            a, b, delta = (p1, p2, -x1) if x1 < 0 else (p2, p1, -x2)
            moves[i].append((cur.get(i), a, b, delta))
            pending[i] = {}
        elif force:
            raise ValueError("instruction %d micro-op %s: mutation %r is not a move between two ports" % (i, cur.get(i), d))

    for ev in log:
        if ev[0] == "uop":
            _, i, j = ev
            flush(i, force=True)
            cur[i] = j
        else:
            _, i, p, old, new = ev
            pending.setdefault(i, {})
            pending[i][p] = pending[i].get(p, 0.0) + (new - old)
            flush(i)
    for i in list(pending):
        flush(i, force=True)
    return moves


def attribute_residuals(moves, uops_of, inc):
    """The balancer's "add the residual to the former port" step moves what is left of the *instruction's* cell, which
    may stem from other micro-ops of the instruction than the one being balanced.  The model's theorem holds for any
    interleaving of guarded moves over the micro-ops, so such a move is re-attributed to the micro-ops that actually
    hold the amount (largest holder first); ordinary INC moves stay with the micro-op being balanced."""
    out = {}
    inc = float(inc)
    for li, ms in moves.items():
        us = uops_of(li)
        if us is None or not ms:
            out[li] = ms
            continue
        rows = []
        for c, m, idx in us:
            row = {}
            for p in idx:
                row[p] = row.get(p, 0.0) + float(c) * float(m) / len(idx)
            rows.append(row)
        res = []
        for (j, a, b, d) in ms:
            if j is None or j >= len(rows):
                res.append((j, a, b, d))
                continue
            if d >= inc - 1e-9 or d <= 0:
                res.append((j, a, b, d))
                rows[j][a] = rows[j].get(a, 0.0) - d
                rows[j][b] = rows[j].get(b, 0.0) + d
                continue
            remaining = d
            cands = sorted([jj for jj in range(len(rows)) if a in rows[jj] and b in rows[jj]], key=lambda jj: -rows[jj][a])
            for jj in cands:
                if remaining <= 1e-15:
                    break
                t = min(remaining, max(0.0, rows[jj][a] + inc / 2))
                if t <= 0:
                    continue
                res.append((jj, a, b, t))
                rows[jj][a] -= t
                rows[jj][b] += t
                remaining -= t
            if remaining > 1e-12:
                res.append((j, a, b, remaining))   # nobody holds it: let the guard decide
        out[li] = res
    return out


def check_state(ctx, state, kernel, uops_of, n, eps, info, uniform_ref=None):
    """Oracle: every instruction's vector is Feasible(eps) for its micro-ops. Returns #failures."""
    reqs, idx = [], []
    for li, ins in enumerate(kernel):
        us = uops_of(li)
        if us is None:
            continue
        reqs.append("feasible %s %s %s %s" % (esc(frac(eps)), esc(str(n)), esc(S.enc_uops(us)), esc(vec(ins.port_pressure))))
        idx.append(li)
    fails = 0
    for li, rep in zip(idx, ctx.driver.ask_tolerant(reqs, os.path.join(core.VERIF, "replays", "C01"))):
        if rep is None:
            ctx.count("feasible_not_judged_driver_crash")
            continue
        ctx.count("feasible_checks_" + state)
        if rep != "ok":
            fails += 1
            ins = kernel[li]
            what = ("%s state: port pressure %s of `%s` is not a feasible split of its micro-ops %s (clause: %s)"
                    % (state, [round(float(x), 4) for x in ins.port_pressure], (ins.line or "").strip(), uops_of(li), rep))
            replay = dict(info, state=state, line=li, clause=rep, pressure=[float(x) for x in ins.port_pressure], uops=uops_of(li))
            ctx.violation(what, replay, key=KNOWN_TWICE if state == "twice" else None)
    return fails


def check_colsums(ctx, sem, kernel, state, info):
    lines = "|".join("%s:%s" % (frac(float(i.throughput)) if i.throughput is not None else "0", vec(i.port_pressure))
                     for i in kernel if i.port_pressure is not None)
    impl = sem.get_throughput_sum(kernel)
    rep = ctx.driver.ask1("colsums %s" % esc(lines))
    rounded, exact = (rep.split(" ") + [""])[:2]
    mv = [Fraction(x) for x in rounded.split(",")] if rounded else []
    ex = [Fraction(x) for x in exact.split(",")] if exact else []
    ctx.count("colsums_checks")
    if len(mv) != len(impl):
        ctx.correspondence_break("get_throughput_sum", dict(info, state=state, model=rep, impl=list(impl)))
        return
    for p, (m, x, e) in enumerate(zip(mv, impl, ex)):
        if abs(float(m) - float(x)) > 1e-9:
            # tie-sensitive: exact value within 1e-9 of a rounding boundary -> either neighbour accepted
            scaled = float(e) * 100
            if abs((scaled % 1) - 0.5) < 1e-6 and abs(float(m) - float(x)) <= 0.01 + 1e-9:
                ctx.count("colsums_tie_sensitive")
                continue
            ctx.correspondence_break("get_throughput_sum", dict(info, state=state, port=p, model=str(m), impl=x))
            # independent oracle: plain column sum over lines with throughput != 0
            ref = round(sum(float(i.port_pressure[p]) for i in kernel if i.throughput != 0.0), 2)
            if abs(ref - x) > 1e-9:
                ctx.violation("%s state: reported total of port %d is %r, column sum over lines with throughput != 0 is %r"
                              % (state, p, x, ref), dict(info, state=state, port=p, impl=x, expected=ref))
            return


def run_kernel(ctx, mm, sem, parser, kernel, ports, uops_of, info, inc, trace=True):
    n = len(ports)
    import warnings

    warnings.filterwarnings("ignore")
    sem.add_semantics(kernel)
    m_max = max([len(uops_of(i) or []) for i in range(len(kernel))] + [1])
    # ---- uniform
    check_state(ctx, "uniform", kernel, uops_of, n, Fraction(1, 10**9), info)
    check_colsums(ctx, sem, kernel, "uniform", info)
    uni_sums = list(sem.get_throughput_sum(kernel))
    # ---- optimised once, with trace
    log = []
    if trace:
        for li, ins in enumerate(kernel):
            if isinstance(ins.port_uops, list) and ins.port_pressure is not None:
                ins.port_pressure = RecList(ins.port_pressure, log, li)
                ins.port_uops = RecUops(ins.port_uops, log, li)
    try:
        sem.assign_optimal_throughput(kernel)
    except Exception as e:  # noqa
        ctx.violation("optimised scheduling (first pass) raised %s: %s" % (type(e).__name__, e),
                      dict(info, state="once", exception=type(e).__name__))
        return None
    finally:
        for ins in kernel:
            if isinstance(ins.port_pressure, RecList):
                ins.port_pressure = list(ins.port_pressure)
            if isinstance(ins.port_uops, RecUops):
                ins.port_uops = list(list.__iter__(ins.port_uops))
    eps = Fraction(inc) / 2 * m_max + Fraction(1, 10**9)
    check_state(ctx, "once", kernel, uops_of, n, eps, info)
    check_colsums(ctx, sem, kernel, "once", info)
    if trace and log and len(kernel) > 8 and info.get("kind") == "synthetic":
        # the attribution of recorded moves to micro-ops (`attribute_residuals`) is validated for synthetic kernels of up to 8 lines (every
        # quick-tier seed) and for the shipped kernels; on long synthetic kernels with several overlapping micro-ops per instruction it can fail to find an attribution
        # although the state is feasible (thorough tier, 20+ lines) -- a limit of the harness, not of the code: such kernels are
        # judged by the feasibility oracle only
        ctx.count("traces_not_replayed_long_kernel")
    elif trace and log:
        try:
            moves = trace_to_moves(log, len(kernel))
        except ValueError as e:
            ctx.correspondence_break("balancer-trace", dict(info, detail=str(e)))
            moves = None
        if moves is not None:
            moves = attribute_residuals(moves, uops_of, inc)
            reqs, idx = [], []
            for li, ms in moves.items():
                us = uops_of(li)
                if us is None or not ms:
                    continue
                if len(ms) > 200000:
                    # (synthetic micro-ops of several hundred thousand cycles: millions of 0.01-moves on one line; the model's replay
                    # recurses over the list and the request would be hundreds of megabytes) -- left to the feasibility oracle
                    ctx.count("traces_not_replayed_long_move_list")
                    continue
                reqs.append("balance %s %s %s %s" % (esc(str(n)), esc(S.enc_uops(us)),
                                                     esc("|".join("%d:%d:%d:%s" % (j, a, b, frac(d)) for j, a, b, d in ms)),
                                                     esc(frac(-Fraction(inc) / 2 - Fraction(1, 10**7)))))
                idx.append(li)
                ctx.count("trace_moves", len(ms))
            # the model's replay recurses over its input: a request on which the natively compiled driver runs out of stack (seen in the
            # thorough tier only) is repeated alone; if it still does not fit, the line is counted and left to the feasibility
            # oracle -- a limit of the harness, reported in the evidence (the request is kept under replays/C01/ for diagnosis)
            replies = ctx.driver.ask_tolerant(reqs, os.path.join(core.VERIF, "replays", "C01"))
            ctx.count("traces_not_replayed_driver_crash", sum(1 for r_ in replies if r_ is None))
            for li, rep in zip(idx, replies):
                if rep is None:
                    continue
                ctx.count("traces_replayed")
                if rep.startswith("ok "):
                    mv = [Fraction(x) for x in rep[3:].split(",")]
                    if any(abs(float(a) - float(b)) > 1e-7 for a, b in zip(mv, kernel[li].port_pressure)):
                        ctx.correspondence_break("balancer-trace-final", dict(info, line=li, model=[float(x) for x in mv],
                                                                              impl=[float(x) for x in kernel[li].port_pressure]))
                else:
                    ctx.correspondence_break("balancer-trace-guard", dict(info, line=li, reply=rep, moves=[(j, a, b, float(d)) for j, a, b, d in moves[li]][:40],
                                                                           uops=uops_of(li)))
    once_sums = list(sem.get_throughput_sum(kernel))
    # ---- optimised twice (what the CLI does)
    try:
        sem.assign_optimal_throughput(kernel)
    except Exception as e:  # noqa
        ctx.violation("optimised scheduling (second pass) raised %s: %s" % (type(e).__name__, e),
                      dict(info, state="twice", exception=type(e).__name__), key=KNOWN_TWICE)
        return {"uniform": uni_sums, "once": once_sums, "twice": None}
    check_state(ctx, "twice", kernel, uops_of, n, eps, info)
    check_colsums(ctx, sem, kernel, "twice", info)
    return {"uniform": uni_sums, "once": once_sums, "twice": list(sem.get_throughput_sum(kernel))}


_RAW = {}
_MM = {}


def pressure_isa(arch):
    from harness import pressure

    if arch not in _RAW:
        _RAW[arch] = pressure.load_raw(arch)
    return "x86" if str(_RAW[arch].get("isa", "")).lower() == "x86" else "aarch64"


def shipped_form_kernels(ctx, quick):
    """[(arch, [line, line, line])]: representatives of the distinct micro-op lists of register-form entries"""
    from harness import c07synth, corpus, pressure

    rng = ctx.rng
    out = []
    # cheap pre-scan of the model texts: a micro-op whose port collection names a port twice is what the balancer (which addresses
    # a micro-op's ports by position) cannot handle; models with such a list are always swept and those forms come first
    risky = {}
    import re as _re

    for arch in corpus.archs_of("x86", False) + corpus.archs_of("aarch64", False):
        try:
            text = open(os.path.join(core.REPO, "osaca", "data", arch + ".yml"), encoding="utf-8").read()
        except OSError:
            continue
        for m_ in _re.finditer(r"port_pressure:\s*(\[.*\])\s*$", text, _re.M):
            for coll in _re.findall(r"\[\s*[-\d.]+\s*,\s*(\[[^\]]*\]|'[^']*'|\"[^\"]*\"|[A-Za-z0-9]+)\s*\]", m_.group(1)):
                items = _re.findall(r"[A-Za-z0-9]+", coll) if coll.startswith("[") else list(coll.strip("'\""))
                if len(items) != len(set(items)):
                    risky.setdefault(arch, set()).add(m_.group(1).replace(" ", ""))
    ctx.count("models_with_duplicate_port_in_a_micro_op", len(risky))
    for isa in ("x86", "aarch64"):
        base = list(corpus.archs_of(isa, quick))
        others = [a for a in corpus.archs_of(isa, False) if a not in base]
        archs = base + (rng.sample(others, min(2, len(others))) if quick else others)
        archs += [a for a in corpus.archs_of(isa, False) if a in risky and a not in archs]
        for arch in archs:
            pressure_isa(arch)
            raw = _RAW[arch]
            reps = {}
            for ri, name, e in c07synth.expand_forms(raw.get("instruction_forms") or []):
                pp = e.get("port_pressure")
                ops = e.get("operands") or []
                if not isinstance(pp, list) or not pp or not e.get("throughput"):
                    continue
                if any(not isinstance(o, dict) or o.get("class") not in ("register", "immediate") for o in ops):
                    continue
                if isa == "x86" and len(ops) > 4:
                    continue
                key = repr(pressure.canon(pp))
                if key in reps:
                    continue
                line, _why = c07synth.synth_line(isa, name, ops, c07synth.Pick())
                if line is not None:
                    reps[key] = (line, pp)
            lines = [ln for ln, _ in reps.values()]
            if len(lines) < 3:
                continue
            picks = lines if not quick else rng.sample(lines, min(len(lines), 20))
            if arch in risky:
                first = [ln for ln, pp_ in reps.values()
                         if any(isinstance(u, (list, tuple)) and len(u) == 2 and len(list(u[1])) != len(set(u[1])) for u in pp_)]
                picks = first + [p_ for p_ in picks if p_ not in first]
            for ln in picks:
                out.append((arch, [ln] + rng.sample(lines, 2)))
                if rng.random() < 0.5:
                    out[-1][1].reverse()
    return out


def run_lines(ctx, arch, isa, lines, inc, kind):
    """a kernel given as text on a shipped model: states uniform / once / twice judged against the micro-ops the
    implementation lists for each line (as for the shipped kernels)"""
    from osaca.parser import ParserAArch64, ParserX86ATT
    from osaca.semantics import ArchSemantics, MachineModel

    parser = ParserX86ATT() if isa == "x86" else ParserAArch64()
    if arch not in _MM:
        m_ = MachineModel(arch=arch)
        _MM[arch] = (m_, ArchSemantics(m_))
    mm, sem0 = _MM[arch]
    ports = [str(p) for p in mm.get_ports()]
    try:
        kernel = parser.parse_file("\n".join(lines))
        sem0.add_semantics(kernel)
    except Exception as e:  # noqa
        ctx.count("shipped_forms_unparsed")
        return
    table = {}
    for li, ins in enumerate(kernel):
        pu = ins.port_uops
        if not isinstance(pu, list) or ins.port_pressure is None:
            continue
        try:
            avg = mm.average_port_pressure(pu)
        except Exception:  # noqa
            continue
        if all(abs(a - b) < 1e-9 for a, b in zip(avg, ins.port_pressure)):
            table[li] = [(c, 1, [ports.index(p) for p in list(ps)]) for c, ps in pu]
    kernel2 = parser.parse_file("\n".join(lines))
    info = {"kind": kind, "arch": arch, "isa": isa, "kernel": lines}
    run_kernel(ctx, mm, sem0, parser, kernel2, ports, lambda li, table=table: table.get(li), info, inc)


def run(ctx):
    ctx.assumptions = TRUSTED
    ctx.prove(["Consts"], ["OsacaVerif.Props.C01", "OsacaVerif.Props.C01Oracle"])
    ctx.thorough_recheck(["OsacaVerif.Props.C01", "OsacaVerif.Props.C01Oracle"])
    ctx.env = core.Env("C01", archs=corpus.archs_of("x86", ctx.tier == "quick") + corpus.archs_of("aarch64", ctx.tier == "quick"))
    ctx.env.activate()
    import warnings

    warnings.filterwarnings("ignore")
    from osaca.parser import ParserX86ATT
    from osaca.semantics import ArchSemantics, MachineModel

    rng = ctx.rng
    inc = Fraction(ctx.driver.ask1("consts").split(" ")[0])
    boost = 3 if ctx.broken else 1
    quick = ctx.tier == "quick"

    # ------------------------------------------------------------------ K1: average_port_pressure
    n_models = (60 if quick else 600) * boost
    reqs, impls, metas = [], [], []
    mdir = os.path.join(ctx.env.work, "models")
    os.makedirs(mdir)
    models = []
    for t in range(n_models):
        m = S.random_model(rng, n_forms=rng.randint(3, 7), max_uops=4, alternatives=True, dup=True)
        path = S.write_model(m, mdir, "k1_%d" % t)
        mm = MachineModel(path_to_yaml=path)
        models.append((m, path))
        py = pressure.yenc(m["ports"])
        for f in m["forms"]:
            reqs.append("avgY %s %s" % (esc(py), esc(pressure.yenc(f["pp"]))))
            impls.append(pressure.impl_average(mm, f["pp"]))
            metas.append((m["ports"], f["pp"]))
            if rng.random() < 0.15:
                # malformed stream: a port that does not exist / wrong arity -> both must raise
                bad = [[1, [m["ports"][0], "ZZ"]]] if rng.random() < 0.5 else [[1, m["ports"][0], m["ports"][0]]]
                reqs.append("avgY %s %s" % (esc(py), esc(pressure.yenc(bad))))
                impls.append(pressure.impl_average(mm, bad))
                metas.append((m["ports"], bad))
    seen = set()
    for (ports, pp), impl, rep in zip(metas, impls, ctx.driver.ask(reqs)):
        ctx.count("k1_average")
        seen.add(repr((ports, pp)))
        d = pressure.compare_avg(rep, impl)
        if d:
            ctx.correspondence_break("average_port_pressure", {"ports": ports, "pp": pp, "diff": d})
    ctx.count("k1_distinct", len(seen))
    ctx.sample({"k1": {"ports": metas[0][0], "pp": metas[0][1], "impl": impls[0]}})

    # ------------------------------------------------------------------ kernels on synthetic models
    n_kernels = (120 if quick else 1500) * boost
    px = ParserX86ATT()
    dist = {"len": {}, "ports": {}, "max_uops": {}}
    distinct = set()
    for t in range(n_kernels):
        m, path = models[t % len(models)] if t % 2 else (None, None)
        if m is None:
            m = S.random_model(rng, n_forms=rng.randint(2, 6), max_uops=rng.choice([1, 2, 3, 4]))
            path = S.write_model(m, mdir, "kn_%d" % t)
        else:
            # balancer kernels: no duplicate ports inside one micro-op (none in the shipped models either)
            m = S.random_model(rng, n_forms=rng.randint(2, 6), max_uops=rng.choice([1, 2, 3]), alternatives=False)
            path = S.write_model(m, mdir, "kn_%d" % t)
        mm = MachineModel(path_to_yaml=path)
        sem = ArchSemantics(mm)
        lines = S.random_kernel(rng, m, rng.randint(1, 8 if quick else 25))
        if all(next(f for f in m["forms"] if f["name"] == l.split()[0])["tp"] == 0.0 for l in lines):
            # nothing is summed for such a kernel; it must still be analysable under optimised scheduling
            # (zen3: a kernel that consists of a conditional jump)
            kernel = px.parse_file("\n".join(lines))
            try:
                sem.add_semantics(kernel)
                before = [list(i.port_pressure) for i in kernel]
                sem.assign_optimal_throughput(kernel)
                sem.assign_optimal_throughput(kernel)
                ctx.count("kernels_without_throughput")
                if [list(i.port_pressure) for i in kernel] != before:
                    ctx.violation("optimised scheduling changed the pressure of a kernel in which no line is summed",
                                  {"kind": "synthetic", "model_yaml": S.model_yaml(m), "kernel": lines, "state": "no-throughput"})
            except Exception as e:  # noqa
                ctx.violation("optimised scheduling raised %s on a kernel whose lines all have throughput 0" % type(e).__name__,
                              {"kind": "synthetic", "model_yaml": S.model_yaml(m), "kernel": lines, "state": "no-throughput",
                               "exception": type(e).__name__}, key="no-throughput-kernel-crash")
            continue
        kernel = px.parse_file("\n".join(lines))
        byname = {f["name"].upper(): f for f in m["forms"]}

        def uops_of(li, kernel=kernel, byname=byname, m=m):
            f = byname.get((kernel[li].mnemonic or "").upper())
            if f is None:
                return None
            return S.resolve_uops(m, f["pp"])

        info = {"kind": "synthetic", "model_yaml": S.model_yaml(m), "kernel": lines}
        sums = run_kernel(ctx, mm, sem, px, kernel, m["ports"], uops_of, info, inc)
        ctx.count("kernels_synthetic")
        distinct.add(repr((m["ports"], [f["pp"] for f in m["forms"]], lines)))
        dist["len"][len(lines)] = dist["len"].get(len(lines), 0) + 1
        dist["ports"][len(m["ports"])] = dist["ports"].get(len(m["ports"]), 0) + 1
        if t == 0:
            ctx.sample({"kernel": lines, "ports": m["ports"], "forms": m["forms"][:3], "totals": sums})
        if len(ctx.violations) > 20:
            break

    # ------------------------------------------------------------------ alternative port assignments (dict-valued entries)
    # the optimiser explores the alternatives and keeps the best kernel; afterwards every line's reported micro-ops
    # (`port_uops`, the chosen alternative) and its pressure must still belong together
    n_alt = (60 if quick else 600) * boost
    for t in range(n_alt):
        m = S.random_model(rng, n_forms=rng.randint(2, 4), max_uops=2, alternatives=True, zero_forms=False)
        if not any(isinstance(f["pp"], dict) for f in m["forms"]):
            continue
        path = S.write_model(m, mdir, "alt_%d" % t)
        mm = MachineModel(path_to_yaml=path)
        sem = ArchSemantics(mm)
        lines = S.random_kernel(rng, m, rng.randint(2, 5))
        # an instruction with alternatives first, as in the shipped a64fx smlal case
        altf = rng.choice([f for f in m["forms"] if isinstance(f["pp"], dict)])
        lines[rng.choice([0, 0, len(lines) - 1])] = "%s %%rax, %%rbx" % altf["name"]
        kernel = px.parse_file("\n".join(lines))
        sem.add_semantics(kernel)
        info = {"kind": "synthetic", "model_yaml": S.model_yaml(m), "kernel": lines}
        for state in ("once", "twice"):
            try:
                sem.assign_optimal_throughput(kernel)
            except Exception as e:  # noqa
                ctx.violation("optimised scheduling with alternatives (%s) raised %s" % (state, type(e).__name__),
                              dict(info, state=state, exception=type(e).__name__), key=KNOWN_TWICE if state == "twice" else None)
                break

            def uops_now(li, kernel=kernel, m=m):
                pu = kernel[li].port_uops
                if isinstance(pu, dict):
                    pu = list(pu.values())[0]
                try:
                    return S.resolve_uops(m, pu)
                except Exception:  # noqa
                    return None

            m_max = max([len(uops_now(i) or []) for i in range(len(kernel))] + [1])
            check_state(ctx, state, kernel, uops_now, len(m["ports"]), Fraction(inc) / 2 * m_max + Fraction(1, 10**9), info)
        ctx.count("kernels_alternatives")

    # ------------------------------------------------------------------ shipped kernels on shipped models
    ks = corpus.real_kernels()
    if quick:
        ks = [k for i, k in enumerate(ks) if i % 4 == ctx.seed % 4]
    for path, isa in ks:
        for arch in corpus.archs_of(isa, quick):
            try:
                parser, kernel = corpus.load_kernel(path, isa)
                mm = MachineModel(arch=arch)
                sem = ArchSemantics(mm)
            except Exception as e:  # noqa
                ctx.log("skip %s on %s: %s" % (os.path.basename(path), arch, e))
                continue
            ports = [str(p) for p in mm.get_ports()]
            sem.add_semantics(kernel)
            # micro-ops as the implementation lists them; usable for the oracle only when no multiplier != 1
            # was applied (then the uniform vector equals average_port_pressure(port_uops))
            table = {}
            for li, ins in enumerate(kernel):
                pu = ins.port_uops
                if not isinstance(pu, list) or ins.port_pressure is None:
                    continue
                try:
                    avg = mm.average_port_pressure(pu)
                except Exception:  # noqa
                    continue
                if all(abs(a - b) < 1e-9 for a, b in zip(avg, ins.port_pressure)):
                    table[li] = [(c, 1, [ports.index(p) for p in list(ps)]) for c, ps in pu]
                else:
                    ctx.count("shipped_multiplier_lines_skipped")
            kernel2 = corpus.load_kernel(path, isa)[1]
            info = {"kind": "shipped", "file": os.path.relpath(path, core.REPO), "arch": arch}
            run_kernel(ctx, mm, ArchSemantics(mm), parser, kernel2, ports, lambda li, table=table: table.get(li), info, inc)
            ctx.count("kernels_shipped")
            distinct.add(repr((path, arch)))

    # ------------------------------------------------------------------ every distinct micro-op list of the shipped models
    # One instruction per DISTINCT micro-op list of a model (written from its entry's own pattern, register forms only), in small
    # kernels with two other such instructions: what the balancer does with every shape of micro-op list that is shipped
    # (nested port groups, port strings, many micro-ops ...), not only with the ones the example kernels happen to use.
    for arch, lines in shipped_form_kernels(ctx, quick):
        isa = "x86" if pressure_isa(arch) == "x86" else "aarch64"
        run_lines(ctx, arch, isa, lines, inc, "shipped-forms")
        ctx.count("kernels_shipped_forms")
        distinct.add(repr((arch, lines)))

    ctx.cov["distribution"] = dist
    ctx.cov["evaluations"] = sum(v for k, v in ctx.counts.items() if k.startswith("feasible_checks")) + ctx.counts.get("k1_average", 0)
    ctx.cov["distinct_nontrivial"] = len(distinct) + ctx.counts.get("k1_distinct", 0)
    ctx.cov["traces_validated_against_impl"] = ctx.counts.get("traces_replayed", 0)
    ctx.cov["rule"] = ("K1: distinct (port list, micro-op list) pairs costed by the real average_port_pressure; kernels: distinct "
                       "(model, kernel) pairs with at least one line of non-zero throughput, each checked in the states uniform/once/twice; "
                       "zero-throughput forms carry no micro-ops (as in the shipped models)")
    ctx.log("K1 %d lists; %d synthetic + %d shipped kernels; feasibility checks u/o/t = %d/%d/%d; traces replayed %d (%d moves)"
            % (ctx.counts.get("k1_average", 0), ctx.counts.get("kernels_synthetic", 0), ctx.counts.get("kernels_shipped", 0),
               ctx.counts.get("feasible_checks_uniform", 0), ctx.counts.get("feasible_checks_once", 0),
               ctx.counts.get("feasible_checks_twice", 0), ctx.counts.get("traces_replayed", 0), ctx.counts.get("trace_moves", 0)))
    return ctx.finish(trusted=TRUSTED)


def replay(ctx, path):
    rep = json.load(open(path))["replay"]
    if rep.get("kind") == "shipped-forms":
        ctx.lean.build_driver()
        ctx.driver = core.Driver(os.path.join(core.LEAN_DIR, ".lake", "build", "bin", "driver"))
        ctx.env = core.Env("C01")
        ctx.env.activate()
        inc = Fraction(ctx.driver.ask1("consts").split(" ")[0])
        before = len(ctx.violations)
        run_lines(ctx, rep["arch"], rep["isa"], rep["kernel"], inc, "shipped-forms")
        bad = [v for v in ctx.violations[before:] if v.get("key") != KNOWN_TWICE]
        print("kernel %s on %s: %s" % (rep["kernel"], rep["arch"], bad[0]["what"] if bad else "every state feasible"))
        return 1 if bad else 0
    if rep.get("kind") not in ("synthetic", "shipped"):
        print("replay names a broken theorem/correspondence:", json.dumps(rep)[:800])
        return 1
    ctx.lean.build_driver()
    ctx.driver = core.Driver(os.path.join(core.LEAN_DIR, ".lake", "build", "bin", "driver"))
    ctx.env = core.Env("C01")
    ctx.env.activate()
    from osaca.parser import ParserX86ATT
    from osaca.semantics import ArchSemantics, MachineModel

    inc = Fraction(ctx.driver.ask1("consts").split(" ")[0])
    if rep["kind"] == "synthetic":
        p = os.path.join(ctx.env.work, "replay.yml")
        open(p, "w").write(rep["model_yaml"])
        mm = MachineModel(path_to_yaml=p)
        px = ParserX86ATT()
        kernel = px.parse_file("\n".join(rep["kernel"]))
        sem = ArchSemantics(mm)
        sem.add_semantics(kernel)
        if rep.get("state") == "no-throughput":
            before = [list(i.port_pressure) for i in kernel]
            try:
                sem.assign_optimal_throughput(kernel)
                sem.assign_optimal_throughput(kernel)
            except Exception as e:  # noqa
                print("optimised scheduling raised %s -> violated" % type(e).__name__)
                return 1
            same = [list(i.port_pressure) for i in kernel] == before
            print("pressure unchanged: %s -> %s" % (same, "holds" if same else "violated"))
            return 0 if same else 1
        if rep.get("state") in ("once", "twice"):
            sem.assign_optimal_throughput(kernel)
        if rep.get("state") == "twice":
            sem.assign_optimal_throughput(kernel)
        got = [float(x) for x in kernel[rep["line"]].port_pressure] if "line" in rep else None
        print("state %s line %s: pressure %s (recorded %s)" % (rep.get("state"), rep.get("line"), got, rep.get("pressure")))
        n = len(mm.get_ports())
        us = [(c, m, idx) for c, m, idx in rep["uops"]]
        eps = Fraction(inc) / 2 * max(1, len(us)) + Fraction(1, 10**9) if rep.get("state") != "uniform" else Fraction(1, 10**9)
        r = ctx.driver.ask1("feasible %s %s %s %s" % (esc(frac(eps)), esc(str(n)), esc(S.enc_uops(us)), esc(vec(got))))
        print("feasible:", r)
        ctx.cleanup()
        return 0 if r == "ok" else 1
    print("shipped-kernel replay: run `osaca --arch %s %s` and compare" % (rep["arch"], rep["file"]))
    ctx.cleanup()
    return 1
