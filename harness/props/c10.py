"""C10 - AArch64 parser recovers every line and operand exactly as written.

proof:   Props/C10.lean about the executable model Model/ParseA64.lean (a transcription of the
         pyparsing grammar and of the post-processing functions), with every literal of the grammar
         regenerated from the source (Gen/A64Grammar).
tie:     translator (A64Grammar) + correspondence: `ParserAArch64().parse_line` / `parse_file` against
         the Lean driver (`a64parse`, `a64file`) on lines rendered from random instruction ASTs with
         random layout, on comment / marker / label / directive lines, on files mixing them with blank
         lines, and on a corpus; the Lean renderer of the specification (`a64render`) against the
         Python renderer on every generated line.
search:  the oracle needs no model: render -> real parser -> compare with the canonical tokens
         computed from the AST (harness/a64gen.py:expect_line); files: line numbers and texts known by
         construction.  Runs on every generated line always, at 4x volume when a tie or proof broke.
"""
import json
import os

from harness import core
from harness.core import esc

TRUSTED = [
    "Lean 4.33 kernel; axioms of every theorem audited (allowed: propext, Classical.choice, Quot.sound)",
    "tools/gen/a64grammar.py: AST extraction of the grammar's literals (operators, condition codes, prefix sets, "
    "alias names, operand slots, line-number base, scale base)",
    "correspondence harness harness/props/c10.py + generator/renderer/expectation harness/a64gen.py + "
    "canonical form harness/a64canon.py",
    "modelled, not verified: the pyparsing engine (white-space skipping, Optional/Or/MatchFirst/Combine semantics, "
    "Regex), Python int(), str.split/strip, ASCII case mapping",
]

VOLUME = {"quick": dict(lines=5000, other=250, files=50, malformed=500),
          "thorough": dict(lines=120000, other=5000, files=1500, malformed=8000)}


def _shrink(parser, a64gen, a64canon, ast):
    """greedy: compact layout, then drop operands / comment while the oracle still fails"""
    import random

    def fails(a):
        line = a64gen.compact(a)
        got = a64canon.parse(parser, line, 1)
        return (line, got) if got != a64gen.expect_line(a) else None

    best = fails(ast)
    if best is None:
        return None
    cur = ast
    changed = True
    while changed:
        changed = False
        if cur["comment"] is not None:
            c = dict(cur, comment=None)
            r = fails(c)
            if r:
                cur, best, changed = c, r, True
                continue
        for i in range(len(cur["ops"])):
            c = dict(cur, ops=cur["ops"][:i] + cur["ops"][i + 1:])
            r = fails(c)
            if r:
                cur, best, changed = c, r, True
                break
    return cur, best[0], best[1]


def _run_file(parser, a64canon, rows, start):
    content = "\n".join(t for t, _ in rows)
    want = [(i + 1 + start, t, w) for i, (t, w) in enumerate(rows) if w is not None]
    try:
        forms = parser.parse_file(content, start)
        got = [(f.line_number, f.line, " ".join(a64canon.form(f))) for f in forms]
    except Exception as e:  # noqa
        got = "exception %s: %s" % (type(e).__name__, str(e)[:120])
    return content, want, got


def _shrink_file(parser, a64canon, rows, start):
    """greedy: drop rows while parse_file still differs from the file as written"""
    cur = list(rows)
    content, want, got = _run_file(parser, a64canon, cur, start)
    changed = True
    while changed and len(cur) > 1:
        changed = False
        for i in range(len(cur)):
            c = cur[:i] + cur[i + 1:]
            content2, want2, got2 = _run_file(parser, a64canon, c, start)
            if got2 != want2:
                cur, content, want, got, changed = c, content2, want2, got2, True
                break
    return cur, content, want, got


def _kind_hist(ast, hist):
    for o in ast["ops"]:
        k = o["k"]
        hist[k] = hist.get(k, 0) + 1
        if k == "mem":
            sub = "mem:" + ("off" if o["off"] is not None else "idx" if o["index"] is not None else "base") + \
                  ("!" if o["pre"] else "") + ("+post" if o["post"] is not None else "")
            hist[sub] = hist.get(sub, 0) + 1


def run(ctx):
    ctx.assumptions = TRUSTED
    ctx.prove(["A64Grammar"], ["OsacaVerif.Props.C10"])
    ctx.thorough_recheck(["OsacaVerif.Props.C10"])
    ctx.env = core.Env("C10", copy_models=False)
    ctx.env.activate()
    from osaca.parser import ParserAArch64
    from harness import a64canon, a64gen

    parser = ParserAArch64()
    rng = ctx.rng
    vol = dict(VOLUME[ctx.tier])
    if ctx.broken:
        vol = {k: v * 4 for k, v in vol.items()}
        ctx.log("a tie or proof is broken: search volume x4")

    # the generator follows the grammar's list of scaling operators only for what the architecture has
    hist, classes = {}, {}
    n_corr = n_oracle = n_render = 0

    def impl(line, no=1):
        return a64canon.parse(parser, line, no)

    # ------------------------------------------------------------------ corpus (always first)
    corpus = json.load(open(os.path.join(core.VERIF, "corpus", "C10", "lines.json")))
    model = ctx.driver.ask(["a64parse " + esc(c["line"]) for c in corpus])
    n_corpus_fail = 0
    for c, m in zip(corpus, model):
        got = impl(c["line"])
        if got != m:
            n_corr += 1
            ctx.correspondence_break("corpus-line", {"line": c["line"], "impl": got, "model": m})
        if got != c["expect"]:
            n_oracle += 1
            n_corpus_fail += 1
            if n_corpus_fail > 2:      # leave room among the five reported replays for generated, shrunk inputs
                continue
            ctx.violation("corpus line %r parsed as %s, expected %s" % (c["line"], got, c["expect"]),
                          {"kind": "line", "line": c["line"], "expected": c["expect"], "observed": got},
                          key="corpus:" + c["line"])
    ctx.count("corpus_lines", len(corpus))

    # ------------------------------------------------------------------ instruction lines
    items = []
    # first the sweep of label names that begin with a shift/extend operator word (`lsl_loop`, `ROR.tab`, `sxtw1`,
    # `mul_vl`) directly behind every operand kind with an optional shift tail, compact and with single blanks
    n_sweep = 0
    for ast in a64gen.shift_name_sweep():
        for style in (0, 1):
            line, gaps = a64gen.render(rng, ast, style)
            items.append((ast, line, gaps, a64gen.expect_line(ast)))
            n_sweep += 1
    for _ in range(vol["lines"]):
        ast = a64gen.g_instr(rng)
        line, gaps = a64gen.render(rng, ast)
        items.append((ast, line, gaps, a64gen.expect_line(ast)))
        _kind_hist(ast, hist)
    n_shift_named = sum(1 for ast, _, _, _ in items[n_sweep:] if a64gen.shift_named(ast))
    model = ctx.driver.ask(["a64parse " + esc(line) for _, line, _, _ in items])
    rendered = ctx.driver.ask(["a64render " + a64gen.ast_wire(ast, gaps) for ast, _, gaps, _ in items])
    expected = ctx.driver.ask(["a64expect " + a64gen.ast_wire(ast, gaps) for ast, _, gaps, _ in items])
    indomain = ctx.driver.ask(["a64domain " + a64gen.ast_wire(ast, gaps) for ast, _, gaps, _ in items])
    n_in = sum(1 for d in indomain if d == "1")
    n_in_bad = n_gen_fail = 0
    distinct = set()
    for (ast, line, gaps, want), m, rd, ex, dom in zip(items, model, rendered, expected, indomain):
        if dom == "1" and m != want:
            # inside the theorem's domain the model is *proved* to deliver the expectation
            n_in_bad += 1
            if n_in_bad <= 3:
                ctx.correspondence_break("theorem-domain", {"line": line, "model": m, "theorem_says": want})
        got = impl(line)
        if ast["ops"]:
            distinct.add(line)
        if rd != esc(line) or ex != want:
            n_render += 1
            if n_render <= 3:
                ctx.correspondence_break("spec-renderer", {"python": line, "lean": core.unesc(rd), "ast": ast,
                                                           "python_expect": want, "lean_expect": ex})
        if got != m:
            n_corr += 1
            if n_corr <= 3:
                ctx.correspondence_break("parse_line", {"line": line, "impl": got, "model": m})
        if got != want:
            n_oracle += 1
            n_gen_fail += 1
            if n_gen_fail <= 3:      # counted apart from the corpus: a generated, shrunk input is always reported
                sh = _shrink(parser, a64gen, a64canon, ast)
                rep = {"kind": "line", "line": line, "expected": want, "observed": got, "ast": ast}
                if sh is not None:
                    rep["shrunk"] = {"line": sh[1], "observed": sh[2], "expected": a64gen.expect_line(sh[0])}
                    rep["line"], rep["expected"], rep["observed"], rep["original_line"] = \
                        sh[1], rep["shrunk"]["expected"], sh[2], line
                ctx.violation("instruction line %r: parser delivers %s, written was %s"
                              % (rep["line"], rep["observed"], rep["expected"]), rep)
    ctx.count("instruction_lines", len(items))
    ctx.count("lines_inside_theorem_domain", n_in)
    ctx.count("shift_name_sweep_lines", n_sweep)
    ctx.count("random_lines_with_shift_named_label_behind_register", n_shift_named)
    ctx.cov["theorem_domain"] = {"generated_lines": len(items), "inside_domain_of_a64_roundtrip": n_in,
                                 "outside_examples": [l for (a, l, g, w), d in zip(items, indomain) if d != "1"][:5]}
    for ast, line, _, want in items[:1] + items[n_sweep:n_sweep + 2]:
        ctx.sample({"line": line, "expected": want})

    # ------------------------------------------------------------------ comment / marker / label / directive lines
    others = []
    for gen, cname in ((a64gen.g_comment_line, "comment"), (a64gen.g_marker_line, "marker"),
                       (a64gen.g_label_line, "label"), (a64gen.g_directive_line, "directive")):
        for _ in range(vol["other"]):
            line, want = gen(rng)
            others.append((cname, line, want))
    model = ctx.driver.ask(["a64parse " + esc(line) for _, line, _ in others])
    for (cname, line, want), m in zip(others, model):
        got = impl(line)
        classes[cname] = classes.get(cname, 0) + 1
        if got != m:
            n_corr += 1
            if n_corr <= 3:
                ctx.correspondence_break("parse_line:" + cname, {"line": line, "impl": got, "model": m})
        if got != want:
            n_oracle += 1
            if n_oracle <= 3:
                ctx.violation("%s line %r: parser delivers %s, written was %s" % (cname, line, got, want),
                              {"kind": "line", "line": line, "expected": want, "observed": got})
    ctx.count("other_lines", len(others))

    # ------------------------------------------------------------------ files
    pool = [(line, want) for _, line, _, want in items[: 40 * vol["files"]]] + [(l, w) for _, l, w in others]
    n_file_lines = 0
    file_reqs, file_meta = [], []
    for fi in range(vol["files"]):
        n = rng.randrange(0, 40)
        crlf = rng.random() < 0.15
        rows = []
        for _ in range(n):
            if rng.random() < 0.3:
                rows.append((rng.choice(["", "", " ", "\t", "  \t ", "\x0b", "\x0c ", "\r"]), None))
            else:
                rows.append(rng.choice(pool))
        if crlf:
            rows = [(t + "\r", w) for t, w in rows]
        content = "\n".join(t for t, _ in rows)
        if rng.random() < 0.5:
            content += "\n"
            rows.append(("", None))
        start = rng.choice([0, 0, 0, 1, 7, 1000, rng.randrange(0, 100000)])
        want = [(i + 1 + start, t, w) for i, (t, w) in enumerate(rows) if w is not None]
        try:
            forms = parser.parse_file(content, start) if start else (
                parser.parse_file(content) if rng.random() < 0.5 else parser.parse_file(content, 0))
            got = [(f.line_number, f.line, " ".join(a64canon.form(f))) for f in forms]
        except Exception as e:  # noqa
            got = "exception %s: %s" % (type(e).__name__, str(e)[:120])
        n_file_lines += len(want)
        if got != want:
            n_oracle += 1
            if n_oracle <= 3:
                rows2, content2, want2, got2 = _shrink_file(parser, a64canon, rows, start)
                detail = got2
                if isinstance(got2, list):
                    detail = [(g, w) for g, w in zip(got2, want2) if g != w][:2] or {"n_got": len(got2), "n_want": len(want2)}
                ctx.violation("parse_file(start_line=%d) of %r: line numbers / texts / classes differ from the file as "
                              "written: %s" % (start, content2[:200], str(detail)[:400]),
                              {"kind": "file", "content": content2, "start": start,
                               "expected": want2, "observed": got2, "original_content": content})
        file_reqs.append("a64file %s %d" % (esc(content), start))
        file_meta.append((content, start, got))
    model = ctx.driver.ask(file_reqs)
    for (content, start, got), m in zip(file_meta, model):
        toks = m.split(" ")
        k = int(toks[0])
        mod = [(int(toks[1 + 3 * i]), core.unesc(toks[2 + 3 * i]), toks[3 + 3 * i]) for i in range(k)]
        if isinstance(got, list):
            g = [(a, b, c.split(" ")[0]) for a, b, c in got]
        else:
            g = got
        if g != mod:
            n_corr += 1
            if n_corr <= 3:
                ctx.correspondence_break("parse_file", {"content": content, "start": start, "impl": g, "model": mod})
    ctx.count("files", vol["files"])
    ctx.count("file_lines", n_file_lines)

    # ------------------------------------------------------------------ malformed lines (informational)
    agree = total = 0
    reqs, lines = [], []
    for ast, line, gaps, _ in items[: vol["malformed"]]:
        ps = a64gen.line_pieces(ast)
        if len(ps) < 2:
            continue
        i = rng.randrange(0, len(ps))
        if rng.random() < 0.5:
            ps2 = ps[:i] + ps[i + 1:]
        else:
            ps2 = ps[:i] + [ps[i]] + ps[i:]
        l2 = " ".join(t for t, _ in ps2)
        lines.append(l2)
        reqs.append("a64parse " + esc(l2))
    model = ctx.driver.ask(reqs)
    disagree = []
    for l2, m in zip(lines, model):
        got = impl(l2)
        total += 1
        if got == m:
            agree += 1
        elif len(disagree) < 3:
            disagree.append({"line": l2, "impl": got, "model": m})
    ctx.count("malformed_lines", total)
    ctx.count("malformed_agree", agree)

    ctx.count("corr_disagreements", n_corr)
    ctx.count("oracle_failures", n_oracle)
    ctx.count("renderer_disagreements", n_render)
    ctx.log("lines %d (%d inside the domain of a64_roundtrip) + %d, files %d (%d lines): correspondence disagreements %d, "
            "oracle failures %d, renderer disagreements %d; malformed (informational) %d/%d agree"
            % (len(items), n_in, len(others), vol["files"], n_file_lines, n_corr, n_oracle, n_render, agree, total))
    ctx.cov["evaluations"] = len(items) + len(others) + n_file_lines + len(corpus)
    ctx.cov["traces_validated_against_impl"] = len(items) + len(others) + vol["files"] + len(corpus)
    ctx.cov["distinct_nontrivial"] = len(distinct)
    ctx.cov["rule"] = ("lines rendered from random instruction ASTs (0-5 operand slots, prefetch first, memory last) with "
                       "random blanks/tabs in every gap and optional trailing comment; label names begin with a "
                       "shift/extend operator word in 12 % of the names, and a fixed sweep puts such a name behind every "
                       "operand kind; non-trivial = distinct lines with "
                       "at least one operand; plus comment/marker/label/directive lines and files with blank lines")
    ctx.cov["distribution"] = {"operand_kinds": hist, "line_classes": classes,
                               "malformed_informational": {"lines": total, "model_agrees": agree, "examples": disagree}}
    return ctx.finish(trusted=TRUSTED)


def replay(ctx, path):
    rep = json.load(open(path))["replay"]
    ctx.env = core.Env("C10", copy_models=False)
    ctx.env.activate()
    from osaca.parser import ParserAArch64
    from harness import a64canon

    parser = ParserAArch64()
    kind = rep.get("kind")
    if kind == "line":
        got = a64canon.parse(parser, rep["line"], 1)
        print("parse_line(%r)\n  delivers %s\n  written  %s" % (rep["line"], got, rep["expected"]))
        ctx.cleanup()
        return 0 if got == rep["expected"] else 1
    if kind == "file":
        try:
            forms = parser.parse_file(rep["content"], rep["start"])
            got = [[f.line_number, f.line, " ".join(a64canon.form(f))] for f in forms]
        except Exception as e:  # noqa
            got = "exception %s: %s" % (type(e).__name__, str(e)[:120])
        want = [list(x) for x in rep["expected"]]
        print("parse_file: %d entries, expected %d; equal: %s" % (len(got) if isinstance(got, list) else -1, len(want), got == want))
        ctx.cleanup()
        return 0 if got == want else 1
    print("replay names a broken theorem/correspondence, not an input:", json.dumps(rep)[:800])
    ctx.cleanup()
    return 1
