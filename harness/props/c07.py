"""C07 - Instruction-form lookup is sound and complete for operand kinds.

proof:   Props/C07.lean: check_iff_kind (matcher = kind agreement on the parser's domain), lookup_sound,
         lookup_complete_first, fallback_spec, self_match / never_unknown, and the kernel-decided table
         that every operand signature of every shipped model is schema-valid and live
         (Gen/Sigs, Gen/MatchConsts, Gen/RegTables regenerated from the source on every run).
tie:     translator + correspondence: index of the entry returned by the REAL get_instruction (operands
         from the REAL parser) vs the Lean model, on synthetic models x matching / near-miss
         instructions (both ISAs), incl. the mnemonic fall-backs as executed by assign_tp_lt; and on every
         entry of the shipped models (quick: five smallest + the ISA databases; thorough: all).
search:  independent oracle `Spec.kindAgreeB` (first entry that agrees in name, count and kinds) vs the
         implementation, on the same inputs; never-unknown sweep: the instruction written from each
         shipped entry's own pattern must be found, and the full costing path must not raise.
"""
import json
import multiprocessing
import os
import random
import zlib

from harness import c07models as M
from harness import c07synth as S
from harness import core, pressure
from harness.core import esc

TRUSTED = [
    "Lean 4.33 kernel; axioms of every theorem audited (allowed: propext, Classical.choice, Quot.sound)",
    "tools/gen/matchconsts.py, tools/gen/sigs.py, tools/gen/regtables.py (AST / YAML extraction)",
    "correspondence harness harness/props/c07.py, harness/c07synth.py (canonical operand text of the objects the "
    "real parser produced), harness/c07models.py (generators)",
    "modelled, not verified: the pyparsing grammars (operands are taken from the real parser, their domain predicate "
    "`Spec.parserOperandIsa` is evaluated on every forwarded operand), ruamel.yaml, Python str.upper/lower/rstrip (ASCII)",
]
GENS = ["MatchConsts", "RegTables", "Sigs"]
PROPS = ["OsacaVerif.Props.C07"]
MAX_OPERANDS = {"x86": 4, "aarch64": 5}
QUICK_SHIPPED = 5
SEED = [0]          # set by run(); read by the forked workers


def slim_forms(raw_forms):
    return [{"name": e.get("name"), "operands": e.get("operands")} for e in raw_forms or []]


def record_fallback(impl, sem, form):
    """run the real assign_src_dst + assign_tp_lt; return (names tried with the instruction's own operand
    list, index of the entry they ended with or None, exception class name or None)"""
    calls = []
    orig = impl.mm.get_instruction

    def rec(name, operands):
        r = orig(name, operands)
        if operands is form.operands:
            calls.append((name, None if r is None else impl.index.get(id(r), "foreign")))
        return r

    impl.mm.get_instruction = rec
    exc = None
    try:
        sem.assign_src_dst(form)
        sem.assign_tp_lt(form)
    except Exception as e:  # noqa
        exc = type(e).__name__ + ": " + str(e)[:120]
    finally:
        del impl.mm.get_instruction
    found = [i for _, i in calls if i is not None]
    return [n for n, _ in calls], (found[0] if found else None), exc


def evaluate_lines(impl, sem, lines, want_fallback=True):
    """parse each line with the real parser and look it up with the real matcher"""
    out = []
    for line in lines:
        rec = {"line": line}
        try:
            form = impl.parse(line)
        except Exception as e:  # noqa
            rec["parse_error"] = type(e).__name__
            out.append(rec)
            continue
        if form.mnemonic is None:
            rec["parse_error"] = "not-an-instruction"
            out.append(rec)
            continue
        rec["mnemonic"] = form.mnemonic
        rec["canon"] = S.canon_operands(form.operands)
        rec["direct"] = impl.lookup(form.mnemonic, form.operands)
        if want_fallback:
            rec["tried"], rec["final"], rec["exc"] = record_fallback(impl, sem, form)
            rec["flags"] = sorted(set(form.flags))
        out.append(rec)
    return out


def prop_fallback(isa, mnemonic):
    """the documented fall-backs, read from the property (not from the code): one trailing AT&T size
    suffix dropped on x86; the AArch64 mnemonic cut at its first '.'"""
    if isa == "x86":
        return mnemonic[:-1] if mnemonic and mnemonic[-1] in "bswlqt" else None
    return mnemonic.split(".", 1)[0] if "." in mnemonic else None


def ask_lookup(ctx, isa, forms, recs):
    """one driver request per model: every record, then the fall-back mnemonic of every record that has one"""
    alts = [(i, prop_fallback(isa, r["mnemonic"])) for i, r in enumerate(recs)]
    alts = [(i, a) for i, a in alts if a is not None]
    qs = [esc(r["mnemonic"] + ";" + r["canon"]) for r in recs] + [esc(a + ";" + recs[i]["canon"]) for i, a in alts]
    req = "c07lookup %s %s %s" % (esc(isa), esc(pressure.yenc(forms)), " ".join(qs))
    rep = ctx.driver.ask([req])[0]
    if rep in ("load-error", "bad-request"):
        return None, rep
    parts = rep.split(" ")
    answers = [p.split(",") for p in parts[1:]]
    main, extra = answers[:len(recs)], answers[len(recs):]
    for (i, _), a in zip(alts, extra):
        if len(main[i]) == 4:
            main[i].append(a[2] if len(a) == 4 else "?")          # oracle index under the fall-back mnemonic
    return int(parts[0]), main


def idx_text(i):
    return "-" if i is None else str(i)


def compare(ctx, where, isa, forms, recs, replay_extra, stats, check_fallback=True):
    """model vs implementation (correspondence) and oracle vs implementation (property)"""
    recs = [r for r in recs if "canon" in r]
    if not recs:
        return
    n, answers = ask_lookup(ctx, isa, forms, recs)
    if n is None:
        ctx.correspondence_break("loadEntries", {"where": where, "reply": answers})
        return
    for r, a in zip(recs, answers):
        if a == ["bad-query"] or len(a) < 4:
            ctx.correspondence_break("operand-codec", {"where": where, "line": r["line"], "canon": r["canon"]})
            continue
        m, f, s, dom = a[:4]
        s_alt = a[4] if len(a) > 4 else None
        stats["lookups"] += 1
        direct = idx_text(r["direct"])
        if dom != "1":
            stats["outside_parser_domain"] += 1
            ctx.correspondence_break("parser-domain", {"where": where, "line": r["line"], "canon": r["canon"]})
        if direct != m:
            stats["corr_diff"] += 1
            if stats["corr_diff"] <= 5:
                ctx.correspondence_break("get_instruction", {"where": where, "line": r["line"], "canon": r["canon"],
                                                             "impl": direct, "model": m})
        if dom == "1" and direct != s:
            stats["oracle_diff"] += 1
            what = ("%s: `%s` is matched to entry %s, the first entry agreeing in mnemonic, operand count and operand kinds is %s"
                    % (where, r["line"], direct, s))
            ctx.violation(what, dict(replay_extra, kind="lookup", isa=isa, line=r["line"], impl=direct, expected=s),
                          key="lookup:%s:%s" % (where, r["line"]))
        if check_fallback and "final" in r and r.get("exc") is None:
            stats["fallback_lookups"] += 1
            if idx_text(r["final"]) != f:
                stats["corr_diff"] += 1
                ctx.correspondence_break("suffix-fall-back", {"where": where, "line": r["line"], "tried": r["tried"],
                                                              "impl": idx_text(r["final"]), "model": f})
            if f != m:
                stats["fallback_used"] += 1
            # the property: full mnemonic first, then the documented fall-back, nothing else
            expected = s if s != "-" else (s_alt if s_alt is not None else "-")
            if dom == "1" and idx_text(r["final"]) != expected:
                stats["oracle_diff"] += 1
                ctx.violation("%s: `%s` ends up with entry %s (mnemonics tried: %s); with the documented fall-backs the first agreeing "
                              "entry is %s" % (where, r["line"], idx_text(r["final"]), r["tried"], expected),
                              dict(replay_extra, kind="fallback", isa=isa, line=r["line"], impl=idx_text(r["final"]), expected=expected),
                              key="fallback:%s:%s" % (where, r["line"]))
        stats["found" if r["direct"] is not None else "none"] += 1


# --------------------------------------------------------------------------- shipped models
def shipped_worker(arch):
    """forked child: load the model cold with the real loader, write an instruction from each entry's
    own pattern, parse and match with the real code, run the full costing path"""
    import warnings

    warnings.filterwarnings("ignore")
    from osaca.semantics import ArchSemantics, MachineModel

    out = {"arch": arch}
    try:
        raw = S.load_raw_path(S.model_path(arch))
        if "/" in arch:
            mm = MachineModel(path_to_yaml=os.path.join(os.environ["HOME"], ".osaca", "data", arch + ".yml"))
        else:
            mm = MachineModel(arch=arch)
    except Exception as e:  # noqa
        out["load_error"] = "%s: %s" % (type(e).__name__, e)
        return out
    impl = S.Impl(mm)
    isa = impl.isa
    sem = None
    if "/" not in arch:
        try:
            sem = ArchSemantics(mm)
        except Exception as e:  # noqa
            out["sem_error"] = "%s: %s" % (type(e).__name__, e)
    forms = S.expand_forms(raw["instruction_forms"])
    out.update(isa=isa, n_raw=len(raw["instruction_forms"]), n_expanded=len(forms), n_loaded=impl.n,
               forms=slim_forms(raw["instruction_forms"]))
    recs = []
    rng = random.Random(zlib.crc32(arch.encode()) * 1000 + SEED[0])
    for k, (ri, name, e) in enumerate(forms):
        ops = e.get("operands") or []
        base = {"k": k, "raw": ri, "name": str(name), "sig": S.entry_sig(e), "nops": len(ops)}
        if isa == "x86" and len(ops) > MAX_OPERANDS[isa]:
            recs.append(dict(base, skip="arity"))
            continue
        for variant, pick in (("first", S.Pick()), ("random", S.Pick(rng))):
            line, why = S.synth_line(isa, name, ops, pick)
            if line is None:
                recs.append(dict(base, skip="unwritten", why=why, variant=variant))
                break
            r = evaluate_lines(impl, sem, [line], want_fallback=sem is not None)[0]
            r.update(base, variant=variant)
            if "canon" in r and (r["mnemonic"] != str(name) or len(r["canon"].split("|")) != len(ops) and ops):
                r["parse_mismatch"] = True
            recs.append(r)
    out["recs"] = recs
    return out


def operand_live(ctx, isa, sigs):
    """driver: liveOperand / schemaOperand of each distinct operand dict"""
    keys = list(sigs)
    reqs = ["c07live %s %s" % (esc(isa), esc(pressure.yenc(sigs[k]))) for k in keys]
    rep = ctx.driver.ask(reqs)
    return {k: r.split(" ") for k, r in zip(keys, rep)}


def strip_roles(o):
    return {k: v for k, v in o.items() if k not in ("source", "destination")} if isinstance(o, dict) else o


def shipped_sweep(ctx, stats):
    SEED[0] = ctx.seed
    archs = S.all_model_names()
    if ctx.tier == "quick" and not ctx.broken:
        sizes = sorted((os.path.getsize(S.model_path(a)), a) for a in archs if "/" not in a)
        archs = [a for _, a in sizes[:QUICK_SHIPPED]] + ["isa/x86", "isa/aarch64"]
    with multiprocessing.get_context("fork").Pool(min(16, len(archs))) as pool:
        results = pool.map(shipped_worker, archs)
    for res in results:
        arch = res["arch"]
        if "load_error" in res:
            ctx.violation("%s.yml cannot be loaded: %s" % (arch, res["load_error"]), {"kind": "load", "arch": arch}, key="load:" + arch)
            continue
        isa = res["isa"]
        if not (res["n_expanded"] == res["n_loaded"]):
            ctx.correspondence_break("alias-expansion-count", {"arch": arch, "raw-expanded": res["n_expanded"], "loaded": res["n_loaded"]})
        # liveness of every operand signature (Lean spec) -- decides what "cannot be written" means
        raw_forms = S.load_raw_path(S.model_path(arch))["instruction_forms"]
        expanded = S.expand_forms(raw_forms)
        sigs = {}
        for e in raw_forms:
            for o in e.get("operands") or []:
                sigs.setdefault(json.dumps(strip_roles(o), sort_keys=True, default=str), strip_roles(o))
        live = operand_live(ctx, isa, sigs)
        dead_sigs = {k for k, v in live.items() if v[0] != "1"}
        bad_schema = {k for k, v in live.items() if len(v) < 2 or v[1] != "1"}
        for k in sorted(bad_schema):
            ctx.violation("%s: operand pattern outside the entry schema: %s" % (arch, k), {"kind": "schema", "arch": arch, "operand": k},
                          key="schema:%s:%s" % (arch, k))
        by_k = {}
        for r in res["recs"]:
            by_k.setdefault(r["k"], []).append(r)
        look = []
        for k, rs in sorted(by_k.items()):
            stats["shipped_entries"] += 1
            e = raw_forms[rs[0]["raw"]]
            dead_ops = [json.dumps(strip_roles(o), sort_keys=True, default=str) for o in e.get("operands") or []
                        if json.dumps(strip_roles(o), sort_keys=True, default=str) in dead_sigs]
            where = {"arch": arch, "entry": rs[0]["raw"], "mnemonic": rs[0]["name"], "operands": rs[0]["sig"]}
            if dead_ops:
                stats["dead_entries"] += 1
                o = json.loads(dead_ops[0])
                scale_null = isa == "aarch64" and o.get("class") == "memory" and o.get("index") is None and o.get("scale") is None
                key = "dead-entry:scale-null" if scale_null else "dead-entry:%s:%s:%s" % (arch, rs[0]["name"], rs[0]["sig"])
                ctx.violation("%s.yml entry %d (%s %s) can never be selected: no instruction operand has the kind %s"
                              % (arch, rs[0]["raw"], rs[0]["name"], rs[0]["sig"], dead_ops[0]),
                              dict(where, kind="dead-entry", operand=dead_ops[0]), key=key)
                continue
            if rs[0].get("skip") == "arity":
                stats["dead_entries_arity"] += 1
                ctx.violation("%s.yml entry %d (%s) has %d operands; the %s parser produces at most %d, so the entry can never be selected"
                              % (arch, rs[0]["raw"], rs[0]["name"], rs[0]["nops"], isa, MAX_OPERANDS[isa]),
                              dict(where, kind="dead-entry", reason="arity"), key="dead-entry:arity")
                continue
            for r in rs:
                if r.get("skip") == "unwritten":
                    stats["unsynthesised"] += 1
                    ctx.count("unsynthesised:" + r["why"].split(" (")[0])
                    continue
                if "parse_error" in r or r.get("parse_mismatch"):
                    stats["synth_parse_problems"] += 1
                    ctx.correspondence_break("synthesised-text", {"where": where, "line": r["line"], "problem": r.get("parse_error", "mismatch")})
                    continue
                stats["shipped_instructions"] += 1
                if r["direct"] is None:
                    ctx.violation("%s: `%s`, written with exactly the operand kinds entry %d (%s) declares, is not found (unknown instruction)"
                                  % (arch, r["line"], r["raw"], r["sig"]),
                                  dict(where, kind="never-unknown", line=r["line"]), key="unknown:%s:%s:%s" % (arch, r["name"], r["sig"]))
                elif isinstance(r["direct"], str):
                    ctx.violation("%s: looking up `%s` raises %s" % (arch, r["line"], r["direct"]), dict(where, kind="crash", line=r["line"]),
                                  key="crash:%s:%s:%s" % (arch, r["name"], r["sig"]))
                    continue
                elif r["direct"] == r["k"]:
                    stats["self_matched"] += 1
                else:
                    stats["matched_earlier_entry"] += 1
                if r.get("exc"):
                    stats["costing_crashes"] += 1
                    ctx.violation("%s: costing `%s` (assign_src_dst + assign_tp_lt) raises %s" % (arch, r["line"], r["exc"]),
                                  dict(where, kind="crash", line=r["line"], exception=r["exc"]),
                                  key="crash:%s:%s:%s" % (arch, r["name"], r["sig"]))
                elif "flags" in r and r["direct"] is not None:
                    hit = expanded[r["direct"]][2] if isinstance(r["direct"], int) else e
                    unknown = [f for f in ("tp_unknown", "lt_unknown") if f in r["flags"]]
                    lacks = [f for f, v in (("tp_unknown", hit.get("throughput")), ("lt_unknown", hit.get("latency"))) if v is None]
                    if sorted(unknown) != sorted(lacks):
                        ctx.violation("%s: `%s` is flagged %s although the matched entry %s" % (
                            arch, r["line"], unknown or "known", "lacks " + ",".join(lacks) if lacks else "has throughput and latency"),
                            dict(where, kind="flags", line=r["line"], flags=r["flags"]), key="flags:%s:%s:%s" % (arch, r["name"], r["sig"]))
                look.append(r)
        compare(ctx, arch, isa, res["forms"], look, {"arch": arch}, stats, check_fallback=True)
        ctx.count("models_swept")
    return [r["arch"] for r in results]


# --------------------------------------------------------------------------- synthetic models
def synthetic(ctx, stats):
    import warnings

    warnings.filterwarnings("ignore")
    from osaca.semantics import ArchSemantics, MachineModel

    quick = ctx.tier == "quick" and not ctx.broken
    n_models = 18 if quick else 60
    per_model = 110 if quick else 250
    for isa in ("x86", "aarch64"):
        for mi in range(n_models):
            model = M.random_model(ctx.rng, isa, n_forms=ctx.rng.choice([8, 16, 24, 40]))
            name = "syn_%s_%d" % (isa, mi)
            path = M.dump_model(model, ctx.env.work, name)
            try:
                mm = MachineModel(path_to_yaml=path)
                impl = S.Impl(mm)
                sem = ArchSemantics(mm)
            except Exception as e:  # noqa
                ctx.correspondence_break("synthetic-model-load", {"model": name, "error": "%s: %s" % (type(e).__name__, e)})
                continue
            lines = M.instructions_for(ctx.rng, isa, model, per_model)
            recs = evaluate_lines(impl, sem, lines)
            stats["parse_rejected"] += sum(1 for r in recs if "parse_error" in r)
            compare(ctx, name, isa, slim_forms(model["instruction_forms"]), recs, {"model_yaml": M.model_text(model)}, stats)
            if mi == 0:
                good = [r for r in recs if r.get("direct") is not None][:1] + [r for r in recs if "canon" in r and r["direct"] is None][:1]
                for r in good:
                    ctx.sample({"isa": isa, "line": r["line"], "canon": r["canon"], "impl_entry": r["direct"], "names_tried": r.get("tried")})
            ctx.count("synthetic_models")


def run(ctx):
    ctx.assumptions = TRUSTED
    ctx.prove(GENS, PROPS)
    ctx.thorough_recheck(PROPS)
    ctx.env = core.Env("C07")
    ctx.env.activate()
    import shutil

    os.makedirs(os.path.join(ctx.env.data, "isa"), exist_ok=True)
    stats = {k: 0 for k in ("lookups", "corr_diff", "oracle_diff", "outside_parser_domain", "fallback_lookups", "fallback_used",
                            "found", "none", "parse_rejected", "shipped_entries", "shipped_instructions", "self_matched",
                            "matched_earlier_entry", "dead_entries", "dead_entries_arity", "unsynthesised", "synth_parse_problems",
                            "costing_crashes")}
    synthetic(ctx, stats)
    ctx.log("synthetic: %d lookups (%d found, %d none, %d via fall-back), model diffs %d, oracle diffs %d"
            % (stats["lookups"], stats["found"], stats["none"], stats["fallback_used"], stats["corr_diff"], stats["oracle_diff"]))
    swept = shipped_sweep(ctx, stats)
    ctx.log("shipped (%s): %d entries, %d instructions, %d self-matched, %d matched an earlier entry, dead %d (+%d arity), "
            "unsynthesised %d, costing crashes %d" % (",".join(swept), stats["shipped_entries"], stats["shipped_instructions"],
                                                      stats["self_matched"], stats["matched_earlier_entry"], stats["dead_entries"],
                                                      stats["dead_entries_arity"], stats["unsynthesised"], stats["costing_crashes"]))
    for k, v in stats.items():
        ctx.count(k, v)
    ctx.cov["evaluations"] = stats["lookups"]
    ctx.cov["distinct_nontrivial"] = stats["found"]
    ctx.cov["traces_validated_against_impl"] = stats["lookups"]
    ctx.cov["rule"] = ("one evaluation = one instruction text parsed by the real parser and looked up by the real get_instruction, "
                       "compared with the Lean model and the kind-agreement oracle; non-trivial = lookups that return an entry")
    ctx.cov["distribution"] = {"found": stats["found"], "none": stats["none"], "via_fallback": stats["fallback_used"],
                               "shipped_models": swept, "rejected_by_parser": stats["parse_rejected"]}
    return ctx.finish(trusted=TRUSTED)


def replay(ctx, path):
    rep = json.load(open(path))["replay"]
    ctx.env = core.Env("C07")
    ctx.env.activate()
    import warnings

    warnings.filterwarnings("ignore")
    from osaca.semantics import ArchSemantics, MachineModel

    kind = rep.get("kind")
    if kind not in ("lookup", "never-unknown", "crash", "dead-entry", "flags", "fallback"):
        print("replay names a broken theorem/correspondence, not an input:", json.dumps(rep)[:800])
        ctx.cleanup()
        return 1
    if "model_yaml" in rep:
        p = os.path.join(ctx.env.work, "replay.yml")
        with open(p, "w") as f:
            f.write(rep["model_yaml"])
        mm = MachineModel(path_to_yaml=p)
    elif "/" in rep["arch"]:
        mm = MachineModel(path_to_yaml=os.path.join(ctx.env.data, rep["arch"] + ".yml"))
    else:
        mm = MachineModel(arch=rep["arch"])
    impl = S.Impl(mm)
    rc = 0
    if kind == "dead-entry":
        print("entry %s of %s: %s -- no instruction can match it (%s)" % (rep.get("entry"), rep.get("arch"), rep.get("operands"),
                                                                         rep.get("operand") or rep.get("reason")))
        rc = 1
    else:
        form = impl.parse(rep["line"])
        got = impl.lookup(form.mnemonic, form.operands)
        print("get_instruction(%r) -> entry %s" % (rep["line"], got))
        if kind == "lookup":
            rc = 0 if idx_text(got) == rep["expected"] else 1
            print("expected (first entry agreeing in kind):", rep["expected"])
        elif kind == "fallback":
            sem = ArchSemantics(mm)
            tried, final, exc = record_fallback(impl, sem, impl.parse(rep["line"]))
            print("assign_tp_lt tried %s and ends with entry %s; expected %s" % (tried, idx_text(final), rep["expected"]))
            rc = 0 if idx_text(final) == rep["expected"] else 1
        elif kind == "never-unknown":
            rc = 0 if got is not None else 1
        else:
            sem = ArchSemantics(mm)
            try:
                sem.assign_src_dst(form)
                sem.assign_tp_lt(form)
                print("costing ok; flags", form.flags)
                rc = 0 if kind == "crash" else 1
            except Exception as e:  # noqa
                print("costing raises %s: %s" % (type(e).__name__, e))
                rc = 1
    ctx.cleanup()
    return rc
