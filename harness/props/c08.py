"""C08 - Memory-operand forms compose register-form data with load/store data.

proof:   Props/C08.lean: compose_spec (every field of a composed instruction), compose_feasible (the
         composed pressure is an exactly feasible split of register-form + load + store micro-ops with
         the multipliers as `mult`), unknown_spec, per_instruction, row_choice_spec.
tie:     Gen/MatchConsts (flags, store latency, literals) + correspondence: the REAL
         assign_src_dst + assign_tp_lt vs the Lean model `Compose.assignTpLt` on synthetic models (random
         register forms, load/store tables per addressing shape and register type, defaults,
         multipliers, a synthetic ISA database fixing the operand roles) x instructions with a memory
         operand in every position and role; every instruction analysed twice in a row and again after
         a decoy; and the memory instructions of the shipped example kernels on shipped models.
search:  `Spec.Composed` + `Spec.Feasible` evaluated by the driver on the implementation's numbers, with
         the ingredients (register form, table rows, multipliers, load latency) recomputed from the
         raw YAML by an independent reading of the property (harness, Python); history independence
         (same text, same numbers) checked on the implementation alone.
"""
import json
import os
from fractions import Fraction

from harness import c07models as M
from harness import c07synth as S
from harness import core, corpus, pressure
from harness.core import esc, frac

TRUSTED = [
    "Lean 4.33 kernel; axioms of every theorem audited (allowed: propext, Classical.choice, Quot.sound)",
    "tools/gen/matchconsts.py (flag names, store latency, matcher literals), tools/gen/regtables.py",
    "correspondence harness harness/props/c08.py, harness/c07synth.py, harness/c07models.py",
    "modelled, not verified: assign_src_dst (its output - the three semantic operand lists - is taken from the real code), "
    "the parsers, ruamel.yaml, Python float arithmetic (compared with 1e-9 tolerance)",
]
GENS = ["MatchConsts", "RegTables", "Consts"]
PROPS = ["OsacaVerif.Props.C08"]
HAS_LD, HAS_ST = "performs_load", "performs_store"
TOL = 1e-9
MODEL_KEYS = ["isa", "ports", "instruction_forms", "load_throughput", "load_throughput_default", "store_throughput",
              "store_throughput_default", "load_latency", "load_throughput_multiplier", "store_throughput_multiplier"]


def plain(v):
    """ruamel round-trip scalars/containers -> plain Python"""
    if isinstance(v, dict):
        return {plain(k): plain(x) for k, x in v.items()}
    if isinstance(v, (list, tuple)):
        return [plain(x) for x in v]
    if isinstance(v, bool) or v is None:
        return v
    if isinstance(v, int):
        return int(v)
    if isinstance(v, float):
        return float(v)
    if isinstance(v, str):
        return str(v)
    return v


def sem_lists(form):
    so = form.semantic_operands
    return [list(so.get(k, [])) for k in ("source", "destination", "src_dst")]


def opaque_memory(lists):
    from osaca.parser.memory import MemoryOperand

    for lst in lists:
        for o in lst:
            if isinstance(o, MemoryOperand) and S.canon_operand(o) == "O":
                return True
    return False


def observe(impl, sem, line):
    """fresh parse, real assign_src_dst + assign_tp_lt; everything the property observes"""
    rec = {"line": line}
    try:
        form = impl.parse(line)
    except Exception as e:  # noqa
        rec["parse_error"] = type(e).__name__
        return rec
    if form.mnemonic is None:
        rec["parse_error"] = "not-an-instruction"
        return rec
    try:
        sem.assign_src_dst(form)
    except Exception as e:  # noqa
        rec["srcdst_error"] = type(e).__name__
        return rec
    lists = sem_lists(form)
    rec["opaque"] = opaque_memory(lists)
    rec["query"] = "#".join([form.mnemonic, S.canon_operands(form.operands)] + [S.canon_operands(l) for l in lists])
    rec["mnemonic"] = form.mnemonic
    rec["canon"] = S.canon_operands(form.operands)
    rec["lists"] = [S.canon_operands(l) for l in lists]
    try:
        sem.assign_tp_lt(form)
    except Exception as e:  # noqa
        rec["exc"] = type(e).__name__
        rec["exc_text"] = str(e)[:100]
        return rec
    flags = set(form.flags)
    rec.update(tp=form.throughput, lat=form.latency, lat_wo=form.latency_wo_load, pressure=[float(x) for x in form.port_pressure],
               uops=plain(list(form.port_uops.keys()) if isinstance(form.port_uops, dict) else list(form.port_uops)),
               flags=sorted(flags - {HAS_LD, HAS_ST}), has_ld=HAS_LD in flags, has_st=HAS_ST in flags,
               removed_st=bool(sem._has_store(form)) and HAS_ST not in flags)
    return rec


def same_numbers(a, b):
    if ("exc" in a) != ("exc" in b):
        return False
    if "exc" in a:
        return a["exc"] == b["exc"]
    if "tp" not in a or "tp" not in b:
        return ("tp" in a) == ("tp" in b)
    return (a["tp"] == b["tp"] and a["lat"] == b["lat"] and a["lat_wo"] == b["lat_wo"] and a["pressure"] == b["pressure"]
            and a["uops"] == b["uops"] and a["flags"] == b["flags"] and a["removed_st"] == b["removed_st"])


def close(x, q):
    try:
        return abs(float(x) - float(Fraction(q))) <= TOL * max(1.0, abs(float(x)))
    except Exception:  # noqa
        return False


def compare_model(rec, reply):
    """driver reply of c08assign vs observation; None if they agree"""
    if reply.startswith("err:"):
        if "exc" not in rec:
            return "model raises %s, implementation returns tp=%r lat=%r" % (reply[4:], rec.get("tp"), rec.get("lat"))
        return None if rec["exc"] == reply[4:] else "model raises %s, implementation %s" % (reply[4:], rec["exc"])
    if not reply.startswith("ok:"):
        return "driver reply %r" % reply[:80]
    if "exc" in rec:
        return "implementation raises %s (%s), model returns %s" % (rec["exc"], rec.get("exc_text"), reply[:80])
    _, tp, lat, lw, pr, uops, flags, rst = reply.split(":")
    if not close(rec["tp"], tp):
        return "throughput impl %r model %s" % (rec["tp"], tp)
    if not close(rec["lat"], lat):
        return "latency impl %r model %s" % (rec["lat"], lat)
    if not close(rec["lat_wo"], lw):
        return "latency_wo_load impl %r model %s" % (rec["lat_wo"], lw)
    mp = pr.split(",") if pr else []
    if len(mp) != len(rec["pressure"]) or any(not close(x, q) for x, q in zip(rec["pressure"], mp)):
        return "port_pressure impl %r model %s" % (rec["pressure"], pr)
    if uops != "~" and uops != pressure.yenc(rec["uops"]):
        return "port_uops impl %r model %s" % (rec["uops"], uops)
    if sorted(f for f in flags.split(",") if f) != rec["flags"]:
        return "flags impl %r model %s" % (rec["flags"], flags)
    if (rst == "1") != rec["removed_st"]:
        return "performs_store removal impl %r model %s" % (rec["removed_st"], rst)
    return None


# --------------------------------------------------------------------------- independent oracle
X86_VEC = ("mm", "xmm", "ymm", "zmm")


def fallback_name(isa, mn):
    """the documented fall-backs, read from the property"""
    if isa == "x86":
        return mn[:-1] if mn and mn[-1] in "bswlqt" else None
    return mn.split(".", 1)[0] if "." in mn else None


class Oracle:
    """ingredients of `Spec.Composed` from the raw YAML, by the property's wording; the matching of
    operands and of addressing shapes is delegated to the kind-agreement oracle of C07 in the driver
    (batched: `prepare` asks everything the records need in two requests)."""

    def __init__(self, ctx, isa, model):
        self.ctx, self.isa, self.model = ctx, isa, model
        self.forms = S.expand_forms(model["instruction_forms"])
        self.slim = [{"name": e.get("name"), "operands": e.get("operands")} for e in model["instruction_forms"]]
        self.lookup = {}
        self.shape = {}

    @staticmethod
    def parts_of(rec):
        ops = rec["canon"].split("|") if rec["canon"] else []
        src, dst, sd = [x.split("|") if x else [] for x in rec["lists"]]
        return ops, src, dst, sd

    def names(self, mn):
        fb = fallback_name(self.isa, mn)
        return [mn] + ([fb] if fb else [])

    def row_operand(self, r, prepost):
        return {"class": "memory", "base": r.get("base"), "offset": r.get("offset"), "index": r.get("index"), "scale": r.get("scale"),
                "pre_indexed": r.get("pre_indexed", False) if prepost else False,
                "post_indexed": r.get("post_indexed", False) if prepost else False}

    def prepare(self, recs):
        qs, shapes = [], []
        for rec in recs:
            ops, src, dst, sd = self.parts_of(rec)
            sub = "|".join("W" if o.startswith("M:") else o for o in ops)
            for n in self.names(rec["mnemonic"]):
                for c in (rec["canon"], sub):
                    if (n, c) not in self.lookup and (n, c) not in qs:
                        qs.append((n, c))
            for table, mems in (("load_throughput", [o for o in src + sd if o.startswith("M:")]),
                                ("store_throughput", [o for o in dst + sd if o.startswith("M:")])):
                if mems:
                    for ri in range(len(self.model.get(table) or [])):
                        for pp in (True, False):
                            k = (table, ri, mems[0], pp)
                            if k not in self.shape and k not in shapes:
                                shapes.append(k)
        if qs:
            req = "c07lookup %s %s %s" % (esc(self.isa), esc(pressure.yenc(self.slim)), " ".join(esc(m + ";" + c) for m, c in qs))
            rep = self.ctx.driver.ask([req])[0].split(" ")[1:]
            for q, a in zip(qs, rep):
                sidx = a.split(",")[2]
                self.lookup[q] = None if sidx == "-" else int(sidx)
        if shapes:
            reqs = ["c07check %s %s %s" % (esc(self.isa), esc(pressure.yenc(self.row_operand(self.model[t][ri], pp))), esc(mem))
                    for t, ri, mem, pp in shapes]
            for k, rep in zip(shapes, self.ctx.driver.ask(reqs)):
                self.shape[k] = rep.split(" ")[1] == "1"

    def find(self, mn, canon):
        for n in self.names(mn):
            r = self.lookup.get((n, canon))
            if r is not None:
                return r
        return None

    def reg_type(self, eop):
        if self.isa == "x86":
            n = eop.get("name")
            if not isinstance(n, str):
                return None
            return n if n in X86_VEC else "gpr"
        return eop.get("prefix")

    def type_agrees(self, regtype, t, quirks):
        if t is None:
            return False
        if self.isa == "x86":
            return t == regtype or (regtype == "gpr" and t not in X86_VEC)
        if "a64type" in quirks:
            return True
        return t == regtype

    def ingredients(self, rec, quirks=()):
        """('own', idx) | ('unknown', None) | ('composed', parts)"""
        ops, src, dst, sd = self.parts_of(rec)
        own = self.find(rec["mnemonic"], rec["canon"])
        if own is not None:
            return ("own", own)
        mems = [i for i, o in enumerate(ops) if o.startswith("M:")]
        ld_mems = [o for o in src + sd if o.startswith("M:")]
        st_mems = [o for o in dst + sd if o.startswith("M:")]
        if not mems or not (ld_mems or st_mems):
            return ("unknown", None)
        sub = "|".join("W" if o.startswith("M:") else o for o in ops)
        regform = self.find(rec["mnemonic"], sub)
        if regform is None:
            return ("unknown", None)
        e = self.forms[regform][2]
        regtype = self.reg_type(e["operands"][mems[0]])
        m = self.model
        prepost = "prepost" not in quirks
        parts = {"reg": e.get("port_pressure"), "tpReg": e.get("throughput"), "latReg": e.get("latency"), "regtype": regtype,
                 "ld": [], "st": [], "mLd": 1, "mSt": 1, "hasLd": bool(ld_mems), "loadLat": 0}
        if ld_mems:
            rows = m.get("load_throughput") or []
            cands = [r for ri, r in enumerate(rows) if self.shape[("load_throughput", ri, ld_mems[0], prepost)]]
            if cands:
                typed = [r for r in cands if self.type_agrees(regtype, r.get("dst"), quirks)]
                parts["ld"] = (typed or cands)[0]["port_pressure"]
            else:
                parts["ld"] = m.get("load_throughput_default")
            if "load_throughput_multiplier" in m:
                parts["mLd"] = m["load_throughput_multiplier"].get(regtype, "missing")
            ll = (m.get("load_latency") or {}).get(regtype, "missing")
            parts["loadLat"] = ll if ll == "missing" else (ll or 0)
        if st_mems:
            rows = m.get("store_throughput") or []
            typed = [r for ri, r in enumerate(rows) if self.shape[("store_throughput", ri, st_mems[0], prepost)]
                     and self.type_agrees(regtype, r.get("src"), quirks)]
            parts["st"] = typed[0]["port_pressure"] if typed else m.get("store_throughput_default")
            if self.isa == "aarch64" and not [o for o in dst if o.startswith("M:")] and \
                    all(o.split(";")[4] == "1" or o.split(";")[5] == "1" for o in sd if o.startswith("M:")):
                parts["st"] = []          # write-back only is no store
            if "store_throughput_multiplier" in m:
                parts["mSt"] = m["store_throughput_multiplier"].get(regtype, "missing")
        return ("composed", parts)

    def spec_request(self, rec, parts):
        vals = [parts["mLd"], parts["mSt"], parts["tpReg"], parts["latReg"], parts["loadLat"]]
        if any(v is None or isinstance(v, str) for v in vals) or not isinstance(parts["reg"], list) \
                or not isinstance(parts["ld"], list) or not isinstance(parts["st"], list):
            return None
        unk = "1" if ("tp_unknown" in rec["flags"] or "lt_unknown" in rec["flags"]) else "0"
        return "c08spec %s %s %s %s %s %s %s %s %s %s %s %s %s %s %s %s" % (
            esc("1/100000000"), esc(pressure.yenc(self.model["ports"])), esc(pressure.yenc(parts["reg"])),
            esc(pressure.yenc(parts["ld"])), esc(pressure.yenc(parts["st"])), esc(frac(parts["mLd"])), esc(frac(parts["mSt"])),
            esc(frac(parts["tpReg"])), esc(frac(parts["latReg"])), esc(frac(parts["loadLat"])), esc("1" if parts["hasLd"] else "0"),
            esc(frac(rec["tp"])), esc(frac(rec["lat"])), esc(frac(rec["lat_wo"])),
            esc(",".join(frac(x) for x in rec["pressure"])), esc(unk))

    def check_all(self, pairs):
        """[(rec, parts)] -> verdicts ('ok' | clause | 'unspecified')"""
        reqs = [self.spec_request(r, p) for r, p in pairs]
        rep = iter(self.ctx.driver.ask([q for q in reqs if q is not None]))
        return ["unspecified" if q is None else next(rep) for q in reqs]


QUIRK_SETS = [(), ("a64type",), ("prepost",), ("a64type", "prepost")]
QUIRK_KEYS = {"a64type": "a64-regtype-ignored", "prepost": "table-rows-prepost-dropped"}


def oracle_check(ctx, where, isa, model, recs, replay_extra, stats):
    """the property, evaluated on the implementation's numbers"""
    recs = [r for r in recs if "tp" in r and not r.get("opaque")]
    if not recs:
        return
    orc = Oracle(ctx, isa, model)
    orc.prepare(recs)
    composed = []
    for r in recs:
        kind, parts = orc.ingredients(r)
        stats["oracle_" + kind] += 1
        if kind == "unknown":
            bad = None
            if not ("tp_unknown" in r["flags"] and "lt_unknown" in r["flags"]):
                bad = "not flagged tp_unknown and lt_unknown"
            elif any(x != 0 for x in r["pressure"]) or r["tp"] != 0 or r["lat"] != 0 or r["lat_wo"] != 0:
                bad = "flagged unknown but pressure/latency/throughput are not zero"
            if bad:
                ctx.violation("%s: `%s` has neither an entry nor a register form, but is %s" % (where, r["line"], bad),
                              dict(replay_extra, kind="unknown", isa=isa, line=r["line"], observed=r), key="unknown:%s:%s" % (where, r["line"]))
        elif kind == "composed":
            composed.append((r, parts))
    verdicts = orc.check_all(composed)
    for (r, parts), verdict in zip(composed, verdicts):
        if verdict in ("ok", "unspecified"):
            stats["oracle_ok" if verdict == "ok" else "oracle_unspecified"] += 1
            continue
        # a known deviation of the code from the property?
        explained = None
        for q in QUIRK_SETS[1:]:
            k2, p2 = orc.ingredients(r, q)
            if k2 == "composed" and orc.check_all([(r, p2)])[0] == "ok":
                explained = q
                break
        what = ("%s: `%s` composed from its register form: %s differs from register form + load/store micro-ops of its addressing "
                "mode and register type (%s)" % (where, r["line"], verdict, parts["regtype"]))
        rep = dict(replay_extra, kind="composed", isa=isa, line=r["line"], clause=verdict, parts=parts, observed=r)
        if explained:
            for q in explained:
                stats["known_" + q] += 1
                ctx.violation(what, rep, key=QUIRK_KEYS[q])
        else:
            stats["oracle_diff"] += 1
            ctx.violation(what, rep, key="composed:%s:%s" % (where, r["line"]))


# --------------------------------------------------------------------------- instruction texts
X86_MEMS = ["(%rax)", "8(%rax)", "(%rax,%rbx)", "(%rax,%rbx,8)", "-16(%rbp,%rcx,4)", "lab1(%rip)", "64(,%rdx,8)", "0x20(%r8)",
            # numeric and symbolic displacement on the same base / index / scale: different table rows (`offset: imd` vs identifier)
            "sym(%rax)", "16(%rax,%rbx,8)", "tab(%rax,%rbx,8)"]
A64_MEMS = ["[x1]", "[x1, #8]", "[x1, x2]", "[x1, x2, lsl #3]", "[x1, #16]!", "[x1], #16", "[sp, #32]", "[x3, x4, lsl #1]",
            "[x1, :lo12:sym]", "[x1, #:lo12:sym]"]


def memory_variants(rng, isa, line):
    """replace one (sometimes two) register operands of a line by memory operands"""
    mn, _, rest = line.partition(" ")
    ops = M.split_operands(rest)
    regs = [i for i, o in enumerate(ops) if o.startswith("%") or (isa != "x86" and o[:1] in "xwdsqhbvzp" and not o.startswith("["))]
    out = []
    if regs:
        for _ in range(2):
            ops2 = list(ops)
            for j in rng.sample(regs, 1 if rng.random() < 0.85 else min(2, len(regs))):
                ops2[j] = rng.choice(X86_MEMS if isa == "x86" else A64_MEMS)
            out.append(M.join(mn, ops2))
    return out


def lines_for(rng, isa, model, count):
    forms = S.expand_forms(model["instruction_forms"])
    out = []
    guard = 0
    while len(out) < count and guard < count * 20:
        guard += 1
        _, name, e = rng.choice(forms)
        nm = str(name)
        if rng.random() < 0.12:
            nm = nm + (rng.choice("bswlqt") if isa == "x86" else "." + rng.choice(["s", "d", "eq"]))
        line, _ = S.synth_line(isa, nm, e.get("operands"), S.Pick(rng))
        if line is None:
            continue
        r = rng.random()
        if r < 0.15:
            out.append(line)
        elif r < 0.93:
            out += memory_variants(rng, isa, line)
        else:
            out += M.near_misses(rng, isa, line)
    return out[:count]


def isa_yaml(model):
    """synthetic ISA database: the model's forms with their source/destination markers"""
    forms = []
    for e in model["instruction_forms"]:
        forms.append({"name": e["name"], "operands": [dict(o, source=o.get("source", False), destination=o.get("destination", False))
                                                      for o in e["operands"]]})
    return {"osaca_version": "0.5.0", "isa": model["isa"], "instruction_forms": forms}


def run_model(ctx, where, isa, model, impl, sem, lines, replay_extra, stats, decoys):
    """correspondence + history independence + oracle for one model"""
    first = []
    for line in lines:
        o1 = observe(impl, sem, line)
        if "query" not in o1:
            stats["rejected"] += 1
            continue
        o2 = observe(impl, sem, line)
        observe(impl, sem, ctx.rng.choice(decoys))
        o3 = observe(impl, sem, line)
        stats["observations"] += 4
        for tag, o in (("twice in a row", o2), ("again after another instruction", o3)):
            if not same_numbers(o1, o):
                stats["history_diff"] += 1
                ctx.violation("%s: `%s` analysed %s gets other numbers: first %s, then %s" % (
                    where, line, tag, {k: o1.get(k) for k in ("tp", "lat", "pressure", "uops", "exc")},
                    {k: o.get(k) for k in ("tp", "lat", "pressure", "uops", "exc")}),
                    dict(replay_extra, kind="history", isa=isa, line=line, decoys=decoys[:6]), key="history:%s:%s" % (where, line))
                break
        if o1.get("opaque"):
            stats["opaque_memory_operand"] += 1
            continue
        first.append(o1)
    if not first:
        return
    ymodel = pressure.yenc({k: model[k] for k in MODEL_KEYS if k in model})
    req = "c08assign %s %s %s" % (esc(isa), esc(ymodel), " ".join(esc(r["query"]) for r in first))
    rep = ctx.driver.ask([req])[0]
    if rep in ("load-error", "bad-request"):
        ctx.correspondence_break("model-load", {"where": where, "reply": rep})
        return
    for r, a in zip(first, rep.split(" ")):
        stats["compared"] += 1
        d = compare_model(r, a)
        path = "crash" if a.startswith("err:") else ("unknown" if a.split(":")[5] == "~" else
                                                       ("composed" if r.get("has_ld") or r.get("has_st") else "own"))
        stats["path_" + path] += 1
        if d:
            stats["corr_diff"] += 1
            if stats["corr_diff"] <= 6:
                ctx.correspondence_break("assign_tp_lt", {"where": where, "line": r["line"], "query": r["query"], "diff": d})
    oracle_check(ctx, where, isa, model, first, replay_extra, stats)


def synthetic(ctx, stats):
    import warnings

    warnings.filterwarnings("ignore")
    from osaca.semantics import ArchSemantics, MachineModel

    quick = ctx.tier == "quick" and not ctx.broken
    n_models = 14 if quick else 60
    per_model = 40 if quick else 90
    for isa in ("x86", "aarch64"):
        for mi in range(n_models):
            model = M.random_model(ctx.rng, isa, n_forms=ctx.rng.choice([10, 16, 24]), tables=True, missing=mi % 3 == 2, role_prob=0.9)
            name = "syn8_%s_%d" % (isa, mi)
            path = M.dump_model(model, ctx.env.work, name)
            ipath = M.dump_model(isa_yaml(model), ctx.env.work, name + "_isa")
            try:
                mm = MachineModel(path_to_yaml=path)
                impl = S.Impl(mm)
                sem = ArchSemantics(mm, path_to_yaml=ipath)
            except Exception as e:  # noqa
                ctx.correspondence_break("synthetic-model-load", {"model": name, "error": "%s: %s" % (type(e).__name__, e)})
                continue
            lines = lines_for(ctx.rng, isa, model, per_model)
            run_model(ctx, name, isa, model, impl, sem, lines,
                      {"model_yaml": M.model_text(model), "isa_yaml": M.model_text(isa_yaml(model))}, stats, lines)
            ctx.count("synthetic_models")


def real_vocabulary(ctx, stats):
    """memory instructions of the shipped kernels on shipped models (operand roles from the real ISA database)"""
    import warnings

    warnings.filterwarnings("ignore")
    from osaca.semantics import ArchSemantics, MachineModel

    quick = ctx.tier == "quick" and not ctx.broken
    vocab = {"x86": [], "aarch64": []}
    for path, isa in corpus.real_kernels():
        for raw in open(path, errors="replace"):
            t = raw.split("#")[0].split("//")[0].strip()
            if not t or t.endswith(":") or t.startswith("."):
                continue
            if ("(" in t or "[" in t) and t not in vocab[isa]:
                vocab[isa].append(t)
    for isa in ("x86", "aarch64"):
        lines = vocab[isa]
        if quick:
            lines = ctx.rng.sample(lines, min(60, len(lines)))
        archs = list(corpus.archs_of(isa, quick=quick))
        # models that define a load/store multiplier other than 1 are always included (the property's "multipliers" clause)
        for a in corpus.archs_of(isa, quick=False):
            if a not in archs:
                raw = pressure.load_raw(a)
                mult = [v for k in ("load_throughput_multiplier", "store_throughput_multiplier") for v in (raw.get(k) or {}).values()]
                if any(float(v) != 1.0 for v in mult if v is not None):
                    archs.append(a)
        for arch in archs:
            mm = MachineModel(arch=arch)
            impl = S.Impl(mm)
            sem = ArchSemantics(mm)
            model = pressure.load_raw(arch)
            model["isa"] = str(model["isa"])
            before = stats["compared"]
            run_model(ctx, arch, isa, model, impl, sem, lines, {"arch": arch}, stats, lines)
            ctx.count("real_vocabulary_lines", stats["compared"] - before)
            ctx.count("shipped_models")
            cli_agreement(ctx, arch, isa, impl, sem, lines, stats)


def cli_agreement(ctx, arch, isa, impl, sem, lines, stats):
    """The numbers of the property as the command line reports them: the same instructions through `osaca.inspect --fixed`
    (uniform scheduling: the composed pressure is shown as it is) must carry exactly the throughput, latency, pressure and
    micro-ops the composition assigns through the library."""
    import argparse
    import io

    import osaca.osaca as oo
    from osaca.frontend import Frontend

    lib = {}
    good = []
    for line in lines:
        o = observe(impl, sem, line)
        if "tp" in o and "exc" not in o and line not in lib:
            lib[line] = o
            good.append(line)
    if not good:
        return
    good = good[:40]
    captured = {}
    orig = Frontend.full_analysis

    def spy(self, kernel, *a, **k):
        captured["kernel"] = kernel
        return orig(self, kernel, *a, **k)

    f = io.StringIO("\n".join(good) + "\n")
    f.name = "vocabulary.s"
    args = argparse.Namespace(file=f, arch=arch, fixed=True, verbose=0, ignore_unknown=True, lines=None, lcd_timeout=-1,
                              consider_flag_deps=False, dotpath=None, yaml_out=None)
    Frontend.full_analysis = spy
    try:
        oo.inspect(args, output_file=io.StringIO())
    except BaseException as e:  # noqa
        ctx.violation("%s: `osaca --fixed` on %d memory instructions of the shipped kernels raises %s: %s" % (arch, len(good), type(e).__name__, e),
                      {"kind": "cli", "arch": arch, "isa": isa, "lines": good, "exception": type(e).__name__}, key="cli-crash:%s" % arch)
        return
    finally:
        Frontend.full_analysis = orig
    for form in captured.get("kernel", []):
        o = lib.get(form.line.strip()) or lib.get(form.line)
        if o is None or form.mnemonic is None:
            continue
        stats["cli_lines"] = stats.get("cli_lines", 0) + 1
        got = {"tp": form.throughput, "lat": form.latency, "pressure": [float(x) for x in form.port_pressure],
               "uops": plain(list(form.port_uops))}
        want = {"tp": o["tp"], "lat": o["lat"], "pressure": o["pressure"], "uops": o["uops"] if not isinstance(o["uops"], dict) else None}
        diff = [k for k in ("tp", "lat", "pressure") if got[k] != want[k]]
        if want["uops"] is not None and not isinstance(form.port_uops, dict) and got["uops"] != want["uops"] and "uops" not in diff:
            # alternatives are resolved to the first one by --fixed: only plain lists are compared
            if not (isinstance(o["uops"], list) and o["uops"] and not isinstance(o["uops"][0], (list, tuple))):
                diff.append("uops")
        if diff:
            ctx.violation("%s: `%s` analysed by `osaca --fixed` reports %s = %s, the composition (register form + load/store data) gives %s"
                          % (arch, form.line.strip(), diff[0], got[diff[0]], want[diff[0]]),
                          {"kind": "cli", "arch": arch, "isa": isa, "lines": good, "line": form.line.strip(), "cli": got, "library": want},
                          key="cli:%s:%s" % (arch, form.line.strip()))
            break
    ctx.count("cli_lines_compared", stats.get("cli_lines", 0))
    stats["cli_lines"] = 0


def run(ctx):
    ctx.assumptions = TRUSTED
    ctx.prove(GENS, PROPS)
    ctx.thorough_recheck(PROPS)
    ctx.env = core.Env("C08")
    ctx.env.activate()
    keys = ["observations", "compared", "corr_diff", "history_diff", "rejected", "opaque_memory_operand", "oracle_diff", "oracle_ok",
            "oracle_unspecified", "oracle_own", "oracle_unknown", "oracle_composed", "known_a64type", "known_prepost",
            "path_own", "path_composed", "path_unknown", "path_crash"]
    stats = {k: 0 for k in keys}
    synthetic(ctx, stats)
    ctx.log("synthetic: %d instructions compared (own %d, composed %d, unknown %d, raising %d), model diffs %d, history diffs %d, "
            "oracle: composed %d ok %d unspecified %d diffs %d known-deviations %d"
            % (stats["compared"], stats["path_own"], stats["path_composed"], stats["path_unknown"], stats["path_crash"],
               stats["corr_diff"], stats["history_diff"], stats["oracle_composed"], stats["oracle_ok"], stats["oracle_unspecified"],
               stats["oracle_diff"], stats["known_a64type"] + stats["known_prepost"]))
    n0 = stats["compared"]
    real_vocabulary(ctx, stats)
    ctx.log("real vocabulary: %d instruction x model pairs compared, model diffs %d, history diffs %d, oracle diffs %d"
            % (stats["compared"] - n0, stats["corr_diff"], stats["history_diff"], stats["oracle_diff"]))
    for k, v in stats.items():
        ctx.count(k, v)
    if not ctx.cov["samples"]:
        ctx.sample({"distribution": {k: stats[k] for k in ("path_own", "path_composed", "path_unknown")},
                    "example": "synthetic x86/AArch64 models with typed load/store rows; each instruction text analysed twice in a row, "
                               "after a decoy and once more (see harness/props/c08.py:synthetic)"})
    ctx.cov["evaluations"] = stats["observations"]
    ctx.cov["distinct_nontrivial"] = stats["path_composed"]
    ctx.cov["traces_validated_against_impl"] = stats["compared"]
    ctx.cov["rule"] = ("one evaluation = one run of the real assign_src_dst + assign_tp_lt on a freshly parsed instruction (each text "
                       "four times: twice in a row, a decoy, once more); compared = first observations checked against the Lean model; "
                       "non-trivial = instructions that take the composition path")
    ctx.cov["distribution"] = {k: stats[k] for k in ("path_own", "path_composed", "path_unknown", "path_crash", "oracle_ok",
                                                     "oracle_unspecified", "opaque_memory_operand", "rejected")}
    return ctx.finish(trusted=TRUSTED)


def replay(ctx, path):
    rep = json.load(open(path))["replay"]
    ctx.env = core.Env("C08")
    ctx.env.activate()
    import warnings

    warnings.filterwarnings("ignore")
    from osaca.semantics import ArchSemantics, MachineModel

    if rep.get("kind") == "cli":
        mm = MachineModel(arch=rep["arch"])
        before = len(ctx.violations)
        cli_agreement(ctx, rep["arch"], rep["isa"], S.Impl(mm), ArchSemantics(mm), rep["lines"], {})
        bad = ctx.violations[before:]
        print("CLI --fixed vs composition on %d lines of %s: %s" % (len(rep["lines"]), rep["arch"], bad[0]["what"] if bad else "agree"))
        ctx.cleanup()
        return 1 if bad else 0
    if rep.get("kind") not in ("history", "composed", "unknown"):
        print("replay names a broken theorem/correspondence, not an input:", json.dumps(rep)[:800])
        ctx.cleanup()
        return 1
    if "model_yaml" in rep:
        p = os.path.join(ctx.env.work, "replay.yml")
        open(p, "w").write(rep["model_yaml"])
        ip = os.path.join(ctx.env.work, "replay_isa.yml")
        open(ip, "w").write(rep["isa_yaml"])
        mm = MachineModel(path_to_yaml=p)
        sem = ArchSemantics(mm, path_to_yaml=ip)
    else:
        mm = MachineModel(arch=rep["arch"])
        sem = ArchSemantics(mm)
    impl = S.Impl(mm)
    o1 = observe(impl, sem, rep["line"])
    o2 = observe(impl, sem, rep["line"])
    for d in rep.get("decoys", []):
        observe(impl, sem, d)
    o3 = observe(impl, sem, rep["line"])
    show = lambda o: {k: o.get(k) for k in ("tp", "lat", "lat_wo", "pressure", "uops", "flags", "exc")}  # noqa
    print("first :", show(o1))
    print("second:", show(o2))
    print("third :", show(o3))
    rc = 0
    if not (same_numbers(o1, o2) and same_numbers(o1, o3)):
        print("the same instruction text gets different numbers")
        rc = 1
    if rep["kind"] in ("composed", "unknown") and "observed" in rep:
        same = same_numbers(o1, rep["observed"])
        print("same numbers as when the violation was recorded:", same)
        rc = 1 if same else rc
    ctx.cleanup()
    return rc
