"""C19 - LCD timeout yields sound partial results and leaves no workers behind.

proof:   Props/C19.lean: partial_subset / partial_post_subdict (the shared list is a union of whole
         batches, its post-processing a sub-dictionary of the untimed one), complete_if_in_time,
         in_time_breaks, complete_eq_sequential, flag_iff_cut / no_flag_complete (repaired loop),
         old_flag_spurious (D8 witness), exit_bound, poll_terminates, pollInterval_small.
tie:     translator Gen/WorkersConsts (poll interval, loop operator, -1, placement of the flag);
         correspondence with REAL processes under a VIRTUAL clock (kernel_dg.time patched, workers
         gated by the virtual time): flag, set of killed workers, delivered batches vs
         `Workers.run` of the model on the same schedule, including the D8 schedule.
search:  the property on the real code, real clock: tests/test_files/kernel_x86_long_LCD.s and
         generated dense kernels x timeouts {0,1,2}, ordinary kernels x {0,1,2,generous,-1}:
         wait time <= timeout + poll interval + slack, flag <=> a worker was killed <=> warning in
         the report footer <=> 'LCDWarning' in the dict, every reported LCD is a genuine cycle with
         the correct latency (Spec isCycleB) and a subset of the untimed result where that exists,
         complete when not flagged, no child process left, CP/TP unchanged.
"""
import json
import os
import signal
import time

from harness import core
from harness import lcd_support as L
from harness.props import c16 as C16

TRUSTED = [
    "Lean 4.33 kernel; axioms of every theorem audited (allowed: propext, Classical.choice, Quot.sound)",
    "tools/gen/workers.py: AST extraction of the poll loop's constants and of the placement of `self.timed_out = True`",
    "harness/props/c19.py + harness/lcd_support.py: virtual clock, delaying list proxy, /proc inspection, diff",
    "modelled, not verified: multiprocessing (fork, Manager: one extend() is delivered completely or not at all, "
    "SIGKILL, join reaps), time.time/sleep (the theorems are relative to the clock readings), networkx.all_simple_paths",
]

ARCH_X86 = C16.ARCH_X86
ARCH_A64 = C16.ARCH_A64
SLACK_LOOP = 0.5       # oversleeping of the last poll interval
SLACK_WAIT = 1.5       # process start-up / kill / join of up to 16 workers and the manager
PER_PATH = 0.001       # post-processing allowance per delivered LCD entry (seconds), see notes
WARN_MARK = "WARNING: LCD analysis timed out"


def killed_of(rec):
    out = []
    for p in rec.procs:
        try:
            out.append(p.exitcode == -signal.SIGKILL)
        except Exception:  # noqa
            out.append(None)
    return out


def snapshot(kern):
    """what throughput analysis reads: per instruction latency, throughput, port pressure"""
    return [(i.line_number, getattr(i, "latency", None), getattr(i, "throughput", None),
             tuple(getattr(i, "port_pressure", None) or ())) for i in kern.kernel]


def check_cycles(ctx, dg, offset, lcd):
    """every reported entry is a genuine cycle of the doubled graph with the correct latency
    (python mirror of Spec.Lcd.isCycleB for the full volume; a sample goes through the Lean Spec)"""
    bad = []
    for k, (lat, deps, root) in lcd.items():
        ok = False
        n = len(deps)
        if n and abs(sum(x for _, x in deps) - lat) <= 1e-9 and root == deps[0][0]:
            for j in range(n):
                rot = deps[j:] + deps[:j]
                nodes = [l for l, _ in deps[j:]] + [l + offset for l, _ in deps[:j]] + [deps[j][0] + offset]
                good = True
                for (s, d), (_, x) in zip(zip(nodes, nodes[1:]), rot):
                    if not dg.has_edge(s, d) or abs(dg.edges[s, d]["latency"] - x) > 1e-9:
                        good = False
                        break
                if good:
                    ok = True
                    break
        if not ok:
            bad.append(k)
    return bad


# --------------------------------------------------------------------------- virtual clock
def virtual_runs(ctx, lab, count):
    rng = ctx.rng
    consts = ctx.driver.ask1("pollconsts").split(" ")
    interval = float(L.Fraction(consts[0]))
    reqs, pending = [], []
    n_cut = n_done = hung = 0
    for r in range(count):
        klen = rng.randrange(6, 14)
        n = rng.choice([2, 3, 4, klen + 2]) if r else 3
        text, positions = C16.sentinel_text(klen, list(range(1, klen + 1)))
        kern = lab.kernel("sentinel-all-%d" % klen, ARCH_X86, text)
        ms = C16.model_slices(ctx, kern.lines, n)
        timeout = rng.choice([0, 1, 1, 2, 50])
        d8 = (r == 0)
        if d8:
            timeout = 1
        # longer timeouts cost nothing on a virtual clock: "timeout plus a small bounded overhead" must not grow with it
        slow = (not d8) and r % 4 == 3
        if slow:
            timeout = rng.choice([3, 6, 11, 21])
        plan = {}
        for w, sl in enumerate(ms):
            t = 0.0
            times = []
            for _ in sl:
                t += rng.choice([1 / 64, 1 / 16, 1 / 8, 3 / 16, 1 / 4, 1 / 2, 1.0]) if not d8 else 1 / 16
                times.append(t)
            if d8 and times:
                # everything is delivered between the last reading within the timeout (~1.0) and the
                # first one beyond it (~1.2): the loop leaves through `else` with nobody alive
                times = [min(x, 1.0) for x in times[:-1]] + [1.0 + 1 / 16 + w / 64]
                times.sort()
            if slow and w == 0 and times:
                # worker 0 keeps delivering far beyond the timeout, so the search is cut short
                f = (2.5 * timeout + 2.0) / times[-1]
                times = [x * f for x in times]
            plan[w] = times
        overshoot = [rng.choice([0.0, 0.0, 1 / 32, 1 / 4]) for _ in range(400)] if not d8 else []
        seq = lab.run(kern, workers=None)
        rec = lab.run(kern, workers=n, threshold=klen, timeout=timeout, vplan=plan, overshoot=overshoot, watchdog=25)
        ctx.count("virtual_runs")
        rp = {"kind": "virtual", "klen": klen, "workers": n, "timeout": timeout, "plan": {str(k): v for k, v in plan.items()},
              "overshoot": overshoot[:len(rec.sleeps)], "arch": ARCH_X86}
        if rec.error or seq.error:
            ctx.violation("LCD search with timeout %s did not return normally on a virtual schedule: %s" % (timeout, rec.error or seq.error),
                          dict(rp, error=rec.error or seq.error))
            if "watchdog" in (rec.error or ""):
                hung += 1
                if hung >= 2:
                    break  # every further cut run would hang as well
            continue
        killed = killed_of(rec)
        # ---- property, on the real code
        judge(ctx, rec, seq, killed, rp, "virtual schedule (klen %d, %d workers, timeout %s)" % (klen, n, timeout))
        if any(killed):
            n_cut += 1
        else:
            n_done += 1
        # ---- the clock clause, in virtual time: the loop is left at most one poll interval (the property's fifth of a
        # second) plus the clock's overshoot after the timeout, whatever the timeout is
        if timeout >= 0 and len(rec.readings) >= 2:
            span = rec.readings[-1] - rec.readings[0]
            vbound = timeout + 0.2 + (max(overshoot) if overshoot else 0.0) + 1e-6
            ctx.count("virtual_span_checked")
            if span > vbound:
                ctx.violation("on a virtual clock the LCD poll loop was left %.2fs after it was entered with timeout %s "
                              "(bound %.2fs = timeout + 0.2s poll interval + clock overshoot); klen %d, %d workers"
                              % (span, timeout, vbound, klen, n), dict(rp, loop_span=span, bound=vbound, sleeps=rec.sleeps[:12]))
        # ---- model on the same schedule
        if rec.sections != ms:
            ctx.correspondence_break("slices", {"klen": klen, "n": n, "model": ms, "impl": rec.sections})
            continue
        start = rec.vclock.start
        ws = []
        for w, sl in enumerate(ms):
            times = [start + x for x in plan[w]]
            ex = times[-1] if times else start
            ws.append("%s@%s" % (L.frac(ex), ",".join("%s:%d" % (L.frac(t), ln) for t, ln in zip(times, sl)) or "-"))
        ticks = rec.readings[1:]
        reqs.append("pollrun %s %s %s - %s" % (L.frac(timeout), L.frac(rec.readings[0]), ",".join(L.frac(t) for t in ticks) or "-",
                                                 "|".join(ws)))
        pending.append((rec, killed, rp, ms))
    replies = ctx.driver.ask(reqs)
    for (rec, killed, rp, ms), rep in zip(pending, replies):
        if rep == "none":
            ctx.correspondence_break("pollrun", dict(rp, model="still polling", readings=len(rec.readings)))
            continue
        flag, mk, md, _left = rep.split(" ")
        mkilled = [x == "1" for x in mk.split(",")] if mk != "-" else []
        mdel = set()
        if md != "-":
            for part in md.split("|"):
                if part != "-":
                    mdel.update(part.split(","))
        impl_del = set(rec.lcd)
        if (flag == "1") != bool(rec.timed_out) or mkilled != killed or mdel != impl_del:
            ctx.count("virtual_model_disagreements")
            if ctx.counts["virtual_model_disagreements"] <= 3:
                ctx.correspondence_break("pollrun", dict(rp, model={"flag": flag, "killed": mkilled, "delivered": sorted(mdel, key=int)},
                                                        impl={"flag": rec.timed_out, "killed": killed, "delivered": sorted(impl_del, key=int)},
                                                        readings=rec.readings[:12]))
        ctx.count("virtual_model_compared")
    ctx.hung = getattr(ctx, "hung", 0) + hung
    ctx.cov["distribution"]["virtual"] = {"runs": count, "cut": n_cut, "complete": n_done, "poll_interval": interval}
    ctx.log("virtual clock: %d runs with real processes (%d cut short, %d complete), %d compared with the model"
            % (count, n_cut, n_done, ctx.counts.get("virtual_model_compared", 0)))
    return n_cut


def judge(ctx, rec, ref, killed, rp, where, dg=None, offset=None):
    """the property's clauses that need no clock: flag <=> cut, complete when not flagged, subset with
    equal latencies, genuine cycles, nothing left running.  `ref` = untimed result or None."""
    cut = any(k for k in killed if k)
    if bool(rec.timed_out) != cut:
        ctx.violation(
            "time-out flag %s although %s worker was cut short; %s" % (rec.timed_out, "a" if cut else "no", where),
            dict(rp, timed_out=rec.timed_out, killed=killed), key="flag-without-cut" if rec.timed_out and not cut else None)
    if rec.leftover:
        ctx.violation("worker processes left running after the LCD analysis returned (%s); %s" % (rec.leftover, where),
                      dict(rp, leftover=rec.leftover))
    if ref is not None and ref.lcd is not None:
        only = sorted(set(rec.lcd) - set(ref.lcd))
        wrong = [k for k in rec.lcd if k in ref.lcd and (abs(rec.lcd[k][0] - ref.lcd[k][0]) > 1e-9 or rec.lcd[k][1] != ref.lcd[k][1])]
        if only or wrong:
            ctx.violation("timed LCD result is not a subset of the untimed result (extra %s, different latency %s); %s"
                          % (only[:4], wrong[:4], where), dict(rp, extra=only[:10], wrong=wrong[:10]))
        if not rec.timed_out and not L.same_lcd(rec.lcd, ref.lcd):
            ctx.violation("no time-out warning although the LCD result is incomplete (%d of %d entries); %s"
                          % (len(rec.lcd), len(ref.lcd), where), dict(rp, missing=sorted(set(ref.lcd) - set(rec.lcd))[:10]))
    g = dg if dg is not None else rec.dg
    off = offset if offset is not None else rec.offset
    if g is not None and rec.lcd:
        bad = check_cycles(ctx, g, off, rec.lcd)
        if bad:
            ctx.violation("reported LCD entries that are no genuine dependency cycle with the reported latency: %s; %s" % (bad[:4], where),
                          dict(rp, bad=bad[:10]))


# --------------------------------------------------------------------------- real clock
def dense_kernels(ctx, lab, count):
    """generated kernels with (practically) unboundedly many paths"""
    rng = ctx.rng
    out = []
    tries = 0
    while len(out) < count and tries < 40:
        tries += 1
        n = rng.choice([70, 90, 120])
        text = L.gen_x86(rng, n, rng.choice([0.2, 0.25, 0.3]))
        try:
            kern = lab.kernel("dense-x86", ARCH_X86, text)
        except Exception:  # noqa
            continue
        if lab.screen(kern, cap=60000, budget=4.0) is None:
            out.append(kern)
    return out


def timing_failures(rec, to, spec_interval, klen):
    """[(message, replay extras, exceedance in s)] of one real-clock run against the three wall-clock bounds"""
    out = []
    # the slack terms (process start-up, kill/join, Python pre/post-processing) grow with the machine's load; the
    # timeout and the poll interval do not.  f = 1 on a machine that is not over-subscribed.
    f = max(1.0, 2.0 * os.getloadavg()[0] / (os.cpu_count() or 1))
    bound = to + spec_interval + SLACK_WAIT * f
    if rec.wait_wall > bound:
        out.append(("waiting for the LCD workers took %.2fs with timeout %s (bound %.2fs)" % (rec.wait_wall, to, bound),
                    {"wait": rec.wait_wall, "bound": bound, "sleeps": rec.sleeps[:5]}, rec.wait_wall - bound))
    span = (rec.readings[-1] - rec.readings[0]) if len(rec.readings) >= 2 else 0.0
    if span > to + spec_interval + SLACK_LOOP * f:
        out.append(("the poll loop was left %.2fs after it was entered with timeout %s (bound %.2fs: timeout + %.1fs poll interval + %.1fs)"
                    % (span, to, to + spec_interval + SLACK_LOOP * f, spec_interval, SLACK_LOOP * f),
                    {"loop_span": span, "sleeps": rec.sleeps[:5]}, span - (to + spec_interval + SLACK_LOOP * f)))
    total_bound = bound + (2.0 + PER_PATH * max(1, len(rec.lcd)) * max(1, klen) / 50.0) * f
    if rec.wall > total_bound:
        out.append(("LCD analysis took %.2fs with timeout %s (bound %.2fs for %d reported entries)" % (rec.wall, to, total_bound, len(rec.lcd)),
                    {"wall": rec.wall, "bound": total_bound}, rec.wall - total_bound))
    return out


def real_clock_runs(ctx, lab, big):
    rng = ctx.rng
    thr = lab.orig["thr"]
    interval = float(L.Fraction(ctx.driver.ask1("pollconsts").split(" ")[0]))
    spec_interval = 0.2  # the property's "small bounded overhead": one poll interval of a fifth of a second
    tf = os.path.join(core.REPO, "tests", "test_files")
    long_k = lab.kernel("kernel_x86_long_LCD.s", ARCH_X86, open(os.path.join(tf, "kernel_x86_long_LCD.s")).read())
    jobs = []   # (kernel, timeouts, reference?)
    jobs.append((long_k, [0, 1, 2], False))
    for k in dense_kernels(ctx, lab, 1 if not big else 5):
        jobs.append((k, [0, 1], False))
    # a kernel that reaches the line threshold of the multi-process (timed) search only thanks to lines without instructions:
    # 44 instructions, each reading the two previous results (Fibonacci-many paths), and 12 comment lines
    pad = ["\taddq\t$1, %rax"]
    regs = ["%xmm0", "%xmm1"]
    for i in range(43):
        a, b = regs[-1], regs[-2]
        d = "%%xmm%d" % ((i + 2) % 16)
        pad.append("\tvaddpd\t%s, %s, %s" % (a, b, d))
        regs.append(d)
        if i % 4 == 0:
            pad.append("# stage %d" % i)
    try:
        jobs.append((lab.kernel("dense-x86-padded", ARCH_X86, "\n".join(pad) + "\n"), [1], False))
    except Exception:  # noqa
        pass
    ordinary = C16.make_kernels(ctx, lab, 3 if not big else 14)
    for k in ordinary:
        jobs.append((k, [0, 1, 2, 50, -1], True))
    dist = {"timeouts": {}, "cut": 0, "complete": 0, "entries_partial": []}
    cyc_reqs, cyc_meta = [], []
    hung = 0
    for kern, timeouts, has_ref in jobs:
        if hung >= 2:
            break
        klen = len(kern.kernel)
        before = snapshot(kern)
        ref = lab.run(kern, workers=None, want_cp=True) if has_ref else None
        dgx, offx = lab.doubled_graph(kern)
        cps = []
        for to in timeouts:
            n = 16 if not has_ref else rng.choice([2, 5, 16])
            sd = None
            if has_ref and to in (1, 2):
                # make an ordinary kernel's workers straddle the timeout: one slow worker
                sd = {rng.randrange(n): to + rng.choice([-0.6, 0.5])}
            t0 = time.monotonic()
            rec = lab.run(kern, workers=n, threshold=min(thr, klen), timeout=to, start_delays=sd, want_cp=True,
                          watchdog=(to if to >= 0 else 0) + (45 if not has_ref else 90))
            ctx.count("real_clock_runs")
            dist["timeouts"][str(to)] = dist["timeouts"].get(str(to), 0) + 1
            rp = {"kind": "real", "kernel": kern.describe(), "workers": n, "timeout": to, "start_delays": sd}
            where = "%s (klen %d), %d workers, timeout %s" % (kern.name, klen, n, to)
            if rec.error:
                ctx.violation("LCD analysis with timeout %s did not return normally: %s; %s" % (to, rec.error, where), dict(rp, error=rec.error))
                if "watchdog" in rec.error:
                    hung += 1
                if hung >= 2:
                    break
                continue
            killed = killed_of(rec)
            judge(ctx, rec, ref, killed, rp, where, dgx, offx)
            if any(killed):
                dist["cut"] += 1
                dist["entries_partial"].append(len(rec.lcd))
            else:
                dist["complete"] += 1
            # ---- wall clock: waiting part, and the whole call
            if to >= 0 and rec.wait_wall is not None:
                # Wall-clock bounds are judged on the best of up to three runs of the same input: a busy machine
                # (other checks, builds) stretches process start-up, kill/join and the Python post-processing, which
                # says nothing about the code. A poll loop that really over-sleeps or waits for its workers exceeds
                # the bound on every attempt.
                fails = timing_failures(rec, to, spec_interval, klen)
                attempts = 1
                best = rec
                while fails and attempts < 3:
                    attempts += 1
                    ctx.count("timing_retries")
                    rec2 = lab.run(kern, workers=n, threshold=min(thr, klen), timeout=to, start_delays=sd, want_cp=True,
                                   watchdog=(to if to >= 0 else 0) + (45 if not has_ref else 90))
                    if rec2.error or rec2.wait_wall is None:
                        break
                    f2 = timing_failures(rec2, to, spec_interval, klen)
                    if sum(x[2] for x in f2) < sum(x[2] for x in fails):
                        fails, best = f2, rec2
                for what, extra, _ex in fails:
                    ctx.violation("%s (best of %d attempts, load average %.1f); %s" % (what, attempts, os.getloadavg()[0], where),
                                  dict(rp, attempts=attempts, **extra))
                ctx.sample({"kernel": kern.name, "timeout": to, "wait_s": round(rec.wait_wall, 2), "wall_s": round(rec.wall, 2),
                            "timed_out": rec.timed_out, "entries": len(rec.lcd)})
            if to == -1 and (rec.timed_out or any(killed)):
                ctx.violation("timeout -1: flag %s / killed %s; %s" % (rec.timed_out, killed, where), rp)
            cps.append((to, rec.cp))
            # a sample of the reported entries through the Lean Spec
            if rec.lcd:
                keys = sorted(rec.lcd)
                rng.shuffle(keys)
                sample = {k: rec.lcd[k] for k in keys[:40]}
                lines = set()
                for _, deps, _r in sample.values():
                    for l, _x in deps:
                        lines.add(l)
                edges = ";".join("%d,%d,%s" % (int(s), int(d), L.frac(x["latency"])) for s, d, x in dgx.edges(data=True)
                                 if float(s).is_integer() and float(d).is_integer() and (s % offx in lines or s in lines))
                cyc_reqs.append("lcdcycles %d %s %s" % (offx, edges or "-", L.enc_result(sample)))
                cyc_meta.append((where, rp))
        # ---- CP / TP unaffected
        after = snapshot(kern)
        if [(a[0], a[1], a[2], a[3]) for a in before] != [(a[0], a[1], a[2], a[3]) for a in after]:
            ctx.violation("latency / throughput / port pressure of the kernel changed by the LCD analysis; %s" % kern.name,
                          {"kind": "real", "kernel": kern.describe(), "timeout": timeouts})
        ref_cp = ref.cp if ref is not None else (cps[0][1] if cps else None)
        for to, cp in cps:
            if cp != ref_cp:
                ctx.violation("critical path differs with LCD timeout %s on %s" % (to, kern.name),
                              {"kind": "real", "kernel": kern.describe(), "timeout": to, "cp": str(cp)[:300], "ref": str(ref_cp)[:300]})
    for (where, rp), rep in zip(cyc_meta, ctx.driver.ask(cyc_reqs)):
        ctx.count("spec_cycle_samples")
        if not rep.startswith("0 "):
            ctx.violation("Spec isCycleB rejects reported LCD entries (%s); %s" % (rep, where), dict(rp, spec=rep))
    ctx.cov["distribution"]["real_clock"] = dist
    ctx.hung = getattr(ctx, "hung", 0) + hung
    ctx.log("real clock: %d runs (%d cut short, %d complete), timeouts %s" % (ctx.counts.get("real_clock_runs", 0), dist["cut"], dist["complete"], dist["timeouts"]))
    return long_k, ordinary


def report_level(ctx, lab, long_k, ordinary):
    thr = lab.orig["thr"]
    cases = [(long_k, 1, 16)]
    for k in ordinary[:2]:
        if len(k.kernel) >= thr:
            cases.append((k, 50, 5))
            cases.append((k, -1, 3))
    for i, (kern, to, n) in enumerate(cases):
        path = os.path.join(ctx.env.work, "c19-%d.s" % i)
        ypath = os.path.join(ctx.env.work, "c19-%d.yml" % i)
        with open(path, "w") as f:
            f.write(kern.text)
        rec = lab.report(path, kern.arch, extra_args=["--lcd-timeout", str(to), "--yaml-out", ypath], workers=n, watchdog=(to if to > 0 else 0) + 90)
        ctx.count("report_runs")
        rp = {"kind": "report", "kernel": kern.describe(), "timeout": to, "workers": n}
        if rec.error or rec.text is None:
            ctx.correspondence_break("report-run", {"kernel": kern.name, "timeout": to, "error": rec.error})
            continue
        cut = any(k for k in killed_of(rec) if k)
        warn_text = WARN_MARK in rec.text
        try:
            ytxt = open(ypath).read()
        except OSError:
            ytxt = ""
        warn_dict = "LCDWarning" in ytxt
        if warn_text != cut or warn_dict != cut:
            ctx.violation("report on %s with --lcd-timeout %s: footer warning %s, dict warning %s, worker killed %s"
                          % (kern.name, to, warn_text, warn_dict, cut), dict(rp, footer=warn_text, dict=warn_dict, killed=cut),
                          key="flag-without-cut" if (warn_text and not cut) else None)
        if rec.leftover:
            ctx.violation("worker processes left running after the report (%s)" % rec.leftover, dict(rp, leftover=rec.leftover))
    ctx.log("reports: %d in-process report runs (footer / dict warning vs killed workers)" % ctx.counts.get("report_runs", 0))


# --------------------------------------------------------------------------- entry points
def run(ctx):
    ctx.assumptions = TRUSTED
    ctx.prove(["WorkersConsts"], ["OsacaVerif.Props.C19"])
    ctx.thorough_recheck(["OsacaVerif.Props.C19"])
    ctx.env = core.Env("C19", archs=[ARCH_X86, ARCH_A64])
    ctx.env.activate()
    lab = L.Lab(ctx)
    big = ctx.tier == "thorough" or bool(ctx.broken)
    n_cut = virtual_runs(ctx, lab, 160 if ctx.tier == "thorough" else (30 if big else 14))
    long_k, ordinary = real_clock_runs(ctx, lab, ctx.tier == "thorough")
    if getattr(ctx, "hung", 0) < 2:
        report_level(ctx, lab, long_k, ordinary)
    stray = L.children_alive()
    if stray:
        ctx.violation("child processes of the analysis still alive at the end of the check: %s" % stray, {"kind": "stray", "pids": stray})
    ctx.cov["evaluations"] = ctx.counts.get("virtual_runs", 0) + ctx.counts.get("real_clock_runs", 0) + ctx.counts.get("report_runs", 0)
    ctx.cov["traces_validated_against_impl"] = ctx.counts.get("virtual_model_compared", 0)
    ctx.cov["distinct_nontrivial"] = n_cut + ctx.cov["distribution"]["real_clock"]["cut"]
    ctx.cov["rule"] = ("virtual-clock schedules executed by real processes (sentinel kernels, one batch per root) and real-clock runs "
                       "on kernel_x86_long_LCD.s, generated dense kernels and ordinary kernels; non-trivial = run in which at least "
                       "one worker was killed")
    return ctx.finish(trusted=TRUSTED)


def replay(ctx, path):
    rep = json.load(open(path))["replay"]
    kind = rep.get("kind")
    if kind not in ("virtual", "real", "report"):
        print("replay names a broken theorem/correspondence, not an input:", json.dumps(rep)[:800])
        ctx.cleanup()
        return 1
    ctx.env = core.Env("C19", archs=[ARCH_X86, ARCH_A64])
    ctx.env.activate()
    lab = L.Lab(ctx)
    thr = lab.orig["thr"]
    if kind == "virtual":
        text, _ = C16.sentinel_text(rep["klen"], list(range(1, rep["klen"] + 1)))
        kern = lab.kernel("sentinel", rep["arch"], text)
        plan = {int(k): v for k, v in rep["plan"].items()}
        rec = lab.run(kern, workers=rep["workers"], threshold=rep["klen"], timeout=rep["timeout"], vplan=plan,
                      overshoot=rep.get("overshoot") or [], watchdog=90)
    else:
        k = rep["kernel"]
        kern = lab.kernel(k["name"], k["arch"], k["text"])
        sd = {int(a): b for a, b in (rep.get("start_delays") or {}).items()} or None
        rec = lab.run(kern, workers=rep.get("workers", 16), threshold=min(thr, len(kern.kernel)), timeout=rep["timeout"],
                      start_delays=sd, watchdog=200)
    killed = killed_of(rec)
    ok = (not rec.error) and bool(rec.timed_out) == any(k for k in killed if k) and not rec.leftover
    if kind == "virtual" and "bound" in rep and not rec.error and len(rec.readings) >= 2:
        span = rec.readings[-1] - rec.readings[0]
        print("virtual time between entering and leaving the poll loop: %.2fs (bound %.2fs)" % (span, rep["bound"]))
        ok = ok and span <= rep["bound"]
    print("timed_out=%s killed=%s entries=%s wall=%.2fs wait=%s leftover=%s error=%s" % (
        rec.timed_out, killed, None if rec.lcd is None else len(rec.lcd), rec.wall or -1, rec.wait_wall, rec.leftover, rec.error))
    print("flag <=> cut holds, nothing left running" if ok else "PROPERTY FAILS")
    ctx.cleanup()
    return 0 if ok else 1
