"""C05 - Loop-carried dependencies are exactly the cross-iteration dependency cycles.

proof:   Props/C05.lean (offset_ok: the second copy never collides with a kernel line, for all kernels and
         line numbers; map_back; double_disjoint; sortPairs_perm).
tie:     Gen/Consts (offset floor, threshold) + correspondence: get_loopcarried_dependencies() vs LCD.lcd on the
         implementation's operands, as {(member lines, latency)}; start lines 1, ~1000, 5000.
search:  Spec.cycles: independent enumeration of winding-number-1 cycles over the dependency relation of two
         concatenated iterations (built by the real create_DG).
"""
from harness import core, dgcheck
from harness.props.c03 import replay_common


def run(ctx):
    dgcheck.setup(ctx, "C05", ["RegTables", "Consts"], ["OsacaVerif.Props.C05"])
    n = (200 if ctx.tier == "quick" else 4000) * (3 if ctx.broken else 1)
    distinct = set()
    starts = [0, 0, 0, 985, 995, 999, 1000, 4990]
    for im, src in dgcheck.kernels_stream(ctx, n, 10 if ctx.tier == "quick" else 14):
        ctx.count("kernels")
        dgcheck.compare_lcd(ctx, im)
        dgcheck.oracle_cycles(ctx, im)
        if im.lcd_set():
            distinct.add(repr((im.isa, im.lines, im.fd)))
        # the same kernel at another position in the file: same cycles up to the line shift
        st = ctx.rng.choice(starts)
        if st:
            try:
                im2 = dgcheck.Impl(im.isa, im.arch, im.lines, im.fd, im.mm, start_line=st)
                shifted = {(tuple(l - st for l in ls), lat) for ls, lat in im2.lcd_set()}
                # line numbers of im count non-blank lines only: map by order
                base_lines = [i.line_number for i in im.kernel]
                sh_lines = [i.line_number - st for i in im2.kernel]
                if base_lines == sh_lines and not dgcheck.lcd_close(shifted, im.lcd_set()):
                    ctx.violation("loop-carried dependencies change when the kernel starts at line %d" % (st + 1),
                                  dict(im.info(), start_line=st, at_1=sorted(im.lcd_set()), shifted=sorted(shifted)))
                dgcheck.compare_lcd(ctx, im2)
                dgcheck.oracle_cycles(ctx, im2)
                ctx.count("shifted_kernels")
            except Exception as e:  # noqa
                ctx.violation("LCD analysis raised %s when the kernel starts at line %d" % (type(e).__name__, st + 1),
                              dict(im.info(), start_line=st, exception=type(e).__name__))
        # the same instruction-form objects analysed again with the other flag-dependency setting: cycles, figure and LCD
        # column must be those of the second analysis alone
        if ctx.rng.random() < 0.5:
            try:
                # report of the first analysis first (it is what sets per-line marks)
                from osaca.frontend import Frontend

                if im.arch != "synisa":
                    Frontend(arch=im.arch).combined_view(im.kernel, im.kdg.get_critical_path(), im.kdg.get_loopcarried_dependencies())
                sub = None
                if len(im.kernel) >= 3 and ctx.rng.random() < 0.6:
                    a = ctx.rng.randrange(0, len(im.kernel) - 1)
                    sub = (a, ctx.rng.randrange(a + 1, len(im.kernel) + 1))
                im3 = im.reanalysed(im.fd if sub is not None and ctx.rng.random() < 0.5 else not im.fd, sub=sub)
                dgcheck.oracle_cycles(ctx, im3)
                ctx.count("reanalysed_kernels")
            except Exception as e:  # noqa
                ctx.violation("re-analysis of the same kernel objects with the other flag-dependency setting raised %s" % type(e).__name__,
                              dict(im.info(), exception=type(e).__name__, reanalysed_after_flag_deps=im.fd))
        if ctx.counts["kernels"] == 1:
            ctx.sample({"kernel": im.lines, "isa": im.isa, "arch": im.arch, "lcd": sorted(im.lcd_set())})
        if len(ctx.violations) > 10:
            break
    # kernels beyond the 50-line threshold of the multi-process search (the same cycles must be reported): a generated kernel
    # padded with independent instructions, ending in a line that depends on itself across the iteration
    from osaca.semantics import MachineModel

    for t in range(3 if ctx.tier == "quick" else 30):
        isa = "x86" if t % 2 == 0 else "aarch64"
        arch = ctx.rng.choice(dgcheck.models_for(ctx, isa))
        core_lines, _ = dgcheck.gen_kernel(ctx.rng, isa, 8, ctx.rng.choice(["plain", "coupled"]))
        n_pad = ctx.rng.randrange(50, 58) - len(core_lines) - 1
        if isa == "x86":
            pad = ["vaddpd %%xmm%d, %%xmm%d, %%xmm%d" % (12 + i % 3, 12 + (i + 1) % 3, 15) for i in range(n_pad)]
            last = ctx.rng.choice(["imulq %rsi, %rdx", "vmulpd %xmm9, %xmm10, %xmm10", "addq $8, %r11"])
        else:
            pad = ["fadd d%d, d%d, d%d" % (28, 29 + i % 2, 30) for i in range(n_pad)]
            last = ctx.rng.choice(["mul x13, x13, x14", "fmul d27, d27, d26", "add x15, x15, #8"])
        cut = ctx.rng.randrange(len(core_lines) + 1)
        lines = core_lines[:cut] + pad + core_lines[cut:] + [last]
        try:
            im = dgcheck.Impl(isa, arch, lines, False, MachineModel(arch=arch))
        except Exception as e:  # noqa
            ctx.violation("analysis of a %d-line kernel raised %s" % (len(lines), type(e).__name__),
                          {"isa": isa, "arch": arch, "kernel": lines, "flag_deps": False, "exception": type(e).__name__})
            continue
        ctx.count("kernels_beyond_threshold")
        dgcheck.compare_lcd(ctx, im)
        dgcheck.oracle_cycles(ctx, im)
    ctx.cov["evaluations"] = ctx.counts.get("kernels", 0) + ctx.counts.get("shifted_kernels", 0)
    ctx.cov["distinct_nontrivial"] = len(distinct)
    ctx.cov["traces_validated_against_impl"] = ctx.counts.get("lcd_compared", 0)
    ctx.cov["rule"] = "distinct (isa, kernel, flag option) with at least one loop-carried cycle; plus the same kernels at start lines ~1000 and ~5000"
    ctx.log("%d kernels (+%d shifted), %d cycles" % (ctx.counts.get("kernels", 0), ctx.counts.get("shifted_kernels", 0), ctx.counts.get("lcd_cycles", 0)))
    return ctx.finish(trusted=dgcheck.TRUSTED)


def replay(ctx, path):
    return replay_common(ctx, path, "C05")
