"""C04 - Critical path is the longest latency-weighted dependency chain.

proof:   Props/C04.lean -- cpTotal_eq_longestChain (model of the repaired get_critical_path = declarative DP),
         longestChain_is_max, cp_is_longest, cp_ge_every_instr, cp_ge_every_chain, cp_lines_form_chain, cp_lines_sum;
         cp_underreports / cp_never_overreports are kept as the witness for the unrepaired variant.
tie:     total and marked lines of the real get_critical_path vs LCD.cpTotal / LCD.cpMarks on the implementation's operands.
search:  Spec.longestChain over the implementation's own graph in both directions; marked lines form a chain; per-line
         CP latencies are the chain's stages.
"""
from harness import core, dgcheck
from harness.props.c03 import replay_common


def run(ctx):
    dgcheck.setup(ctx, "C04", ["RegTables"], ["OsacaVerif.Props.C04"])
    n = (250 if ctx.tier == "quick" else 4000) * (3 if ctx.broken else 1)
    distinct = set()
    for im, src in dgcheck.kernels_stream(ctx, n, 12 if ctx.tier == "quick" else 30):
        dgcheck.check_cp(ctx, im)
        ctx.count("kernels")
        if im.edges():
            distinct.add(repr((im.isa, im.arch, im.lines)))
        if ctx.counts["kernels"] == 1:
            ctx.sample({"kernel": im.lines, "isa": im.isa, "arch": im.arch, "critical_path": im.cp()})
        if len(ctx.violations) > 10:
            break
    # the theorem's witness replayed on the real code: examples/update on zen2
    try:
        from harness import corpus
        import os

        p = os.path.join(core.REPO, "examples", "update", "update.s.zen.gcc.s")
        parser, kernel = corpus.load_kernel(p, "x86")
        im = dgcheck.Impl("x86", "zen2", [k.line for k in kernel], False)
        dgcheck.check_cp(ctx, im)
        ctx.sample({"witness": "examples/update/update.s.zen.gcc.s on zen2", "reported": im.cp()})
    except Exception as e:  # noqa
        ctx.log("witness replay skipped: %s" % e)
    ctx.cov["evaluations"] = ctx.counts.get("kernels", 0)
    ctx.cov["distinct_nontrivial"] = len(distinct)
    ctx.cov["traces_validated_against_impl"] = ctx.counts.get("cp_compared", 0)
    ctx.cov["rule"] = "distinct (isa, model, kernel) with at least one dependency edge"
    ctx.log("%d kernels, %d under-reports" % (ctx.counts.get("kernels", 0), ctx.counts.get("cp_underreports", 0)))
    ctx.cov["programs"] = ctx.counts.get("kernels", 0)
    ctx.cov["disagreements_checked"] = ctx.counts.get("cp_compared", 0)
    return ctx.finish(trusted=dgcheck.TRUSTED)


def replay(ctx, path):
    return replay_common(ctx, path, "C04")
